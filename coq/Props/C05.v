(* C05 - secrets are confidential and tamper-evident at rest.  Statements only; proofs are in
   Server/CryptoProofs.v.  Symbolic model (ideal AEAD); see docs/C05.md for what is tested. *)
From Coq Require Import List Bool NArith.
Import ListNotations.
From Setec Require Import Base.SMap Acl.Glob Server.KV Server.DB Server.DBFacts Server.Crypto Server.CryptoProofs.
Open Scope N_scope.

(* "No file the server writes ever contains a secret value in plain or trivially encoded form,
   the database file and its temporaries likewise never expose secret names": for EVERY
   history [h] - of ANY length - of calls (any callers, any save/audit faults, any nonces),
   REOPENS of the file with the same key and rounds of the BACKUP task (which copies the file
   as it is to the object store: one more place where the attacker finds it), from any state, let
   [files] be every database file and temporary written and [audits] every audit line.  An
   attacker holding any set K0 of terms that are themselves free of the two keys, of values
   (and, second part, of names) in clear - and able to take structures apart, undo EVERY
   encoding and decrypt with every key it can derive - derives no secret value from
   K0 + files + audits, and no secret name from K0 + files. *)
Theorem C05_files_reveal_nothing : forall kek dek r1 r0 doc0 (h : list hstep) (s : dbstate N) files audits uses,
  run_terms kek (fst (c_create kek dek r1)) s (fst (c_save (fst (c_create kek dek r1)) r0 doc0)) h = (files, audits, uses) ->
  let prot := fun k => k = kek \/ k = dek in
  (forall (K0 : term -> Prop) v, (forall t, K0 t -> safe prot true t) ->
     ~ derives (fun t => K0 t \/ In t files \/ In t audits) (Sec v))
  /\ (forall (K0 : term -> Prop) n, (forall t, K0 t -> safe prot false t) ->
     ~ derives (fun t => K0 t \/ In t files) (Nam n)).
Proof. exact files_reveal_nothing. Qed.

(* the audit record carries principal, action, name, version and flag - no value *)
Theorem C05_audit_has_no_values : forall e, value_free (entry_term e).
Proof. exact audit_has_no_values. Qed.

(* "The database opens only with the key-encryption key it was created with; ... opening
   reports an error or yields exactly the original contents": soundness of opening, for ANY
   version term, DEK field and DB field *)
Theorem C05_open_sound : forall kek ver dekf dbf doc,
  open kek (wrapper ver dekf dbf) = Some doc ->
  ver = Pub 1 /\ exists dek r1 r2, dekf = Enc kek adDEK r1 (Key dek) /\ dbf = Enc dek adDB r2 doc.
Proof. exact open_sound. Qed.

Theorem C05_open_roundtrip : forall kek dek r1 r2 doc, open kek (file_of kek dek r1 r2 doc) = Some doc.
Proof. exact open_roundtrip. Qed.

Theorem C05_foreign_kek_rejected : forall kek kek' dek r1 r2 doc,
  kek' <> kek -> open kek' (file_of kek dek r1 r2 doc) = None.
Proof. exact foreign_kek_rejected. Qed.

Theorem C05_version_checked : forall kek ver dekf dbf, ver <> Pub 1 -> open kek (wrapper ver dekf dbf) = None.
Proof. exact version_checked. Qed.

Theorem C05_context_checked : forall kek ad1 ad2 r1 r2 dek doc,
  ad1 <> adDEK \/ ad2 <> adDB -> open kek (wrapper (Pub 1) (Enc kek ad1 r1 (Key dek)) (Enc dek ad2 r2 doc)) = None.
Proof. exact context_checked. Qed.

(* bit flips / truncation: a field that is no longer a ciphertext under any key *)
Theorem C05_damaged_field_rejected : forall kek ver dekf dbf,
  (forall k ad r m, dekf <> Enc k ad r m) \/ (forall k ad r m, dbf <> Enc k ad r m) ->
  open kek (wrapper ver dekf dbf) = None.
Proof. exact damaged_field_rejected. Qed.

(* splicing: the DB field of a database with another data key next to this database's DEK *)
Theorem C05_splice_rejected : forall kek ver r1 dek dek2 ad r doc2,
  dek2 <> dek -> open kek (wrapper ver (Enc kek adDEK r1 (Key dek)) (Enc dek2 ad r doc2)) = None.
Proof. exact splice_foreign_db_rejected. Qed.

(* the statement behind the monitor used on real outcomes: a file that differs from a valid
   one in ONE field - any version term; any DEK field whatsoever; any DB field that is not
   another snapshot saved by this same database - opens, under any key, to exactly the
   original contents or not at all *)
Theorem C05_single_field_error_or_original : forall kek dek r1 r2 doc f',
  (exists ver, f' = wrapper ver (Enc kek adDEK r1 (Key dek)) (Enc dek adDB r2 doc))
  \/ (exists dekf, f' = wrapper (Pub 1) dekf (Enc dek adDB r2 doc))
  \/ (exists dbf, f' = wrapper (Pub 1) (Enc kek adDEK r1 (Key dek)) dbf /\ (forall r d, dbf = Enc dek adDB r d -> d = doc)) ->
  forall kek', open kek' f' = None \/ open kek' f' = Some doc.
Proof. exact single_field_error_or_original. Qed.

Theorem C05_monitor_spec : forall (D : Type) (deq : D -> D -> bool), (forall a b, deq a b = true <-> a = b) ->
  forall original o, tamper_ok deq original o = true <-> o = OErr \/ o = OOpened original.
Proof. exact (@tamper_ok_spec). Qed.

(* opening = version check, unwrap with the DEK context, decrypt with the database context *)
Theorem C05_open_via_dec : forall kek ver dekf dbf,
  open kek (wrapper ver dekf dbf) =
  match ver with
  | Pub 1 => match dec kek adDEK dekf with Some (Key dek) => dec dek adDB dbf | _ => None end
  | _ => None end.
Proof. exact open_via_dec. Qed.

(* "The key-encryption key is consulted only when the database is opened or created, never by
   later reads or writes": along ANY history of calls - each with ANY outcome of its save (accepted or refused by the
   file system: [ev.save_ok]) and of its audit record - reopens and backup rounds - of any length: there is no counter - the key is used once at
   creation and exactly once per reopen - so by no call, in particular not by the first write
   after a reopen; no save uses it (the saved file is a function of the data key and the
   stored wrapped-key bytes only) *)
Theorem C05_kek_only_at_open : forall kek dek r1 r0 doc0 (h : list hstep) (s : dbstate N) files audits uses,
  snd (c_create kek dek r1) = 1
  /\ (run_terms kek (fst (c_create kek dek r1)) s (fst (c_save (fst (c_create kek dek r1)) r0 doc0)) h = (files, audits, uses) ->
      uses = count_reopens h)
  /\ (forall c r doc, snd (c_save c r doc) = 0).
Proof. exact kek_uses_history. Qed.

(* "The database opens only with the key-encryption key it was created with", for every open
   attempt in whatever process state: the outcome is a function of the file and the GIVEN key
   (c_open has no other argument); that key is consulted at most once, exactly once by every
   successful open and by every open of an undamaged file, which the right key opens to its
   document and every other key is refused *)
Theorem C05_open_uses_at_most_once : forall kek f, snd (c_open kek f) <= 1.
Proof. exact open_uses_at_most_once. Qed.

Theorem C05_open_success_used_key : forall kek f x, fst (c_open kek f) = Some x -> snd (c_open kek f) = 1.
Proof. exact open_success_used_key. Qed.

Theorem C05_open_valid_file : forall kek dek r1 r2 doc kek',
  snd (c_open kek' (file_of kek dek r1 r2 doc)) = 1
  /\ (kek' = kek -> option_map snd (fst (c_open kek' (file_of kek dek r1 r2 doc))) = Some doc)
  /\ (kek' <> kek -> fst (c_open kek' (file_of kek dek r1 r2 doc)) = None).
Proof. exact open_valid_file. Qed.

Theorem C05_open_agrees : forall kek f, option_map snd (fst (c_open kek f)) = open kek f \/ fst (c_open kek f) = None.
Proof. exact c_open_result. Qed.

Theorem C05_uses_monitor_spec : forall opened given others,
  open_uses_ok opened given others = true <-> (if opened then given = 1 else given <= 1) /\ others = 0.
Proof. exact open_uses_ok_spec. Qed.

Print Assumptions C05_files_reveal_nothing.
Print Assumptions C05_audit_has_no_values.
Print Assumptions C05_open_sound.
Print Assumptions C05_open_roundtrip.
Print Assumptions C05_foreign_kek_rejected.
Print Assumptions C05_version_checked.
Print Assumptions C05_context_checked.
Print Assumptions C05_damaged_field_rejected.
Print Assumptions C05_splice_rejected.
Print Assumptions C05_single_field_error_or_original.
Print Assumptions C05_monitor_spec.
Print Assumptions C05_open_via_dec.
Print Assumptions C05_kek_only_at_open.
Print Assumptions C05_open_uses_at_most_once.
Print Assumptions C05_open_success_used_key.
Print Assumptions C05_open_valid_file.
Print Assumptions C05_open_agrees.
Print Assumptions C05_uses_monitor_spec.

(* ---------- non-vacuity ---------- *)
Definition su : caller := {| principal := 1; rules := [ {| r_actions := [AGet; AInfo; APut; AActivate; ADelete]; r_secrets := [[42]] |} ] |}.
Definition okenv := {| save_ok := true; audit := AOk |}.
(* a history with two saves, a reopen and a save after it: six file terms (temporary + live,
   three times), four audit lines, and exactly one KEK use - the reopen *)
Example C05_ex_run :
  let c := fst (c_create 7 9 0) in
  let '(files, audits, uses) := run_terms 7 c (db_create N) (first_file c 99)
     [HCall okenv su (OPut [97] 5) 100; HCall okenv su (OGet [97]) 101; HCall okenv su (OPut [98] 6) 102; HReopen; HCall okenv su (OPut [97] 6) 103] in
  (length files, length audits, uses) = (6%nat, 4%nat, 1).
Proof. vm_compute. reflexivity. Qed.
(* the right key opens for one use; a foreign key is refused - after one use of ITS OWN *)
(* a refused save (the rollback path) uses no key either, writes at most a temporary and leaves
   the file on disk alone: put, refused put, reopen *)
Definition badenv := {| save_ok := false; audit := AOk |}.
Example C05_ex_refused :
  let c := fst (c_create 7 9 0) in
  let '(files, audits, uses) := run_terms 7 c (db_create N) (first_file c 99)
     [HCall okenv su (OPut [97] 5) 100; HCall badenv su (OPut [97] 6) 101; HReopen; HCall badenv su (ODel [97]) 102] in
  (length files, length audits, uses) = (4%nat, 3%nat, 1).
Proof. vm_compute. reflexivity. Qed.
(* backup rounds copy the file and use no key; and volume changes nothing: after 1200 saves in
   one process (a put, an activate and a delete-version, 400 times) the key has still been used
   only by the one reopen - there is no counter in [c_save] *)
Fixpoint cycles (n : nat) (v : N) : list hstep :=
  match n with
  | O => []
  | S n' => HCall okenv su (OPut [97] (1 + v mod 2)) v :: HCall okenv su (OActivate [97] (v + 2)) 0
            :: HCall okenv su (ODelVer [97] (v + 1)) 0 :: cycles n' (v + 1)
  end.
Example C05_ex_backup_and_volume :
  let c := fst (c_create 7 9 0) in
  let '(files, audits, uses) := run_terms 7 c (db_create N) (first_file c 99)
     (HCall okenv su (OPut [97] 2) 1 :: HBackup :: cycles 400 0 ++ [HBackup; HReopen; HBackup]) in
  (length files, uses) = ((2 + 1 + 2 * 1200 + 2)%nat, 1).
Proof. vm_compute. reflexivity. Qed.
Example C05_ex_open_attempts :
  let f := file_of 7 9 0 1 (Sec 3) in
  (snd (c_open 7 f), option_map snd (fst (c_open 7 f)), snd (c_open 8 f), fst (c_open 8 f), snd (c_open 7 (Pub 0)))
  = (1, Some (Sec 3), 1, None, 0).
Proof. vm_compute. reflexivity. Qed.
Example C05_ex_uses_monitor : open_uses_ok true 0 0 = false /\ open_uses_ok false 1 1 = false /\ open_uses_ok true 1 0 = true.
Proof. repeat split. Qed.
(* the written file opens to the document, which does contain names and values *)
Example C05_ex_open : open 7 (fst (c_save (fst (c_create 7 9 0)) 5 (doc_term [([97], {| vers := [(1, 5)]; active := 1; latest := 1 |})])))
  = Some (Tup [Tup [Nam [97]; Tup [Tup [Pub 1; Code (Sec 5)]]; Pub 1; Pub 1]]).
Proof. vm_compute. reflexivity. Qed.
(* a plaintext index next to the ciphertext is NOT safe: the name is derivable *)
Example C05_ex_leak : derives (fun t => t = Tup [file_of 7 9 0 1 (Nam [97]); Code (Nam [97])]) (Nam [97]).
Proof. eapply d_decode. eapply d_proj; [apply d_in; reflexivity|]. right. left. reflexivity. Qed.
(* swapped DB field of another database, wrong key, wrong version, dropped associated data: errors *)
Example C05_ex_swap : open 7 (wrapper (Pub 1) (Enc 7 adDEK 1 (Key 9)) (Enc 8 adDB 2 (Sec 3))) = None.
Proof. reflexivity. Qed.
Example C05_ex_foreign : open 6 (file_of 7 9 0 1 (Sec 3)) = None.
Proof. reflexivity. Qed.
Example C05_ex_version : open 7 (wrapper (Pub 2) (Enc 7 adDEK 1 (Key 9)) (Enc 9 adDB 2 (Sec 3))) = None.
Proof. reflexivity. Qed.
Example C05_ex_no_ad : open 7 (wrapper (Pub 1) (Enc 7 0 1 (Key 9)) (Enc 9 adDB 2 (Sec 3))) = None.
Proof. reflexivity. Qed.
(* the monitor rejects an opening to different contents *)
Example C05_ex_monitor_bad : tamper_ok N.eqb 5 (OOpened 6) = false.
Proof. reflexivity. Qed.
Example C05_ex_monitor_ok : tamper_ok N.eqb 5 (OOpened 5) = true /\ tamper_ok N.eqb 5 OErr = true.
Proof. split; reflexivity. Qed.
