(* C06 - the audit log records every disclosure, mutation attempt and denial, fail-closed.
   Statements only.  The effect list [fx] of a call is ordered: position in the list
   is the order in which the record, the sync failure and the file replacement happen. *)
From Coq Require Import List Bool NArith.
Import ListNotations.
From Setec Require Import Base.SMap Acl.Glob Server.KV Server.KVProofs Server.DB Server.DBFacts Server.DBProofs.
Open Scope N_scope.

Section C06.
Variable V : Type.
Variable veqb : V -> V -> bool.

(* before any value (or metadata / version number) is returned, one complete record
   naming the caller, the action, the secret and the version requested, authorized=true,
   has been appended; nothing but the save may follow it *)
Theorem C06_value_implies_logged : forall ev (s : dbstate V) c o s' r fx,
  db_step veqb ev s c o = (s', r, fx) -> carries_data r = true ->
  exists post, fx = EAudit (the_entry c o (act_of o) true) :: post /\ (post = [] \/ post = [ESave]).
Proof. first [exact (@value_implies_logged V veqb) | exact (@value_implies_logged V veqb) | exact (@value_implies_logged V)]. Qed.

(* before any put / activate / delete takes effect: the save is preceded by its record *)
Theorem C06_logged_before_effect : forall ev (s : dbstate V) c o s' r fx,
  db_step veqb ev s c o = (s', r, fx) -> has_save fx = true ->
  fx = [EAudit (the_entry c o (act_of o) true); ESave].
Proof. first [exact (@save_preceded_by_record V veqb) | exact (@save_preceded_by_record V veqb) | exact (@save_preceded_by_record V)]. Qed.

(* every request refused for lack of permission wrote its record (authorized=false),
   unless the sink itself failed *)
Theorem C06_denial_logged : forall ev (s : dbstate V) c o s' fx,
  db_step veqb ev s c o = (s', RDenied, fx) ->
  fx = [EAudit (the_entry c o (act_of o) false)] \/ audit_failed fx = true.
Proof. first [exact (@denial_logged V veqb) | exact (@denial_logged V veqb) | exact (@denial_logged V)]. Qed.

(* if the record cannot be written or synced: no value, no state change, no save *)
Theorem C06_fail_closed : forall ev (s : dbstate V) c o s' r fx,
  db_step veqb ev s c o = (s', r, fx) -> audit_failed fx = true ->
  carries_data r = false /\ kv s' = kv s /\ gen s' = gen s /\ has_save fx = false.
Proof. first [exact (@fail_closed V veqb) | exact (@fail_closed V veqb) | exact (@fail_closed V)]. Qed.

Theorem C06_write_failure_sticky : forall ev (s : dbstate V) c o s' r fx,
  db_step veqb ev s c o = (s', r, fx) ->
  (In EAuditFail fx -> audit_dead s' = true) /\
  (audit_dead s = true -> audit_dead s' = true /\ (fx = [] \/ fx = [EAuditFail])).
Proof. first [exact (@write_failure_sticky V veqb) | exact (@write_failure_sticky V veqb) | exact (@write_failure_sticky V)]. Qed.

(* a conditional get that finds the caller's version still current writes no record *)
Theorem C06_unchanged_poll_silent : forall ev (s : dbstate V) c o s' fx,
  db_step veqb ev s c o = (s', RNotChanged, fx) -> fx = [].
Proof. first [exact (@unchanged_poll_silent V veqb) | exact (@unchanged_poll_silent V veqb) | exact (@unchanged_poll_silent V)]. Qed.

(* every effect list has one of six shapes (at most one record per call; list writes
   exactly one), and the authorized flag of a record is the access decision *)
Theorem C06_record_shape : forall ev (s : dbstate V) c o s' r fx,
  db_step veqb ev s c o = (s', r, fx) ->
  fx_shape c o (act_of o) fx /\
  (forall e, In (EAudit e) fx -> o <> OList -> e_authorized e = allow (rules c) (act_of o) (target o)).
Proof. first [exact (@record_shape V veqb) | exact (@record_shape V veqb) | exact (@record_shape V)]. Qed.

(* over histories the log is append-only: the concatenation of the calls' records *)
Theorem C06_log_append : forall h1 h2 (s : dbstate V),
  log_of (snd (db_run veqb s (h1 ++ h2))) =
  log_of (snd (db_run veqb s h1)) ++ log_of (snd (db_run veqb (fst (db_run veqb s h1)) h2)).
Proof. first [exact (@log_append V veqb) | exact (@log_append V veqb) | exact (@log_append V)]. Qed.

End C06.

Print Assumptions C06_value_implies_logged.
Print Assumptions C06_logged_before_effect.
Print Assumptions C06_denial_logged.
Print Assumptions C06_fail_closed.
Print Assumptions C06_write_failure_sticky.
Print Assumptions C06_unchanged_poll_silent.
Print Assumptions C06_record_shape.
Print Assumptions C06_log_append.

(* non-vacuity *)
Definition ex_state : dbstate N :=
  {| kv := [([97], {| vers := [(1, 5); (2, 6)]; active := 1; latest := 2 |})]; gen := 3; audit_dead := false |}.
Definition su : caller := {| principal := 1; rules := [ {| r_actions := [AGet; AInfo; APut; AActivate; ADelete]; r_secrets := [[42]] |} ] |}.
Example C06_ex_put : snd (db_step N.eqb {| save_ok := true; audit := AOk |} ex_state su (OPut [97] 8))
  = [EAudit {| e_principal := 1; e_action := APut; e_secret := [97]; e_version := 0; e_authorized := true |}; ESave].
Proof. vm_compute. reflexivity. Qed.
Example C06_ex_sync_fail : db_step N.eqb {| save_ok := true; audit := ASyncFail |} ex_state su (OGet [97])
  = (ex_state, ROther, [EAudit {| e_principal := 1; e_action := AGet; e_secret := [97]; e_version := 0; e_authorized := true |}; ESyncFail]).
Proof. vm_compute. reflexivity. Qed.
Example C06_ex_unchanged : db_step N.eqb {| save_ok := true; audit := AWriteFail |} ex_state su (OGetCond [97] 1)
  = (ex_state, RNotChanged, []).
Proof. vm_compute. reflexivity. Qed.
