(* C07 - ACL patterns are whole-name globs; '*' matches any run of characters.
   Only statements closed by [exact] + Print Assumptions. *)
From Coq Require Import List Bool NArith.
Import ListNotations.
From Setec Require Import Acl.Glob Acl.GlobProofs.

(* Over ANY alphabet with decidable equality and one distinguished symbol: the
   code-shaped matcher (literal short-cut or anchored regular expression built
   from the quoted pieces joined by "match anything") accepts exactly the names
   in which the literal pieces occur in order, anchored at both ends, with
   arbitrary gaps.  No other symbol can be special, by parametricity. *)
Theorem C07_match_iff_generic :
  forall (A : Type) (eqb : A -> A -> bool), (forall a b, eqb a b = true <-> a = b) ->
  forall (star : A) (pat name : list A),
    impl_match eqb star pat name = true <-> glob_spec eqb star pat name.
Proof. exact impl_match_iff_spec. Qed.
Print Assumptions C07_match_iff_generic.

Theorem C07_match_iff : forall pat name : bytes, bmatch pat name = true <-> bspec pat name.
Proof. exact bmatch_iff. Qed.
Print Assumptions C07_match_iff.

(* the independent reference matcher computes the same function *)
Theorem C07_dp_agrees : forall pat name : bytes, bglob pat name = bmatch pat name.
Proof. exact (@dp_agrees _ _ Neqb_spec star_byte). Qed.
Print Assumptions C07_dp_agrees.

(* and so does the polynomial matcher the correspondence run uses on long inputs *)
Theorem C07_fast_agrees : forall pat name : bytes, bfast pat name = bglob pat name.
Proof. exact (@fast_agrees _ _ Neqb_spec star_byte). Qed.
Print Assumptions C07_fast_agrees.

Theorem C07_nostar_exact :
  forall pat name : bytes, has_star N.eqb star_byte pat = false -> (bmatch pat name = true <-> name = pat).
Proof. exact (@nostar_exact _ _ Neqb_spec star_byte). Qed.
Print Assumptions C07_nostar_exact.

Theorem C07_star_all : forall name : bytes, bmatch [star_byte] name = true.
Proof. exact (@star_matches_all _ _ Neqb_spec star_byte). Qed.
Print Assumptions C07_star_all.

Theorem C07_rules_iff :
  forall rs a n, allow rs a n = true <->
    exists r, In r rs /\ In a (r_actions r) /\ exists p, In p (r_secrets r) /\ bspec p n.
Proof. exact allow_iff. Qed.
Print Assumptions C07_rules_iff.

Theorem C07_empty_denies : forall a n, allow [] a n = false.
Proof. exact empty_denies. Qed.
Print Assumptions C07_empty_denies.

Theorem C07_monotone :
  forall rs1 r rs2 a n, allow (rs1 ++ rs2) a n = true -> allow (rs1 ++ r :: rs2) a n = true.
Proof. exact allow_monotone. Qed.
Print Assumptions C07_monotone.

Local Open Scope N_scope.
(* non-vacuity / sanity: concrete matches and non-matches, newline and regexp
   metacharacters are ordinary, splitting action and pattern over two rules
   grants nothing *)
Example C07_ex_newline : bmatch [42] [97; 10; 98] = true.            (* "*" ~ "a\nb" *)
Proof. vm_compute. reflexivity. Qed.
Example C07_ex_meta : bmatch [97; 46; 42] [97; 120; 98] = false.     (* "a.*" !~ "axb" *)
Proof. vm_compute. reflexivity. Qed.
Example C07_ex_anchor : bmatch [97; 42; 98] [120; 97; 98] = false.   (* "a*b" !~ "xab" *)
Proof. vm_compute. reflexivity. Qed.
Example C07_ex_mid : bmatch [97; 42; 47; 42; 98] [97; 47; 47; 98] = true.
Proof. vm_compute. reflexivity. Qed.
Example C07_ex_split_rules :
  allow [ {| r_actions := [AGet]; r_secrets := [[98]] |};
          {| r_actions := [APut]; r_secrets := [[97]] |} ] AGet [97] = false.
Proof. vm_compute. reflexivity. Qed.
