(* C08 - the HTTP front door rejects ill-formed or unidentified requests without side
   effects and maps outcomes to statuses exactly.  Statements only. *)
From Coq Require Import List Bool NArith.
Import ListNotations.
From Setec Require Import Base.SMap Acl.Glob Server.KV Server.KVProofs Server.DB Server.DBFacts Server.DBProofs Server.Http Server.HttpProofs.
Open Scope N_scope.

Section C08.
Variable V : Type.
Variable veqb : V -> V -> bool.

(* accepted only if POST, Content-Type exactly application/json, the no-browsers header
   exactly "setec", the caller identified, and the body decodes *)
Theorem C08_gate_sound : forall (rq : request V) c q, is_api (rq_endpoint rq) = true -> gate rq = Accept c q ->
  rq_meth rq = MPost /\ rq_ctype rq = CTJson /\ rq_hdr rq = HSetec
  /\ identity (rq_addr_ok rq) (rq_whois rq) = Some c
  /\ decode (rq_endpoint rq) (rq_body rq) (rq_empty rq) = Some q.
Proof. exact (@gate_sound V). Qed.

Theorem C08_gate_complete : forall rq : request V, is_api (rq_endpoint rq) = true ->
  (rq_meth rq <> MPost \/ rq_ctype rq <> CTJson \/ rq_hdr rq <> HSetec
   \/ identity (rq_addr_ok rq) (rq_whois rq) = None
   \/ decode (rq_endpoint rq) (rq_body rq) (rq_empty rq) = None) ->
  exists st, gate rq = Reject st.
Proof. exact (@gate_complete V). Qed.

(* the one route that is not an API endpoint - the HTML listing served on "/" and on every path no API route
   matches - is served only to a GET whose caller the tailnet identifies (same identity function), and is
   then exactly that caller's list call: nothing but db.List's answer for that caller is on the page *)
Theorem C08_html_gate_exact : forall (rq : request V) c q, rq_endpoint rq = EHtml ->
  (gate rq = Accept c q <->
   rq_meth rq = MGet /\ identity (rq_addr_ok rq) (rq_whois rq) = Some c /\ q = QList).
Proof. exact (@html_gate_exact V). Qed.

Theorem C08_html_is_list : forall ev (s : dbstate V) (rq : request V) c,
  rq_endpoint rq = EHtml -> rq_meth rq = MGet -> identity (rq_addr_ok rq) (rq_whois rq) = Some c ->
  http_step veqb ev s rq = (let '(s', r, fx) := db_step veqb ev s c OList in (s', respond r, fx)).
Proof. exact (@html_is_list V veqb). Qed.

(* a rejected request (API or page): 4xx/5xx, constant body, state unchanged, no audit record, no save *)
Theorem C08_reject_inert : forall ev (s : dbstate V) (rq : request V) st, gate rq = Reject st ->
  400 <= st < 600 /\ http_step veqb ev s rq = (s, {| status := st; rb := BodyConst |}, []).
Proof. exact (@reject_inert V veqb). Qed.

(* an accepted request is exactly the database call of the identified caller ... *)
Theorem C08_accepted_is_db_call : forall ev (s : dbstate V) (rq : request V) c q s' r fx,
  gate rq = Accept c q -> db_step veqb ev s c (dispatch q) = (s', r, fx) ->
  http_step veqb ev s rq = (s', respond r, fx).
Proof. exact (@accepted_is_db_call V veqb). Qed.

(* ... and its outcome maps to the status exactly: 200 + JSON result, 304 + empty body,
   403 denial, 404 not found, some other 4xx/5xx otherwise *)
Theorem C08_status_exact : forall r : result V,
  (status (respond r) = 200 <-> is_success r = true)
  /\ (status (respond r) = 304 <-> r = RNotChanged)
  /\ (status (respond r) = 403 <-> r = RDenied)
  /\ (status (respond r) = 404 <-> r = RNotFound)
  /\ (is_success r = true -> rb (respond r) = BodyResult r)
  /\ (r = RNotChanged -> rb (respond r) = BodyEmpty)
  /\ (is_success r = false -> r <> RNotChanged -> rb (respond r) = BodyConst /\ 400 <= status (respond r) < 600).
Proof. exact (@status_exact V). Qed.

Theorem C08_no_secret_in_errors : forall ev (s : dbstate V) (rq : request V) s' rsp fx,
  http_step veqb ev s rq = (s', rsp, fx) -> status rsp <> 200 -> rb rsp = BodyConst \/ rb rsp = BodyEmpty.
Proof. exact (@no_secret_in_errors V veqb). Qed.

(* deleting an absent secret succeeds *)
Theorem C08_delete_absent_ok : forall (s : dbstate V) c (n : name),
  allow (rules c) ADelete n = true -> reserved n = false -> find n (kv s) = None -> audit_dead s = false ->
  exists fx, db_step veqb {| save_ok := true; audit := AOk |} s c (ODel n) = (s, ROk, fx).
Proof. exact (@delete_absent_ok V veqb). Qed.

End C08.

(* the permissions applied are exactly the rules granted under the secrets capability
   (bare name first; the https:// name only when the bare one yields no rule; an
   undecodable grant under the name consulted is a failure); the principal is the tag
   set of a tagged node, else the login name, else failure *)
Theorem C08_identity_exact : forall addr_ok (w : whois) c, identity addr_ok w = Some c <->
  addr_ok = true /\ w_fail w = false
  /\ (exists pid, (w_tags w = Some pid \/ (w_tags w = None /\ w_login w = Some pid)) /\ principal c = pid)
  /\ ((exists r rs, w_cap_bare w = CapRules (r :: rs) /\ rules c = r :: rs)
      \/ ((w_cap_bare w = CapAbsent \/ w_cap_bare w = CapRules [])
          /\ ((exists rs, w_cap_https w = CapRules rs /\ rules c = rs)
              \/ (w_cap_https w = CapAbsent /\ rules c = [])))).
Proof. exact identity_exact. Qed.

Print Assumptions C08_gate_sound.
Print Assumptions C08_gate_complete.
Print Assumptions C08_html_gate_exact.
Print Assumptions C08_html_is_list.
Print Assumptions C08_reject_inert.
Print Assumptions C08_accepted_is_db_call.
Print Assumptions C08_status_exact.
Print Assumptions C08_no_secret_in_errors.
Print Assumptions C08_delete_absent_ok.
Print Assumptions C08_identity_exact.

(* The front door composed with the access decision (Props/Chain_Front.v, proofs in
   Server/FrontProofs.v) is built and its assumptions are checked with every C08 run. *)
From Setec Require Props.Chain_Front.
Print Assumptions Chain_Front.Chain_front_requires_grant.
Print Assumptions Chain_Front.Chain_front_refusal_blind.
Print Assumptions Chain_Front.Chain_reject_status.
Print Assumptions Chain_Front.Chain_front_value_logged.
Print Assumptions Chain_Front.Chain_front_denial_logged.

(* non-vacuity *)
Definition su_rules := [ {| r_actions := [AGet; AInfo; APut; AActivate; ADelete]; r_secrets := [[42]] |} ].
Definition w_ok : whois := {| w_fail := false; w_tags := None; w_login := Some 7; w_cap_bare := CapAbsent; w_cap_https := CapRules su_rules |}.
Definition rq_ok : request N := {| rq_endpoint := EGet; rq_meth := MPost; rq_ctype := CTJson; rq_hdr := HSetec; rq_addr_ok := true;
  rq_whois := w_ok; rq_body := BObj (QGet [97] 1 true); rq_empty := 0 |}.
Definition st0 : dbstate N := {| kv := [([97], {| vers := [(1, 5)]; active := 1; latest := 1 |})]; gen := 2; audit_dead := false |}.
Example C08_ex_304 : snd (fst (http_step N.eqb {| save_ok := true; audit := AOk |} st0 rq_ok)) = {| status := 304; rb := BodyEmpty |}.
Proof. vm_compute. reflexivity. Qed.
Example C08_ex_reject_get_method :
  gate {| rq_endpoint := EGet; rq_meth := MGet; rq_ctype := CTJson; rq_hdr := HSetec; rq_addr_ok := true;
          rq_whois := w_ok; rq_body := BObj (QGet [97] 0 false); rq_empty := 0%N |} = Reject 400.
Proof. vm_compute. reflexivity. Qed.
Example C08_ex_html_page :
  snd (fst (http_step N.eqb {| save_ok := true; audit := AOk |} st0
    {| rq_endpoint := EHtml; rq_meth := MGet; rq_ctype := CTOther; rq_hdr := HOther; rq_addr_ok := true;
       rq_whois := w_ok; rq_body := BInvalid; rq_empty := 0%N |})) = {| status := 200; rb := BodyResult (RList [([97], [1], 1)]) |}.
Proof. vm_compute. reflexivity. Qed.
Example C08_ex_html_post_rejected :
  gate {| rq_endpoint := EHtml; rq_meth := MPost; rq_ctype := CTJson; rq_hdr := HSetec; rq_addr_ok := true;
          rq_whois := w_ok; rq_body := BNull; rq_empty := 0%N |} = Reject 400.
Proof. vm_compute. reflexivity. Qed.
Example C08_ex_malformed_grant :
  identity true {| w_fail := false; w_tags := Some 1001; w_login := None; w_cap_bare := CapMalformed; w_cap_https := CapRules su_rules |} = None.
Proof. vm_compute. reflexivity. Qed.
