(* C09 - a conditional get reports not-modified exactly when nothing changed.  Statements only. *)
From Coq Require Import List Bool NArith.
Import ListNotations.
From Setec Require Import Base.SMap Acl.Glob Server.KV Server.KVProofs Server.DB Server.DBFacts Server.DBProofs Server.Http Server.HttpProofs.
Open Scope N_scope.

Section C09.
Variable V : Type.
Variable veqb : V -> V -> bool.

(* For a caller allowed to get n (audit sink working): the state is untouched and the
   answer is determined by the active version alone. *)
Theorem C09_getcond_spec : forall ev (s : dbstate V) c (n : name) v s' r fx,
  allow (rules c) AGet n = true -> audit_dead s = false -> audit ev = AOk ->
  db_step veqb ev s c (OGetCond n v) = (s', r, fx) ->
  kv s' = kv s /\
  match kv_get (kv s) n with
  | KVal ver b => if ver =? v then r = RNotChanged /\ fx = [] else r = RVal ver b
  | kr => r = res_of_kres kr
  end.
Proof. exact (@getcond_spec V veqb). Qed.

(* not-modified if and only if the secret's active version number is V at that moment *)
Theorem C09_iff : forall ev (s : dbstate V) c (n : name) v s' r fx,
  Inv (kv s) -> allow (rules c) AGet n = true -> audit_dead s = false -> audit ev = AOk ->
  db_step veqb ev s c (OGetCond n v) = (s', r, fx) ->
  (r = RNotChanged <-> exists x, find n (kv s) = Some x /\ active x = v).
Proof. exact (@getcond_notchanged_iff V veqb). Qed.

(* whenever a value is returned it is the currently active version with its bytes - never a non-active one *)
Theorem C09_else_active : forall ev (s : dbstate V) c (n : name) v s' ver b fx,
  Inv (kv s) -> db_step veqb ev s c (OGetCond n v) = (s', RVal ver b, fx) ->
  exists x, find n (kv s) = Some x /\ ver = active x /\ find ver (vers x) = Some b /\ ver <> v.
Proof. exact (@getcond_returns_active V veqb). Qed.

(* with V = 0 the flag is ignored: at the API the handler dispatches to the plain get, and
   even the database call itself returns the active value (versions start at 1) *)
Theorem C09_zero_is_get : forall ev (s : dbstate V) c (n : name),
  Inv (kv s) -> allow (rules c) AGet n = true -> audit_dead s = false -> audit ev = AOk ->
  snd (fst (db_step veqb ev s c (OGetCond n 0))) = snd (fst (db_step veqb ev s c (OGet n))).
Proof. exact (@getcond_zero_is_get V veqb). Qed.

Theorem C09_zero_dispatch : forall (n : name) upd, dispatch (QGet n 0 upd) = @OGet V n.
Proof. exact (fun n upd => eq_refl). Qed.

(* the network client surfaces the outcomes as (value, nil), ErrValueNotChanged, ErrNotFound, ErrAccessDenied *)
Theorem C09_client_surface : forall r : result V,
  client_of_response (respond r) =
  match r with
  | RNotChanged => CNotChanged
  | RNotFound => CNotFound
  | RDenied => CDenied
  | ROther => COtherErr
  | ok => CResult ok
  end.
Proof. exact (@client_surface V). Qed.

Theorem C09_client_dispatch : forall (n : name) old,
  dispatch (@client_getifchanged_req V n old) = (if old =? 0 then OGet n else OGetCond n old).
Proof. exact (@client_getifchanged_dispatch V). Qed.

(* and so does the file-backed client *)
Theorem C09_fileclient : forall (db : @smap name (N * V)) (n : name) old,
  match find n db with
  | None => fc_getifchanged db n old = CNotFound /\ fc_get db n = CNotFound
  | Some (ver, b) =>
      fc_get db n = CResult (RVal ver b) /\
      (ver = old -> fc_getifchanged db n old = CNotChanged) /\
      (ver <> old -> fc_getifchanged db n old = CResult (RVal ver b))
  end.
Proof. exact (@fileclient_spec V). Qed.

End C09.

Print Assumptions C09_getcond_spec.
Print Assumptions C09_iff.
Print Assumptions C09_else_active.
Print Assumptions C09_zero_is_get.
Print Assumptions C09_zero_dispatch.
Print Assumptions C09_client_surface.
Print Assumptions C09_client_dispatch.
Print Assumptions C09_fileclient.

(* non-vacuity: active version 2 of 3; V=2 -> not modified, V=3 (newer, existing) -> version 2 with its bytes *)
Definition st0 : dbstate N := {| kv := [([97], {| vers := [(1, 5); (2, 6); (3, 7)]; active := 2; latest := 3 |})]; gen := 4; audit_dead := false |}.
Definition su : caller := {| principal := 1; rules := [ {| r_actions := [AGet]; r_secrets := [[97]] |} ] |}.
Definition okenv := {| save_ok := true; audit := AOk |}.
Example C09_ex_same : snd (fst (db_step N.eqb okenv st0 su (OGetCond [97] 2))) = RNotChanged.
Proof. vm_compute. reflexivity. Qed.
Example C09_ex_newer : snd (fst (db_step N.eqb okenv st0 su (OGetCond [97] 3))) = RVal 2 6.
Proof. vm_compute. reflexivity. Qed.
Example C09_ex_inv : Inv (kv st0).
Proof.
  apply (@reachable_inv N N.eqb [(true, KPut [97] 5); (true, KPut [97] 6); (true, KPut [97] 7); (true, KSetActive [97] 2)]
           _ [(KVer 1, Saved); (KVer 2, Saved); (KVer 3, Saved); (KOk, Saved)]).
  vm_compute. reflexivity.
Qed.
