(* C10 - setec.NewStore: every declared secret is available when it returns successfully; cached values are
   used first; missing ones are fetched with exponential back-off until they all succeed or the context
   ends; misconfiguration is an error value.  Statements only (proofs: Client/InitProofs.v, model:
   Client/Init.v on top of the shared store model Client/Store.v). *)
From Coq Require Import List Bool NArith ZArith Permutation.
Import ListNotations.
From Setec Require Import Base.SMap Client.Store Client.StoreInv Client.Init Client.InitProofs Client.InitFile Client.InitFileProofs.
From Setec Require Server.DB Server.Http.

Section C10.
Variable V : Type.

(* 1. success => every declared name has a value and is marked declared; the store that is returned
   satisfies the shared invariant (canonical map, no construction stub left, no dangling handle) *)
Theorem C10_complete : forall (c : config) (cache : option (@smap name (rentry V))) (w : world V) (fuel : nat)
    (s : store V) (t : N) (tr : list (ev V)) (fx : list (effect V)),
  order_ok w -> cache_sorted cache ->
  new_store c cache w fuel = OOk s t tr fx ->
  Inv s /\ hs s = [] /\ allow s = c_allow c /\ age s = c_age c /\
  forall n, In n (c_names c) -> exists e, find n (m s) = Some (Some e) /\ decl e = true.
Proof. exact (@complete V). Qed.

(* 2a. a name with a (valid) cache entry is never requested - whatever the outcome, whatever the schedule *)
Theorem C10_cache_first_never_requested : forall (c : config) (cache : option (@smap name (rentry V))) (w : world V)
    (fuel : nat) (n : name) (e0 : centry V),
  find n (cached c cache) = Some (Some e0) ->
  ~ requested n (trace_of (new_store c cache w fuel)).
Proof. exact (@cache_first_never_requested V). Qed.

(* ... and keeps exactly that entry (version, bytes, access stamp); it gets the declared bit iff it is declared *)
Theorem C10_cache_first : forall (c : config) (cache : option (@smap name (rentry V))) (w : world V) (fuel : nat)
    (s : store V) (t : N) (tr : list (ev V)) (fx : list (effect V)) (n : name) (e0 : centry V),
  new_store c cache w fuel = OOk s t tr fx ->
  find n (cached c cache) = Some (Some e0) ->
  find n (m s) = Some (Some (CE (ver e0) (val e0) (last e0) (mem n (c_names c)))).
Proof. exact (@cache_first V). Qed.

(* 2b. a declared name the cache does not hold has the outcome of a successful request, stamped with the
   instant of its return, and is marked declared *)
Theorem C10_fetched : forall (c : config) (cache : option (@smap name (rentry V))) (w : world V) (fuel : nat)
    (s : store V) (t : N) (tr : list (ev V)) (fx : list (effect V)) (n : name),
  order_ok w ->
  new_store c cache w fuel = OOk s t tr fx ->
  In n (c_names c) -> find n (cached c cache) = None ->
  exists ts te v b, In (EvReq n ts te (Some (v, b))) tr /\
     find n (m s) = Some (Some (CE v b (now_s w te) true)).
Proof. exact (@fetched V). Qed.

(* 2c. a name that is neither cached nor declared is never requested and is not in the store *)
Theorem C10_nothing_else : forall (c : config) (cache : option (@smap name (rentry V))) (w : world V) (fuel : nat) (n : name),
  ~ In n (c_names c) -> find n (cached c cache) = None ->
  ~ requested n (trace_of (new_store c cache w fuel)) /\
  forall s t tr fx, new_store c cache w fuel = OOk s t tr fx -> find n (m s) = None.
Proof. exact (@nothing_else V). Qed.

(* 3. never re-fetched: after a successful request for n there is no further request for n
   (any outcome, any schedule, any script) *)
Theorem C10_no_refetch : forall (c : config) (cache : option (@smap name (rentry V))) (w : world V) (fuel : nat)
    (n : name) (l1 : list (ev V)) (ts te : N) (r : N * V) (l2 : list (ev V)),
  trace_of (new_store c cache w fuel) = l1 ++ EvReq n ts te (Some r) :: l2 ->
  forall e, In e l2 -> is_req n e = false.
Proof. exact (@no_refetch V). Qed.

(* 4. back-off: the retry wait starts at 1ms, stays within [1ms, 4096ms], doubles while below 4s *)
Theorem C10_wait_bounded : forall k : nat, (1 <= wait_k k <= 4096)%N.
Proof. exact wait_bounded. Qed.

Theorem C10_wait_doubles : forall k : nat,
  wait_k (S k) = (if (wait_k k <? 4000)%N then 2 * wait_k k else wait_k k)%N.
Proof. exact wait_doubles. Qed.

(* every sleep of every run is at most 4096ms long (a sleep cut short by the context is shorter) *)
Theorem C10_sleeps_bounded : forall (c : config) (cache : option (@smap name (rentry V))) (w : world V) (fuel : nat) (ts te : N),
  In (EvSleep ts te) (trace_of (new_store c cache w fuel)) -> (ts <= te /\ te - ts <= 4096 * ns_per_ms)%N.
Proof. exact (@sleeps_bounded V). Qed.

(* while the context lives the i-th sleep (0-based) lasts exactly wait_k i milliseconds *)
Theorem C10_sleeps_exact : forall (c : config) (cache : option (@smap name (rentry V))) (w : world V) (fuel i : nat) (ts te : N),
  w_deadline w = None ->
  nth_error (filter (@is_sleep V) (trace_of (new_store c cache w fuel))) i = Some (EvSleep ts te) ->
  te = (ts + wait_k i * ns_per_ms)%N.
Proof. exact (@sleeps_exact V). Qed.

(* 5. a valid cache holding every declared name: success at once, nothing requested, nothing slept,
   nothing written to the cache; the store is the cache content with the declared bits set *)
Theorem C10_full_cache_silent : forall (c : config) (d : @smap name (rentry V)) (w : world V) (fuel : nat),
  c_client c = true -> names_ok (c_names c) (c_allow c) = true -> c_cache c = true ->
  cache_valid d = true ->
  (forall n, In n (c_names c) -> exists e, find n (of_cache d) = Some (Some e)) ->
  exists s : store V, new_store c (Some d) w (S fuel) = OOk s (w_t0 w) [] [] /\
            (forall n e, find n (of_cache d) = Some (Some e) ->
                find n (m s) = Some (Some (CE (ver e) (val e) (last e) (mem n (c_names c))))) /\
            (forall n, find n (of_cache d) = None -> find n (m s) = None).
Proof. exact (@full_cache_silent V). Qed.

(* 6. while the context lives (no deadline) a client that is not a file client never gets an error from
   initialisation, whatever the service answers *)
Theorem C10_keeps_retrying : forall (c : config) (cache : option (@smap name (rentry V))) (w : world V) (fuel : nat),
  w_deadline w = None -> c_file c = false ->
  forall t tr, new_store c cache w fuel <> OFail t tr.
Proof. exact (@keeps_retrying V). Qed.

(* ... and it succeeds once every missing name has succeeded: if each declared, uncached name has a success
   among its first J+1 answers then J+1 rounds suffice *)
Theorem C10_eventually_succeeds : forall (c : config) (cache : option (@smap name (rentry V))) (w : world V),
  c_client c = true -> names_ok (c_names c) (c_allow c) = true ->
  w_deadline w = None -> c_file c = false -> order_ok w -> cache_sorted cache ->
  forall J : nat,
    (forall n, In n (c_names c) -> find n (cached c cache) = None ->
       exists j, (j <= J)%nat /\ a_res (w_script w n j) <> None) ->
  forall fuel : nat, (J < fuel)%nat -> exists s t tr fx, new_store c cache w fuel = OOk s t tr fx.
Proof. exact (@eventually_succeeds V). Qed.

(* 7. the context: NewStore never returns later than the end of the context (or at once, when it was
   already over) ... *)
Theorem C10_ctx_prompt : forall (c : config) (cache : option (@smap name (rentry V))) (w : world V) (fuel : nat) (D : N),
  w_deadline w = Some D ->
  match new_store c cache w fuel with
  | OOk _ t _ _ | OFail t _ => (t <= N.max (w_t0 w) D)%N
  | _ => True end.
Proof. exact (@ctx_prompt V). Qed.

(* ... and never before it was called *)
Theorem C10_time_monotone : forall (c : config) (cache : option (@smap name (rentry V))) (w : world V) (fuel : nat),
  match new_store c cache w fuel with
  | OOk _ t _ _ | OFail t _ => (w_t0 w <= t)%N
  | _ => True end.
Proof. exact (@time_monotone V). Qed.

(* no success while a needed name keeps failing *)
Theorem C10_failing_name_no_success : forall (c : config) (cache : option (@smap name (rentry V))) (w : world V) (fuel : nat) (n : name),
  order_ok w ->
  In n (c_names c) -> find n (cached c cache) = None ->
  (forall j, a_res (w_script w n j) = None) ->
  forall s t tr fx, new_store c cache w fuel <> OOk s t tr fx.
Proof. exact (@failing_name_no_success V). Qed.

(* with a deadline the loop ends: one round per millisecond until the deadline (plus two) is enough fuel *)
Theorem C10_ctx_terminates : forall (c : config) (cache : option (@smap name (rentry V))) (w : world V) (fuel : nat) (D : N),
  w_deadline w = Some D ->
  (D - w_t0 w + 2 * ns_per_ms <= ns_per_ms * N.of_nat fuel)%N ->
  forall tr, new_store c cache w fuel <> OFuel tr.
Proof. exact (@ctx_terminates V). Qed.

(* 8. a file client fails at once when a declared name is absent: one round, no sleep, each name asked
   at most once *)
Theorem C10_fileclient_fails_fast : forall (c : config) (cache : option (@smap name (rentry V))) (w : world V) (fuel : nat) (n : name),
  c_client c = true -> names_ok (c_names c) (c_allow c) = true -> c_file c = true ->
  order_ok w -> cache_sorted cache ->
  In n (c_names c) -> find n (cached c cache) = None -> (forall j, a_res (w_script w n j) = None) ->
  exists t tr, new_store c cache w (S fuel) = OFail t tr /\
     (forall e, In e tr -> is_sleep e = false) /\ (forall k, nreq k tr <= 1)%nat.
Proof. exact (@fileclient_fails_fast V). Qed.

(* a file client never sleeps, asks each name at most once, and one round always decides *)
Theorem C10_fileclient_one_round : forall (c : config) (cache : option (@smap name (rentry V))) (w : world V) (fuel : nat),
  c_file c = true -> order_ok w -> cache_sorted cache ->
  let tr := trace_of (new_store c cache w fuel) in
  (forall e, In e tr -> is_sleep e = false) /\ (forall k, nreq k tr <= 1)%nat /\
  forall tr', new_store c cache w (S fuel) <> OFuel tr'.
Proof. exact (@fileclient_one_round V). Qed.

(* 9. misconfiguration is an error value (new_store is a total function: no panic, no hang), and these
   are the only misconfigurations: no client; an empty name; no name at all without AllowLookup *)
Theorem C10_misconfig_no_client : forall (c : config) (cache : option (@smap name (rentry V))) (w : world V) (fuel : nat),
  c_client c = false -> new_store c cache w fuel = OMisconfig V.
Proof. exact (@misconfig_no_client V). Qed.

Theorem C10_misconfig_empty_name : forall (c : config) (cache : option (@smap name (rentry V))) (w : world V) (fuel : nat),
  In [] (c_names c) -> new_store c cache w fuel = OMisconfig V.
Proof. exact (@misconfig_empty_name V). Qed.

Theorem C10_misconfig_no_secrets : forall (c : config) (cache : option (@smap name (rentry V))) (w : world V) (fuel : nat),
  c_names c = [] -> c_allow c = false -> new_store c cache w fuel = OMisconfig V.
Proof. exact (@misconfig_no_secrets V). Qed.

Theorem C10_misconfig_only : forall (c : config) (cache : option (@smap name (rentry V))) (w : world V) (fuel : nat),
  new_store c cache w fuel = OMisconfig V ->
  c_client c = false \/ In [] (c_names c) \/ (c_names c = [] /\ c_allow c = false).
Proof. exact (@misconfig_only V). Qed.

(* 10. an invalid cache document (empty name, null entry, null secret) is ignored as a whole *)
Theorem C10_invalid_cache_ignored : forall (c : config) (d : @smap name (rentry V)) (w : world V) (fuel : nat),
  cache_valid d = false -> new_store c (Some d) w fuel = new_store c None w fuel.
Proof. exact (@invalid_cache_ignored V). Qed.

(* 11. name normalisation: the same set of names, without duplicates *)
Theorem C10_norm_names_spec : forall l : list name,
  (forall n, In n (norm_names l) <-> In n l) /\ NoDup (norm_names l).
Proof. exact norm_names_spec. Qed.

(* 12. File-backed client (model of NewFileClient's entry filter: Client/InitFile.v).
   An entry of the file that does not denote a usable secret - empty name, no "secret", a version that is not
   positive OR no value at all (neither Value nor TextValue) - is ABSENT for the store: Get and GetIfChanged
   report not-found, every request of the init loop for it fails. *)
Theorem C10_file_unusable_absent : forall (file : @smap name (fentry V)) (n : name) (e : fentry V),
  sorted file -> find n file = Some e -> fc_usable n e = false ->
  Http.fc_get (fc_db file) n = @Http.CNotFound V /\
  (forall old, Http.fc_getifchanged (fc_db file) n old = @Http.CNotFound V) /\
  forall j, a_res (file_script file n j) = None.
Proof. exact (@file_unusable_absent V). Qed.

(* a usable entry is served with its version and its bytes, the text before the binary value *)
Theorem C10_file_usable_served : forall (file : @smap name (fentry V)) (n : name) (e : fentry V),
  sorted file -> find n file = Some e -> fc_usable n e = true ->
  exists b, fc_bytes e = Some b /\
            Http.fc_get (fc_db file) n = Http.CResult (DB.RVal (fe_ver e) b) /\
            forall j, a_res (file_script file n j) = Some (fe_ver e, b).
Proof. exact (@file_usable_served V). Qed.

(* every successful request of any construction carries an answer of the service script *)
Theorem C10_answers_from_script : forall (c : config) (cache : option (@smap name (rentry V))) (w : world V) (fuel : nat)
  (n : name) (ts te : N) (r : N * V),
  In (EvReq n ts te (Some r)) (trace_of (new_store c cache w fuel)) -> exists j, a_res (w_script w n j) = Some r.
Proof. exact (@answers_from_script V). Qed.

(* with a file-backed client NewStore fails at once - one round, no sleep, each name asked at most once - when a
   declared name the cache does not hold is absent from the file or is an unusable entry *)
Theorem C10_file_fails_at_once : forall (c : config) (cache : option (@smap name (rentry V))) (w : world V) (fuel : nat)
  (file : @smap name (fentry V)) (n : name),
  c_client c = true -> names_ok (c_names c) (c_allow c) = true -> c_file c = true ->
  order_ok w -> cache_sorted cache -> sorted file -> w_script w = file_script file ->
  In n (c_names c) -> find n (cached c cache) = None ->
  (find n file = None \/ exists e, find n file = Some e /\ fc_usable n e = false) ->
  exists t tr, new_store c cache w (S fuel) = OFail t tr /\
     (forall e, In e tr -> is_sleep e = false) /\ (forall k, (nreq k tr <= 1)%nat).
Proof. exact (@file_fails_at_once V). Qed.

(* it succeeds only if every declared name is cached or a usable entry, and then a name taken from the file is
   held with exactly the file's version and bytes *)
Theorem C10_file_success_values : forall (c : config) (cache : option (@smap name (rentry V))) (w : world V) (fuel : nat)
  (file : @smap name (fentry V)) (s : store V) (t : N) (tr : list (ev V)) (fx : list (effect V)) (n : name),
  order_ok w -> sorted file -> w_script w = file_script file ->
  new_store c cache w fuel = OOk s t tr fx ->
  In n (c_names c) -> find n (cached c cache) = None ->
  exists e b te, find n file = Some e /\ fc_usable n e = true /\ fc_bytes e = Some b /\
     find n (m s) = Some (Some (CE (fe_ver e) b (now_s w te) true)).
Proof. exact (@file_success_values V). Qed.

(* ... and if every declared name is cached or usable it does succeed, in the first round, whatever the context *)
Theorem C10_file_succeeds : forall (c : config) (cache : option (@smap name (rentry V))) (w : world V) (fuel : nat)
  (file : @smap name (fentry V)),
  c_client c = true -> names_ok (c_names c) (c_allow c) = true ->
  w_strict w = false -> sorted file -> w_script w = file_script file ->
  (forall n, In n (c_names c) -> find n (cached c cache) = None ->
             exists e, find n file = Some e /\ fc_usable n e = true) ->
  exists s t tr fx, new_store c cache w (S fuel) = OOk s t tr fx.
Proof. exact (@file_succeeds V). Qed.

End C10.

Print Assumptions C10_complete.
Print Assumptions C10_cache_first_never_requested.
Print Assumptions C10_cache_first.
Print Assumptions C10_fetched.
Print Assumptions C10_nothing_else.
Print Assumptions C10_no_refetch.
Print Assumptions C10_wait_bounded.
Print Assumptions C10_wait_doubles.
Print Assumptions C10_sleeps_bounded.
Print Assumptions C10_sleeps_exact.
Print Assumptions C10_full_cache_silent.
Print Assumptions C10_keeps_retrying.
Print Assumptions C10_eventually_succeeds.
Print Assumptions C10_ctx_prompt.
Print Assumptions C10_time_monotone.
Print Assumptions C10_failing_name_no_success.
Print Assumptions C10_ctx_terminates.
Print Assumptions C10_fileclient_fails_fast.
Print Assumptions C10_fileclient_one_round.
Print Assumptions C10_misconfig_no_client.
Print Assumptions C10_misconfig_empty_name.
Print Assumptions C10_misconfig_no_secrets.
Print Assumptions C10_misconfig_only.
Print Assumptions C10_invalid_cache_ignored.
Print Assumptions C10_norm_names_spec.
Print Assumptions C10_file_unusable_absent.
Print Assumptions C10_file_usable_served.
Print Assumptions C10_answers_from_script.
Print Assumptions C10_file_fails_at_once.
Print Assumptions C10_file_success_values.
Print Assumptions C10_file_succeeds.

(* non-vacuity on concrete data (V := N).  Names a, b, c; b is declared twice; the cache holds a only;
   b fails twice then succeeds, c succeeds at once; requests take no time; the map is visited in key order. *)
Open Scope N_scope.
Definition na : name := [97].
Definition nb : name := [98].
Definition nc : name := [99].
Definition cfg0 : config := CFG true false [nb; na; nb; nc] false true 0.
Definition cache0 : option (@smap name (rentry N)) := Some [(na, Some (Some (5, 50), 7%Z))].
Definition script0 (n : name) (j : nat) : answer N :=
  if neqb n nb then (if Nat.ltb j 2 then ANS 0 None else ANS 0 (Some (2, 20)))
  else if neqb n nc then ANS 0 (Some (1, 30)) else ANS 0 None.
Definition w0 : world N := WORLD script0 true None (fun _ l => l) 1000%Z 0.

Example C10_ex_order_ok : order_ok w0.
Proof. intros k l. apply Permutation_refl. Qed.
Example C10_ex_cache_sorted : cache_sorted cache0.
Proof. repeat constructor. intros k' v' []. Qed.

(* (a) no deadline: b is asked at 0, 1ms and 3ms (waits of 1ms then 2ms); success at 3ms; the cached
   entry of a is kept with its stamp; the cache is rewritten once *)
Example C10_ex_retry :
  new_store cfg0 cache0 w0 10 =
  OOk (ST [(na, Some (CE 5 50 7%Z true)); (nb, Some (CE 2 20 1000%Z true)); (nc, Some (CE 1 30 1000%Z true))]
          [] [] false 0)
      3000000
      [EvReq nb 0 0 None; EvReq nc 0 0 (Some (1, 30)); EvSleep 0 1000000;
       EvReq nb 1000000 1000000 None; EvSleep 1000000 3000000;
       EvReq nb 3000000 3000000 (Some (2, 20))]
      [Flush [(na, Some (5, 50, 7%Z)); (nb, Some (2, 20, 1000%Z)); (nc, Some (1, 30, 1000%Z))]].
Proof. vm_compute. reflexivity. Qed.

(* (b) the same with the context ending at 2ms, in the middle of the second wait: error at exactly 2ms *)
Definition w1 : world N := WORLD script0 true (Some 2000000) (fun _ l => l) 1000%Z 0.
Example C10_ex_deadline :
  new_store cfg0 cache0 w1 10 =
  OFail 2000000
      [EvReq nb 0 0 None; EvReq nc 0 0 (Some (1, 30)); EvSleep 0 1000000;
       EvReq nb 1000000 1000000 None; EvSleep 1000000 2000000;
       EvReq nb 2000000 2000000 None].
Proof. vm_compute. reflexivity. Qed.

(* (c) a file client in which b is absent: error after one round, no wait *)
Definition cfg2 : config := CFG true true [nb; na; nb; nc] false true 0.
Definition script2 (n : name) (j : nat) : answer N :=
  if neqb n nc then ANS 0 (Some (1, 30)) else ANS 0 None.
Definition w2 : world N := WORLD script2 true None (fun _ l => l) 1000%Z 0.
Example C10_ex_fileclient :
  new_store cfg2 cache0 w2 10 = OFail 0 [EvReq nb 0 0 None; EvReq nc 0 0 (Some (1, 30))].
Proof. vm_compute. reflexivity. Qed.

(* (d) an empty name is a configuration error *)
Definition cfg3 : config := CFG true false [nb; []; nc] false true 0.
Example C10_ex_empty_name : new_store cfg3 cache0 w0 10 = OMisconfig N.
Proof. vm_compute. reflexivity. Qed.

(* (e) a cache holding every declared name (and one more): success at the instant of the call, no request,
   no cache write; the undeclared cached name stays, undeclared *)
Definition cache4 : option (@smap name (rentry N)) :=
  Some [(na, Some (Some (5, 50), 7%Z)); (nb, Some (Some (6, 60), 8%Z)); (nc, Some (Some (7, 70), 9%Z));
        ([100], Some (Some (8, 80), 10%Z))].
Definition w4 : world N := WORLD script0 true None (fun _ l => l) 1000%Z 42.
Example C10_ex_full_cache :
  new_store cfg0 cache4 w4 1 =
  OOk (ST [(na, Some (CE 5 50 7%Z true)); (nb, Some (CE 6 60 8%Z true)); (nc, Some (CE 7 70 9%Z true));
           ([100], Some (CE 8 80 10%Z false))] [] [] false 0) 42 [] [].
Proof. vm_compute. reflexivity. Qed.

(* (f) the wait is capped at 4096ms from the 12th retry on *)
Example C10_ex_wait_12 : wait_k 12 = 4096.
Proof. vm_compute. reflexivity. Qed.
Example C10_ex_wait_40 : wait_k 40 = 4096.
Proof. vm_compute. reflexivity. Qed.

(* file-backed client: a (usable), b (positive version, NO value - the entry an `||` -> `&&` slip would serve),
   c (a value, version 0), d (text and binary value: the text wins) *)
Definition nd : name := [100%N].
Definition file0 : @smap name (fentry N) :=
  [(na, FE true 3 (Some 30) None); (nb, FE true 2 None None); (nc, FE true 0 (Some 31) None); (nd, FE true 4 (Some 32) (Some 33))].
Example C10_ex_file_db : fc_db file0 = [(na, (3, 30)); (nd, (4, 33))].
Proof. vm_compute. reflexivity. Qed.
Example C10_ex_file_sorted : sorted file0.
Proof. repeat constructor; intros k' v' H; cbn in H; intuition (try congruence); match goal with H : _ = (k', v') |- _ => injection H as <- _ end; reflexivity. Qed.
Definition wf0 : world N := WORLD (file_script file0) false None (fun _ l => l) 0%Z 0.
Example C10_ex_file_fails :
  new_store (CFG true true [na; nb] false false 0) None wf0 5 = OFail 0 [EvReq na 0 0 (Some (3, 30)); EvReq nb 0 0 None].
Proof. vm_compute. reflexivity. Qed.
Example C10_ex_file_ok :
  exists s, new_store (CFG true true [nd; na] false false 0) None wf0 5
            = OOk s 0 [EvReq na 0 0 (Some (3, 30)); EvReq nd 0 0 (Some (4, 33))] [].
Proof. eexists. vm_compute. reflexivity. Qed.

(* a secret whose value is the EMPTY byte string is a perfectly valid cache entry (the server accepts empty values, the
   store caches and serves them): with V := byte strings, a complete cache holding version 3 of `a` with value []
   is valid, and NewStore returns at once - no request, no write - serving [] even though the service is down *)
Definition cache_empty : @smap name (rentry (list N)) := [(na, Some (Some (3, []), 7%Z))].
Example C10_ex_empty_value_valid : cache_valid cache_empty = true.
Proof. vm_compute. reflexivity. Qed.
Example C10_ex_empty_value_served :
  new_store (CFG true false [na] false true 0) (Some cache_empty)
            (WORLD (fun _ _ => ANS 0 None) true (Some 5000) (fun _ l => l) 0%Z 0) 5
  = OOk (ST [(na, Some (CE 3 [] 7%Z true))] [] [] false 0%Z) 0 [] [].
Proof. vm_compute. reflexivity. Qed.
