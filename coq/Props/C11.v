(* C11 - a successful poll brings every known secret to the server's active version.
   Statements only; the model is Client/Poll.v (built on Client/Store.v), proofs in Client/PollProofs.v.

   Reading guide.  A `world` is (store, service, poll in flight).  A poll window is
   `ERefresh now :: mid ++ [EEnd]`: the snapshot, then ANY sequence `mid` of request answers (in
   any order - the order is whatever Go's map iteration produced), service changes, handles taken,
   handles read, lookups, further Refresh calls (coalesced), then the end of the poll.  `mid` is
   universally quantified, so every interleaving and every failure script is covered.  "The poll
   succeeded" is `In (ORes true) (outputs of the EEnd step)`: some Refresh caller got nil. *)
From Coq Require Import List Bool NArith ZArith.
Import ListNotations.
From Setec Require Import Base.SMap Client.Store Client.StoreInv Client.Poll Client.PollProofs.

Section C11.
Variable V : Type.

(* FRESHNESS.  After a successful poll every name known before it either was flagged expired by
   the snapshot (no handle, undeclared, unread for longer than the expiry age: it is dropped, or
   kept as it was if a handle appeared meanwhile - covered from the next poll on), or was requested
   at an instant within the poll and now carries the version and bytes that were active on the
   service AT THAT INSTANT - or its version equals the active one and the store kept its bytes
   (the protocol judges freshness by version number). *)
Theorem C11_fresh : forall (w0 : world V) now mid,
  Inv (wst w0) -> wfl w0 = None -> no_end mid ->
  let wk := run_w w0 (ERefresh now :: mid) in
  In (ORes true) (snd (step wk EEnd)) ->
  forall n ver0 b0, vv (wst w0) n = Some (ver0, b0) ->
    let r := vv (wst (fst (step wk EEnd))) n in
    (flagged (wst w0) now n = true /\ (r = None \/ r = Some (ver0, b0)))
    \/ (exists mid1 fail full mid2 v b,
          mid = mid1 ++ EReq n fail full :: mid2 /\
          find n (srv_after (wsv w0) mid1) = Some (v, b) /\
          (r = Some (v, b) \/ (v = ver0 /\ r = Some (ver0, b0)))).
Proof. exact (@poll_fresh V). Qed.

(* ... and under the protocol's premise that a version number determines the bytes, the store
   holds EXACTLY (version, bytes) active on the service at the instant of that name's request. *)
Theorem C11_fresh_exact : forall (w0 : world V) now mid,
  Inv (wst w0) -> wfl w0 = None -> no_end mid ->
  let wk := run_w w0 (ERefresh now :: mid) in
  In (ORes true) (snd (step wk EEnd)) ->
  forall n ver0 b0, vv (wst w0) n = Some (ver0, b0) -> flagged (wst w0) now n = false ->
    (forall mid1 f u mid2 b, mid = mid1 ++ EReq n f u :: mid2 ->
        find n (srv_after (wsv w0) mid1) = Some (ver0, b) -> b = b0) ->
    exists mid1 fail full mid2,
      mid = mid1 ++ EReq n fail full :: mid2 /\
      find n (srv_after (wsv w0) mid1) <> None /\
      vv (wst (fst (step wk EEnd))) n = find n (srv_after (wsv w0) mid1).
Proof. exact (@poll_fresh_exact V). Qed.

(* `srv_after` really is the service component of the world after those events *)
Theorem C11_instant : forall (mid : list (event V)) (w : world V) fl, wfl w = Some fl -> no_end mid -> Inv (wst w) ->
  wsv (run_w w mid) = srv_after (wsv w) mid.
Proof. exact (@run_mid_srv V). Qed.

(* a successful poll requested every live name of its snapshot (in some order) ... *)
Theorem C11_requests_all : forall (w0 : world V) now mid,
  Inv (wst w0) -> wfl w0 = None -> no_end mid ->
  In (ORes true) (snd (step (run_w w0 (ERefresh now :: mid)) EEnd)) ->
  forall n, In n (map fst (requests (snapshot (wst w0) now))) -> exists f u, In (EReq n f u) mid.
Proof. exact (@success_requests_all V). Qed.

(* ... and a name with a handle is always among them, however long it has not been read (F3) *)
Theorem C11_handle_requested : forall (s : store V) now n,
  Inv s -> has_handle s n = true -> known s n = true -> In n (map fst (requests (snapshot s now))).
Proof. exact (@handle_requested V). Qed.

(* CACHE.  The end of a successful poll writes the document of the whole new state, once - or
   nothing at all when nothing changed (then the store is unchanged too) ... *)
Theorem C11_flush : forall w : world V, In (ORes true) (snd (step w EEnd)) ->
  (exists k, snd (step w EEnd) = OFlush (doc (wst (fst (step w EEnd)))) :: repeat (ORes true) k)
  \/ (wst (fst (step w EEnd)) = wst w /\ forall d, ~ In (OFlush d) (snd (step w EEnd))).
Proof. exact (@poll_flush V). Qed.

(* ... so that along EVERY history the cache holds, for every name, the version and bytes the
   store yields (c = cache contents before the run, agreeing with the store) - as long as no
   Cache.Write fails (`EEndF`, below). *)
Theorem C11_cache_exact : forall evs (w : world V) c, (forall e, In e evs -> e <> EEndF) ->
  Inv (wst w) -> (forall n, doc_vv c n = vv (wst w) n) ->
  forall n, doc_vv (cache_after c (concat (snd (run w evs)))) n = vv (wst (fst (run w evs))) n.
Proof. exact (@cache_tracks V). Qed.

(* ... and EVERY Cache.Write, by whatever step of whatever history, carries the document of the
   store state at that write (the write is part of the locked step that changed the state), so
   writes and installs are totally ordered: the last document written is never older than an
   install that preceded it. *)
Theorem C11_writes_are_state_docs : forall (w : world V) e d, In (OFlush d) (snd (step w e)) ->
  d = doc (wst (fst (step w e))).
Proof. exact (@writes_are_state_docs V). Qed.

Theorem C11_writes_in_history : forall (w : world V) evs1 e d, In (OFlush d) (snd (step (run_w w evs1) e)) ->
  d = doc (wst (run_w w (evs1 ++ [e]))).
Proof. exact (@writes_in_history V). Qed.

(* A FAILING Cache.Write.  The outcome of the write of applyUpdates is an input (`EEndF` = the
   end of a poll whose write, if one is attempted, fails).  It does not influence the store: the
   world after EEndF is the world after EEnd, so every statement above about the store after a poll
   holds for it.  What a non-nil Refresh result then means: either no write was attempted and the
   outputs are those of EEnd (an error = the poll failed, nothing applied, C11_all_or_nothing), or
   the poll SUCCEEDED and installed everything, its write - the document of that new state - failed
   (nothing reaches the cache), and every caller still waiting gets an error (store.go:299-301
   returns applyUpdates' error although the values were installed). *)
Theorem C11_write_failure : forall w : world V,
  fst (step w EEndF) = fst (step w EEnd) /\
  ((snd (step w EEndF) = snd (step w EEnd) /\ forall d, ~ In (OFlush d) (snd (step w EEnd)))
   \/ (snd (step w EEndF) = map (@failw V) (snd (step w EEnd)) /\
       exists d, In (OFlush d) (snd (step w EEnd)) /\ d = doc (wst (fst (step w EEnd))) /\
                 forall b, In (ORes b) (snd (step w EEnd)) -> b = true)).
Proof. exact (@write_failure_meaning V). Qed.

Theorem C11_failed_write_doc : forall (w : world V) d,
  In (OFlushF d) (snd (step w EEndF)) -> d = doc (wst (fst (step w EEndF))).
Proof. exact (@failed_write_doc V). Qed.

(* FAILURE.  If any caller of a poll got an error, the store is exactly what it was and nothing
   was written: every secret still yields the (really served) value it yielded before. *)
Theorem C11_all_or_nothing : forall w : world V, In (ORes false) (snd (step w EEnd)) ->
  wst (fst (step w EEnd)) = wst w /\ (forall d, ~ In (OFlush d) (snd (step w EEnd))).
Proof. exact (@poll_all_or_nothing V). Qed.

(* one failed request for a live name (scripted failure, or the name gone from the service at that
   instant) fails the whole poll for every caller, at whatever position it occurs *)
Theorem C11_failure : forall (w0 : world V) now mid mid1 n f u mid2 e,
  Inv (wst w0) -> wfl w0 = None -> no_end mid ->
  entry (wst w0) n = Some e -> flagged (wst w0) now n = false ->
  mid = mid1 ++ EReq n f u :: mid2 -> (forall f' u', ~ In (EReq n f' u') mid1) ->
  (f = true \/ find n (srv_after (wsv w0) mid1) = None) ->
  let wk := run_w w0 (ERefresh now :: mid) in
  wst (fst (step wk EEnd)) = wst wk /\ exists k, snd (step wk EEnd) = repeat (ORes false) k.
Proof. exact (@poll_failure V). Qed.

(* CONTEXTS.  Every Refresh caller has its own context; the LEADER's context governs the poll's
   requests (the flight function captures it, store.go:291-295).  Callers of a flight are numbered
   in order of arrival, 0 = leader; `ECancel k` = the context of caller k ends.  `mid` in all the
   theorems above ranges over lists that may contain such events at any place.

   If the leader's context ends while some live name has not been requested yet, the poll fails for
   everybody still waiting - whatever happens afterwards (more requests, joiners arriving, service
   changes) - and nothing is applied. *)
Theorem C11_leader_cancelled : forall (w0 : world V) now mid mid1 mid2 n e,
  Inv (wst w0) -> wfl w0 = None -> no_end mid ->
  entry (wst w0) n = Some e -> flagged (wst w0) now n = false ->
  mid = mid1 ++ ECancel 0 :: mid2 -> (forall f' u', ~ In (EReq n f' u') mid1) ->
  let wk := run_w w0 (ERefresh now :: mid) in
  wst (fst (step wk EEnd)) = wst wk /\ exists k, snd (step wk EEnd) = repeat (ORes false) k.
Proof. exact (@poll_cancelled V). Qed.

(* a caller whose context ends returns its context error at once (if it is still waiting) and
   disturbs nothing: store, service, snapshot, collected answers, number of callers *)
Theorem C11_cancel_inert : forall (w : world V) k,
  wst (fst (step w (ECancel k))) = wst w /\ wsv (fst (step w (ECancel k))) = wsv w /\
  (snd (step w (ECancel k)) = [] \/ snd (step w (ECancel k)) = [OCtx]) /\
  match wfl w, wfl (fst (step w (ECancel k))) with
  | Some fl, Some fl' => fsnap fl' = fsnap fl /\ finst fl' = finst fl /\ fjoin fl' = fjoin fl
  | None, None => True
  | _, _ => False
  end.
Proof. exact (@cancel_inert V). Qed.

(* every caller still waiting at the end of a poll gets ONE verdict, computed by `finish` from the
   answers collected: an error comes with an untouched store and no write, so - with C11_fresh,
   which describes the store after a nil - no caller (leader or joiner, whoever was cancelled
   meanwhile) is told success by a poll that applied only part of what it collected *)
Theorem C11_one_verdict : forall (w : world V) fl, wfl w = Some fl ->
  exists fx ok, snd (step w EEnd) = flush_out fx ++ repeat (ORes ok) (waiting fl) /\
                finish (wst w) fl = (wst (fst (step w EEnd)), fx, ok) /\
                (ok = false -> wst (fst (step w EEnd)) = wst w /\ fx = []).
Proof. exact (@one_verdict V). Qed.

(* CONVERGENCE.  A later poll against a quiescent service that serves every known name succeeds
   and leaves exactly the service's active (version, bytes) in the store, for every name. *)
Theorem C11_converges : forall (s : store V) now sv order,
  Inv s ->
  (forall n, In n (map fst (requests (snapshot s now))) -> In n order) ->
  (forall n, known s n = true -> find n sv <> None) ->
  (forall n v b b0, find n sv = Some (v, b) -> vv s n = Some (v, b0) -> b = b0) ->
  let wk := run_w (WD s sv None) (ERefresh now :: map (fun n => EReq n false false) order) in
  (exists fx, snd (step wk EEnd) = flush_out fx ++ [ORes true]) /\
  wfl (fst (step wk EEnd)) = None /\
  forall n x, vv (wst (fst (step wk EEnd))) n = Some x -> find n sv = Some x.
Proof. exact (@poll_converges V). Qed.

(* the invariant assumed above holds in every reachable world *)
Theorem C11_reachable_Inv : forall evs (w : world V), Inv (wst w) -> Inv (wst (run_w w evs)).
Proof. exact (@reachable_Inv V). Qed.

(* COALESCING.  A Refresh arriving while a poll is in flight emits nothing (no request), touches
   neither store, service, snapshot nor the answers collected; at the end the leader and all
   joiners receive one and the same result.  Requests are emitted by request events only. *)
Theorem C11_coalesced : forall (st : store V) sv fl now,
  step (WD st sv (Some fl)) (ERefresh now) = (WD st sv (Some (FL (fsnap fl) (finst fl) (S (fjoin fl)) (fgone fl))), [])
  /\ exists fx ok, snd (step (WD st sv (Some fl)) EEnd) = flush_out fx ++ repeat (ORes ok) (waiting fl).
Proof. exact (@coalesced V). Qed.

Theorem C11_requests_only_from_reqs : forall (w : world V) e old r, In (OReq old r) (snd (step w e)) ->
  exists n f u, e = EReq n f u.
Proof. exact (@requests_only_from_reqs V). Qed.

End C11.

(* CADENCE.  interval + rand.Intn(2*interval/10) - interval/10 lies within +/-10% of the interval,
   for every interval and every draw (Go's truncating division; over Z, no bound) ... *)
Theorem C11_jitter : forall i r : Z, (0 <= r < jitter_bound i)%Z -> (9 * i <= 10 * period i r <= 11 * i)%Z.
Proof. exact jitter_bounds. Qed.

(* ... and the monitor evaluated on measured tick times is sound: it accepts only a constant
   period that such a draw can produce. *)
Theorem C11_cadence_monitor : forall (i t0 : Z) l, cadence_ok i t0 l = true ->
  exists r, (0 <= r < jitter_bound i)%Z /\ (9 * i <= 10 * period i r <= 11 * i)%Z /\
            forall k, (k < length l)%nat -> nth k l 0%Z = tick t0 (period i r) k.
Proof. exact cadence_sound. Qed.

(* POLLS THAT TAKE TIME.  With time.Ticker semantics (fixed grid, one buffered tick, Done a no-op)
   and every poll shorter than the period, the k-th poll starts at t0 + k*period exactly, whatever
   the durations ... *)
Theorem C11_cadence_regular : forall (t0 p : Z) ds, (0 < p)%Z -> (forall d, In d ds -> (0 <= d < p)%Z) ->
  forall k, (k <= length ds)%nat -> nth k (starts t0 p ds) 0%Z = tick t0 p k.
Proof. exact starts_regular. Qed.

(* ... and the monitor evaluated on observed (start, end) instants of consecutive polls accepts
   only: an admissible period, start instants exactly those of such a loop for the observed
   durations (a poll longer than the period is followed immediately by the next one), hence on the
   grid t0 + k*period, one period apart, while the polls are shorter than the period. *)
Theorem C11_cadence_slow_monitor : forall (i t0 : Z) l, cadence2_ok i t0 l = true ->
  exists r, (0 <= r < jitter_bound i)%Z /\ (9 * i <= 10 * period i r <= 11 * i)%Z /\
    match l with
    | [] => False
    | (s1, e1) :: rest =>
      map fst l = starts t0 (period i r) (durs_init s1 e1 rest) /\
      ((forall d, In d (durs_init s1 e1 rest) -> (0 <= d < period i r)%Z) ->
       forall k, (k < length l)%nat -> nth k (map fst l) 0%Z = tick t0 (period i r) k)
    end.
Proof. exact cadence2_sound. Qed.

Print Assumptions C11_fresh.
Print Assumptions C11_writes_are_state_docs.
Print Assumptions C11_write_failure.
Print Assumptions C11_failed_write_doc.
Print Assumptions C11_writes_in_history.
Print Assumptions C11_cadence_regular.
Print Assumptions C11_cadence_slow_monitor.
Print Assumptions C11_fresh_exact.
Print Assumptions C11_instant.
Print Assumptions C11_requests_all.
Print Assumptions C11_handle_requested.
Print Assumptions C11_flush.
Print Assumptions C11_cache_exact.
Print Assumptions C11_all_or_nothing.
Print Assumptions C11_failure.
Print Assumptions C11_leader_cancelled.
Print Assumptions C11_cancel_inert.
Print Assumptions C11_one_verdict.
Print Assumptions C11_converges.
Print Assumptions C11_reachable_Inv.
Print Assumptions C11_coalesced.
Print Assumptions C11_requests_only_from_reqs.
Print Assumptions C11_jitter.
Print Assumptions C11_cadence_monitor.

(* ---- non-vacuity: a concrete store (tokens as values), a service that changes DURING the poll *)
Local Open Scope N_scope.
Definition ex_a : name := [97]. Definition ex_b : name := [98]. Definition ex_u : name := [117].
Definition ex_sv : server N := [(ex_a, (1, 10)); (ex_b, (1, 20)); (ex_u, (3, 30))].
Definition ex_w0 : world N :=
  fst (construct [ex_b; ex_a] (Some [(ex_u, Some (Some (2, 31), 0%Z))]) ex_sv 946684800%Z true 60000000000%Z).
(* b gets version 2 after a's request and before its own; u (undeclared, cached, never read) is dropped *)
Definition ex_mid : list (event N) := [EReq ex_a false false; ESrv (SSet ex_b 2 21); ERefresh 5%Z; EReq ex_b false false].
Definition ex_wk := run_w ex_w0 (ERefresh 946684900000000000%Z :: ex_mid).

Example ex_hyp : wfl ex_w0 = None /\ snd (step ex_wk EEnd) =
  [OFlush [(ex_a, Some (1, 10, 946684800%Z)); (ex_b, Some (2, 21, 946684800%Z))]; ORes true; ORes true].
Proof. vm_compute. split; reflexivity. Qed.
Example ex_fresh : vv (wst (fst (step ex_wk EEnd))) ex_b = Some (2, 21)
                   /\ vv (wst (fst (step ex_wk EEnd))) ex_u = None /\ vv (wst ex_w0) ex_u = Some (2, 31).
Proof. vm_compute. repeat split; reflexivity. Qed.
(* a failure at the second position: nothing applied although b's update had been collected *)
Example ex_fail : let wk := run_w ex_w0 [ERefresh 946684900000000000%Z; ESrv (SSet ex_b 2 21); EReq ex_b false false; EReq ex_a true false] in
  snd (step wk EEnd) = [ORes false] /\ wst (fst (step wk EEnd)) = wst ex_w0.
Proof. vm_compute. split; reflexivity. Qed.
(* the leader's context ends after a's request (b's update is pending): the leader gets its context
   error at once, b's request then fails, the joiner gets the poll error, nothing is applied *)
Example ex_cancel : let '(wk, outs) := run ex_w0 [ERefresh 946684900000000000%Z; ESrv (SSet ex_b 2 21); ERefresh 5%Z;
                                                  EReq ex_a false false; ECancel 0; EReq ex_b false false] in
  outs = [[]; []; []; [OReq (Some 1) RNotChanged]; [OCtx]; [OReq (Some 1) RErr]] /\
  snd (step wk EEnd) = [ORes false] /\ wst (fst (step wk EEnd)) = wst ex_w0.
Proof. vm_compute. repeat split; reflexivity. Qed.
(* a JOINER's context ends: it alone gets its context error, the poll goes on and succeeds *)
Example ex_cancel_joiner : let '(wk, outs) := run ex_w0 [ERefresh 946684900000000000%Z; ESrv (SSet ex_b 2 21); ERefresh 5%Z;
                                                         ECancel 1; EReq ex_a false false; EReq ex_b false false] in
  nth 3 outs [] = [OCtx] /\ In (ORes true) (snd (step wk EEnd)) /\ length (snd (step wk EEnd)) = 2%nat /\
  vv (wst (fst (step wk EEnd))) ex_b = Some (2, 21).
Proof. vm_compute. repeat split; auto. Qed.
(* the cadence monitor: accepts 1h-4.2min spacing, rejects a +50% period and an uneven one *)
Example ex_cad_ok : cadence_ok 3600 0 [3400; 6800; 10200]%Z = true. Proof. reflexivity. Qed.
Example ex_cad_bad1 : cadence_ok 3600 0 [5400; 10800]%Z = false. Proof. reflexivity. Qed.
Example ex_cad_bad2 : cadence_ok 3600 0 [3400; 6800; 10300]%Z = false. Proof. reflexivity. Qed.
Example ex_jitter : period_ok 15 14 = true /\ period_ok 15 17 = false. Proof. split; reflexivity. Qed.

(* slow polls: period 3400 for interval 3600; polls lasting 1200, 30, 4000 (longer than a period:
   the next poll starts the moment it ends, the one after is back on the grid) *)
Example ex_cad2_ok : cadence2_ok 3600 0 [(3400, 4600); (6800, 6830); (10200, 14200); (14200, 14300); (17000, 17001)]%Z = true.
Proof. reflexivity. Qed.
(* a ticker re-armed after each poll: the gap is period + duration *)
Example ex_cad2_rearmed : cadence2_ok 3600 0 [(3400, 4600); (8000, 8030)]%Z = false. Proof. reflexivity. Qed.
Example ex_starts : starts 0 3400 [1200; 30; 4000; 100]%Z = [3400; 6800; 10200; 14200; 17000]%Z. Proof. reflexivity. Qed.

(* the write of a successful poll fails: b IS installed, both callers get an error, nothing reaches the cache *)
Example ex_write_fails : snd (step ex_wk EEndF) =
    [OFlushF [(ex_a, Some (1, 10, 946684800%Z)); (ex_b, Some (2, 21, 946684800%Z))]; ORes false; ORes false]
  /\ vv (wst (fst (step ex_wk EEndF))) ex_b = Some (2, 21).
Proof. vm_compute. split; reflexivity. Qed.

(* The end-to-end chain (Props/Chain_Client.v: Poll.v's service = client o handler o database
   models) is built and its assumptions are checked with every C11 run. *)
From Setec Require Props.Chain_Client.
Print Assumptions Chain_Client.chain_answer.
Print Assumptions Chain_Client.chain_answer_any.
Print Assumptions Chain_Client.chain_denied.
Print Assumptions Chain_Client.chain_denied_poll.
Print Assumptions Chain_Client.chain_srv_step.
Print Assumptions Chain_Client.chain_fresh.
Print Assumptions Chain_Client.chain_fresh_exact_partial.
Print Assumptions Chain_Client.chain_translate.
Print Assumptions Chain_Client.chain_conditional_silent.
Print Assumptions Chain_Client.chain_not_changed_is_silent.
