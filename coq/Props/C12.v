(* C12 - a Secret handle always yields a complete, really-served value, never blocking.
   Statements only; model Client/Readers.v (on Client/Store.v), proofs Client/ReadersProofs.v.

   A run is ANY list of events (Readers.rvt) from ANY state satisfying `Good` (the basic store
   invariant + ghost bookkeeping; `C12_start`: every store satisfying Inv, with its start-up values
   as the first installs, is such a state).  Every event is one locked step of store.go; requests
   to the service are separate begin/end events with no lock held in between, so "a read between
   the begin and the end of a request" is just a read in a reachable state.
   PARTIAL: torn values and data races are runtime facts the model (mutex-atomic steps) cannot
   exhibit; they are tested (race detector, checksummed values) - see docs/C12.md. *)
From Coq Require Import List Bool NArith ZArith PeanoNat.
Import ListNotations.
From Setec Require Import Base.SMap Client.Store Client.StoreInv Client.Readers Client.ReadersProofs.

Section C12.
Variable V : Type.

Theorem C12_start : forall s : store V, Inv s -> Good (rinit s).
Proof. exact (@rinit_Good V). Qed.

(* never panics (1): a handle never dangles - through polls, expiry marks, lookups (successful or
   failed), Close - in every reachable state *)
Theorem C12_handles_never_dangle : forall (x : rstate V) evs n,
  Good x -> In n (hs (rst (rrun x evs))) -> find n (m (rst (rrun x evs))) <> None.
Proof. exact (@never_dangle V). Qed.

(* never panics (2) / never waits: the read step of a handle handed out at any time is enabled in
   EVERY later state, whatever requests are in flight (a read is one locked step; no request
   event is part of it) *)
Theorem C12_read_enabled : forall (x : rstate V) evs n now,
  Good x -> In n (hs (rst x)) -> snd (read (rst (rrun x evs)) n now) <> None.
Proof. exact (@read_always_enabled V). Qed.

Theorem C12_secret_hands_out : forall (s : store V) n, known s n = true -> In n (hs (fst (secret s n))).
Proof. exact (@secret_gives_handle V). Qed.
(* the locked part of a lookup flight (Store.lookup_finish, the code after the F8 repair) hands out a
   handle in EVERY state - whether it installs the answer or finds the name valued by now *)
Theorem C12_lookup_hands_out : forall (s : store V) n v b t, In n (hs (fst (lookup_finish s n v b t))).
Proof. exact (@lookup_gives_handle V). Qed.

(* VLookupEnd is a separate event from VLookupBegin, i.e. a late flight; when the name has a value by
   then nothing is installed: install list, map (what every handle serves) and read log unchanged *)
Theorem C12_lookup_end_on_known : forall (x : rstate V) n v b t e, entry (rst x) n = Some e ->
  rinst (rstep x (VLookupEnd n v b t)) = rinst x /\ m (rst (rstep x (VLookupEnd n v b t))) = m (rst x) /\
  rlog (rstep x (VLookupEnd n v b t)) = rlog x.
Proof. exact (@lookup_end_on_known V). Qed.

(* a read is ONE step: it appends one log entry whose value is the latest install for that name
   and touches no install *)
Theorem C12_read_one_step : forall (x : rstate V) r n now, Good x -> In n (hs (rst x)) ->
  exists v, rlog (rstep x (VRead r n now)) = rlog x ++ [RD r n v (length (rinst x))] /\
            latest n (rinst x) = Some v /\ rinst (rstep x (VRead r n now)) = rinst x.
Proof. exact (@read_returns_latest V). Qed.

(* the three read clauses, for all event sequences:
   served     - every read returns a value installed for THAT name (start-up value, lookup, poll apply);
   after      - no install of that name completed before the read is missed: that value or a newer one;
   monotone   - per reader and name, later reads return the same or a later install. *)
Theorem C12_reads : forall (x : rstate V) evs, Good x -> reads_spec (rinst (rrun x evs)) (rlog (rrun x evs)).
Proof. exact (@model_reads V). Qed.

(* the ghost-threaded apply step is Store.v's applyUpdates on the store component *)
Theorem C12_apply_is_store_apply : forall ups (s : store V) inst,
  fst (fold_left (@apply1g V) ups (s, inst)) = fold_left (@apply1 V) ups s.
Proof. exact (@fold_apply1g_fst V). Qed.

(* the monitor evaluated by the kernel on recorded logs is sound for the three clauses *)
Theorem C12_monitor_sound : forall (veqb : V -> V -> bool), (forall a b, veqb a b = true -> a = b) ->
  forall installs log, reads_ok veqb installs log = true -> reads_spec installs log.
Proof. exact (@monitor_sound V). Qed.

(* WATCHERS.  applyUpdates notifies the watchers of a name while it holds the store lock.  In the
   model `notify` is a total function of the state - there is nothing it could wait for - and a
   pending notification absorbs further ones: so a poll's locked step is enabled whatever the
   watchers' owners do (never drain, drain rarely), and with it every later handle call, Secret,
   LookupSecret, Refresh and Close (C12_read_enabled quantifies over such runs: VPollApply carries
   the notifications). *)
Theorem C12_notify_idempotent : forall (s : store V) n, notify n (notify n s) = notify n s.
Proof. exact (@notify_idem V). Qed.

Theorem C12_notify_spec : forall (s : store V) n,
  m (notify n s) = m s /\ hs (notify n s) = hs s /\ length (ws (notify n s)) = length (ws s) /\
  forall i w, nth_error (ws s) i = Some w ->
    nth_error (ws (notify n s)) i = Some (if neqb (wname w) n then W (wname w) true else w).
Proof. exact (@notify_spec V). Qed.

(* level trigger: after ANY positive number of undrained notifications one take finds the flag
   set and the next finds it clear *)
Theorem C12_notify_then_take : forall (s : store V) n i w k, nth_error (ws s) i = Some w -> wname w = n ->
  let s1 := Nat.iter (S k) (notify n) s in
  snd (ready_take s1 i) = true /\ snd (ready_take (fst (ready_take s1 i)) i) = false.
Proof. exact (@notify_then_take V). Qed.

End C12.

Print Assumptions C12_start.
Print Assumptions C12_handles_never_dangle.
Print Assumptions C12_read_enabled.
Print Assumptions C12_secret_hands_out.
Print Assumptions C12_lookup_hands_out.
Print Assumptions C12_lookup_end_on_known.
Print Assumptions C12_read_one_step.
Print Assumptions C12_reads.
Print Assumptions C12_apply_is_store_apply.
Print Assumptions C12_monitor_sound.
Print Assumptions C12_notify_idempotent.
Print Assumptions C12_notify_spec.
Print Assumptions C12_notify_then_take.

(* ---- non-vacuity *)
Local Open Scope N_scope.
Definition xa : name := [97]. Definition xb : name := [98]. Definition xc : name := [99].
Definition x_s0 : store N :=
  ST [(xa, Some (CE 1 10 0%Z true)); (xb, Some (CE 1 20 0%Z false))] [] [] true 5%Z.
Definition x_evs : list (rvt N) :=
  [VSecret xa; VSecret xb; VRead 0 xa 1%Z; VPollBegin 100%Z; VLookupBegin xc; VRead 1 xb 1%Z; VPollReq xa;
   VPollApply [(xa, Install 2 11); (xb, Drop)]; VRead 0 xa 2%Z; VLookupEnd xc 7 30 2%Z; VRead 1 xc 3%Z; VRead 1 xb 3%Z;
   VClose; VRead 0 xa 9%Z].
Example x_run : rinst (rrun (rinit x_s0) x_evs) = [(xa, 10); (xb, 20); (xa, 11); (xc, 30)]
  /\ map (fun y => (N.of_nat (rd_reader y), rd_val y, N.of_nat (rd_pos y))) (rlog (rrun (rinit x_s0) x_evs))
     = [(0, 10, 2); (1, 20, 2); (0, 11, 3); (1, 30, 4); (1, 20, 4); (0, 11, 4)].
Proof. vm_compute. split; reflexivity. Qed.
(* the expiry mark on b was skipped because b has a handle: b is still readable *)
Example x_monitor_accepts :
  reads_ok N.eqb (rinst (rrun (rinit x_s0) x_evs)) (rlog (rrun (rinit x_s0) x_evs)) = true.
Proof. vm_compute. reflexivity. Qed.
(* bad logs are rejected: a reader going back to an older install; another name's value; a torn
   (never served) value; a read that misses an install completed before it began *)
Definition x_inst : list (name * N) := [(xa, 10); (xb, 20); (xa, 11)].
Example x_bad_order : reads_ok N.eqb x_inst [RD 0 xa 11 0; RD 0 xa 10 0] = false. Proof. reflexivity. Qed.
Example x_ok_other_reader : reads_ok N.eqb x_inst [RD 0 xa 11 0; RD 1 xa 10 0] = true. Proof. reflexivity. Qed.
Example x_bad_foreign : reads_ok N.eqb x_inst [RD 0 xa 20 0] = false. Proof. reflexivity. Qed.
Example x_bad_torn : reads_ok N.eqb x_inst [RD 0 xa 999 0] = false. Proof. reflexivity. Qed.
Example x_bad_missed : reads_ok N.eqb x_inst [RD 0 xa 10 3] = false. Proof. reflexivity. Qed.
Example x_ok_not_missed : reads_ok N.eqb x_inst [RD 0 xa 10 2; RD 0 xa 11 3] = true. Proof. reflexivity. Qed.
(* a late flight (F8): a second lookup of c whose answer (version 8, bytes 31) arrives after the first
   one installed (7, 30): nothing is installed, readers keep getting 30, the monitor accepts *)
Definition x_evs_late : list (rvt N) :=
  [VLookupBegin xc; VLookupBegin xc; VLookupEnd xc 7 30 2%Z; VRead 1 xc 3%Z; VLookupEnd xc 8 31 4%Z; VRead 1 xc 5%Z; VRead 2 xc 5%Z].
Example x_late_flight :
  rinst (rrun (rinit x_s0) x_evs_late) = [(xa, 10); (xb, 20); (xc, 30)]
  /\ map (fun y => (N.of_nat (rd_reader y), rd_val y, N.of_nat (rd_pos y))) (rlog (rrun (rinit x_s0) x_evs_late))
     = [(1, 30, 3); (1, 30, 3); (2, 30, 3)]
  /\ reads_ok N.eqb (rinst (rrun (rinit x_s0) x_evs_late)) (rlog (rrun (rinit x_s0) x_evs_late)) = true.
Proof. vm_compute. repeat split. Qed.
(* the service re-activates an older version: the same value occurs twice in the install list *)
Definition x_inst2 : list (name * N) := [(xa, 10); (xa, 11); (xb, 20); (xa, 10)].
Example x_rollback_ok : reads_ok N.eqb x_inst2 [RD 0 xa 10 1; RD 0 xa 11 2; RD 0 xa 10 4; RD 1 xa 10 0] = true. Proof. reflexivity. Qed.
(* a handle that keeps returning the WITHDRAWN 11 after the roll-back (install 3) has completed *)
Example x_rollback_stale : reads_ok N.eqb x_inst2 [RD 0 xa 11 2; RD 0 xa 11 4] = false. Proof. reflexivity. Qed.
(* back and forth once more than the installs allow *)
Example x_rollback_too_many : reads_ok N.eqb x_inst2 [RD 0 xa 10 0; RD 0 xa 11 0; RD 0 xa 10 0; RD 0 xa 11 0] = false. Proof. reflexivity. Qed.
Example x_assign : assign N.eqb x_inst2 [RD 0 xa 10 1; RD 0 xa 11 2; RD 0 xa 10 4; RD 1 xa 10 0] = [0; 1; 3; 0]%nat. Proof. reflexivity. Qed.

(* the watcher run: two undrained notifications, then a take that finds the flag, then one that does not *)
Example x_watch_ok : watch_ok N xa [WN; WN; WN; WT true; WT false; WN; WT true] = true. Proof. reflexivity. Qed.
Example x_watch_queued : watch_ok N xa [WN; WN; WT true; WT true] = false. Proof. reflexivity. Qed.     (* notifications queued *)
Example x_watch_dropped : watch_ok N xa [WN; WT false] = false. Proof. reflexivity. Qed.                 (* notification lost *)
Example x_watch_spurious : watch_ok N xa [WT true] = false. Proof. reflexivity. Qed.
