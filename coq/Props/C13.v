(* C13 - placeholder while the pipeline is brought up *)
From Coq Require Import List Bool NArith ZArith.
Import ListNotations.
From Setec Require Import Base.SMap Client.Store Client.CacheDoc Client.CacheHist Client.CacheFile.

Theorem C13_trace_example : atomic_write_ok [FOpen 1 true true true false 384; FWrite 1; FChmod 1 384; FSync 1; FClose 1; FRename 1 0] = true.
Proof. vm_compute. reflexivity. Qed.
Print Assumptions C13_trace_example.
