(* C13 - local cache persists the active set faithfully and tolerates loss or corruption.
   Statements only; proofs are in Client/CacheDocProofs.v and Client/CacheHistProofs.v.
   Models: Client/Store.v (shared locked steps of store.go), Client/CacheHist.v (the store as a
   machine over caller-visible events with its cache writes as effects), Client/CacheDoc.v (the
   cache document at the level of parsed JSON trees: encoder, typed decoder, file client),
   Client/CacheFile.v (shape of one FileCache.Write as seen by strace). *)
From Coq Require Import List Bool NArith ZArith.
Import ListNotations.
From Setec Require Import Base.SMap Client.Store Client.StoreInv Client.CacheDoc Client.CacheDocProofs
                          Client.CacheHist Client.CacheHistProofs Client.CacheInitProofs Client.CacheFile.

Section C13.
(* base64 (encoding/base64.StdEncoding) enters only through its round-trip law *)
Variable b64enc : bytes -> bytes.
Variable b64dec : bytes -> option bytes.
Hypothesis b64_round : forall b, b64dec (b64enc b) = Some b.

(* ---- "the cache is rewritten as one complete document holding every known secret's latest
   version and bytes": ROUND TRIP.  The document written for a state decodes (by the typed
   decoder NewStore uses) to exactly that state's names, versions, bytes and access stamps -
   empty values, any byte content and stubs included - provided stamps fit int64 and versions
   uint32 (the Go field types). *)
Theorem C13_round_trip : forall s : store bytes, sorted (m s) -> in_range (m s) ->
  decode_cache b64dec (encode_cache b64enc (doc s)) = Some (rents (m s)).
Proof. exact (decode_encode_doc b64enc b64dec b64_round). Qed.

(* such a document is a valid cache (so it is not discarded) *)
Theorem C13_own_document_valid : forall s : store bytes, good s -> cache_valid (rents (m s)) = true.
Proof. intros s [[S NS H] R NE]. exact (cache_valid_rents NS NE S). Qed.

(* ---- CONSTRUCTION.  Whatever tree the cache content parses to, the decoder only yields canonical
   maps whose versions fit uint32 and stamps int64; the store NewStore builds from it (or from no
   cache), with a service whose versions fit uint32, is a good state - so the all-histories
   theorems below apply from the first event on; and when construction writes nothing (every
   declared name was cached) the cache content already decodes to exactly the constructed state,
   i.e. to what `encode_cache (doc s)` decodes to (C13_round_trip), and nothing was requested. *)
Theorem C13_decoder_output_fits : forall j d, decode_cache b64dec j = Some d -> sorted d /\ rrange d.
Proof. exact (decode_ok b64dec). Qed.

Theorem C13_construction_good : forall (c : cache_input) names allow_lookup age ans now (s : store bytes) fx reqs,
  new_store (match c with Some (Some j) => decode_cache b64dec j | _ => None end) names allow_lookup age ans now = Some (s, fx, reqs) ->
  (forall n v b, ans n = Some (v, b) -> u32 v) -> i64 now -> good s.
Proof.
  intros c names al age ans now s fx reqs H UA Tn. eapply new_store_good; eauto.
  intros d E. destruct c as [[j|]|]; try discriminate. eapply decode_ok; eauto.
Qed.

Theorem C13_unwritten_cache_is_state : forall j d names allow_lookup age ans now (s : store bytes) reqs,
  decode_cache b64dec j = Some d -> cache_valid d = true ->
  new_store (Some d) names allow_lookup age ans now = Some (s, [], reqs) ->
  rents (m s) = d /\ reqs = [].
Proof.
  intros j d names al age ans now s reqs D CV H. eapply unwritten_cache_is_state; eauto.
  destruct (decode_ok b64dec j D). auto.
Qed.

(* ---- FLUSH POINTS.  Every event either writes nothing and changes nothing but access stamps,
   or writes the document of the WHOLE resulting state (never a part, never the old state). *)
Theorem C13_flush_is_whole_state : forall (s : store bytes) e s' fx r,
  sorted (m s) -> step s e = (s', fx, r) ->
  (fx = [] /\ nostamp (doc s') = nostamp (doc s)) \/ fx = [Flush (doc s')].
Proof. exact (@step_flush_or_stamps bytes). Qed.

(* after initial fetches: construction that requested anything from the service writes the whole state *)
Theorem C13_flush_after_init : forall c names allow_lookup age ans now (s : store bytes) fx reqs,
  new_store c names allow_lookup age ans now = Some (s, fx, reqs) -> reqs <> [] -> fx = [Flush (doc s)].
Proof. intros. eapply init_fetch_flushes; eauto. apply load_cache_no_stubs. Qed.

(* after a successful lookup of an unknown name *)
Theorem C13_flush_after_lookup : forall (s : store bytes) n v b now s' fx r,
  known s n = false -> allow s = true -> step s (ELookup n (Some (v, b)) now) = (s', fx, r) ->
  fx = [Flush (doc s')] /\ served (m s') n = Some (v, b) /\ r = RLookup true true.
Proof. exact (@lookup_flushes bytes). Qed.

(* after an applied poll (and ONLY then: a failed or empty poll changes nothing and writes nothing) *)
Theorem C13_flush_after_poll : forall (s : store bytes) now ans s' fx r,
  step s (EPoll now ans) = (s', fx, r) ->
  match poll (snapshot s now) (fun n _ => assoc_resp ans n) with
  | Some (_ :: _) => fx = [Flush (doc s')]
  | _ => fx = [] /\ s' = s
  end.
Proof. exact (@poll_flushes bytes). Qed.

(* at poller shutdown *)
Theorem C13_flush_at_shutdown : forall s : store bytes,
  step_alive true s EClose = (s, [Flush (doc s)], RClose, false).
Proof. exact (@close_flushes bytes). Qed.

(* ---- CONCURRENT CALLERS.  Each call's install and its Cache.Write happen inside ONE critical
   section of the store's mutex (store.go: lookup 400-414, applyUpdates 606-639, shutdown 585-590),
   so every concurrent execution is a run of locked steps in the order in which the lock was
   taken, and the cache receives the documents in that same order.  Along ANY such run: every
   document written is the document of the state right after the step that wrote it (writes are
   totally ordered with the installs; no write can carry an older state than an earlier write),
   and the LAST document written differs from the final state in access stamps only - in
   particular it holds every secret installed by any of the calls. *)
Theorem C13_writes_are_state_docs : forall (es : list (ev bytes)) (s : store bytes) alive, Inv s ->
  Forall (fun x : store bytes * list (effect bytes) => snd x = [] \/ snd x = [Flush (doc (fst x))]) (run_trace s alive es).
Proof. exact (@writes_are_state_docs bytes). Qed.

Theorem C13_last_write_is_final_state : forall (es : list (ev bytes)) (s : store bytes) alive d0, Inv s ->
  nostamp d0 = nostamp (doc s) ->
  nostamp (List.last (writes_of (run_trace s alive es)) d0) = nostamp (doc (final_of s (run_trace s alive es))).
Proof. exact (@last_write_is_final_state bytes). Qed.

(* ---- SLOW WRITES.  Cache.Write is called synchronously inside the locked step, and the step ends
   only when it has returned: the n-th document to LAND in the cache is the n-th document OFFERED
   (C13_writes_are_state_docs is about the offered ones), however long a write takes.  Hence,
   writes succeeding, the cache content at rest after any run is the LAST document offered; with
   C13_last_write_is_final_state it differs from the final state in access stamps only. *)
Theorem C13_writes_land_in_order : forall (es : list (ev bytes)) (h : hstate bytes),
  pers (hrun h (map (fun e => (e, true)) es))
  = List.last (map (@Some _) (writes_of (run_trace (hst h) (polling h) es))) (pers h).
Proof. exact (@content_is_last_offered bytes). Qed.

(* ---- ALL HISTORIES.  With a cache whose writes succeed, after every sequence of lookups, reads,
   polls and Close whose inputs fit the Go field types, the cache content is the document of a
   good state that differs from the CURRENT state in access stamps only. *)
Theorem C13_cache_tracks_state : forall (es : list (ev bytes)) (h0 : hstate bytes),
  good (hst h0) -> clean good h0 -> Forall ev_ok es ->
  good (hst (hrun h0 (map (fun e => (e, true)) es))) /\ clean good (hrun h0 (map (fun e => (e, true)) es)).
Proof. exact history_clean. Qed.

(* ---- RESTART.  "a new store started from it with the service unreachable serves exactly those
   values": constructed from the document of a good state with every declared name in it, the
   store makes NO request (empty request list - the service's answers `ans` are irrelevant),
   writes nothing, and serves exactly the same version and bytes for every name. *)
Theorem C13_restart_same : forall (s0 : store bytes) names allow_lookup age ans now,
  good s0 -> names_ok (norm_names names) allow_lookup = true ->
  (forall n, In n names -> known s0 n = true) ->
  exists s2, new_store (decode_cache b64dec (encode_cache b64enc (doc s0))) names allow_lookup age ans now = Some (s2, [], [])
             /\ forall n, served (m s2) n = served (m s0) n.
Proof. exact (restart_same b64enc b64dec b64_round). Qed.

(* ... and after any history: restarting from whatever the cache holds yields what the running
   store serves at that moment *)
Theorem C13_restart_after_history : forall (es : list (ev bytes)) (h0 : hstate bytes) d names allow_lookup age ans now,
  good (hst h0) -> clean good h0 -> Forall ev_ok es ->
  let h := hrun h0 (map (fun e => (e, true)) es) in
  pers h = Some d ->
  names_ok (norm_names names) allow_lookup = true ->
  (forall n, In n names -> known (hst h) n = true) ->
  exists s2, new_store (decode_cache b64dec (encode_cache b64enc d)) names allow_lookup age ans now = Some (s2, [], [])
             /\ forall n, served (m s2) n = served (m (hst h)) n.
Proof.
  intros es h0 d names al age ans now G C F h P NO K.
  destruct (@history_clean es h0 G C F) as [_ C'].
  exact (@restart_from_persisted b64enc b64dec b64_round h d names al age ans now C' P NO K).
Qed.

(* ---- A FAILED START IN BETWEEN.  Run 1 leaves a cache (content d, the document of a good state up
   to stamps).  A later start that cannot obtain every declared name - whatever names it declares,
   whatever the service answers for some of them - performs no cache write, so the content is
   still d; and the start after that (run 1's names, any or no service) serves exactly what run 1
   served, with an empty request list. *)
Theorem C13_failed_start_keeps_cache : forall (h : hstate bytes) d names2 al2 age2 ans2 now2 names al age ans now,
  clean good h -> pers h = Some d ->
  new_store (decode_cache b64dec (encode_cache b64enc d)) names2 al2 age2 ans2 now2 = None ->
  names_ok (norm_names names) al = true ->
  (forall n, In n names -> known (hst h) n = true) ->
  persist (pers h) (start_fx (decode_cache b64dec (encode_cache b64enc d)) names2 al2 age2 ans2 now2) true = Some d
  /\ exists s3, new_store (decode_cache b64dec (encode_cache b64enc d)) names al age ans now = Some (s3, [], [])
                /\ forall n, served (m s3) n = served (m (hst h)) n.
Proof.
  intros h d names2 al2 age2 ans2 now2 names al age ans now C P F NO K. split.
  - unfold start_fx. rewrite F. cbn. exact P.
  - exact (@restart_from_persisted b64enc b64dec b64_round h d names al age ans now C P NO K).
Qed.

(* ---- FILE CLIENT.  "the same file is accepted by the file-backed client with identical results
   for every non-empty secret": on a store-written document NewFileClient succeeds and knows
   exactly the entries with version > 0 and non-empty bytes, with the store's version and bytes
   (so Get / GetIfChanged answer as the store's state dictates; empty-valued or version-0 entries
   and the empty name are skipped). *)
Theorem C13_fileclient_accepts : forall s : store bytes, sorted (m s) -> in_range (m s) ->
  exists raw, fc_raw b64dec (encode_cache b64enc (doc s)) = Some raw.
Proof.
  intros s S R. rewrite doc_is_map. rewrite (fc_raw_encode b64enc b64dec b64_round S R). eexists. reflexivity.
Qed.

Theorem C13_fileclient_agrees : forall (s : store bytes) raw n,
  sorted (m s) -> in_range (m s) ->
  fc_raw b64dec (encode_cache b64enc (doc s)) = Some raw ->
  fc_lookup raw n =
  match n, find n (m s) with
  | [], _ => None
  | _, Some (Some e) => if (ver e =? 0)%N || is_nil (val e) then None else Some (ver e, val e)
  | _, _ => None
  end.
Proof. exact (fc_agrees b64enc b64dec b64_round). Qed.

(* ---- BAD CACHE.  "a cache that is not a well-formed document of the documented shape is ignored
   as a whole": if the content is absent, does not parse, does not decode, or decodes to a set
   with an empty name / null entry / null secret, construction is EXACTLY construction without
   a cache (nothing of it is used; values are fetched from the service; no failure is introduced). *)
Theorem C13_bad_cache_ignored : forall (c : cache_input) names allow_lookup age ans now,
  usable b64dec c = None ->
  new_store (match c with Some (Some j) => decode_cache b64dec j | _ => None end) names allow_lookup age ans now
  = new_store None names allow_lookup age ans now.
Proof. exact (bad_cache_ignored b64dec). Qed.

End C13.

Print Assumptions C13_round_trip.
Print Assumptions C13_own_document_valid.
Print Assumptions C13_decoder_output_fits.
Print Assumptions C13_construction_good.
Print Assumptions C13_unwritten_cache_is_state.
Print Assumptions C13_flush_is_whole_state.
Print Assumptions C13_flush_after_init.
Print Assumptions C13_flush_after_lookup.
Print Assumptions C13_flush_after_poll.
Print Assumptions C13_flush_at_shutdown.
Print Assumptions C13_writes_are_state_docs.
Print Assumptions C13_last_write_is_final_state.
Print Assumptions C13_writes_land_in_order.
Print Assumptions C13_cache_tracks_state.
Print Assumptions C13_restart_same.
Print Assumptions C13_restart_after_history.
Print Assumptions C13_failed_start_keeps_cache.
Print Assumptions C13_fileclient_accepts.
Print Assumptions C13_fileclient_agrees.
Print Assumptions C13_bad_cache_ignored.

(* ---- "The file cache is replaced atomically with owner-only permissions (a crash or write error
   leaves the old or the new document)": the file-system model and the verified monitor of C04
   (Server/FS.v, FSProofs.v) instantiated for the cache file with real bytes.  The correspondence run
   evaluates [atomic_replace_ok] on the system calls of a real FileCache.Write (case CFs of Run_C13.v);
   for EVERY trace the monitor accepts and EVERY kill point - between two calls or inside one, after
   any prefix of a write - the cache path holds exactly the old document (or nothing, if there was
   none) or exactly the new one; what is visible there is always fully flushed and mode 0600; and the
   only call that touches the cache path is the final rename. *)
From Setec Require Server.FSMap Server.FS Server.FSProofs.

Theorem C13_filecache_crash_atomic : forall (old : option (list N)) (new : list N) (tr : list (Setec.Server.FS.op N)),
  Setec.Server.FS.atomic_replace_ok N.eqb old new tr = true ->
  forall s, Setec.Server.FSProofs.crash_state (Setec.Server.FS.init old) tr s ->
  Setec.Server.FS.read s Setec.Server.FS.Live = old \/ Setec.Server.FS.read s Setec.Server.FS.Live = Some new.
Proof. exact (@Setec.Server.FSProofs.monitor_crash_atomic N N.eqb N.eqb_eq). Qed.

Theorem C13_filecache_flushed_owner_only : forall old new (tr : list (Setec.Server.FS.op N)),
  Setec.Server.FS.atomic_replace_ok N.eqb old new tr = true ->
  forall s, Setec.Server.FSProofs.crash_state (Setec.Server.FS.init old) tr s ->
  forall f, Setec.Server.FSMap.afind Setec.Server.FS.Live (Setec.Server.FS.d s) = Some f ->
  Setec.Server.FS.stable f = Setec.Server.FS.data f /\ Setec.Server.FS.mode f = 384%N.
Proof. exact (@Setec.Server.FSProofs.monitor_flushed_before_visible N N.eqb N.eqb_eq). Qed.

Print Assumptions C13_filecache_crash_atomic.
Print Assumptions C13_filecache_flushed_owner_only.

(* the trace of a real FileCache.Write (as recorded) is accepted; writing in place is not *)
Example ex_fs_cache_good : Setec.Server.FS.atomic_replace_ok N.eqb (Some [9%N]) [1; 2; 3]%N
  [@Setec.Server.FS.Stat N Setec.Server.FS.Live; @Setec.Server.FS.CreateExcl N 0%N (Setec.Server.FS.Tmp 0%N) 384%N;
   @Setec.Server.FS.Write N 0%N [1; 2; 3]%N; @Setec.Server.FS.Chmod N 0%N 384%N; @Setec.Server.FS.Fsync N 0%N; @Setec.Server.FS.Close N 0%N;
   @Setec.Server.FS.Stat N Setec.Server.FS.Live; @Setec.Server.FS.Rename N (Setec.Server.FS.Tmp 0%N) Setec.Server.FS.Live] = true.
Proof. vm_compute. reflexivity. Qed.
Example ex_fs_cache_in_place : Setec.Server.FS.atomic_replace_ok N.eqb (Some [9%N]) [1; 2; 3]%N
  [@Setec.Server.FS.OpenW N 0%N Setec.Server.FS.Live true; @Setec.Server.FS.Write N 0%N [1; 2; 3]%N; @Setec.Server.FS.Close N 0%N] = false.
Proof. vm_compute. reflexivity. Qed.

(* ---- non-vacuity and monitor examples (a toy base64: identity, which satisfies the law) *)
Definition ex_store : store bytes :=
  ST [([97], Some (CE 3 [1; 2] 1700000000 true)); ([98; 47; 99], Some (CE 1 [] (-5) false))]%N [[97]]%N [] true 0.

Example ex_good : Inv ex_store /\ in_range (m ex_store) /\ find [] (m ex_store) = None.
Proof.
  split; [|split].
  - constructor.
    + apply s_cons. { intros k' v' [E|[]]. inversion E. reflexivity. }
      apply s_cons. { intros k' v' []. } apply s_nil.
    + intros n. cbn. destruct (lcmp n [97%N]); [discriminate| |]; destruct (lcmp n [98; 47; 99]%N); discriminate.
    + intros n [<-|[]]. cbn. discriminate.
  - intros n e [E|[E|[]]]; inversion E; subst; split; cbn; unfold max_i64, max_u32; cbn; intuition discriminate.
  - reflexivity.
Qed.

(* the round trip and the restart computed on that state: two entries, one empty-valued, one negative stamp *)
Example ex_round_trip :
  decode_cache (fun s => Some s) (encode_cache (fun b => b) (doc ex_store)) = Some (rents (m ex_store)).
Proof. vm_compute. reflexivity. Qed.

Example ex_restart :
  option_map (fun '(s2, fx, reqs) => (map (served (m s2)) [[97]; [98; 47; 99]; [100]]%N, fx, reqs))
             (new_store (decode_cache (fun s => Some s) (encode_cache (fun b => b) (doc ex_store))) [[97]]%N false 0 (fun _ => None) 5)
  = Some ([Some (3, [1; 2]); Some (1, []); None]%N, [], []).
Proof. vm_compute. reflexivity. Qed.

(* two lookups of different names: in either serialization the last document holds BOTH names;
   "stale document last" (the first lookup's document after the second's) is the write sequence of NO run *)
Definition ex_l1 : ev bytes := ELookup [120]%N (Some (1%N, [7%N])) 9%Z.
Definition ex_l2 : ev bytes := ELookup [121]%N (Some (2%N, [8%N])) 9%Z.
Example ex_two_lookups :
  let w12 := writes_of (run_trace ex_store true [ex_l1; ex_l2]) in
  let w21 := writes_of (run_trace ex_store true [ex_l2; ex_l1]) in
  map (@fst name _) (List.last w12 []) = [[97]; [98; 47; 99]; [120]; [121]]%N
  /\ List.last w12 [] = List.last w21 []
  /\ w12 <> rev w21 /\ w21 <> rev w12 /\ rev w12 <> w21.
Proof. vm_compute. repeat split; discriminate. Qed.

(* the file client skips the empty-valued entry and serves the other *)
Example ex_fileclient :
  option_map (fun raw => (fc_get raw [97]%N, fc_get raw [98; 47; 99]%N, fc_get_if_changed raw [97]%N 3))
             (fc_raw (fun s => Some s) (encode_cache (fun b => b) (doc ex_store)))
  = Some (FCValue 3 [1; 2]%N, FCNotFound, FCNotChanged).
Proof. vm_compute. reflexivity. Qed.

(* whole-document discard: one good entry next to a null entry -> nothing is used *)
Example ex_partial_not_used :
  start_map (fun s => Some s)
            (Some (Some (JObj [([97]%N, enc_entry (fun b => b) (Some (3%N, [1%N], 7%Z))); ([98]%N, JNull)]))) = [].
Proof. vm_compute. reflexivity. Qed.

(* lastAccess must be a quoted integer: a bare number makes the whole document undecodable *)
Example ex_numeric_last_access_rejected :
  decode_cache (fun s => Some s)
    (JObj [([97]%N, JObj [(k_secret, enc_secret (fun b => b) 3 [1%N]); (k_lastAccess, JNum (NInt 7))])]) = None.
Proof. vm_compute. reflexivity. Qed.

(* JSON null decodes to the empty set (the F7 repair), an array does not decode *)
Example ex_null_document : decode_cache (fun s => Some s) JNull = Some [] /\ decode_cache (fun s => Some s) (JArr []) = None.
Proof. vm_compute. auto. Qed.

(* the trace monitor accepts the shape of atomicfile.WriteFile and rejects: writing the live file in
   place, a 0644 temporary, a missing fsync, a rename before the data is complete *)
Example ex_trace_good :
  atomic_write_ok [FOpen 1 true true true false 384; FWrite 1; FChmod 1 384; FSync 1; FClose 1; FRename 1 0] = true.
Proof. vm_compute. reflexivity. Qed.
Example ex_trace_in_place : atomic_write_ok [FOpen 0 true true false true 384; FWrite 0; FClose 0] = false.
Proof. vm_compute. reflexivity. Qed.
Example ex_trace_0644 :
  atomic_write_ok [FOpen 1 true true true false 420; FWrite 1; FSync 1; FClose 1; FRename 1 0] = false.
Proof. vm_compute. reflexivity. Qed.
Example ex_trace_no_fsync : atomic_write_ok [FOpen 1 true true true false 384; FWrite 1; FClose 1; FRename 1 0] = false.
Proof. vm_compute. reflexivity. Qed.
Example ex_trace_rename_early :
  atomic_write_ok [FOpen 1 true true true false 384; FRename 1 0; FWrite 1; FSync 1; FClose 1] = false.
Proof. vm_compute. reflexivity. Qed.
Example ex_trace_failed_write_touching_live : failed_write_ok [FOpen 0 true false false true 0; FWrite 0] = false.
Proof. vm_compute. reflexivity. Qed.
