(* C14 - concurrent requests are linearizable against the sequential specification.
   Statements only.  PARTIAL with respect to the Go code: the theorems are about (a) the
   checker that decides every recorded history in the kernel and (b) the one-mutex design as
   an atomic-step machine; that db.go HAS this design and is free of data races is tested
   (recorded histories of real goroutines, race detector), see docs/C14.md. *)
From Coq Require Import List Bool NArith Permutation.
Import ListNotations.
From Setec Require Import Base.SMap Base.Bytes Acl.Glob Server.KV Server.DB Server.Lin Server.LinProofs
     Server.LinDB Server.LinDBProofs Server.KVProofs Corr.Common Corr.Run_DB Corr.Run_C14.
Open Scope N_scope.

Section C14.
Variables (St Op Res Obs : Type).
Variable step : St -> Op -> St * Res.        (* ANY sequential specification *)
Variable accept : Res -> Obs -> bool.        (* what a caller can see of a result *)

(* The verified monitor: the decision procedure answers true exactly when the recorded calls
   can be put in ONE order that is a permutation of them, respects real time, explains every
   response by the specification run in that order, and ends in a state accepted by [fin]
   (the final dump) - sound and complete, for histories of any size. *)
Theorem C14_check_sound_complete : forall (fin : St -> bool) s h,
  lin_check step accept fin s h = true <->
  exists l, Permutation l h /\ rt_ok l /\ legal step accept s l /\ fin (final step s l) = true.
Proof. exact (@lin_check_iff St Op Res Obs step accept). Qed.

(* In a linearization every response is the specification's in the state left by the calls
   ordered before it ("a get never pairs one version's number with another's bytes, a list
   never shows a half-applied change": the specification's get and list do not) ... *)
Theorem C14_response_explained : forall P s h l l1 c l2,
  linearization step accept P s h l -> l = l1 ++ c :: l2 ->
  accept (snd (step (final step s l1) (cop c))) (cres c) = true.
Proof. exact (@linearization_response St Op Res Obs step accept). Qed.

(* ... and a call that returned before another was invoked is never ordered after it *)
Theorem C14_real_time_respected : forall P s h l l1 c l2 d,
  linearization step accept P s h l -> l = l1 ++ c :: l2 -> In d l2 -> before d c = false.
Proof. exact (@linearization_real_time St Op Res Obs step accept). Qed.

(* The design theorem: in ANY execution (any number of clients, any interleaving) in which
   every call takes effect in one atomic step on the shared state between its invocation and
   its response and returns the result computed in that step, the calls in the order of
   their steps are a linearization of the recorded history, and the shared state at the end
   is the specification's after that order. *)
Theorem C14_atomic_steps_linearizable : forall (view : Res -> Obs),
  (forall r, accept r (view r) = true) ->
  forall s0 tr m h,
  mrun step (minit Op Res s0) tr = Some m -> complete m ->
  Permutation h (history_of view m) ->
  linearization step accept (fun s => s = m_sh m) s0 h (history_of view m).
Proof. exact (@atomic_steps_linearizable St Op Res Obs step accept). Qed.
End C14.

Print Assumptions C14_check_sound_complete.
Print Assumptions C14_response_explained.
Print Assumptions C14_real_time_respected.
Print Assumptions C14_atomic_steps_linearizable.

(* ---- for the database model: what bin/check evaluates ---- *)
Theorem C14_db_check_sound_complete : forall cs d0 g0 live disk g h,
  Run_C14.check (LCase cs d0 g0 h live disk g) = true <->
  exists l, Permutation l h /\ rt_ok l /\ legal (lin_db_step cs) result_beq (state_of_dump d0 g0) l
            /\ fin_ok live disk g (final (lin_db_step cs) (state_of_dump d0 g0) l) = true.
Proof. intros cs d0 g0 live disk g h. exact (db_lin_check_iff cs (state_of_dump d0 g0) live disk g h). Qed.
Print Assumptions C14_db_check_sound_complete.

(* no false alarm on the one-mutex design over the database model *)
Theorem C14_db_design_accepted : forall cs d0 g0 tr m h,
  mrun (lin_db_step cs) (minit lop (result V) (state_of_dump d0 g0)) tr = Some m -> complete m ->
  Permutation h (history_of (fun r => r) m) ->
  Run_C14.check (LCase cs d0 g0 h (live_of (kv (m_sh m))) (disk_of (kv (m_sh m))) (gen (m_sh m))) = true.
Proof. intros cs d0 g0. exact (db_design_accepted cs (state_of_dump d0 g0)). Qed.
Print Assumptions C14_db_design_accepted.

(* histories may contain calls made while a save is REFUSED (state directory unreachable):
   the specification step of such a call leaves the store and the write generation as they
   were - so every later read, by whatever client and of whatever kind, is explained by the
   state BEFORE the refused call (state kept outside the rolled-back map must not show) *)
Theorem C14_refused_save_changes_nothing : forall cs (s : dbstate V) c o s' r,
  Inv (kv s) -> lin_db_step cs s (c, false, o) = (s', r) -> kv s' = kv s /\ gen s' = gen s.
Proof. exact lin_db_step_refused. Qed.
Print Assumptions C14_refused_save_changes_nothing.

(* ---- non-vacuity ---- *)
Definition su : caller := Cl 1 [Rl [AGet; AInfo; APut; AActivate; ADelete] [[x2a]]].
Definition nA : name := [x61].

(* two overlapping puts of different values, a get overlapping both: accepted, and the
   final state is the one after put 1; put 2 *)
Example good_history_accepted :
  Run_C14.check (LCase [su] [] 1
    [LC 1 4 0 (OPut nA 1) (RVer 1); LC 2 6 0 (OPut nA 2) (RVer 2); LC 3 5 0 (OGet nA) (RVal 1 1)]
    [(nA, [(1,1);(2,2)], 1)] [(nA, [(1,1);(2,2)], 1, 2)] 3) = true.
Proof. vm_compute. reflexivity. Qed.

(* two puts of different values answered with the same version: rejected *)
Example same_version_twice_rejected :
  Run_C14.check (LCase [su] [] 1
    [LC 1 4 0 (OPut nA 1) (RVer 1); LC 2 6 0 (OPut nA 2) (RVer 1)]
    [(nA, [(1,2)], 1)] [(nA, [(1,2)], 1, 1)] 2) = false.
Proof. vm_compute. reflexivity. Qed.

(* a get pairing version 1's number with version 2's bytes: rejected *)
Example torn_get_rejected :
  Run_C14.check (LCase [su] [] 1
    [LC 1 2 0 (OPut nA 1) (RVer 1); LC 3 4 0 (OPut nA 2) (RVer 2);
     LC 5 8 0 (OActivate nA 2) ROk; LC 6 7 0 (OGet nA) (RVal 1 2)]
    [(nA, [(1,1);(2,2)], 2)] [(nA, [(1,1);(2,2)], 2, 2)] 4) = false.
Proof. vm_compute. reflexivity. Qed.

(* a stale read AFTER the write had returned: every response is explainable by some order,
   but not by one that respects real time: rejected *)
Example stale_read_rejected :
  Run_C14.check (LCase [su] [] 1
    [LC 1 2 0 (OPut nA 1) (RVer 1); LC 3 4 0 (OGet nA) RNotFound]
    [(nA, [(1,1)], 1)] [(nA, [(1,1)], 1, 1)] 2) = false.
Proof. vm_compute. reflexivity. Qed.

(* all responses fine but the file at the end lost the second put (a save that overtook
   another): rejected by the final-state part *)
Example lost_save_rejected :
  Run_C14.check (LCase [su] [] 1
    [LC 1 4 0 (OPut nA 1) (RVer 1); LC 2 6 0 (OPut nA 2) (RVer 2)]
    [(nA, [(1,1);(2,2)], 1)] [(nA, [(1,1)], 1, 1)] 3) = false.
Proof. vm_compute. reflexivity. Qed.

(* a later segment of a run: it starts from the dump taken at the quiescent point (secret a
   with versions 1,2, active 1, counter 2, generation 3); a delete-version of 2 overlapping an
   activate of 2 - both succeeding is impossible in any order *)
Example segment_accepted :
  Run_C14.check (LCase [su] [(nA, [(1,1);(2,2)], 1, 2)] 3
    [LC 11 14 0 (ODelVer nA 2) ROk; LC 12 13 0 (OActivate nA 2) RNotFound]
    [(nA, [(1,1)], 1)] [(nA, [(1,1)], 1, 2)] 4) = true.
Proof. vm_compute. reflexivity. Qed.
Example active_version_deleted_rejected :
  Run_C14.check (LCase [su] [(nA, [(1,1);(2,2)], 1, 2)] 3
    [LC 11 14 0 (ODelVer nA 2) ROk; LC 12 13 0 (OActivate nA 2) ROk]
    [(nA, [(1,1)], 2)] [(nA, [(1,1)], 2, 2)] 5) = false.
Proof. vm_compute. reflexivity. Qed.

(* the machine: two clients, interleaved; the hypotheses of the design theorem are met *)
Definition demo_trace : list (event lop) :=
  [EInv 0 (0%nat, true, OPut nA 1); EInv 1 (0%nat, true, OPut nA 2); ELin 1; EInv 2 (0%nat, true, OGet nA); ELin 0; ERet 1; ELin 2; ERet 2; ERet 0].
Example machine_runs :
  match mrun (lin_db_step [su]) (minit lop (result V) (state_of_dump [] 1)) demo_trace with
  | Some m => Nat.eqb (length (m_lin m)) 3 && forallb (fun r => has (l_id r) (m_rets m)) (m_lin m)
              && Run_C14.check (LCase [su] [] 1 (history_of (fun r => r) m) (live_of (kv (m_sh m))) (disk_of (kv (m_sh m))) (gen (m_sh m)))
  | None => false
  end = true.
Proof. vm_compute. reflexivity. Qed.

(* a trace in which a call returns before its step is not an execution of the design *)
Example not_an_execution :
  mrun (lin_db_step [su]) (minit lop (result V) (state_of_dump [] 1)) [EInv 0 (0%nat, true, OPut nA 1); ERet 0] = None.
Proof. vm_compute. reflexivity. Qed.

(* a refused activate of the existing, non-active version 2, then a conditional get with
   version 2: the active version is still 1, so its value must be delivered ... *)
Example refused_activate_then_poll_accepted :
  Run_C14.check (LCase [su] [(nA, [(1,1);(2,2)], 1, 2)] 3
    [LCf 21 22 0 (OActivate nA 2) ROther; LC 23 26 0 (OGetCond nA 2) (RVal 1 1); LC 24 25 0 (OGet nA) (RVal 1 1)]
    [(nA, [(1,1);(2,2)], 1)] [(nA, [(1,1);(2,2)], 1, 2)] 3) = true.
Proof. vm_compute. reflexivity. Qed.
(* ... "not changed" (a side table of active versions that was not undone) is rejected *)
Example stale_side_table_rejected :
  Run_C14.check (LCase [su] [(nA, [(1,1);(2,2)], 1, 2)] 3
    [LCf 21 22 0 (OActivate nA 2) ROther; LC 23 26 0 (OGetCond nA 2) RNotChanged; LC 24 25 0 (OGet nA) (RVal 1 1)]
    [(nA, [(1,1);(2,2)], 1)] [(nA, [(1,1);(2,2)], 1, 2)] 3) = false.
Proof. vm_compute. reflexivity. Qed.
(* a refused delete after which the secret is reported missing: rejected; a refused call
   that needed no save (activate of the active version) answers normally: accepted *)
Example refused_delete_then_missing_rejected :
  Run_C14.check (LCase [su] [(nA, [(1,1)], 1, 1)] 2
    [LCf 21 22 0 (ODel nA) ROther; LC 23 24 0 (OGet nA) RNotFound]
    [(nA, [(1,1)], 1)] [(nA, [(1,1)], 1, 1)] 2) = false
  /\ Run_C14.check (LCase [su] [(nA, [(1,1)], 1, 1)] 2
    [LCf 21 22 0 (OActivate nA 1) ROk; LC 23 24 0 (OGet nA) (RVal 1 1)]
    [(nA, [(1,1)], 1)] [(nA, [(1,1)], 1, 1)] 2) = true.
Proof. vm_compute. auto. Qed.
