(* C15 - updaters and watchers never miss the latest secret value.
   Statements only; every proof is [exact <lemma of Client/UpdaterProofs.v>].
   The model (Client/Updater.v) runs on the shared store model Client/Store.v; all theorems hold for
   every value type V, every state satisfying the invariant UInv - which every state reachable from
   a store without watchers does (C15_init, C15_reachable) - and every sequence of events
   (installs by polls, lookups, LATE lookup flights, registrations, first reads, builder returns, Get
   begin/end, Err) of any number of updaters on any secrets, i.e. every interleaving at the
   granularity of the store lock and of u.mu.

   Lookups: the unknown-name check of LookupSecret / lookupWatcher and the locked part of the flight
   are NOT assumed to be one step any more.  The event [ELate n ans now] is the locked part of a
   flight (store.go:400-414, Store.lookup_finish = the code after the F8 repair 104da0c) finishing in
   ANY state, with any service answer; every theorem below quantifies over event lists that may
   contain it anywhere.  C15_late_flight_keeps / C15_late_flight_on_watched say what the repair buys;
   ex_f8_legacy_refuted shows the invariant's conclusion failing for the unrepaired step.

   Versions: [EApply ups flush_ok] takes ARBITRARY (version, bytes) pairs - forwards, backwards (a
   rollback at the service), repeated; "newest" is by order of installation everywhere, no theorem has a
   premise on version numbers.  Cache: flush_ok, what Cache.Write answers to applyUpdates' flush, is an
   input that decides nothing but the error Refresh reports (C15_cache_answer_irrelevant,
   C15_cache_answers_irrelevant, C15_refresh_result, C15_failed_flush_still_notifies).

   Atomicity assumptions (stated, not proved; data-race freedom is tested with -race):
   Updater.Get holds u.mu for the whole call; each store step runs under Store.active's mutex. *)
From Coq Require Import List Bool NArith ZArith Arith.
Import ListNotations.
From Setec Require Import Base.SMap Client.Store Client.StoreInv Client.Updater Client.UpdaterProofs.

Section C15.
Variable V : Type.

(* ---- reachability *)
Theorem C15_init : forall (s : store V), Inv s -> ws s = [] -> UInv (US s [] []).
Proof. exact (@init_UInv V). Qed.

Theorem C15_reachable : forall evs (s : ustate V), UInv s -> UInv (exec s evs).
Proof. exact (@exec_UInv V). Qed.

(* ---- the invariant, in the words of the property: for an updater at rest, the notification slot
   of its watcher is full EXACTLY when a new version was installed since its last Get (or its
   registration), and if the slot is empty the value was built from the newest installed bytes -
   or the last build, which failed, was given them (Err reports it). *)
Theorem C15_inv : forall (s : ustate V) i u,
  UInv s -> nth_error (us s) i = Some u -> uph u = PLive -> upend u = None ->
  flag_of (st s) i = usince u /\
  (flag_of (st s) i = true
   \/ (uerr u = false /\ ufrom u = cur (st s) (un u))
   \/ (uerr u = true /\ useen u = cur (st s) (un u))).
Proof. exact (@inv_user V). Qed.

(* ---- no lost update, coalescing, failure keeps the old value:
   let other parties do ANYTHING (evs: polls installing any number of versions of any secrets,
   other updaters being created, reading, building, Getting) as long as at least one version of this
   updater's secret is installed; x = the LAST version installed.  Then the next Get calls the
   builder exactly once, with the bytes of x; if the builder succeeds Get returns the new value,
   Err is nil, the replaced value is closed (iff T is a Closer) and nothing else is; if it fails
   Get returns the OLD value, Err reports it, nothing is closed.  (ok = true after an earlier
   failure: Err is cleared.) *)
Theorem C15_get_newest : forall (s : ustate V) i u evs x now ok,
  UInv s -> nth_error (us s) i = Some u -> uph u = PLive -> upend u = None -> quiet i evs ->
  last_install (un u) evs None = Some x ->
  let s1 := exec s evs in
  exists s2, get s1 i now ok = (s2, OVal (if ok then ucnt u else ucur u) (negb ok)) /\
    blog s2 = blog s1 ++ [(i, ucnt u, snd x, ok)] /\
    exists u', nth_error (us s2) i = Some u' /\ uph u' = PLive /\ upend u' = None /\ usince u' = false /\
      ucnt u' = S (ucnt u) /\ uerr u' = negb ok /\
      ucur u' = (if ok then ucnt u else ucur u) /\
      ufrom u' = (if ok then Some x else ufrom u) /\
      uclosed u' = (if ok then (if ucl u then ucur u :: uclosed u else uclosed u) else uclosed u).
Proof. exact (@get_newest V). Qed.

(* ---- rebuilt only if an install happened since the previous Get / the creation:
   (a) every Get that returns, like the registration, leaves "nothing installed since";
   (b) from such a state, whatever other parties do, as long as no version of this secret is
       installed the next Get returns the same value and the same Err without calling the
       builder (the builder log is unchanged) and closes nothing. *)
Theorem C15_get_resets : forall (s : ustate V) i now ok s' o, UInv s -> get s i now ok = (s', o) -> o <> OStuck ->
  exists u', nth_error (us s') i = Some u' /\ usince u' = false /\ uph u' = PLive /\ upend u' = None.
Proof. exact (@get_resets V). Qed.

Theorem C15_rebuild_only_if_installed : forall (s : ustate V) i u evs now ok,
  UInv s -> nth_error (us s) i = Some u -> uph u = PLive -> upend u = None -> usince u = false ->
  quiet i evs -> installed (un u) evs = false ->
  let s1 := exec s evs in
  exists s2, get s1 i now ok = (s2, OVal (ucur u) (uerr u)) /\ blog s2 = blog s1 /\
    exists u', nth_error (us s2) i = Some u' /\ usince u' = false /\ ucur u' = ucur u /\ ucnt u' = ucnt u /\
               uclosed u' = uclosed u /\ uerr u' = uerr u.
Proof. exact (@get_unchanged V). Qed.

(* ---- failure keeps the old value (the step itself, in any state with a build pending) *)
Theorem C15_failure_keeps_old : forall (s : ustate V) i u now x,
  UInv s -> nth_error (us s) i = Some u -> uph u = PLive -> upend u = None -> usince u = true ->
  cur (st s) (un u) = Some x ->
  exists s', get s i now false = (s', OVal (ucur u) true) /\
    exists u', nth_error (us s') i = Some u' /\ ucur u' = ucur u /\ uerr u' = true /\ uclosed u' = uclosed u /\ ufrom u' = ufrom u.
Proof.
  intros s i u now x Hs Hu P Px Sn Cx.
  destruct (@get_flag V s i u now false Hs Hu P Px Sn x Cx) as (s' & G & _ & u' & H1 & _ & _ & _ & _ & H6 & H7 & H8 & H9).
  exists s'. split; [exact G|]. exists u'. auto.
Qed.

(* ---- Close: for a live updater of a Closer type, every value it ever built successfully has
   been closed exactly once if it was replaced and never if it is the current one; only such
   values are closed; a non-Closer type sees no Close *)
Theorem C15_closed_exactly_once : forall (s : ustate V) i u,
  UInv s -> nth_error (us s) i = Some u -> uph u = PLive ->
  (ucl u = true -> forall k b, In (i, k, b, true) (blog s) ->
     count_occ Nat.eq_dec (uclosed u) k = if Nat.eqb k (ucur u) then 0 else 1) /\
  (ucl u = false -> uclosed u = []) /\
  (forall k, In k (uclosed u) -> k <> ucur u /\ exists b, In (i, k, b, true) (blog s)) /\
  (exists b, In (i, ucur u, b, true) (blog s)).
Proof. exact (@closed_once V). Qed.

(* ---- registration race: register a watcher in ANY reachable state, let anything happen before
   its first read (evs), read.  The bytes read are those of the last version installed since the
   registration, or - if none was - the ones current at registration (never older); and from then
   on, through any further events, the slot is full or the bytes last read are the current ones:
   no install is missed, because the watcher was registered (under the store lock) before it read. *)
Theorem C15_registration_race : forall (s : ustate V) n cl s1 evs now,
  UInv s -> step s (EReg n cl) = (s1, OOk) -> let i := length (us s) in quiet i evs ->
  let s2 := exec s1 evs in
  exists s3 x u3, step s2 (ERead i now) = (s3, ONone) /\
    nth_error (us s3) i = Some u3 /\ uph u3 = PInit /\ upend u3 = Some x /\ un u3 = n /\
    Some x = last_install n evs (cur (st s1) n) /\
    UInv s3 /\
    forall evs2 u4, nth_error (us (exec s3 evs2)) i = Some u4 -> reading u4 ->
      flag_of (st (exec s3 evs2)) i = true \/ useen u4 = cur (st (exec s3 evs2)) (un u4).
Proof. exact (@registration_race V). Qed.

(* ---- late flights (F8).  The locked part of a lookup flight that finishes on a name which by then
   has a value (another lookup installed it after this flight's caller found it missing) returns the
   handle and changes NOTHING else: not the map (so neither value nor version of any name), not a
   single watcher flag, no updater, no builder call.  Hence no install happens that the watchers of
   the name are not told about - the next poll brings the newer version and notifies (C15_get_newest
   with an event list containing the late flight anywhere). *)
Theorem C15_late_flight_keeps : forall (s : ustate V) n v b now e, entry (st s) n = Some e ->
  let r := step s (ELate n (Some (v, b)) now) in
  snd r = OOk /\ m (st (fst r)) = m (st s) /\ ws (st (fst r)) = ws (st s) /\
  us (fst r) = us s /\ blog (fst r) = blog s /\ In n (hs (st (fst r))).
Proof. exact (@late_keeps V). Qed.

(* every watched name has a value in every reachable state, so this covers every updater's secret *)
Theorem C15_late_flight_on_watched : forall (s : ustate V) i u v b now,
  UInv s -> nth_error (us s) i = Some u ->
  let s' := fst (step s (ELate (un u) (Some (v, b)) now)) in
  m (st s') = m (st s) /\ cur (st s') (un u) = cur (st s) (un u) /\
  (forall j, flag_of (st s') j = flag_of (st s) j) /\ us s' = us s /\ blog s' = blog s.
Proof. exact (@late_on_watched V). Qed.

(* a flight that is not overtaken is the atomic lookup step (so ELookup is a special case of ELate) *)
Theorem C15_late_is_lookup : forall (s : ustate V) n v b now, known (st s) n = false -> allow (st s) = true ->
  step s (ELate n (Some (v, b)) now) = step s (ELookup n v b now).
Proof. exact (@late_is_lookup V). Qed.

(* ---- "newest" is by ORDER OF INSTALLATION, never by version number: last_install is the last
   Install in event order, cur is whatever (version, bytes) the store holds, and no theorem above
   has a premise on version numbers.  A rollback at the service (an older, lower-numbered version
   activated again) is an install like any other: C15_get_newest with evs = [.. EApply [(n, Install 1 b1)] ..]
   gives a Get built from b1 although the updater held the build of version 2 (ex_rollback below). *)

(* ---- the cache cannot make an updater miss a version: applyUpdates installs and notifies before it
   flushes, so for ANY update list the whole state (store incl. every watcher's slot, updaters,
   builder log) after the step is the same whatever Cache.Write answers ... *)
Theorem C15_cache_answer_irrelevant : forall (s : ustate V) ups f1 f2,
  fst (step s (EApply ups f1)) = fst (step s (EApply ups f2)).
Proof. exact (@apply_state_ignores_flush V). Qed.

(* ... for whole histories too (forget_flush replaces every flush outcome by "succeeded") ... *)
Theorem C15_cache_answers_irrelevant : forall evs (s : ustate V), exec s (map (@forget_flush V) evs) = exec s evs.
Proof. exact (@exec_forget_flush V). Qed.

(* ... the answer only decides the error Refresh reports: none if nothing was to apply or the flush
   succeeded, the cache's error otherwise ... *)
Theorem C15_refresh_result : forall (s : ustate V) ups f,
  snd (step s (EApply ups f)) = (if f then OOk else match ups with [] => OOk | _ => OFail end).
Proof. exact (@apply_result V). Qed.

(* ... and a poll that installs a version of updater i's secret leaves its slot full even when the
   flush fails - so by C15_get_newest (with C15_cache_answers_irrelevant) the next Get rebuilds *)
Theorem C15_failed_flush_still_notifies : forall (s : ustate V) i u ups f, UInv s -> nth_error (us s) i = Some u ->
  has_install (un u) ups = true -> flag_of (st (fst (step s (EApply ups f)))) i = true.
Proof. exact (@apply_failed_flush_notifies V). Qed.

(* ---- a failed NewUpdater disturbs nobody (round 6): when the builder of a NewUpdater call fails, the store - every
   watcher registration and slot of every name included - and every other updater are exactly what they were; so
   every theorem above keeps applying to the other updaters of the same secret (their registrations are still
   there: C15_inv, C15_get_newest).  What the code does today with the failed call's OWN registration: nothing -
   it stays behind as a slot nobody reads (modelled: phase PDead, watcher kept). *)
Theorem C15_failed_newupdater_disturbs_nobody : forall (s : ustate V) j,
  st (fst (step s (EBuilt j false))) = st s /\
  forall i, i <> j -> nth_error (us (fst (step s (EBuilt j false)))) i = nth_error (us s) i.
Proof. exact (@failed_new_disturbs_nobody V). Qed.

End C15.

Print Assumptions C15_init.
Print Assumptions C15_failed_newupdater_disturbs_nobody.
Print Assumptions C15_reachable.
Print Assumptions C15_inv.
Print Assumptions C15_get_newest.
Print Assumptions C15_get_resets.
Print Assumptions C15_rebuild_only_if_installed.
Print Assumptions C15_failure_keeps_old.
Print Assumptions C15_closed_exactly_once.
Print Assumptions C15_registration_race.
Print Assumptions C15_late_flight_keeps.
Print Assumptions C15_late_flight_on_watched.
Print Assumptions C15_late_is_lookup.
Print Assumptions C15_cache_answer_irrelevant.
Print Assumptions C15_cache_answers_irrelevant.
Print Assumptions C15_refresh_result.
Print Assumptions C15_failed_flush_still_notifies.

(* ---- non-vacuity: a concrete history.  Secret "a" (version 1, bytes 10); two updaters on it, the
   second registered BEFORE an install and reading AFTER it (the race); three installs coalesce. *)
Open Scope N_scope.
Definition ex_a : name := [97].
Definition ex_s0 : ustate N := US (ST (upd ex_a (Some (CE 1 10 0%Z true)) []) [] [] false 0%Z) [] [].

Example ex_inv0 : Inv (st ex_s0).
Proof.
  constructor.
  - apply sorted_upd. constructor.
  - intros n. cbn [st m ex_s0]. rewrite find_upd_cases. destruct (neqb n ex_a); discriminate.
  - intros n [].
Qed.

Definition ex_evs : list (event N) :=
  [ EReg ex_a true; ERead 0 0%Z; EBuilt 0 true;          (* updater 0 built from v1 *)
    EReg ex_a true;                                        (* updater 1 registers ... *)
    EApply [(ex_a, Install 2 20)] true;                         (* ... an install slips in ... *)
    ERead 1 0%Z; EBuilt 1 true;                            (* ... it reads v2, and its slot is full *)
    EApply [(ex_a, Install 3 30)] true; EApply [(ex_a, Install 4 40)] true ].

Example ex_run :
  let s := exec ex_s0 ex_evs in
  map (fun u => (ucur u, ufrom u, usince u)) (us s) = [(0%nat, Some (1, 10), true); (0%nat, Some (2, 20), true)]
  /\ last_install ex_a (skipn 3 ex_evs) None = Some (4, 40)
  /\ snd (get s 0 0%Z true) = OVal 1 false                 (* one rebuild, from the newest bytes *)
  /\ blog (fst (get s 0 0%Z true)) = [(0%nat, 0%nat, 10, true); (1%nat, 0%nat, 20, true); (0%nat, 1%nat, 40, true)]
  /\ map (@uclosed N) (us (fst (get s 0 0%Z true))) = [[0%nat]; []]
  /\ snd (get (fst (get s 0 0%Z true)) 0 0%Z true) = OVal 1 false   (* no install since: no rebuild *)
  /\ blog (fst (get (fst (get s 0 0%Z true)) 0 0%Z true)) = blog (fst (get s 0 0%Z true))
  /\ snd (get s 1 0%Z false) = OVal 0 true                 (* builder fails: old value, Err set, nothing closed *)
  /\ map (@uclosed N) (us (fst (get s 1 0%Z false))) = [[]; []].
Proof. vm_compute. repeat split. Qed.

(* the hypotheses of C15_get_newest are met by this history *)
Example ex_premises :
  let s := exec ex_s0 (firstn 3 ex_evs) in
  UInv s /\ (exists u, nth_error (us s) 0 = Some u /\ uph u = PLive /\ upend u = None)
  /\ quiet 0 (skipn 3 ex_evs).
Proof.
  split; [apply C15_reachable, C15_init; [exact ex_inv0|reflexivity]|]. split.
  - vm_compute. eexists. repeat split.
  - intros e H. vm_compute in H. repeat (destruct H as [<-|H]; [reflexivity|]). destruct H.
Qed.

(* what goes wrong if the watcher were notified BEFORE the install (the mutant "notify, then
   install"): a Get between the two drains the slot, rebuilds from the OLD bytes, and the install
   that follows leaves slot empty and value stale - the state violates the invariant's conclusion *)
Example ex_bad_order_violates :
  let s := exec ex_s0 (firstn 3 ex_evs) in
  let s_notified := US (notify ex_a (st s)) (us s) (blog s) in                     (* notify first *)
  let s_got := fst (get s_notified 0 0%Z true) in                                   (* a Get slips in *)
  let s_inst := US (with_m (st s_got) (upd ex_a (Some (CE 2 20 0%Z true)) (m (st s_got)))) (us s_got) (blog s_got) in
  flag_of (st s_inst) 0 = false /\ option_map (@ufrom N) (nth_error (us s_inst) 0) = Some (Some (1, 10))
  /\ cur (st s_inst) ex_a = Some (2, 20).
Proof. vm_compute. repeat split. Qed.

(* ---- F8, the lost update behind the former atomicity assumption, as a history of the model.
   Store with lookups allowed, "x" unknown.  Caller A finds "x" unknown (no event: nothing changes) and
   is delayed.  B = NewUpdater("x"): complete lookup (version 1, bytes 11), registration, first read,
   builder.  The service activates version 2 (bytes 22).  A's flight now runs its locked part. *)
Definition ex_x : name := [120].
Definition ex_t0 : ustate N := US (ST (upd ex_a (Some (CE 1 10 0%Z true)) []) [] [] true 0%Z) [] [].
Definition ex_f8_prefix : list (event N) := [ ELookup ex_x 1 11 0%Z; EReg ex_x true; ERead 0 0%Z; EBuilt 0 true ].

(* UNREPAIRED step (unconditional install, nobody notified), then a poll that finds nothing changed
   (the store already holds version 2): slot empty, no error, value built from (1, 11), store serves
   (2, 22) - all three disjuncts of C15_inv's conclusion are false, and Get returns the stale value
   without calling the builder.  The legacy step is therefore NOT a step of any model satisfying C15_inv. *)
Example ex_f8_legacy_refuted :
  let s := exec ex_t0 ex_f8_prefix in
  let s_late := late_legacy s ex_x 2 22 0%Z in
  let s_poll := exec s_late [EApply [] true] in
  flag_of (st s_poll) 0 = false
  /\ option_map (fun u => (uph u, upend u, uerr u, ufrom u)) (nth_error (us s_poll) 0) = Some (PLive, None, false, Some (1, 11))
  /\ cur (st s_poll) ex_x = Some (2, 22)
  /\ snd (get s_poll 0 0%Z true) = OVal 0 false
  /\ blog (fst (get s_poll 0 0%Z true)) = [(0%nat, 0%nat, 11, true)].
Proof. vm_compute. repeat split. Qed.

(* REPAIRED step on the same history: the entry is kept (the store still serves (1, 11), which is what
   the updater's value was built from); the poll that follows installs version 2 WITH a notification,
   and the next Get rebuilds from (2, 22) - C15_get_newest at work across a late flight. *)
Example ex_f8_repaired :
  let s := exec ex_t0 ex_f8_prefix in
  let s_late := exec s [ELate ex_x (Some (2, 22)) 0%Z] in
  let s_poll := exec s_late [EApply [(ex_x, Install 2 22)] true] in
  cur (st s_late) ex_x = Some (1, 11) /\ flag_of (st s_late) 0 = false
  /\ flag_of (st s_poll) 0 = true /\ cur (st s_poll) ex_x = Some (2, 22)
  /\ snd (get s_poll 0 0%Z true) = OVal 1 false
  /\ blog (fst (get s_poll 0 0%Z true)) = [(0%nat, 0%nat, 11, true); (0%nat, 1%nat, 22, true)]
  /\ last_install ex_x [ELate ex_x (Some (2, 22)) 0%Z; EApply [(ex_x, Install 2 22)] true] None = Some (2, 22)
  /\ quiet 0 [ELate ex_x (Some (2, 22)) 0%Z; EApply [(ex_x, Install 2 22)] true].
Proof.
  vm_compute. repeat split. intros e [<-|[<-|[]]]; reflexivity.
Qed.

(* the same, literally against C15_inv: the state reached with the unrepaired step does not satisfy
   UInv (so no proof of [step_UInv] could have covered that step) *)
Example ex_f8_legacy_not_UInv :
  ~ UInv (exec (late_legacy (exec ex_t0 ex_f8_prefix) ex_x 2 22 0%Z) [EApply [] true]).
Proof.
  intros H.
  set (s := exec (late_legacy (exec ex_t0 ex_f8_prefix) ex_x 2 22 0%Z) [EApply [] true]) in *.
  assert (E : exists u, nth_error (us s) 0 = Some u) by (vm_compute; eauto).
  destruct E as (u & Hu).
  assert (F : (uph u, upend u, uerr u, ufrom u, useen u) = (PLive, None, false, Some (1, 11), Some (1, 11))
              /\ un u = ex_x /\ flag_of (st s) 0 = false /\ cur (st s) ex_x = Some (2, 22)).
  { vm_compute in Hu. injection Hu as <-. vm_compute. repeat split. }
  destruct F as (F1 & F2 & F3 & F4). injection F1 as P Px Er Fr Sn.
  destruct (C15_inv N s 0 u H Hu P Px) as (_ & [A|[(_ & A)|(A & _)]]).
  - rewrite F3 in A. discriminate.
  - rewrite F2, F4, Fr in A. discriminate.
  - rewrite Er in A. discriminate.
Qed.

(* ---- rollback and failing cache.  Updater 0 on "a" holds the build of version 1; the service goes to
   version 2, then BACK to version 1 (lower number), each installed by a poll; the second poll's cache
   write fails (Refresh reports an error).  Get rebuilds from the bytes of version 1 - the newest
   INSTALLED - and then a further rollback-free poll changes nothing. *)
Example ex_rollback :
  let s0 := exec ex_s0 (firstn 3 ex_evs) in
  let s1 := exec s0 [EApply [(ex_a, Install 2 20)] true] in
  let g1 := get s1 0 0%Z true in
  let r2 := step (fst g1) (EApply [(ex_a, Install 1 10)] false) in
  let g2 := get (fst r2) 0 0%Z true in
  snd g1 = OVal 1 false
  /\ snd r2 = OFail                                              (* Refresh reports the cache's error ... *)
  /\ flag_of (st (fst r2)) 0 = true                              (* ... the watcher was woken all the same *)
  /\ cur (st (fst r2)) ex_a = Some (1, 10)
  /\ last_install ex_a [EApply [(ex_a, Install 1 10)] false] None = Some (1, 10)
  /\ snd g2 = OVal 2 false                                       (* rebuilt from the rolled-back bytes *)
  /\ blog (fst g2) = [(0%nat, 0%nat, 10, true); (0%nat, 1%nat, 20, true); (0%nat, 2%nat, 10, true)]
  /\ snd (get (fst g2) 0 0%Z true) = OVal 2 false.
Proof. vm_compute. repeat split. Qed.

