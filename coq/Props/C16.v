(* C16 - lookup of undeclared secrets is policy-gated, single-flight and bounded.
   Statements only; every proof is [exact <lemma of Client/LookupProofs.v>].
   Part 1 is about the policy function over the shared store model Client/Store.v (any store state);
   part 2 about the timed model of one name's flight table (Client/Lookup.v): any number of callers
   with any arrival instants, deadlines and cancellation instants, any service script (answer /
   fail after any delay, hang forever), any scheduler choice [wins] of who starts a retry flight.
   [run fuel ... = Some s'] excludes only running out of fuel; C16_fuel_suffices proves that
   fuel_for callers = 4n+4 is always enough.
   The store-side effect of a successful flight is Store.lookup_finish, the code after the F8 repair
   (104da0c): install unless the name has a value by then.  C16_installed_like_any is about the
   installing flight, C16_finish_on_known_changes_nothing / C16_flight_on_known_keeps about a flight
   that was overtaken; both are statements about the locked step in ANY store state.
   The cache (cstate / crun) is a layer over the flight model: what Cache.Write answers to a lookup's flush is
   an input that decides only which offered documents landed (C16_cache_is_projection,
   C16_flush_outcome_irrelevant); every step that reports an error leaves the store as it was and offers
   nothing to the cache (C16_error_leaves_store).
   Assumptions: the service honours cancellation; instants are distinct; in the TIMED model
   LookupSecret's unknown-name check and the DoChan call are one step (so inside a timed run the
   finishing flight is always the installing one, C16_flight_only_while_unknown; the window itself is
   opened in the model and the harness of C15). *)
From Coq Require Import List Bool NArith ZArith Arith.
Import ListNotations.
From Setec Require Import Base.SMap Client.Store Client.StoreInv Client.Lookup Client.LookupProofs.
Open Scope N_scope.

Section C16.
Variable V : Type.

(* ---- gate: lookups disabled, unknown name: Secret panics; LookupSecret, NewUpdater, Apply report an
   error; no entry point sends a request *)
Theorem C16_gate : forall (s : store V) n, allow s = false -> known s n = false ->
  policy s EPSecret n = PPanic /\ policy s EPLookup n = PGateErr /\ policy s EPUpdater n = PGateErr /\
  policy s EPApply n = PGateErr /\ forall ep, sends_request (policy s ep n) = false.
Proof. exact (@policy_gate V). Qed.

(* known names: a handle from every entry point under both settings, no request *)
Theorem C16_known_handle : forall (s : store V) n ep, known s n = true -> policy s ep n = PHandle.
Proof. exact (@policy_known V). Qed.

(* a request is sent exactly for an unknown name, with lookups enabled, through LookupSecret /
   NewUpdater / Apply (never through Secret) *)
Theorem C16_request_iff : forall (s : store V) n ep, sends_request (policy s ep n) = true <->
  known s n = false /\ allow s = true /\ ep <> EPSecret.
Proof. exact (@policy_request_iff V). Qed.

(* the policy function is the shared store model's Secret *)
Theorem C16_policy_is_store_secret : forall (s : store V) n,
  snd (secret s n) = match policy s EPSecret n with PHandle => Some true | PNil => Some false | _ => None end.
Proof. exact (@policy_secret V). Qed.

(* ---- installed like any other: after the locked part of a successful lookup the name is known, has
   a handle, Secret returns it, every later poll requests it (it can never be flagged expired), and
   the cache is handed a document containing it at once *)
Theorem C16_installed_like_any : forall (s : store V) n v b now, Inv s -> known s n = false ->
  let '(s', fx) := lookup_finish s n v b now in
  Inv s' /\ known s' n = true /\ has_handle s' n = true /\ snd (secret s' n) = Some true /\
  entry s' n = Some (CE v b now false) /\
  (forall now_ns, In (n, v) (requests (snapshot s' now_ns))) /\
  (exists d, fx = [Flush d] /\ In (n, Some (v, b, now)) d).
Proof. exact (@finish_installs_like_any V). Qed.

(* ---- a flight finishing on a name that has a value by now (another lookup of the name completed
   after this flight's caller found it missing - F8): the caller gets a WORKING handle (Secret returns
   it; calling it yields the bytes the store holds), and nothing else changes: same map (value,
   version, stamp of every name), same watchers and flags, same settings, nothing written to the
   cache; handles stay; the poller keeps asking for the name with the version the store holds *)
Theorem C16_finish_on_known_changes_nothing : forall (s : store V) n v b now e, Inv s -> entry s n = Some e ->
  let '(s', fx) := lookup_finish s n v b now in
  Inv s' /\ m s' = m s /\ ws s' = ws s /\ allow s' = allow s /\ age s' = age s /\ fx = [] /\
  (forall k, In k (hs s) -> In k (hs s')) /\
  known s' n = true /\ has_handle s' n = true /\ snd (secret s' n) = Some true /\
  entry s' n = Some e /\ (forall t, snd (read s' n t) = Some (val e)) /\
  (forall now_ns, In (n, ver e) (requests (snapshot s' now_ns))).
Proof. exact (@finish_known_changes_nothing V). Qed.

(* ---- a watcher / Updater registered THROUGH THE LOOKUP (the name was not known when NewUpdater was called) is
   woken like any other: after the locked part of the flight - which installs the answer, or keeps the entry
   another caller's lookup installed meanwhile - and the registration, the next poll that installs a version of
   the name fills the new watcher's slot, and the store serves that version (so Updater.Get rebuilds from it,
   by C15_get_newest).  For EVERY store state satisfying the invariant: declared or not, looked up earlier or
   by this very registration, alone or overtaken. *)
Theorem C16_watcher_after_lookup_is_woken : forall (s : store V) n v0 b0 now v b, Inv s ->
  let s1 := fst (lookup_finish s n v0 b0 now) in
  let s2 := fst (add_watcher s1 n) in
  let w := snd (add_watcher s1 n) in
  let s3 := fst (apply_updates s2 [(n, Install v b)]) in
  w = length (ws s) /\ nth_error (ws s2) w = Some (W n false) /\
  nth_error (ws s3) w = Some (W n true) /\ exists t d, entry s3 n = Some (CE v b t d).
Proof. exact (@watcher_after_lookup_is_woken V). Qed.

(* ---- single flight: in the service's request log for the name a request starts only after the
   previous one ended, and none is left open when everybody has returned *)
Theorem C16_single_flight : forall (nm : name) callers scr wn (st : store V) fuel s',
  run nm fuel (init callers scr wn st) = Some s' -> alternates false (log s') = true /\ fl s' = None.
Proof. exact (@single_flight V). Qed.

(* success: all callers joined to the flight get the handle at that instant; the name is installed *)
Theorem C16_all_joined_get_handle : forall (nm : name) (s : lstate V) t f d v b,
  fl s = Some f -> fscript f = SAns d v b -> Inv (lst s) ->
  let s' := step nm s t EvFlight in
  (forall i, In i (waiting s) -> In (i, RHandle, t) (done s')) /\ waiting s' = [] /\ fl s' = None /\
  known (lst s') nm = true /\ snd (secret (lst s') nm) = Some true /\
  log s' = log s ++ [MEnd (fowner f) t OAnswered].
Proof. exact (@success_all_joined V). Qed.

(* the flight that finds the name still unknown installs exactly the service's answer *)
Theorem C16_flight_installs_answer : forall (nm : name) (s : lstate V) t f d v b,
  fl s = Some f -> fscript f = SAns d v b -> Inv (lst s) -> known (lst s) nm = false ->
  entry (lst (step nm s t EvFlight)) nm = Some (CE v b (Z.of_N (t / 1000)) false).
Proof. exact (@success_installs V). Qed.

(* a flight whose locked part finds the name valued still hands every joined caller a working
   handle, and the store keeps its map, its watchers and their flags *)
Theorem C16_flight_on_known_keeps : forall (nm : name) (s : lstate V) t f d v b e,
  fl s = Some f -> fscript f = SAns d v b -> Inv (lst s) -> entry (lst s) nm = Some e ->
  let s' := step nm s t EvFlight in
  (forall i, In i (waiting s) -> In (i, RHandle, t) (done s')) /\
  m (lst s') = m (lst s) /\ ws (lst s') = ws (lst s) /\ entry (lst s') nm = Some e /\
  snd (secret (lst s') nm) = Some true /\ (forall t', snd (read (lst s') nm t') = Some (val e)).
Proof. exact (@success_on_known_keeps V). Qed.

(* inside a timed run a flight exists only while the name is unknown *)
Theorem C16_flight_only_while_unknown : forall (nm : name) callers scr wn (st : store V) fuel s',
  run nm fuel (init callers scr wn st) = Some s' -> fl s' <> None -> known (lst s') nm = false.
Proof.
  intros nm callers scr wn st0 fuel s' R. apply (@run_KInv V nm fuel (init callers scr wn st0) s'); [|exact R].
  intros F. contradiction F. reflexivity.
Qed.

(* ... and later callers get the handle at once, without a request *)
Theorem C16_known_no_request : forall (nm : name) (s : lstate V) t i, known (lst s) nm = true ->
  let s' := step nm s t (EvArr i) in log s' = log s /\ fl s' = fl s /\ In (i, RHandle, t) (done s').
Proof. exact (@known_no_request V). Qed.

(* failure: reported to every joined caller, nothing installed (store untouched), no new request *)
Theorem C16_failure_installs_nothing : forall (nm : name) (s : lstate V) t f d,
  fl s = Some f -> fscript f = SFail d ->
  let s' := step nm s t EvFlight in
  (forall i, In i (waiting s) -> In (i, RSvcErr, t) (done s')) /\ lst s' = lst s /\ fl s' = None /\ waiting s' = [] /\
  log s' = log s ++ [MEnd (fowner f) t OFailed].
Proof. exact (@failure_installs_nothing V). Qed.

(* no automatic retry: the only ways a request ever starts are a caller's own arrival (name unknown,
   no flight), or a waiter with a live context taking over at the instant the context of the
   flight's owner - another caller - ended *)
Theorem C16_no_automatic_retry : forall (nm : name) (s : lstate V) t e w t',
  In (MStart w t') (skipn (length (log s)) (log (step nm s t e))) ->
  t' = t /\
  ((e = EvArr w /\ fl s = None /\ known (lst s) nm = false) \/
   (exists f, fl s = Some f /\ e = EvCtx (fowner f) /\ w <> fowner f /\ In w (waiting s))).
Proof. exact (@request_starts_only V). Qed.

(* ---- safety limit, and not failed by others: every caller returns; never after its own context
   ended; a caller without deadline within five minutes of its call, whatever the service does
   (hang forever included) and however often flights are restarted; a context error is only ever
   the caller's own, delivered at the very instant its own context ended *)
Theorem C16_safety_limit_and_not_failed_by_others : forall (nm : name) (callers : list caller) scr wn (st : store V) fuel s',
  wf callers -> run nm fuel (init callers scr wn st) = Some s' ->
  forall i, (i < length callers)%nat ->
  exists r t, In (i, r, t) (done s') /\
    (forall r0 t0, In (i, r0, t0) (done s') ->
       let c := nth i callers (C 0 None None) in
       t0 <= fst (cend c) /\
       (dl c = None -> t0 <= arr c + limit) /\
       (forall k, r0 = ROwn k -> t0 = fst (cend c) /\ k = snd (cend c))).
Proof. exact (@bounded V). Qed.

(* the fuel used by the kernel comparison and by the examples always suffices: 4n+4 steps for n callers
   (so the premise [run fuel .. = Some s'] of the two theorems above is met with fuel_for callers) *)
Theorem C16_fuel_suffices : forall (nm : name) callers scr wn (st : store V),
  run nm (fuel_for callers) (init callers scr wn st) <> None.
Proof. exact (@fuel_suffices V). Qed.

(* ---- a request follows the context of the caller it is made for: in the service's log every request
   ends no later than that caller's (possibly augmented) context - it cannot outlive the flight's owner,
   let alone every caller.  (Together with C16_single_flight: the log is a sequence of closed intervals,
   each inside its owner's lifetime.)  The monitor end_ok is applied to the OBSERVED log too. *)
Theorem C16_request_ends_by_owner : forall (nm : name) callers scr wn (st : store V) fuel s',
  run nm fuel (init callers scr wn st) = Some s' ->
  forall o t r, In (MEnd o t r) (log s') -> t <= fst (cend (nth o callers (C 0 None None))).
Proof. exact (@request_ends_by_owner V). Qed.

(* ---- the cache.  flushCacheLocked's error inside a lookup is only logged (store.go:410-412): the
   model with a cache (cstate / crun: the cache's answers are an input, one per Write) projects onto the
   flight model, so callers' results and instants, the request log and the store - the installed
   entry, its handle, what later polls request - do NOT depend on what the cache answers; the documents
   OFFERED to the cache do not either; only which of them landed does. *)
Theorem C16_cache_is_projection : forall (nm : name) fuel (c : cstate V),
  option_map (@core V) (crun nm fuel c) = run nm fuel (core c).
Proof. exact (@crun_core V). Qed.

Theorem C16_flush_outcome_irrelevant : forall (nm : name) callers scr wn (st : store V) a1 a2 fuel,
  option_map (@core V) (crun nm fuel (cinit callers scr wn st a1)) = option_map (@core V) (crun nm fuel (cinit callers scr wn st a2))
  /\ option_map (@offered V) (crun nm fuel (cinit callers scr wn st a1)) = option_map (@offered V) (crun nm fuel (cinit callers scr wn st a2)).
Proof. exact (@flush_outcome_irrelevant V). Qed.

(* ---- the converse half of "a failed lookup installs nothing": every step either leaves the store
   exactly as it was and offers nothing to the cache, or hands out nothing but handles.  Hence every
   caller that is told an error (the service's or its own context's) left the store untouched -
   whatever the cache did (C16_cache_is_projection). *)
Theorem C16_error_leaves_store : forall (nm : name) (s : lstate V) t e,
  (lst (step nm s t e) = lst s /\ flushes_of nm s t e = [])
  \/ (forall d, In d (done (step nm s t e)) -> In d (done s) \/ snd (fst d) = RHandle).
Proof. exact (@error_leaves_store V). Qed.

End C16.

Print Assumptions C16_fuel_suffices.
Print Assumptions C16_request_ends_by_owner.
Print Assumptions C16_cache_is_projection.
Print Assumptions C16_flush_outcome_irrelevant.
Print Assumptions C16_error_leaves_store.
Print Assumptions C16_gate.
Print Assumptions C16_known_handle.
Print Assumptions C16_request_iff.
Print Assumptions C16_policy_is_store_secret.
Print Assumptions C16_installed_like_any.
Print Assumptions C16_finish_on_known_changes_nothing.
Print Assumptions C16_flight_installs_answer.
Print Assumptions C16_flight_on_known_keeps.
Print Assumptions C16_flight_only_while_unknown.
Print Assumptions C16_watcher_after_lookup_is_woken.
Print Assumptions C16_single_flight.
Print Assumptions C16_all_joined_get_handle.
Print Assumptions C16_known_no_request.
Print Assumptions C16_failure_installs_nothing.
Print Assumptions C16_no_automatic_retry.
Print Assumptions C16_safety_limit_and_not_failed_by_others.

(* ---- non-vacuity.  The F4 scenario and more: the service hangs forever.  Caller 0 (no deadline)
   arrives at 1 s; caller 1 (no deadline) at 2 s; caller 2 (deadline at 100 s) at 3 s; caller 3
   arrives at 4 s and is cancelled at 50 s.  Flight 1 belongs to caller 0 and dies with it at 301 s;
   caller 1, still alive, takes over and is released by its own limit at 302 s. *)
Definition ex_x : name := [120].
Definition ex_callers : list caller :=
  [C 1000 None None; C 2000 None None; C 3000 (Some 100000) None; C 4000 None (Some 50000)].
Definition ex_st : store N := ST [] [] [] true 0%Z.

Example ex_hang :
  option_map (fun s => (done s, log s, known (lst s) ex_x))
    (run ex_x (fuel_for ex_callers) (init ex_callers [SHang; SHang] [1%nat] ex_st))
  = Some ([(3%nat, ROwn KCanceled, 50000); (2%nat, ROwn KDeadline, 100000);
           (0%nat, ROwn KDeadline, 301000); (1%nat, ROwn KDeadline, 302000)],
          [MStart 0 1000; MEnd 0 301000 OCtx; MStart 1 301000; MEnd 1 302000 OCtx], false).
Proof. vm_compute. reflexivity. Qed.

Example ex_wf : wf ex_callers.
Proof. intros i. do 5 (destruct i as [|i]; [vm_compute; discriminate|]). vm_compute. discriminate. Qed.

(* the initiator is cancelled early, the service answers the SECOND request: the joiner is not failed
   by the initiator's cancellation, it retries and gets the handle; the name is installed *)
Example ex_retry_success :
  option_map (fun s => (done s, log s, known (lst s) ex_x, map fst (doc (lst s))))
    (run ex_x 20 (init [C 1000 None (Some 5000); C 2000 None None] [SHang; SAns 2500 1 77] [] ex_st))
  = Some ([(0%nat, ROwn KCanceled, 5000); (1%nat, RHandle, 7500)],
          [MStart 0 1000; MEnd 0 5000 OCtx; MStart 1 5000; MEnd 1 7500 OAnswered], true, [ex_x]).
Proof. vm_compute. reflexivity. Qed.

(* a failure is not retried: the second caller, arriving later, starts its own request *)
Example ex_failure :
  option_map (fun s => (done s, log s, known (lst s) ex_x))
    (run ex_x 20 (init [C 1000 None None; C 1500 None None; C 9000 None None] [SFail 2005; SFail 15] [] ex_st))
  = Some ([(0%nat, RSvcErr, 3005); (1%nat, RSvcErr, 3005); (2%nat, RSvcErr, 9015)],
          [MStart 0 1000; MEnd 0 3005 OFailed; MStart 2 9000; MEnd 2 9015 OFailed], false).
Proof. vm_compute. reflexivity. Qed.

(* the monitors reject bad observations: two requests open at once; a caller failed with a context
   error at an instant that is not the end of its own context (i.e. failed by somebody else's);
   a caller without deadline answered after more than five minutes *)
Example ex_monitor_two_open : alternates false [MStart 0 10; MStart 1 20; MEnd 0 30 OCtx; MEnd 1 40 OCtx] = false.
Proof. reflexivity. Qed.
Example ex_monitor_failed_by_others : res_ok ex_callers (1%nat, ROwn KCanceled, 50000) = false.
Proof. vm_compute. reflexivity. Qed.
Example ex_monitor_late : res_ok ex_callers (1%nat, RSvcErr, 302001) = false.
Proof. vm_compute. reflexivity. Qed.

(* the pinned behaviour before the F4 repair (safety limit inside the flight, per retry): caller 0
   above would still be waiting after 31 minutes; in this model it has returned at 301 s *)
Example ex_f4_fixed :
  option_map (fun s => existsb (fun '(i, _, t) => Nat.eqb i 0 && (t <=? 1000 + limit)) (done s))
    (run ex_x (fuel_for ex_callers) (init ex_callers [] [] ex_st)) = Some true.
Proof. vm_compute. reflexivity. Qed.

(* a flight that was overtaken (F8): the store already holds version 1 / bytes 11 of "x" with a watcher
   whose slot is empty when the flight's answer (version 2, bytes 22) arrives: the joined callers get
   the handle, the store still serves 11, the watcher's slot stays empty, nothing is flushed;
   the unrepaired locked part (lookup_install) would have replaced the value silently *)
Definition ex_st_known : store N := ST (upd ex_x (Some (CE 1 11 0%Z false)) []) [ex_x] [W ex_x false] true 0%Z.
Example ex_overtaken_flight :
  let s := LS [C 1000 None None; C 1200 None None] [] [0%nat; 1%nat] (Some (F 0 1000 (SAns 500 2 22))) [] [] [] [MStart 0 1000] ex_st_known in
  let s' := step ex_x s 1500 EvFlight in
  done s' = [(0%nat, RHandle, 1500); (1%nat, RHandle, 1500)]
  /\ entry (lst s') ex_x = Some (CE 1 11 0%Z false) /\ ws (lst s') = [W ex_x false]
  /\ snd (read (lst s') ex_x 7%Z) = Some 11
  /\ snd (lookup_finish ex_st_known ex_x 2 22 1%Z) = []
  /\ entry (fst (lookup_install ex_st_known ex_x 2 22 1%Z)) ex_x = Some (CE 2 22 1%Z false)
  /\ ws (fst (lookup_install ex_st_known ex_x 2 22 1%Z)) = [W ex_x false].
Proof. vm_compute. repeat split. Qed.

(* a broken cache: the service answers, the cache refuses the write.  Same results, same log, same
   store as with a working cache; the document was offered (it contains x), nothing landed. *)
Example ex_cache_refuses :
  let good := crun ex_x 20 (cinit [C 1000 None None; C 1500 None None] [SAns 2505 1 77] [] ex_st [true]) in
  let bad := crun ex_x 20 (cinit [C 1000 None None; C 1500 None None] [SAns 2505 1 77] [] ex_st [false]) in
  option_map (fun c => (done (core c), log (core c), known (lst (core c)) ex_x, map (map fst) (offered c), map (map fst) (landed c))) bad
  = Some ([(0%nat, RHandle, 3505); (1%nat, RHandle, 3505)], [MStart 0 1000; MEnd 0 3505 OAnswered], true, [[ex_x]], [])
  /\ option_map (@core N) good = option_map (@core N) bad
  /\ option_map (fun c => map (map fst) (landed c)) good = Some [[ex_x]].
Proof. vm_compute. repeat split. Qed.

(* the monitor rejects a request that outlives its owner's context (caller 3 above is cancelled at 50 s) *)
Example ex_monitor_request_outlives_owner :
  end_ok ex_callers (MEnd 3 50000 OCtx) = true /\ end_ok ex_callers (MEnd 3 80000 OCtx) = false.
Proof. vm_compute. split; reflexivity. Qed.

