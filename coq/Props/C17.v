(* C17 - backups are consistent snapshots, change-driven, rate-limited and quiescent.
   Statements only; proofs in Server/BackupProofs.v.  All theorems hold for EVERY timeline:
   any instants of database writes, any script of the object store (duration, failure, writes
   racing the upload, per upload position) and any cancellation instant.  [backup_run tl]
   is the model of server/backup.go (Server/Backup.v): the list of loop iterations (wake-up
   instant, generation read, upload attempt if any) and the instant the task returned. *)
From Coq Require Import List Bool NArith.
Import ListNotations.
From Setec Require Import Base.SMap Base.Bytes Acl.Glob Server.KV Server.KVProofs Server.DB Server.Backup Server.BackupProofs Corr.Common Corr.Run_C17.
Open Scope N_scope.

(* it terminates when the context is cancelled: the task returns exactly at the cancellation
   instant, whatever the timeline (so also: never out of fuel); no iteration and no upload
   extends past it; and the wait that was interrupted was the current one *)
Theorem C17_cancel : forall tl,
  (exists its, backup_run tl = Some (its, cancel tl))
  /\ forall its x, backup_run tl = Some (its, x) ->
     x = cancel tl
     /\ (forall it, In it its -> i_t it <= cancel tl /\ end_of it <= cancel tl)
     /\ (exists pre it, its = pre ++ [it] /\ cancel tl <= end_of it + period).
Proof. intros tl. split; [exact (run_returns_at_cancel tl)|exact (run_cancel tl)]. Qed.
Print Assumptions C17_cancel.

(* the first upload happens at start-up *)
Theorem C17_first_upload : forall tl its x, backup_run tl = Some (its, x) ->
  exists it rest a, its = it :: rest /\ i_t it = 0 /\ i_up it = Some a.
Proof. exact run_first_upload. Qed.
Print Assumptions C17_first_upload.

(* change-driven: an iteration uploads if and only if the generation it reads differs from
   the one covered by the last ACKNOWLEDGED upload ([lastok], 0 before any); what it uploads
   is the file of exactly the generation it read, at the instant it woke up *)
Theorem C17_change_driven : forall tl its x, backup_run tl = Some (its, x) ->
  forall pre it post, its = pre ++ it :: post ->
  (i_up it = None <-> i_gen it = lastok 0 pre)
  /\ (forall a, i_up it = Some a -> a_gen a = i_gen it /\ a_t a = i_t it /\ i_gen it <> lastok 0 pre).
Proof. exact run_change_driven. Qed.
Print Assumptions C17_change_driven.

(* rate: every iteration (hence every upload) starts one full period after the previous
   iteration ENDED (its upload returned) - consecutive uploads are >= 60 s apart *)
Theorem C17_rate : forall tl its x, backup_run tl = Some (its, x) ->
  forall pre it1 it2 post, its = pre ++ it1 :: it2 :: post ->
  i_t it2 = end_of it1 + period /\ i_t it1 <= end_of it1.
Proof. exact run_rate. Qed.
Print Assumptions C17_rate.

(* retry: an upload that was not acknowledged (store failure, the 5-minute limit) is
   attempted again by the very next iteration *)
Theorem C17_retry : forall tl its x, backup_run tl = Some (its, x) ->
  forall pre it1 it2 post a, its = pre ++ it1 :: it2 :: post ->
  i_up it1 = Some a -> a_ok a = false -> i_up it2 <> None.
Proof. exact run_retry. Qed.
Print Assumptions C17_retry.

(* catching up and going quiet: once an upload is acknowledged and the database is not
   written any more (every later iteration reads the same generation), that newest backup IS
   the current file and no further upload is ever made *)
Theorem C17_catches_up : forall tl its x, backup_run tl = Some (its, x) ->
  forall pre it post a, its = pre ++ it :: post -> i_up it = Some a -> a_ok a = true ->
  (forall it', In it' post -> i_gen it' = a_gen a) ->
  a_gen a = i_gen it /\ forall it', In it' post -> i_up it' = None.
Proof. exact run_catches_up. Qed.
Print Assumptions C17_catches_up.

(* quiescent: it sleeps - in ANY window of length W the loop body (one WriteGen call, hence
   one acquisition of the database lock, each) runs at most W/60s + 1 times *)
Theorem C17_quiescent : forall tl its x, backup_run tl = Some (its, x) ->
  forall a W, N.of_nat (length (filter (fun t => (a <=? t) && (t <=? a + W)) (map i_t its))) * period <= W + period.
Proof. exact run_quiescent. Qed.
Print Assumptions C17_quiescent.

(* snapshot: every body is the file of one generation - the one current at the instant the
   file was read (>= 1: a file that existed).  That a read of the live file returns one
   complete version is C04's atomic replacement; that the bytes open with the key is tested. *)
Theorem C17_snapshot : forall tl its x, backup_run tl = Some (its, x) ->
  forall it a, In it its -> i_up it = Some a -> a_gen a = i_gen it /\ a_t a = i_t it /\ 1 <= a_gen a.
Proof. exact run_snapshot. Qed.
Print Assumptions C17_snapshot.

(* failed write attempts and reads change nothing: adding any number of client events that
   did not replace the database file (a write whose save failed, list/get/info) to a timeline
   leaves the whole run - every upload, every wake-up, the exit - unchanged.  So all theorems
   above quantify over timelines WITH such events, and none of them ever causes an upload. *)
Theorem C17_unchanged_events_ignored : forall tl extra,
  (forall e, In e extra -> snd e = false) ->
  backup_run {| writes := writes tl ++ extra; script := script tl; cancel := cancel tl; read_faults := read_faults tl |} = backup_run tl.
Proof. exact run_ignores_unchanged. Qed.
Print Assumptions C17_unchanged_events_ignored.

(* the number of uploads after the first is at most the number of SUCCESSFUL database writes
   (by clients, or made on the store's side while an upload was handled) plus the number of
   uploads that were not acknowledged *)
Theorem C17_upload_count : forall tl its x, backup_run tl = Some (its, x) ->
  N.of_nat (length (attempts its))
  <= 1 + N.of_nat (length (ok_writes tl)) + n_races (attempts its) + n_failed (attempts its).
Proof. exact run_upload_count. Qed.
Print Assumptions C17_upload_count.

(* which client calls are writes is the store model's verdict: a call replaces the database
   file iff the sequential specification needs a save for it in the current state (C02's
   [needs_save]: a put unless it repeats the bytes of the newest existing version; an activate
   of an existing other version; a delete-version of an existing non-active version; a delete
   of an existing secret) and that save succeeds.  So delete-version, activate and delete are
   writes exactly like put, and [C17_catches_up]/[C17_change_driven] cover them. *)
Theorem C17_write_iff_needs_save : forall ok (s : kvs N) o, Inv s ->
  is_saved (snd (kv_step N.eqb ok s o)) = ok && needs_save N.eqb s o.
Proof. exact saved_iff_needs_save. Qed.
Print Assumptions C17_write_iff_needs_save.

(* caught up at every wake-up: after an iteration whose upload (if any) was acknowledged, the
   newest acknowledged backup is the file of the generation current at that wake-up - and the
   next wake-up is one period after this one ended (C17_rate), the last one within a period of
   the cancellation (C17_cancel): once writes stop, one more period suffices *)
Theorem C17_caught_up_each_wake : forall tl its x, backup_run tl = Some (its, x) ->
  forall pre it post, its = pre ++ it :: post ->
  (forall a, i_up it = Some a -> a_ok a = true) ->
  lastok 0 (pre ++ [it]) = i_gen it.
Proof. exact run_caught_up_each_wake. Qed.
Print Assumptions C17_caught_up_each_wake.

(* the first round of EVERY lifetime: "nothing uploaded yet" differs from the generation a
   just-opened database reports - created or found existing (a restart) - and from every
   later one; so the first iteration, at the instant the task starts, uploads the file as it
   is, also when nothing is ever written in this lifetime *)
Theorem C17_first_round_uploads : forall tl,
  (forall (V : Type) (k : kvs V), gen (db_open k) <> no_upload_yet /\ gen (db_create V) <> no_upload_yet)
  /\ (forall r t, gen_at (ok_writes tl) r t <> no_upload_yet)
  /\ (forall its x, backup_run tl = Some (its, x) ->
       exists it rest a, its = it :: rest /\ i_t it = 0 /\ i_up it = Some a
                         /\ a_t a = 0 /\ a_gen a = open_gen + count_le 0 (ok_writes tl)).
Proof. exact first_round_uploads. Qed.
Print Assumptions C17_first_round_uploads.

(* a failing READ of the database file at a backup instant (moved aside, a directory in its
   place, EIO ...): the attempt is made iff the generation differs (C17_change_driven), but
   nothing is sent - no object at all, so no empty or partial one -, it is not acknowledged,
   lastWriteGen does not advance, and the next iteration, one period later, tries again *)
Theorem C17_read_failure : forall tl its x, backup_run tl = Some (its, x) ->
  forall pre it post a, its = pre ++ it :: post -> i_up it = Some a ->
  a_sent a = negb (read_fails (read_faults tl) (i_t it))
  /\ (a_sent a = false ->
      a_ok a = false /\ a_end a = a_t a /\ lastok 0 (pre ++ [it]) = lastok 0 pre
      /\ (forall it2 post', post = it2 :: post' -> i_up it2 <> None /\ i_t it2 = i_t it + period)).
Proof. exact run_read_failure. Qed.
Print Assumptions C17_read_failure.

(* the monitors evaluated on the observed log mean what they say *)
Theorem C17_monitor_bytes_sound : forall l last, mon_bytes last l = true ->
  forall pre b1 mid b2 post, l = pre ++ (true, b1) :: mid ++ (true, b2) :: post ->
  (forall e, In e mid -> fst e = false) -> b1 <> b2.
Proof. exact mon_bytes_spec. Qed.
Print Assumptions C17_monitor_bytes_sound.

Theorem C17_monitor_rate_sound : forall l, mon_rate l = true ->
  forall pre t1 g1 o1 t2 g2 o2 post, l = pre ++ (t1, g1, o1) :: (t2, g2, o2) :: post -> t1 + period <= t2.
Proof. exact mon_rate_spec. Qed.
Print Assumptions C17_monitor_rate_sound.

Theorem C17_monitor_change_sound : forall l last, mon_change last l = true ->
  forall pre t g o post, l = pre ++ (t, g, o) :: post ->
  g <> fold_left (fun (l0 : N) (u : obs_upload) => if snd u then snd (fst u) else l0) pre last.
Proof. exact mon_change_spec. Qed.
Print Assumptions C17_monitor_change_sound.

(* ---- non-vacuity ---- *)
(* writes at 36.5 s, 40.5 s and 400.5 s, a write whose save fails at 100.3 s, reads at 200.4 s; the second upload fails, the third takes 70 s with a
   write racing it; cancelled at 1000.7 s *)
Definition demo : timeline :=
  {| writes := [(36500, true); (40500, true); (100300, false); (200400, false); (400500, true)]; script := [U 0 true 0; U 2000 false 0; U 70000 true 1]; cancel := 1000700; read_faults := [] |}.

Example demo_run :
  match backup_run demo with
  | Some (its, x) => (map obs_of (sent its), length its, x)
  | None => ([], 0%nat, 0)
  end = ([(0, 1, true); (60000, 3, false); (122000, 3, true); (252000, 4, true); (432000, 5, true)], 16%nat, 1000700).
Proof. vm_compute. reflexivity. Qed.

Example demo_accepted :
  Run_C17.check (Sc [] [EPut 36500 true [x6b] 1; EPut 40500 true [x6b] 2; EPut 100300 false [x6b] 3; EPut 400500 true [x6b] 4]
                    [200400] [U 0 true 0; U 2000 false 0; U 70000 true 1] 1000700
                    [(0, 1, true); (60000, 3, false); (122000, 3, true); (252000, 4, true); (432000, 5, true)]
                    [1; 2; 2; 3; 4] (Some 1000700) 5 1 4 []) = true.
Proof. vm_compute. reflexivity. Qed.

(* an upload every minute although nothing changed: rejected by the change monitor *)
Example unchanged_upload_rejected : mon_change 0 [(0, 1, true); (60000, 1, true)] = false.
Proof. vm_compute. reflexivity. Qed.
(* two uploads 10 s apart: rejected by the rate monitor *)
Example fast_uploads_rejected : mon_rate [(0, 1, true); (10000, 2, true)] = false.
Proof. vm_compute. reflexivity. Qed.
(* a body that is no file version (0) or a version from the future: rejected *)
Example bad_body_rejected : mon_snapshot [36500] 0 [(0, 0, true)] = false /\ mon_snapshot [36500] 0 [(0, 2, true)] = false.
Proof. vm_compute. auto. Qed.
(* no retry after a failure / a task that outlives its context: rejected by the comparison *)
Example no_retry_rejected :
  Run_C17.check (Sc [] [] [] [U 0 false 0] 200700 [(0, 1, false)] [1] (Some 200700) 1 0 1 []) = false.
Proof. vm_compute. reflexivity. Qed.
Example late_exit_rejected :
  Run_C17.check (Sc [] [] [] [] 200700 [(0, 1, true)] [1] (Some 240000) 1 0 1 []) = false
  /\ Run_C17.check (Sc [] [] [] [] 200700 [(0, 1, true)] [1] None 1 0 1 []) = false.
Proof. vm_compute. auto. Qed.

(* the generation counter advanced by a save that FAILED (at 100.3 s): the task uploads the
   unchanged file again at 120 s - same bytes as the upload before: rejected by the byte
   monitor alone, and by the comparison (the model makes no upload there) *)
Example unchanged_bytes_rejected : mon_bytes None [(true, 1); (false, 2); (true, 1)] = false.
Proof. vm_compute. reflexivity. Qed.
Example failed_save_bumped_generation_rejected :
  Run_C17.check (Sc [] [EPut 100300 false [x6b] 1] [] [] 300700 [(0, 1, true); (120000, 1, true)] [1; 1] (Some 300700) 2 0 1 []) = false
  /\ Run_C17.check (Sc [] [EPut 100300 false [x6b] 1] [] [] 300700 [(0, 1, true)] [1] (Some 300700) 2 0 1 []) = false
  /\ Run_C17.check (Sc [] [EPut 100300 false [x6b] 1] [] [] 300700 [(0, 1, true)] [1] (Some 300700) 1 0 1 []) = true.
Proof. vm_compute. auto. Qed.

(* which calls are writes: put 1, put 2 (new version), put 2 again (same bytes: NOT a write),
   activate 2, activate 2 again (NOT a write), delete-version 1, delete-version 1 again (NOT),
   delete-version 2 (active: NOT), delete of an absent secret (NOT), delete: 5 writes *)
Definition kinds_demo : list dbev :=
  [EPut 10500 true [x6b] 1; EPut 20500 true [x6b] 2; EPut 30500 true [x6b] 2; EAct 40500 true [x6b] 2;
   EAct 50500 true [x6b] 2; EDelV 70500 true [x6b] 1; EDelV 80500 true [x6b] 1; EDelV 90500 true [x6b] 2;
   EDel 100500 true [x6a]; EDel 200500 true [x6b]].
Example kinds_classified :
  map snd (fst (classify [] kinds_demo)) = [true; true; false; true; false; true; false; false; false; true].
Proof. vm_compute. reflexivity. Qed.

(* a delete-version as the LAST write (at 70.5 s, after the upload at 60 s): the model uploads it
   at 120 s; a run in which that upload is missing (the generation was not advanced) is rejected
   three times over: by the comparison, by the final generation, by the bytes at the end *)
Example delete_version_last_write :
  let evs := [EPut 10500 true [x6b] 1; EPut 20500 true [x6b] 2; EDelV 70500 true [x6b] 2] in
  Run_C17.check (Sc [] evs [] [] 400700 [(0, 1, true); (60000, 3, true); (120000, 4, true)] [1; 2; 3] (Some 400700) 4 0 3 []) = true
  /\ Run_C17.check (Sc [] evs [] [] 400700 [(0, 1, true); (60000, 3, true)] [1; 2] (Some 400700) 3 0 0 []) = false
  /\ Run_C17.check (Sc [] evs [] [] 400700 [(0, 1, true); (60000, 3, true); (120000, 4, true)] [1; 2; 3] (Some 400700) 4 0 2 []) = false.
Proof. vm_compute. auto. Qed.

(* a restart: the file was written in an earlier lifetime (put 1, put 2 on k), the process opens
   it and nothing is written: the first round uploads it (generation 1 of this lifetime), then
   quiet; a run without that upload is rejected.  A delete-version in the second lifetime is
   classified from the state the first lifetime left (version 2 exists: a write) *)
Example restart_uploads_at_first_round :
  let prior := [EPut 0 true [x6b] 1; EPut 0 true [x6b] 2] in
  Run_C17.check (Sc prior [] [] [] 300700 [(0, 1, true)] [1] (Some 300700) 1 0 1 []) = true
  /\ Run_C17.check (Sc prior [] [] [] 300700 [] [] (Some 300700) 1 0 0 []) = false
  /\ Run_C17.check (Sc prior [EDelV 70500 true [x6b] 2] [] [] 300700 [(0, 1, true); (120000, 2, true)] [1; 2] (Some 300700) 2 0 2 []) = true
  /\ Run_C17.check (Sc [] [EDelV 70500 true [x6b] 2] [] [] 300700 [(0, 1, true); (120000, 2, true)] [1; 2] (Some 300700) 2 0 2 []) = false.
Proof. vm_compute. auto. Qed.

(* the task as wired by server.New: first upload at start-up, the write at 1.5 s uploaded one
   interval later, nothing after the server's context ended at 61.7 s; no upload at all (a
   context that was already over when the task started) is rejected, and so is an upload after
   the context ended at 2.7 s *)
Example wiring_observed :
  Run_C17.check (ScW [] [EPut 1500 true [x6b] 1] [] 61700 [(0, 1, true); (60000, 2, true)] [1; 2] 2 2 []) = true
  /\ Run_C17.check (ScW [] [EPut 1500 true [x6b] 1] [] 61700 [] [] 2 0 []) = false
  /\ Run_C17.check (ScW [] [EPut 1500 true [x6b] 1] [] 2700 [(0, 1, true); (60000, 2, true)] [1; 2] 2 2 []) = false
  /\ Run_C17.check (ScW [] [EPut 1500 true [x6b] 1] [] 2700 [(0, 1, true)] [1] 2 1 []) = true.
Proof. vm_compute. auto. Qed.

(* the file is unreadable around 60 s (moved aside from 59.999 s to 60.001 s) when the write of
   36.5 s is due: no request at 60 s, the upload comes at 120 s.  A run that sends an (empty)
   object at 60 s and never retries, and one that sends nothing but never retries either, are
   rejected; so is an unreadable file at start-up answered with an empty object *)
Example read_fault_retried :
  let evs := [EPut 36500 true [x6b] 1] in
  Run_C17.check (Sc [] evs [] [] 300700 [(0, 1, true); (120000, 2, true)] [1; 2] (Some 300700) 2 0 2 [(59999, 60001)]) = true
  /\ Run_C17.check (Sc [] evs [] [] 300700 [(0, 1, true); (60000, 0, true)] [1; 2] (Some 300700) 2 0 0 [(59999, 60001)]) = false
  /\ Run_C17.check (Sc [] evs [] [] 300700 [(0, 1, true)] [1] (Some 300700) 2 0 0 [(59999, 60001)]) = false
  /\ Run_C17.check (Sc [] [] [] [] 300700 [(60000, 1, true)] [1] (Some 300700) 1 0 1 [(0, 1)]) = true
  /\ Run_C17.check (Sc [] [] [] [] 300700 [(0, 0, true)] [1] (Some 300700) 1 0 0 [(0, 1)]) = false.
Proof. vm_compute. auto. Qed.
