(* C18 - secret bytes round-trip unchanged end to end, including through the CLI.
   Statements only. *)
From Coq Require Import List Bool NArith.
Import ListNotations.
From Setec Require Import Base.SMap Server.KV Server.KVProofs Server.Persist Server.PersistProofs Client.PutText Client.PutTextProofs.
Open Scope N_scope.

(* ---- the server never inspects or alters a value: for EVERY value type ---- *)
Section Values.
Variable V : Type.
Variable veqb : V -> V -> bool.
Hypothesis veqb_spec : forall a b, veqb a b = true <-> a = b.

(* what get-version returns for a number handed out by put is the value put *)
Theorem C18_put_get_identity : forall ok s n (b : V) s' k sv, Inv s ->
  kv_put veqb ok s n b = (s', KVer k, sv) -> kv_get_version s' n k = KVal k b.
Proof. first [exact (@put_retrievable V veqb veqb_spec) | exact (@put_retrievable V veqb)]. Qed.

(* and it stays that value until deleted, whatever else happens *)
Theorem C18_value_stable : forall ok s o s' r sv n x v (b : V),
  Inv s -> kv_step veqb ok s o = (s', r, sv) -> find n s = Some x -> find v (vers x) = Some b ->
  (exists x', find n s' = Some x' /\ find v (vers x') = Some b) \/ o = KDelVer n v \/ o = KDel n.
Proof. first [exact (@bytes_immutable V veqb veqb_spec) | exact (@bytes_immutable V veqb)]. Qed.

(* also after a server restart: the persisted document decodes to the same state *)
Theorem C18_restart_identity : forall s : kvs V, Inv s -> load (doc_of s) = s.
Proof. exact (@load_doc_of V). Qed.
End Values.

(* ---- the CLI ---- *)
(* the command sends exactly the bytes it read, except valid UTF-8 text with outer
   white space under --trim-space (without --verbatim), which is sent trimmed *)
Theorem C18_cli_exact : forall fl input v, cli_put fl input = Send v ->
  v = input \/ (f_trim fl = true /\ f_verbatim fl = false /\ utf8_valid input = true /\ v = trim_space input
               /\ trim_space input <> input).
Proof. exact cli_exact. Qed.

(* refused (nothing sent) exactly when: text with outer white space and neither flag; or
   the value to send is empty without --empty-ok *)
Theorem C18_cli_refuse_iff : forall fl input, cli_put fl input = Refuse <->
  (utf8_valid input = true /\ trim_space input <> input /\ f_verbatim fl = false /\ f_trim fl = false)
  \/ (f_empty_ok fl = false /\
      (input = [] \/ (utf8_valid input = true /\ f_verbatim fl = false /\ f_trim fl = true /\ trim_space input = []))).
Proof. exact cli_refuse_iff. Qed.

(* trimming removes exactly a run of Unicode white space at each end *)
Theorem C18_trim_spec : forall s : bytes,
  exists l r, s = l ++ trim_space s ++ r /\ all_space l /\ all_space r
              /\ no_leading_space (trim_space s) /\ no_trailing_space (trim_space s).
Proof. exact trim_space_spec. Qed.

Theorem C18_binary_verbatim : forall fl input, utf8_valid input = false -> cli_put fl input = Send input.
Proof. exact binary_verbatim. Qed.

Theorem C18_verbatim_flag : forall fl input, f_verbatim fl = true -> input <> [] -> cli_put fl input = Send input.
Proof. exact verbatim_flag. Qed.

Print Assumptions C18_put_get_identity.
Print Assumptions C18_value_stable.
Print Assumptions C18_restart_identity.
Print Assumptions C18_cli_exact.
Print Assumptions C18_cli_refuse_iff.
Print Assumptions C18_trim_spec.
Print Assumptions C18_binary_verbatim.
Print Assumptions C18_verbatim_flag.

(* non-vacuity *)
Example C18_ex_trim : trim_space [32; 194; 160; 104; 105; 32; 226; 128; 168; 10] = [104; 105].   (* "  hi  \n" *)
Proof. vm_compute. reflexivity. Qed.
Example C18_ex_refuse : cli_put {| f_empty_ok := false; f_verbatim := false; f_trim := false |} [104; 105; 10] = Refuse.
Proof. vm_compute. reflexivity. Qed.
Example C18_ex_binary : cli_put {| f_empty_ok := false; f_verbatim := false; f_trim := false |} [255; 32; 10] = Send [255; 32; 10].
Proof. vm_compute. reflexivity. Qed.
Example C18_ex_surrogate_invalid : utf8_valid [237; 160; 128] = false.
Proof. vm_compute. reflexivity. Qed.
Example C18_ex_overlong_invalid : utf8_valid [192; 128] = false.
Proof. vm_compute. reflexivity. Qed.
