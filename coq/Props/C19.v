(* C19 - a secret is dropped from the store and its cache only if it was not declared at construction, an
   expiry age is configured, it has not been read for longer than that age, and no handle or watcher for it
   has been handed out by this process; the drop happens at a poll.  Declared secrets, secrets read within
   the window, secrets with live handles, and all secrets when no expiry age is set are never dropped, and
   each read refreshes the secret's last-access time, which is persisted with the next cache write so that
   the rule holds across restarts.  Statements only (proofs: Client/ExpiryProofs.v; model: Client/Expiry.v). *)
From Coq Require Import List Bool NArith ZArith.
Import ListNotations.
From Setec Require Import Base.SMap Client.Store Client.StoreInv Client.Expiry Client.ExpiryProofs.
Open Scope Z_scope.

Section C19.
Variable V : Type.

(* ---- the histories considered: every event of a history preserves the invariant HInv (canonical map, no
   stub, handles never dangle, watchers wrap handles, the cache document names exactly the known secrets,
   the poll in flight is consistent with the store) ... *)
Theorem C19_HInv_step : forall (h : hstate V) (e : event V), HInv h -> ev_ok h e -> HInv (step h e).
Proof. exact (@HInv_step V). Qed.

Theorem C19_HInv_run : forall (es : list (event V)) (h : hstate V), HInv h -> ok_run h es -> HInv (run h es).
Proof. exact (@HInv_run V). Qed.

(* ... and every freshly constructed store satisfies it, from a well-formed cache document ... *)
Theorem C19_HInv_restart : forall (h : hstate V) names al ag (fetch : name -> N * V) t,
  sorted (rentry_of_doc (cdoc h)) -> cache_valid (rentry_of_doc (cdoc h)) = true ->
  names_ok names al = true -> HInv (restart h names al ag fetch t).
Proof. exact (@HInv_restart V). Qed.

(* ... as well as from an invalid one (discarded whole) when something is declared *)
Theorem C19_HInv_restart_invalid : forall (h : hstate V) names al ag (fetch : name -> N * V) t,
  cache_valid (rentry_of_doc (cdoc h)) = false -> names <> [] ->
  names_ok names al = true -> HInv (restart h names al ag fetch t).
Proof. exact (@HInv_restart_invalid V). Qed.

(* ---- "only if ... not declared, an expiry age is configured, not read for longer than that age, no handle":
   a poll's snapshot marks a secret for deletion exactly under these four conditions *)
Theorem C19_snapshot_marks : forall (s : store V) now (n : name) (e0 : centry V),
  Inv s -> find n (m s) = Some (Some e0) ->
  (In (n, (true, ver e0)) (snapshot s now) <->
   decl e0 = false /\ 0 < age s /\ age s < elapsed now (last e0) /\ has_handle s n = false).
Proof. exact (@snapshot_marks V). Qed.

(* every deletion mark of a snapshot belongs to such a secret *)
Theorem C19_snapshot_sound : forall (s : store V) now (n : name) v,
  Inv s -> In (n, (true, v)) (snapshot s now) ->
  exists e0, find n (m s) = Some (Some e0) /\ v = ver e0 /\ decl e0 = false /\ 0 < age s /\
             age s < elapsed now (last e0) /\ has_handle s n = false.
Proof. exact (@snapshot_sound V). Qed.

(* "the drop happens at a poll": a marked secret is not requested in that poll, every other secret is *)
Theorem C19_expired_not_polled : forall (s : store V) now (n : name),
  Inv s -> (In n (map fst (requests (snapshot s now))) <->
            exists e0, find n (m s) = Some (Some e0) /\ ~ In (n, (true, ver e0)) (snapshot s now)).
Proof. exact (@expired_not_polled V). Qed.

(* a poll succeeds exactly when none of its requests fails *)
Theorem C19_poll_succeeds_iff : forall (snap : list snap_entry) (ans : name -> N -> resp V),
  (exists ups, poll snap ans = Some ups) <-> (forall n v, In (n, v) (requests snap) -> ans n v <> RErr).
Proof. exact (@poll_succeeds_iff V). Qed.

(* the deletions a successful poll asks for are exactly the marks of its snapshot *)
Theorem C19_poll_drops : forall (snap : list snap_entry) (ans : name -> N -> resp V) ups (n : name),
  poll snap ans = Some ups -> (In (n, Drop) ups <-> exists v, In (n, (true, v)) snap).
Proof. exact (@poll_drops V). Qed.

(* ---- ONLY IF: the only event after which a known secret is unknown is the apply step of a successful poll,
   and then the secret was undeclared, an age is set, it was stale at the poll's snapshot, and neither a
   handle nor a watcher for it exists *)
Theorem C19_dropped_only_if : forall (h : hstate V) (e : event V) (n : name),
  HInv h -> ev_ok h e -> known (st h) n = true -> known (st (step h e)) n = false ->
  exists ans now snap ups e0,
    e = EApply ans /\ pend h = Some (now, snap) /\ poll snap ans = Some ups /\ In (n, Drop) ups /\
    find n (m (st h)) = Some (Some e0) /\ decl e0 = false /\ 0 < age (st h) /\ age (st h) < elapsed now (last e0) /\
    has_handle (st h) n = false /\ (forall w, In w (ws (st h)) -> wname w <> n).
Proof. exact (@dropped_only_if V). Qed.

(* IF: a marked secret still without a handle is dropped from the store AND from the cache document when the
   poll succeeds *)
Theorem C19_dropped_if : forall (h : hstate V) (ans : name -> N -> resp V) now snap v (n : name),
  HInv h -> pend h = Some (now, snap) -> In (n, (true, v)) snap -> has_handle (st h) n = false ->
  (forall k x, In (k, x) (requests snap) -> ans k x <> RErr) ->
  known (st (step h (EApply ans))) n = false /\
  ~ In (n, None) (cdoc (step h (EApply ans))) /\ ~ In n (map fst (cdoc (step h (EApply ans)))).
Proof. exact (@dropped_if V). Qed.

(* a failed poll drops nothing (it applies nothing at all) *)
Theorem C19_failed_poll_noop : forall (h : hstate V) (ans : name -> N -> resp V) now snap,
  pend h = Some (now, snap) -> poll snap ans = None -> step h (EApply ans) = HS (st h) None (cdoc h).
Proof. exact (@failed_poll_noop V). Qed.

(* ---- NEVER: "declared secrets ... are never dropped" (whatever happens within the process) *)
Theorem C19_never_declared : forall (es : list (event V)) (h : hstate V) (n : name) (e0 : centry V),
  HInv h -> ok_run h es -> no_restart es ->
  find n (m (st h)) = Some (Some e0) -> decl e0 = true ->
  exists e1, find n (m (st (run h es))) = Some (Some e1) /\ decl e1 = true.
Proof. exact (@never_declared V). Qed.

(* "secrets with live handles ... are never dropped" (and the handle stays) *)
Theorem C19_never_with_handle : forall (es : list (event V)) (h : hstate V) (n : name),
  HInv h -> ok_run h es -> no_restart es ->
  has_handle (st h) n = true ->
  has_handle (st (run h es)) n = true /\ known (st (run h es)) n = true.
Proof. exact (@never_with_handle V). Qed.

(* "all secrets when no expiry age is set are never dropped" *)
Theorem C19_never_without_age : forall (es : list (event V)) (h : hstate V) (n : name),
  HInv h -> ok_run h es -> no_restart es ->
  age (st h) <= 0 -> known (st h) n = true -> known (st (run h es)) n = true.
Proof. exact (@never_without_age V). Qed.

(* "secrets read within the window ... are never dropped": within the window at the poll's snapshot *)
Theorem C19_never_recent : forall (h : hstate V) (ans : name -> N -> resp V) now snap (n : name) (e0 : centry V),
  HInv h -> pend h = Some (now, snap) -> find n (m (st h)) = Some (Some e0) ->
  elapsed now (last e0) <= age (st h) -> known (st (step h (EApply ans))) n = true.
Proof. exact (@never_recent V). Qed.

(* a restart (new process, from the cache) drops nothing either *)
Theorem C19_restart_keeps : forall (h : hstate V) names al ag (fetch : name -> N * V) t (n : name),
  HInv h -> known (st h) n = true -> known (st (step h (ERestart names al ag fetch t))) n = true.
Proof. exact (@restart_keeps V). Qed.

(* ---- "each read refreshes the secret's last-access time": a read returns the current bytes, stamps the
   entry with the instant of the read, and changes nothing else *)
Theorem C19_read_stamps : forall (h : hstate V) (n : name) t (e0 : centry V),
  HInv h -> has_handle (st h) n = true -> find n (m (st h)) = Some (Some e0) ->
  snd (read (st h) n t) = Some (val e0) /\
  find n (m (st (step h (ERead n t)))) = Some (Some (CE (ver e0) (val e0) t (decl e0))) /\
  (forall k, k <> n -> find k (m (st (step h (ERead n t)))) = find k (m (st h))).
Proof. exact (@read_stamps V). Qed.

(* a handle never dangles: the read above is always possible *)
Theorem C19_handle_reads : forall (h : hstate V) (n : name),
  HInv h -> has_handle (st h) n = true -> exists e0, find n (m (st h)) = Some (Some e0).
Proof. exact (@handle_reads V). Qed.

(* ---- "which is persisted with the next cache write": a cache document is exactly the current contents,
   last-access stamps included *)
Theorem C19_doc_exact : forall (s : store V) (n : name) x, Inv s ->
  (In (n, x) (doc s) <-> exists e0, find n (m s) = Some (Some e0) /\ x = Some (ver e0, val e0, last e0)).
Proof. exact (@doc_exact V). Qed.

(* the cache document is either left alone by an event or rewritten with the current contents *)
Theorem C19_cdoc_step : forall (h : hstate V) (e : event V),
  HInv h -> ev_ok h e -> cdoc (step h e) = cdoc h \/ cdoc (step h e) = doc (st (step h e)).
Proof. exact (@cdoc_step V). Qed.

(* cache writes: the poller's shutdown flush ... *)
Theorem C19_flush_persists : forall (h : hstate V),
  cdoc (step h (@EFlush V)) = doc (st h) /\ st (step h (@EFlush V)) = st h.
Proof. exact (@flush_persists V). Qed.

(* ... a successful lookup ... *)
Theorem C19_lookup_flushes : forall (h : hstate V) (n : name) v (b : V) t,
  allow (st h) = true -> cdoc (step h (ELookupOk n v b t)) = doc (st (step h (ELookupOk n v b t))).
Proof. exact (@lookup_flushes V). Qed.

(* ... and every poll that changes something *)
Theorem C19_apply_flushes : forall (h : hstate V) (ans : name -> N -> resp V) now snap ups,
  pend h = Some (now, snap) -> poll snap ans = Some ups -> ups <> [] ->
  cdoc (step h (EApply ans)) = doc (st (step h (EApply ans))).
Proof. exact (@apply_flushes V). Qed.

(* ---- "so that the rule holds across restarts": the new process has the persisted stamps (0 included), takes
   declared-ness from ITS configuration, fetches what is declared and missing, and has no handle or watcher *)
Theorem C19_across_restart : forall (h : hstate V) names al ag (fetch : name -> N * V) t,
  HInv h -> names_ok names al = true ->
  let h' := step h (ERestart names al ag fetch t) in
  hs (st h') = [] /\ ws (st h') = [] /\ age (st h') = ag /\ allow (st h') = al /\ pend h' = None /\
  (forall n v b ts, In (n, Some (v, b, ts)) (cdoc h) -> find n (m (st h')) = Some (Some (CE v b ts (mem n names)))) /\
  (forall n, ~ In n (map fst (cdoc h)) -> In n names ->
       find n (m (st h')) = Some (Some (CE (fst (fetch n)) (snd (fetch n)) t true))) /\
  (forall n, ~ In n (map fst (cdoc h)) -> ~ In n names -> find n (m (st h')) = None).
Proof. exact (@across_restart V). Qed.

(* ---- "not read for longer than that age": the age of an entry is Go's saturating Duration; a stamp of 0
   means "never" (the zero time), i.e. the largest age *)
Theorem C19_elapsed_zero : forall now, elapsed now 0 = maxD.
Proof. exact elapsed_zero. Qed.

Theorem C19_elapsed_exact : forall now l,
  l <> 0 -> - maxD - 1 <= now - l * 1000000000 <= maxD -> elapsed now l = now - l * 1000000000.
Proof. exact elapsed_exact. Qed.

(* an undeclared secret without handle whose stamp is 0 is marked by every poll, whatever the (finite) age *)
Theorem C19_stamp_zero_always_stale : forall (s : store V) now (n : name) (e0 : centry V),
  Inv s -> find n (m s) = Some (Some e0) -> last e0 = 0 -> decl e0 = false -> 0 < age s -> age s < maxD ->
  has_handle s n = false -> In (n, (true, ver e0)) (snapshot s now).
Proof. exact (@stamp_zero_always_stale V). Qed.

End C19.

Print Assumptions C19_HInv_step.
Print Assumptions C19_HInv_run.
Print Assumptions C19_HInv_restart.
Print Assumptions C19_HInv_restart_invalid.
Print Assumptions C19_snapshot_marks.
Print Assumptions C19_snapshot_sound.
Print Assumptions C19_expired_not_polled.
Print Assumptions C19_poll_succeeds_iff.
Print Assumptions C19_poll_drops.
Print Assumptions C19_dropped_only_if.
Print Assumptions C19_dropped_if.
Print Assumptions C19_failed_poll_noop.
Print Assumptions C19_never_declared.
Print Assumptions C19_never_with_handle.
Print Assumptions C19_never_without_age.
Print Assumptions C19_never_recent.
Print Assumptions C19_restart_keeps.
Print Assumptions C19_read_stamps.
Print Assumptions C19_handle_reads.
Print Assumptions C19_doc_exact.
Print Assumptions C19_cdoc_step.
Print Assumptions C19_flush_persists.
Print Assumptions C19_lookup_flushes.
Print Assumptions C19_apply_flushes.
Print Assumptions C19_across_restart.
Print Assumptions C19_elapsed_zero.
Print Assumptions C19_elapsed_exact.
Print Assumptions C19_stamp_zero_always_stale.

(* ---------------------------------------------------------------- concrete histories (V := N) *)
Definition nd : name := [100%N].   (* "d": declared *)
Definition nx : name := [120%N].   (* "x": looked up *)
Definition ny : name := [121%N].   (* "y": looked up *)
Definition nz : name := [122%N].   (* "z": found in a crafted cache *)

Definition sec : Z := 1000000000.
Definition age30 : Z := 30 * sec.
Definition fetch0 : name -> N * N := fun _ => (1%N, 7%N).
Definition blank : hstate N := HS (ST [] [] [] true 0) None [].
Definition all_same : name -> N -> resp N := fun _ _ => RNotChanged.
Definition d_fails : name -> N -> resp N := fun n _ => if neqb n nd then RErr else RNotChanged.

(* process 1 (started at second 50, "d" declared, age 30 s) looks "x" and "y" up at second 100 - which hands out
   handles; process 2 starts from the cache process 1 wrote and hands out nothing *)
Definition boot (ag : Z) : hstate N := restart blank [nd] true ag fetch0 50.
Definition hist0 (ag : Z) : list (event N) :=
  [ELookupOk nx 1%N 8%N 100; ELookupOk ny 1%N 9%N 100; ERestart [nd] true ag fetch0 100].
Definition summary (h : hstate N) :=
  (map fst (m (st h)), map fst (cdoc h), (known (st h) nd, known (st h) nx, known (st h) ny)).
Definition polled (h : hstate N) : list name :=
  match pend h with Some (_, snap) => map fst (requests snap) | None => [] end.

(* before the poll: three secrets, all in the cache, stamps 50/100/100 persisted, no handle in process 2 *)
Example C19_ex_before :
  let h := run (boot age30) (hist0 age30) in
  summary h = ([nd; nx; ny], [nd; nx; ny], (true, true, true)) /\ hs (st h) = [] /\
  cdoc h = [(nd, Some (1%N, 7%N, 50)); (nx, Some (1%N, 8%N, 100)); (ny, Some (1%N, 9%N, 100))].
Proof. vm_compute. repeat split; reflexivity. Qed.

(* (a) a poll at second 131: "x" and "y" (31 s > 30 s) are not requested, and are dropped from the store and the
   cache when the poll succeeds; the declared "d" stays *)
Example C19_ex_a_requests : polled (run (boot age30) (hist0 age30 ++ [ESnap (131 * sec)])) = [nd].
Proof. vm_compute. reflexivity. Qed.
Example C19_ex_a :
  summary (run (boot age30) (hist0 age30 ++ [ESnap (131 * sec); EApply all_same])) = ([nd], [nd], (true, false, false)).
Proof. vm_compute. reflexivity. Qed.

(* (b) boundary: a poll at exactly second 130 drops nothing (strictly longer than the age) *)
Example C19_ex_b_requests : polled (run (boot age30) (hist0 age30 ++ [ESnap (130 * sec)])) = [nd; nx; ny].
Proof. vm_compute. reflexivity. Qed.
Example C19_ex_b :
  summary (run (boot age30) (hist0 age30 ++ [ESnap (130 * sec); EApply all_same])) = ([nd; nx; ny], [nd; nx; ny], (true, true, true)).
Proof. vm_compute. reflexivity. Qed.

(* (c) a handle on "x" handed out between the snapshot and the apply step saves "x"; "y" is dropped *)
Example C19_ex_c :
  summary (run (boot age30) (hist0 age30 ++ [ESnap (131 * sec); ESecret nx; EApply all_same])) = ([nd; nx], [nd; nx], (true, true, false)).
Proof. vm_compute. reflexivity. Qed.

(* (d) no expiry age: nothing is ever dropped, not even an entry with stamp 0 *)
Definition crafted : hstate N := HS (ST [] [] [] true 0) None [(nz, Some (1%N, 7%N, 0))].
Example C19_ex_d :
  let h := run (restart crafted [nd] true 0 fetch0 50) [ESnap (1000000 * sec); EApply all_same] in
  (map fst (m (st h)), known (st h) nz) = ([nd; nz], true) /\
  polled (run (restart crafted [nd] true 0 fetch0 50) [ESnap (1000000 * sec)]) = [nd; nz].
Proof. vm_compute. split; reflexivity. Qed.

(* (e) stamp 0 (never read) with an age of one second: dropped at the first poll, whenever it happens *)
Example C19_ex_e :
  let h := run (restart crafted [nd] true sec fetch0 50) [ESnap (51 * sec); EApply all_same] in
  (map fst (m (st h)), map fst (cdoc h), known (st h) nz) = ([nd], [nd], false) /\
  polled (run (restart crafted [nd] true sec fetch0 50) [ESnap (51 * sec)]) = [nd].
Proof. vm_compute. split; reflexivity. Qed.

(* (f) a failed poll (the request for "d" fails) drops nothing, although "x" and "y" were marked *)
Example C19_ex_f :
  summary (run (boot age30) (hist0 age30 ++ [ESnap (131 * sec); EApply d_fails])) = ([nd; nx; ny], [nd; nx; ny], (true, true, true)) /\
  pend (run (boot age30) (hist0 age30 ++ [ESnap (131 * sec); EApply d_fails])) = None.
Proof. vm_compute. split; reflexivity. Qed.

(* a read refreshes the stamp, the next cache write persists it, and the next process honours it:
   "x" is read at second 125 in process 1 (through its handle), the shutdown flush writes the cache,
   process 2 polls at second 131: "x" (6 s) stays, "y" (31 s) is dropped *)
Example C19_ex_read :
  summary (run (boot age30)
    [ELookupOk nx 1%N 8%N 100; ELookupOk ny 1%N 9%N 100; ERead nx 125; EFlush;
     ERestart [nd] true age30 fetch0 126; ESnap (131 * sec); EApply all_same]) = ([nd; nx], [nd; nx], (true, true, false)).
Proof. vm_compute. reflexivity. Qed.
