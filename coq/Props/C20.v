(* C20 - struct-tag plumbing delivers each named secret to its field unaltered.  Statements only
   (proofs: Client/FieldsProofs.v; model: Client/Fields.v on top of Client/Store.v). *)
From Coq Require Import List Bool NArith ZArith.
Import ListNotations.
From Setec Require Import Base.SMap Base.Bytes Base.Path Base.PathProofs Client.Store Client.StoreInv Client.Fields Client.FieldsProofs.

Section C20.
Variables V D : Type.
Variable jdec : ftype -> V -> D * bool.    (* what encoding/json makes of (field type, bytes) *)
Variable unm_ok : ftype -> V -> bool.      (* does the type's UnmarshalBinary accept the bytes *)
Variable ans : name -> option (N * V).     (* the service *)
Variable now_s : Z.

(* ---- Go's path.Join / path.Clean, for ALL byte strings (Base/Path.v).
   go_clean / go_join transcribe src/path/path.go (the lazybuf algorithm, byte by byte); path_clean /
   path_join2 are the same function over "/"-separated elements.  They are equal; the result of Clean
   is idempotent and has the documented shape: split at "/", it is "/" alone, or (rooted) an empty
   first element followed by good elements none of which is "..", or (relative) "." alone or good
   elements with ".." only at the front - where a good element is non-empty, is not "." and contains
   no "/".  Hence: no "//", no trailing "/" unless the result is "/", no "." element unless the result
   is ".", ".." only at the front of a relative result. *)
Theorem C20_path_model :
  (forall p, go_clean p = path_clean p) /\
  (forall a b, go_join [a; b] = path_join2 a b) /\
  (forall p, path_clean (path_clean p) = path_clean p) /\
  (forall a b, path_join2 a b <> [] -> path_clean (path_join2 a b) = path_join2 a b) /\
  (forall p, let rooted := match p with c :: _ => N.eqb c slash | [] => false end in
     exists l, normal rooted l /\
       split_on slash (path_clean p) =
         match rooted, l with
         | true, [] => [[]; []] | true, _ => [] :: l | false, [] => [[dot]] | false, _ => l
         end).
Proof.
  split; [exact go_clean_is_path_clean|]. split; [exact go_join2_is_path_join2|].
  split; [exact path_clean_idem|]. split; [exact path_join2_clean|]. exact path_clean_elements.
Qed.

(* what `normal` says, spelled out: every element is non-empty, not "." and slash-free; a rooted result
   has no ".." element; in a relative result every ".." element is preceded by ".." elements only *)
Theorem C20_path_normal : forall rooted l, normal rooted l ->
  Forall (fun s => s <> [] /\ s <> [dot] /\ ~ In slash s) l /\
  (rooted = true -> Forall (fun s => s <> [dot; dot]) l) /\
  (rooted = false -> forall a s b, l = a ++ s :: b -> s = [dot; dot] -> Forall (fun x => x = [dot; dot]) a).
Proof. exact normal_spelled. Qed.

(* on clean inputs (relative, slash separated, no empty, "." or ".." element) Join is prefix/name, and
   just the name when there is no prefix (a corollary now; it used to delimit the model's domain) *)
Theorem C20_join_clean : forall a b, clean a = true -> clean b = true ->
  path_join2 a b = a ++ slash :: b /\ path_join2 [] b = b.
Proof. exact (fun a b Ha Hb => conj (path_join_clean a b Ha Hb) (path_join_noprefix b Hb)). Qed.

(* The names REQUESTED are the names APPLIED, for every prefix and every tag name, clean or not: the
   i-th name Secrets() returns and the name under which Apply looks up the i-th tagged field are the same
   byte string, path.Join(prefix, tag name) as the Go source computes it (go_join) *)
Theorem C20_requested_are_applied : forall pfx pfs (s s' : store V) frs rq,
  Inv s -> apply jdec unm_ok ans now_s pfx s pfs = (s', frs, rq) ->
  Forall2 (fun n (r : fres V D) => rname r = n) (secrets_of pfx pfs) frs /\
  secrets_of pfx pfs = map (fun pf => go_join [pfx; psecret pf]) pfs /\
  secrets_of pfx pfs = map (fun pf => path_join2 pfx (psecret pf)) pfs.
Proof. exact (requested_are_applied V D jdec unm_ok ans now_s). Qed.

(* The secrets requested are exactly path.Join(prefix, name) for each tagged (visible) field, for ALL
   prefixes and (non-empty) tag names:
   Fields.Secrets is the list of joined tag names in field order; Apply produces one result per
   tagged field under exactly that name; every request made to the service is for one of these
   names, and every such name the store does not know yet is requested when lookups are allowed.
   On clean inputs the joined name is prefix ++ "/" ++ name (or name when the prefix is empty). *)
Theorem C20_names_exact : forall sh pfx pfs (s s' : store V) frs rq,
  Inv s -> parse_fields (AStructPtr sh) = inr pfs ->
  apply jdec unm_ok ans now_s pfx s pfs = (s', frs, rq) ->
  secrets_of pfx pfs = map (path_join2 pfx) (declared_names sh) /\
  Forall (fun n => n <> []) (declared_names sh) /\
  map (@rname V D) frs = secrets_of pfx pfs /\
  (forall x, In x rq -> In x (secrets_of pfx pfs)) /\
  (forall x, In x (secrets_of pfx pfs) -> known s x = false -> allow s = true -> In x rq) /\
  (Forall (fun n => clean n = true) (declared_names sh) ->
     (clean pfx = true -> secrets_of pfx pfs = map (fun n => pfx ++ slash :: n) (declared_names sh)) /\
     (pfx = [] -> secrets_of pfx pfs = declared_names sh)).
Proof. exact (names_exact V D jdec unm_ok ans now_s). Qed.

(* After Apply every tagged field is accounted for, in order.  With n = prefix/name of the field
   and v = the secret's current value (the value the store held for n before Apply, otherwise -
   lookups allowed - the service's answer, which the store now holds: ev s' n = Some v):
     []byte      a FRESH buffer holding v            string   the text v
     Secret      a handle of THIS store for n (n is in the store's handle set)
     unmarshaler UnmarshalBinary was called with exactly v (error iff it refuses v)
     json verb   the field holds what json.Unmarshal makes of v (error iff the decoder fails)
   and if there is no such value (unknown name with lookups disabled, or the service has none) the
   field is left untouched and the failure is reported. *)
Theorem C20_field_values : forall pfx pfs (s s' : store V) frs rq,
  Inv s -> apply jdec unm_ok ans now_s pfx s pfs = (s', frs, rq) ->
  Inv s' /\
  Forall2 (fun pf (r : fres V D) =>
    let n := full_name pfx pf in
    rloc r = ploc pf /\ rname r = n /\
    match value_of V ans s n with
    | None => rcontent r = CUntouched /\ rerr r <> None
    | Some v =>
        (exists k, rcontent r =
           match phow pf with
           | HJson => CJson (fst (jdec (pty pf) v))
           | HUnm => CUnm v
           | HBytes => CBytes (BFresh k) v
           | HString => CString v
           | HHandle => CHandle n
           end) /\
        rerr r = match phow pf with
                 | HJson => if snd (jdec (pty pf) v) then None else Some EJson
                 | HUnm => if unm_ok (pty pf) v then None else Some EUnmarshal
                 | _ => None
                 end /\
        (phow pf = HHandle -> In n (hs s')) /\
        ev V s' n = Some v
    end) pfs frs.
Proof. exact (field_values V D jdec unm_ok ans now_s). Qed.

(* which kind of delivery a tag selects (parseFields): the json verb wins, then a binary
   unmarshaler, then the three built-in types; anything else is refused *)
Theorem C20_field_kinds : forall l f pf, parse_field l f = Some (inr pf) ->
  exists tag, ftag f = Some tag /\ ploc pf = l /\ psecret pf = tag_name tag /\ tag_name tag <> [] /\ pty pf = fty f /\
    phow pf = (if tag_json tag then HJson else
               match fty f with
               | TBytes => HBytes | TString => HString | THandle => HHandle | _ => HUnm end) /\
    (tag_json tag = false -> forall t, fty f <> TOther t).
Proof. exact parse_field_ok. Qed.

(* untagged fields - and fields that are not visible (shadowed or ambiguous promoted fields) - are untouched *)
Theorem C20_untagged_untouched : forall sh pfx pfs (s s' : store V) frs rq,
  Inv s -> parse_fields (AStructPtr sh) = inr pfs ->
  apply jdec unm_ok ans now_s pfx s pfs = (s', frs, rq) ->
  forall l, (forall f, In (l, f) (visible sh) -> ftag f = None) -> content_at frs l = CUntouched.
Proof. exact (untagged_untouched V D jdec unm_ok ans now_s). Qed.

(* the buffer of a populated []byte field is never a buffer of the store: overwriting it cannot
   change what ANY store state serves for ANY name *)
Theorem C20_bytes_private : forall pfx pfs (s s' : store V) frs rq,
  Inv s -> apply jdec unm_ok ans now_s pfx s pfs = (s', frs, rq) ->
  forall (r : fres V D) b v, In r frs -> rcontent r = CBytes b v ->
  (exists k, b = BFresh k) /\
  forall (st : store V) n, served st (bufid_eqb b) n = served st (fun _ => false) n.
Proof. exact (bytes_private V D jdec unm_ok ans now_s). Qed.

(* rejected up front: a non-pointer or non-struct argument - including the untyped nil (also
   StoreConfig.Structs with a nil Value) and a nil pointer to a struct of ANY shape, tagged or not
   (finding F9, repaired by 94ee9a9: these used to panic in reflect) -, an empty name, an unsupported
   type without the json verb, no tagged field - and nothing else: only a non-nil pointer to a struct
   is ever accepted; a rejection happens before any request (no request, store unchanged; NewStore
   fails in secretNames) *)
Theorem C20_reject_upfront :
  (forall sh, parse_fields (AStruct sh) = inl ENotPtrStruct /\ parse_fields ANonStruct = inl ENotPtrStruct) /\
  (forall sh, parse_fields ANil = inl ENotPtrStruct /\ parse_fields (ANilStructPtr sh) = inl ENilPtr) /\
  (forall a, (forall sh, a <> AStructPtr sh) -> exists e, parse_fields a = inl e) /\
  (forall a pfs, parse_fields a = inr pfs -> exists sh, a = AStructPtr sh) /\
  (forall sh l f tag, In (l, f) (visible sh) -> ftag f = Some tag -> tag_name tag = [] ->
     exists e, parse_fields (AStructPtr sh) = inl e) /\
  (forall sh l f tag t, In (l, f) (visible sh) -> ftag f = Some tag -> tag_json tag = false -> fty f = TOther t ->
     exists e, parse_fields (AStructPtr sh) = inl e) /\
  (forall sh, (forall l f, In (l, f) (visible sh) -> ftag f = None) -> parse_fields (AStructPtr sh) = inl ENoFields) /\
  (forall sh e, parse_fields (AStructPtr sh) = inl e ->
     (forall l f, In (l, f) (visible sh) -> ftag f = None) \/
     exists l f tag, In (l, f) (visible sh) /\ ftag f = Some tag /\
       (tag_name tag = [] \/ (tag_json tag = false /\ exists t, fty f = TOther t))) /\
  (forall a pfx (s : store V) e allow_lookup extra, parse_fields a = inl e ->
     parse_apply jdec unm_ok ans now_s a pfx s = (s, inl e, []) /\
     new_store jdec unm_ok ans now_s allow_lookup extra a pfx = NSReject e).
Proof.
  split; [exact reject_not_ptr|]. split; [exact reject_nil|]. split; [exact reject_unless_struct_ptr|].
  split; [exact accepted_is_struct_ptr|]. split; [exact reject_empty_name|]. split; [exact reject_unsupported|].
  split; [exact reject_no_fields|]. split; [exact reject_only|]. exact (reject_no_requests V D jdec unm_ok ans now_s).
Qed.

(* a failure on one field neither stops the others nor goes unreported: every tagged field gets
   its result; the reported error set is exactly the fields that fail, in order; and whether a
   field fails is a function of that field alone (its own name's value and its own decoder):
   `fails` looks at no other field *)
Theorem C20_errors_joined : forall pfx pfs (s s' : store V) frs rq,
  Inv s -> apply jdec unm_ok ans now_s pfx s pfs = (s', frs, rq) ->
  length frs = length pfs /\
  map fst (reported frs) = map ploc (filter (fails V D jdec unm_ok ans s pfx) pfs) /\
  (reported frs = [] <-> forall pf, In pf pfs -> fails V D jdec unm_ok ans s pfx pf = false).
Proof. exact (errors_joined V D jdec unm_ok ans now_s). Qed.

(* Secrets() is a pure function of the struct declaration and the prefix, and the name Apply uses for
   field i is a function of field i alone:
   (1) every result carries full_name prefix of ITS OWN field (and that field's location), whatever the
       other fields, the store, or earlier calls of Secrets() were;
   (2) the usage pattern  f := ParseFields(&v, pfx); NewStore{Secrets: f.Secrets() ++ extra}; f.Apply
       gives exactly what NewStore with the struct configured gives, the second Secrets() returns the
       same names in the same order, and all of it is invariant under ANY treatment scr of the list the
       first Secrets() handed out (NewStore sorts and compacts it in place; a caller may reverse or
       overwrite it).  In the model (2) is immediate - a list is a value, scr's result cannot reach the
       parsed fields - and is stated so that the aliasing question is visible: that the Go object does
       not share that slice is checked by the correspondence run (mode "decl"), as buffer identities
       are for []byte fields. *)
Theorem C20_secrets_pure :
  (forall pfx pfs (s s' : store V) frs rq,
     Inv s -> apply jdec unm_ok ans now_s pfx s pfs = (s', frs, rq) ->
     Forall2 (fun pf (r : fres V D) => rname r = full_name pfx pf /\ rloc r = ploc pf) pfs frs) /\
  (forall allow_lookup extra scr a pfx,
     fst (declare_apply jdec unm_ok ans now_s allow_lookup extra scr a pfx)
       = new_store jdec unm_ok ans now_s allow_lookup extra a pfx /\
     (forall pfs, parse_fields a = inr pfs ->
        snd (declare_apply jdec unm_ok ans now_s allow_lookup extra scr a pfx) = secrets_of pfx pfs) /\
     (forall scr', declare_apply jdec unm_ok ans now_s allow_lookup extra scr a pfx
                   = declare_apply jdec unm_ok ans now_s allow_lookup extra scr' a pfx)).
Proof.
  split; [exact (apply_names_pointwise V D jdec unm_ok ans now_s)|].
  exact (declare_apply_is_new_store V D jdec unm_ok ans now_s).
Qed.

(* An Apply depends ONLY on the store it is given - not on earlier Applies of the same parsed Fields,
   whatever store they went to and whether they succeeded: the second component of apply_twice is
   apply on sB, it is the same for every first store, and (with the store invariant for sB) its results
   satisfy the per-field specification of C20_field_values with respect to sB alone: every field holds
   the current value of its own name IN sB (a handle field: a handle of sB), or is untouched and
   reported.  In the model this is immediate - `apply` has no input besides the parsed fields, the prefix
   and the store - and it is stated so that the question is visible: that a *Fields of the Go code keeps
   no state between Applies (no memoised handle or bytes, no "already populated" shortcut) is checked by
   the correspondence run, mode "reapply". *)
Theorem C20_apply_stateless : forall pfx pfs (sA sA' sB : store V),
  snd (apply_twice jdec unm_ok ans now_s pfx pfs sA sB) = apply jdec unm_ok ans now_s pfx sB pfs /\
  snd (apply_twice jdec unm_ok ans now_s pfx pfs sA sB) = snd (apply_twice jdec unm_ok ans now_s pfx pfs sA' sB) /\
  (Inv sB -> forall s' frs rq, snd (apply_twice jdec unm_ok ans now_s pfx pfs sA sB) = (s', frs, rq) ->
     Inv s' /\ Forall2 (field_spec V D jdec unm_ok ans sB s' pfx) pfs frs).
Proof. exact (apply_twice_stateless V D jdec unm_ok ans now_s). Qed.

(* ---- several structs (StoreConfig.Structs with two or more entries; several parsed values).
   NewStore applies the structs in order and returns the error of the FIRST struct whose Apply reports
   one (store.go:248-252).  The composed Apply reports an error IFF some struct's Apply does - iff some
   tagged field of some struct fails, judged against the store the loop starts with (applying earlier
   structs changes no secret's value) -; the struct it stops at is the first such struct, exactly the
   structs up to it have results, and with no failing field every struct has been applied.  So no
   struct's error can be swallowed by a later struct that applies cleanly. *)
Theorem C20_structs_error_iff : forall (l : list (bstr * list (pfield))) (s : store V), Inv s ->
  let '(s', frss, rq, e) := apply_structs jdec unm_ok ans now_s s l in
  (e <> None <-> exists pfx pfs pf, In (pfx, pfs) l /\ In pf pfs /\ fails V D jdec unm_ok ans s pfx pf = true) /\
  (forall k, e = Some k ->
     length frss = S k /\
     (exists pfx pfs pf, nth_error l k = Some (pfx, pfs) /\ In pf pfs /\ fails V D jdec unm_ok ans s pfx pf = true) /\
     (forall j pfx pfs pf, (j < k)%nat -> nth_error l j = Some (pfx, pfs) -> In pf pfs ->
        fails V D jdec unm_ok ans s pfx pf = false)) /\
  (e = None -> length frss = length l).
Proof.
  intros l s I. pose proof (apply_structs_error_iff V D jdec unm_ok ans now_s l s I) as H.
  destruct (apply_structs jdec unm_ok ans now_s s l) as [[[s' frss] rq] e]. tauto.
Qed.

(* every struct that is applied gets the results of ITS OWN (prefix, fields) - whatever the other entries
   are, in particular when they are other values of the SAME struct type: the per-field specification of
   C20_field_values holds for entry k with respect to the store it was handed, in which every secret has
   the value it had at the start.  In the model entries share nothing (there is no per-type state); that
   the Go code caches nothing per reflect.Type is checked by the correspondence run, mode "structs". *)
Theorem C20_structs_each_own : forall (l : list (bstr * list (pfield))) (s : store V), Inv s ->
  let '(s', frss, rq, e) := apply_structs jdec unm_ok ans now_s s l in
  forall k pfx pfs frs, nth_error l k = Some (pfx, pfs) -> nth_error frss k = Some frs ->
    exists sk sk', (forall n, value_of V ans sk n = value_of V ans s n) /\
                   Forall2 (field_spec V D jdec unm_ok ans sk sk' pfx) pfs frs.
Proof. exact (apply_structs_each V D jdec unm_ok ans now_s). Qed.

End C20.

Print Assumptions C20_path_model.
Print Assumptions C20_path_normal.
Print Assumptions C20_join_clean.
Print Assumptions C20_requested_are_applied.
Print Assumptions C20_names_exact.
Print Assumptions C20_field_values.
Print Assumptions C20_field_kinds.
Print Assumptions C20_untagged_untouched.
Print Assumptions C20_bytes_private.
Print Assumptions C20_reject_upfront.
Print Assumptions C20_errors_joined.
Print Assumptions C20_secrets_pure.
Print Assumptions C20_apply_stateless.
Print Assumptions C20_structs_error_iff.
Print Assumptions C20_structs_each_own.

(* ---- non-vacuity: a concrete struct, store and service *)
Open Scope N_scope.

Definition ex_name (b : N) : bstr := [b].
(* struct { A []byte `setec:"a"`; B string `setec:"b"`; H Secret `setec:"a"`; U Rec `setec:"c"`;
            J int `setec:"b,json"`; X string; E struct{ A string `setec:"z"`; K []byte `setec:"k"` } } *)
Definition ex_shape : list item :=
  [ IF (F 1 (Some [x61]) TBytes); IF (F 2 (Some [x62]) TString); IF (F 3 (Some [x61]) THandle);
    IF (F 4 (Some [x63]) TUnmVal); IF (F 5 (Some [x62; x2c; x6a; x73; x6f; x6e]) (TOther 6));
    IF (F 6 None TString); IE 7 [F 1 (Some [x7a]) TString; F 8 (Some [x6b]) TBytes] ].
Definition ex_pfx : bstr := [x70].                                (* "p" *)
Definition ex_n (c : N) : name := [x70; x2f; c].                  (* "p/<c>" *)
(* the store knows p/a (value 11) and p/b (value 12); the service also has p/k = 14; p/c is nowhere *)
Definition ex_store0 : store N := ST [] [] [] true 0%Z.
Definition ex_store1 : store N := with_m ex_store0 (upd (ex_n x61) (Some (CE 1 11 0%Z true)) (m ex_store0)).
Definition ex_store : store N := with_m ex_store1 (upd (ex_n x62) (Some (CE 3 12 0%Z true)) (m ex_store1)).
Definition ex_ans (n : name) : option (N * N) := if neqb n (ex_n x6b) then Some (1, 14) else None.
Definition ex_jdec (t : ftype) (v : N) : N * bool := (v + 100, N.eqb v 12).
Definition ex_unm (t : ftype) (v : N) : bool := true.
Definition ex_run := parse_apply ex_jdec ex_unm ex_ans 5%Z (AStructPtr ex_shape) ex_pfx ex_store.

Example ex_store_inv : Inv ex_store.
Proof.
  apply Inv_upd_some. apply Inv_upd_some. constructor; cbn.
  - constructor.
  - intros n. discriminate.
  - intros n [].
Qed.

(* the promoted field E.A is hidden by the top-level A; E.K is visible *)
Example ex_visible : map fst (visible ex_shape) = [(0,0); (1,0); (2,0); (3,0); (4,0); (5,0); (6,2)].
Proof. vm_compute. reflexivity. Qed.

Example ex_requests_and_errors :
  match ex_run with
  | (_, inr frs, rq) =>
      map (@rname N N) frs = [ex_n x61; ex_n x62; ex_n x61; ex_n x63; ex_n x62; ex_n x6b]
      /\ rq = [ex_n x63; ex_n x6b]                       (* only the two unknown names are asked for, in order *)
      /\ map fst (reported frs) = [(3,0)]                (* p/c does not exist: that field alone fails ... *)
      /\ map (@rcontent N N) frs =                       (* ... and every other field is filled *)
           [CBytes (BFresh 0) 11; CString 12; CHandle (ex_n x61); CUntouched; CJson 112; CBytes (BFresh 1) 14]
      /\ content_at frs (5,0) = CUntouched /\ content_at frs (6,1) = CUntouched
  | _ => False
  end.
Proof. vm_compute. repeat split; reflexivity. Qed.

(* the aliasing the property forbids IS expressible: a field holding the store's own buffer
   (what the code did before the bytes.Clone repair) changes what the store serves when poked *)
Example ex_alias_detected :
  served ex_store (bufid_eqb (BStore (ex_n x61) 1)) (ex_n x61) = Some None
  /\ served ex_store (bufid_eqb (BFresh 0)) (ex_n x61) = Some (Some 11).
Proof. vm_compute. split; reflexivity. Qed.

Example ex_rejections :
  parse_fields (AStructPtr [IF (F 1 (Some [x2c; x6a; x73; x6f; x6e]) TString)]) = inl (EEmptyName (0,0))   (* ",json" *)
  /\ parse_fields (AStructPtr [IF (F 1 (Some [x61]) TString); IF (F 2 (Some [x62]) (TOther 6))]) = inl (EUnsupported (1,0))
  /\ parse_fields (AStructPtr [IF (F 1 None TString)]) = inl ENoFields
  /\ parse_fields (AStruct ex_shape) = inl ENotPtrStruct
  /\ parse_fields ANil = inl ENotPtrStruct
  /\ parse_fields (ANilStructPtr ex_shape) = inl ENilPtr
  /\ parse_fields (ANilStructPtr [IF (F 1 None TString)]) = inl ENilPtr            (* untagged: nil pointer, not "no fields" *)
  /\ new_store ex_jdec ex_unm ex_ans 5%Z true [[x61]] ANil ex_pfx = NSReject ENotPtrStruct
  /\ parse_apply ex_jdec ex_unm ex_ans 5%Z (ANilStructPtr ex_shape) ex_pfx ex_store = (ex_store, inl ENilPtr, [])
  /\ new_store ex_jdec ex_unm ex_ans 5%Z true [] (AStructPtr [IF (F 1 (Some []) TString)]) ex_pfx = NSReject (EEmptyName (0,0)).
Proof. vm_compute. repeat split; reflexivity. Qed.

(* NewStore with the struct: every name is fetched during construction, Apply asks for nothing more *)
Example ex_new_store :
  match new_store ex_jdec ex_unm (fun n => Some (1, 20 + N.of_nat (length n))) 5%Z false [] (AStructPtr ex_shape) [] with
  | NSDone init_rq _ frs rq => init_rq = [[x61]; [x62]; [x63]; [x6b]] /\ rq = [] /\ reported frs = [(4,0, EJson)]
  | _ => False
  end.
Proof. vm_compute. repeat split; reflexivity. Qed.

Example ex_join : path_join2 [x61; x2f; x2f; x62; x2f] [x2e; x2e; x2f; x63] = [x61; x2f; x63]   (* "a//b/" + "../c" = "a/c" *)
  /\ clean [x61; x2f; x62] = true /\ clean [x61; x2f; x2f; x62] = false /\ clean [] = false /\ clean [x2e; x2e] = false.
Proof. vm_compute. repeat split; reflexivity. Qed.

(* declare via Secrets(), tag names NOT in sorted order and one name used by two fields: the names come
   back in field order, twice; sorting, reversing or overwriting the first list changes nothing; the
   store is asked for each distinct name once and Apply for nothing more; each field gets ITS name *)
Definition ex_unsorted : list item :=
  [IF (F 1 (Some [x7a]) TString); IF (F 2 (Some [x61]) TBytes); IF (F 3 (Some [x6d]) THandle); IF (F 4 (Some [x7a]) TString)].
Example ex_declare_unsorted :
  let svc := fun n : name => Some (1, N.of_nat (length n) * 1000 + hd 0 (rev n)) in
  let run scr := declare_apply ex_jdec ex_unm svc 5%Z false [] scr (AStructPtr ex_unsorted) ex_pfx in
  snd (run (fun l => l)) = [ex_n x7a; ex_n x61; ex_n x6d; ex_n x7a]
  /\ run (fun l => l) = run (@rev name) /\ run (fun l => l) = run (map (fun _ => [x78]))
  /\ match fst (run (fun _ => [])) with
     | NSDone init_rq _ frs rq =>
         init_rq = [ex_n x61; ex_n x6d; ex_n x7a] /\ rq = []
         /\ map (fun r => (rloc r, rname r)) frs = [((0,0), ex_n x7a); ((1,0), ex_n x61); ((2,0), ex_n x6d); ((3,0), ex_n x7a)]
         /\ map (@rcontent N N) frs = [CString (3000 + x7a); CBytes (BFresh 0) (3000 + x61); CHandle (ex_n x6d); CString (3000 + x7a)]
     | _ => False
     end.
Proof. vm_compute. repeat split; reflexivity. Qed.

(* unclean prefixes and names: "prod/" + "db" = "prod/db"; "./prod" + "db"; "prod//east" + "../db";
   "a/../b" + "./x/"; "/abs/" + ".."; "." + "."; ".." + "../x"; the transcription of the source and the
   segment form agree (proved in general: C20_path_model) *)
Example ex_join_unclean :
  map (fun '(a, b) => go_join [a; b])
    [([x70;x2f], [x64]); ([x2e;x2f;x70], [x64]); ([x70;x2f;x2f;x65], [x2e;x2e;x2f;x64]); ([x61;x2f;x2e;x2e;x2f;x62], [x2e;x2f;x78;x2f]);
     ([x2f;x61;x2f], [x2e;x2e]); ([x2e], [x2e]); ([x2e;x2e], [x2e;x2e;x2f;x78]); ([], [x2f;x2f;x78])]
  = [[x70;x2f;x64]; [x70;x2f;x64]; [x70;x2f;x64]; [x62;x2f;x78]; [x2f]; [x2e]; [x2e;x2e;x2f;x2e;x2e;x2f;x78]; [x2f;x78]]
  /\ go_join [[x70;x2f]; []] = [x70] /\ go_join [[]; []] = [] /\ go_clean [] = [x2e].
Proof. vm_compute. repeat split; reflexivity. Qed.
