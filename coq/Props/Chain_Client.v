(* The end-to-end chain: store.go's poll (Client/Poll.v) -> setec.Client and the HTTP front door
   (Server/Http.v) -> the database (Server/DB.v, Server/KV.v).  Statements only; definitions in
   Client/EndToEnd.v, proofs in Client/EndToEndProofs.v.

   Poll.v answers a poll's request from an abstract service "name -> active (version, bytes)".
   Here that service is shown to be `srv_of_db s`, the abstraction of the server's database state,
   and Poll.v's answer to be exactly what the composition  client status map o handler o db_step
   yields.  Each link is tied to the Go code by its own correspondence run: client.go + server.go
   by C08/C09 (Run_Http: real mux, real setec.Client), db.go by C01/C02/C06/C09 (Run_DB), store.go
   by C11 (Run_C11). *)
From Coq Require Import List Bool NArith ZArith.
Import ListNotations.
From Setec Require Import Base.SMap Acl.Glob Server.KV Server.KVProofs Server.DB Server.Http
  Client.Store Client.StoreInv Client.Poll Client.PollProofs Client.EndToEnd Client.EndToEndProofs.

Section Chain.
Variable V : Type.
Variable veqb : V -> V -> bool.
Hypothesis veqb_spec : forall a b, veqb a b = true <-> a = b.

(* 1+2. ONE REQUEST.  For an invariant database state, a caller whom the front door identifies as c
   and whose rules allow `get` on the name, and a working audit sink: what GetIfChanged(n, v)
   (v = 0: Get) returns, read as store.go's poll reads it, is exactly the answer Poll.v's request
   step computes from `srv_of_db s`: the active version with its bytes / not-changed iff v is the
   active version / a failed request when the name does not exist. *)
Theorem chain_answer : forall ev (s : dbstate V) w c n v empty,
  KVProofs.Inv (kv s) -> identity true w = Some c -> Glob.allow (rules c) AGet n = true ->
  audit_dead s = false -> audit ev = AOk ->
  answer_via_http veqb ev s w n v empty = get_if_changed (srv_of_db s) n v false.
Proof. first [exact (@EndToEndProofs.chain_answer V veqb veqb_spec) | exact (@EndToEndProofs.chain_answer V veqb)]. Qed.

(* whatever the audit sink does, it is the answer Poll.v computes for a request that succeeds or
   fails (Poll.EReq's `fail` input): a broken sink turns a delivery into a failed request *)
Theorem chain_answer_any : forall ev (s : dbstate V) w c n v empty,
  KVProofs.Inv (kv s) -> identity true w = Some c -> Glob.allow (rules c) AGet n = true ->
  exists fail, answer_via_http veqb ev s w n v empty = answer (srv_of_db s, fail, false) n v.
Proof. first [exact (@EndToEndProofs.chain_answer_any V veqb veqb_spec) | exact (@EndToEndProofs.chain_answer_any V veqb)]. Qed.

(* a caller NOT allowed to get the name is denied - a failed request - in every state ... *)
Theorem chain_denied : forall ev (s : dbstate V) w c n v empty,
  identity true w = Some c -> Glob.allow (rules c) AGet n = false ->
  answer_via_http veqb ev s w n v empty = RErr.
Proof. first [exact (@EndToEndProofs.chain_denied V veqb veqb_spec) | exact (@EndToEndProofs.chain_denied V veqb)]. Qed.

(* ... and so every poll that includes such a (live) name fails for every caller, nothing applied *)
Theorem chain_denied_poll : forall (st : store V) (s0 : dbstate V) now (l l1 : list (citem V)) n u l2 e,
  Inv st -> pure l -> entry st n = Some e -> flagged st now n = false ->
  l = l1 ++ CStore (EReq n true u) :: l2 -> (forall f' u', ~ In (CStore (EReq n f' u')) l1) ->
  let wk := run_w (WD st (srv_of_db s0) None) (ERefresh now :: translate veqb s0 l) in
  wst (fst (step wk EEnd)) = wst wk /\ exists k, snd (step wk EEnd) = repeat (ORes false) k.
Proof. first [exact (@EndToEndProofs.chain_denied_poll V veqb veqb_spec) | exact (@EndToEndProofs.chain_denied_poll V veqb)]. Qed.

(* the service after a database call is the service before, changed at the call's target only *)
Theorem chain_srv_step : forall ev (s : dbstate V) c o, KVProofs.Inv (kv s) ->
  let s' := fst (fst (db_step veqb ev s c o)) in
  srv_of_db s' = sstep (srv_of_db s) (sop_of_db s' o).
Proof. first [exact (@EndToEndProofs.srv_step V veqb veqb_spec) | exact (@EndToEndProofs.srv_step V veqb)]. Qed.

(* 3. A WHOLE POLL against a database that any callers keep changing by any calls (puts,
   activations forwards and backwards, delete-version, delete) between and during the requests:
   `l` is any interleaving of the store's events (CStore) and database calls (CDb).  After a
   successful poll every name known before either was flagged expired, or was requested at some
   point l1 and now holds the database's ACTIVE version with the bytes stored under it at that
   instant - or its version number equals the active one and the store kept its bytes. *)
Theorem chain_fresh : forall (st : store V) (s0 : dbstate V) now (l : list (citem V)),
  Inv st -> KVProofs.Inv (kv s0) -> pure l ->
  let wk := run_w (WD st (srv_of_db s0) None) (ERefresh now :: translate veqb s0 l) in
  In (ORes true) (snd (step wk EEnd)) ->
  forall n ver0 b0, vv st n = Some (ver0, b0) ->
    let r := vv (wst (fst (step wk EEnd))) n in
    (flagged st now n = true /\ (r = None \/ r = Some (ver0, b0)))
    \/ (exists l1 f u l2 x b,
          l = l1 ++ CStore (EReq n f u) :: l2 /\
          find n (kv (db_after veqb s0 l1)) = Some x /\ find (active x) (vers x) = Some b /\
          (r = Some (active x, b) \/ (active x = ver0 /\ r = Some (ver0, b0)))).
Proof. first [exact (@EndToEndProofs.chain_fresh V veqb veqb_spec) | exact (@EndToEndProofs.chain_fresh V veqb)]. Qed.

(* ... EXACTLY the active (version, bytes), under the explicit form of "a version number determines
   the bytes": the version the store holds is stored in the database under that number with those
   bytes when the poll begins, and nobody deletes the secret or that version during the poll
   (C02's bytes_immutable does the rest; a delete-and-recreate is outside the claim, as in C11).
   PARTIAL w.r.t. the widest statement: a delete-version of the store's (non-active) version
   followed by its re-activation is impossible in the database model (numbers are never reused,
   C02_never_reused), so the second exclusion could be dropped; that needs an invariant
   "absent and below latest stays absent" which is not proved here. *)
Theorem chain_fresh_exact_partial : forall (st : store V) (s0 : dbstate V) now (l : list (citem V)),
  Inv st -> KVProofs.Inv (kv s0) -> pure l ->
  let wk := run_w (WD st (srv_of_db s0) None) (ERefresh now :: translate veqb s0 l) in
  In (ORes true) (snd (step wk EEnd)) ->
  forall n ver0 b0 x0, vv st n = Some (ver0, b0) -> flagged st now n = false ->
    find n (kv s0) = Some x0 -> find ver0 (vers x0) = Some b0 ->
    (forall ev c, ~ In (CDb ev c (ODel n)) l) -> (forall ev c, ~ In (CDb ev c (ODelVer n ver0)) l) ->
    exists l1 f u l2 x b,
      l = l1 ++ CStore (EReq n f u) :: l2 /\
      find n (kv (db_after veqb s0 l1)) = Some x /\ find (active x) (vers x) = Some b /\
      vv (wst (fst (step wk EEnd))) n = Some (active x, b).
Proof. first [exact (@EndToEndProofs.chain_fresh_exact V veqb veqb_spec) | exact (@EndToEndProofs.chain_fresh_exact V veqb)]. Qed.

(* the Poll.v timeline of a combined timeline really tracks the database *)
Theorem chain_translate : forall (l : list (citem V)) (s : dbstate V), KVProofs.Inv (kv s) -> pure l ->
  srv_after (srv_of_db s) (translate veqb s l) = srv_of_db (db_after veqb s l) /\ KVProofs.Inv (kv (db_after veqb s l)).
Proof. first [exact (@EndToEndProofs.translate_srv V veqb veqb_spec) | exact (@EndToEndProofs.translate_srv V veqb)]. Qed.

(* 4. STEADY STATE IS INVISIBLE.  A poll all of whose requests find their version still active
   leaves the server's state (contents, generation, audit sink) untouched and writes NO audit
   record, whatever the audit sink would do ... *)
Theorem chain_conditional_silent : forall ev (s : dbstate V) w c empty reqs,
  KVProofs.Inv (kv s) -> identity true w = Some c ->
  (forall n v, In (n, v) reqs -> Glob.allow (rules c) AGet n = true /\ exists b, find n (srv_of_db s) = Some (v, b)) ->
  effects_of veqb ev s w reqs empty = (s, []).
Proof. first [exact (@EndToEndProofs.chain_conditional_silent V veqb veqb_spec) | exact (@EndToEndProofs.chain_conditional_silent V veqb)]. Qed.

(* ... and conversely whenever the client is told "not changed", nothing was recorded or changed *)
Theorem chain_not_changed_is_silent : forall ev (s : dbstate V) w c n v empty, identity true w = Some c ->
  snd (fst (getifchanged_via_http veqb ev s w n v empty)) = CNotChanged ->
  fst (fst (getifchanged_via_http veqb ev s w n v empty)) = s /\ snd (getifchanged_via_http veqb ev s w n v empty) = [].
Proof. first [exact (@EndToEndProofs.not_changed_is_silent V veqb veqb_spec) | exact (@EndToEndProofs.not_changed_is_silent V veqb)]. Qed.

End Chain.

Print Assumptions chain_answer.
Print Assumptions chain_answer_any.
Print Assumptions chain_denied.
Print Assumptions chain_denied_poll.
Print Assumptions chain_srv_step.
Print Assumptions chain_fresh.
Print Assumptions chain_fresh_exact_partial.
Print Assumptions chain_translate.
Print Assumptions chain_conditional_silent.
Print Assumptions chain_not_changed_is_silent.

(* ---- a concrete server and a concrete poll (values are numbers) *)
Local Open Scope N_scope.
Definition ce_env : env := {| save_ok := true; audit := AOk |}.
Definition ce_admin : caller :=
  {| principal := 1; rules := [{| r_actions := [AGet; AInfo; APut; AActivate; ADelete]; r_secrets := [[42]] |}] |}.   (* "*" *)
Definition ce_a1 : KV.name := [97; 49].   (* "a1" *)
Definition ce_b : KV.name := [98].        (* "b" *)
(* the polling node as tailscaled describes it: a login, one grant: get on "a*" *)
Definition ce_whois : whois :=
  {| w_fail := false; w_tags := None; w_login := Some 7;
     w_cap_bare := CapRules [{| r_actions := [AGet]; r_secrets := [[97; 42]] |}]; w_cap_https := CapAbsent |}.
Definition ce_db : dbstate N :=
  fst (db_run N.eqb (@db_create N)
         [(ce_env, ce_admin, OPut ce_a1 10); (ce_env, ce_admin, OPut ce_a1 11); (ce_env, ce_admin, OPut ce_b 20)]).

Example ce_service : srv_of_db ce_db = [(ce_a1, (1, 10)); (ce_b, (1, 20))].
Proof. vm_compute. reflexivity. Qed.
Example ce_answers :
  answer_via_http N.eqb ce_env ce_db ce_whois ce_a1 1 0 = RNotChanged /\
  answer_via_http N.eqb ce_env ce_db ce_whois ce_a1 0 0 = RValue 1 10 /\
  answer_via_http N.eqb ce_env ce_db ce_whois ce_a1 5 0 = RValue 1 10 /\
  answer_via_http N.eqb ce_env ce_db ce_whois [97; 57] 1 0 = RErr /\      (* "a9": allowed, not found *)
  answer_via_http N.eqb ce_env ce_db ce_whois ce_b 1 0 = RErr.            (* "b": access denied *)
Proof. vm_compute. repeat split; reflexivity. Qed.
Example ce_agree : map (fun v => answer_via_http N.eqb ce_env ce_db ce_whois ce_a1 v 0) [0; 1; 2]
                 = map (fun v => get_if_changed (srv_of_db ce_db) ce_a1 v false) [0; 1; 2].
Proof. vm_compute. reflexivity. Qed.
(* an unchanged poll: no audit record, state untouched; a delivery: exactly one record *)
Example ce_silent : effects_of N.eqb ce_env ce_db ce_whois [(ce_a1, 1)] 0 = (ce_db, []).
Proof. vm_compute. reflexivity. Qed.
Example ce_delivery_logged : snd (getifchanged_via_http N.eqb ce_env ce_db ce_whois ce_a1 0 0)
  = [EAudit {| e_principal := 7; e_action := AGet; e_secret := ce_a1; e_version := 0; e_authorized := true |}].
Proof. vm_compute. reflexivity. Qed.
(* a whole poll while the admin activates version 2 of a1 before the request is answered *)
Definition ce_store : store N := ST [(ce_a1, Some (CE 1 10 0%Z true))] [] [] false 0%Z.
Definition ce_timeline : list (citem N) :=
  [CDb ce_env ce_admin (OActivate ce_a1 2); CStore (EReq ce_a1 false false)].
Definition ce_wk := run_w (WD ce_store (srv_of_db ce_db) None) (ERefresh 0%Z :: translate N.eqb ce_db ce_timeline).
Example ce_translate : translate N.eqb ce_db ce_timeline = [ESrv (SSet ce_a1 2 11); EReq ce_a1 false false].
Proof. vm_compute. reflexivity. Qed.
Example ce_poll : In (ORes true) (snd (step ce_wk EEnd)) /\ vv (wst (fst (step ce_wk EEnd))) ce_a1 = Some (2, 11)
  /\ kv_get (kv (db_after N.eqb ce_db [CDb ce_env ce_admin (OActivate ce_a1 2)])) ce_a1 = KVal 2 11.
Proof. vm_compute. repeat split; auto. Qed.
