(* The front door composed with the access decision (Server/Http.v's gate, API endpoints and the HTML
   listing alike, over Server/DB.v's check): C08 says which requests reach the store and under whose
   identity, C01 says what an identity may do; composed, they bound what ANY request can learn or change by
   the grants the tailnet reports for the request's source address.  Statements only; proofs in
   Server/FrontProofs.v.  Not a property of its own: built and assumption-checked with every C08 run. *)
From Coq Require Import List Bool NArith.
Import ListNotations.
From Setec Require Import Base.SMap Acl.Glob Server.KV Server.KVProofs Server.DB Server.DBFacts Server.DBProofs
  Server.Http Server.HttpProofs Server.FrontProofs.
Open Scope N_scope.

Section Chain.
Variable V : Type.
Variable veqb : V -> V -> bool.

(* an informative reply (200 with a result, 304, 404), a changed store or a save, for ANY request: the gate
   accepted it for the identified caller, and that caller holds the needed action on exactly that name *)
Theorem Chain_front_requires_grant : forall ev (s : dbstate V) (rq : request V) s' rsp fx,
  http_step veqb ev s rq = (s', rsp, fx) ->
  (informative (status rsp) = true \/ kv s' <> kv s \/ has_save fx = true) ->
  exists c q, gate rq = Accept c q
    /\ identity (rq_addr_ok rq) (rq_whois rq) = Some c
    /\ (forall a, need (dispatch q) = Some a -> allow (rules c) a (target (dispatch q)) = true).
Proof. exact (@front_requires_grant V veqb). Qed.

(* without the grant the reply is the same whatever the store holds (no existence / version oracle) *)
Theorem Chain_front_refusal_blind : forall ev1 ev2 (s1 s2 : dbstate V) (rq : request V) c q a,
  gate rq = Accept c q -> need (dispatch q) = Some a -> allow (rules c) a (target (dispatch q)) = false ->
  snd (fst (http_step veqb ev1 s1 rq)) = snd (fst (http_step veqb ev2 s2 rq)).
Proof. exact (@front_refusal_blind V veqb). Qed.

(* a refused request of any kind has one of three statuses *)
Theorem Chain_reject_status : forall (rq : request V) st, gate rq = Reject st -> st = 400 \/ st = 403 \/ st = 500.
Proof. exact (@reject_status V). Qed.

(* every reply that carries data was preceded by one complete audit record naming the identified caller
   (C06's record-before-disclosure clause at the wire, for API replies and the HTML page alike) *)
Theorem Chain_front_value_logged : forall ev (s : dbstate V) (rq : request V) s' rsp fx r,
  http_step veqb ev s rq = (s', rsp, fx) -> rb rsp = BodyResult r -> carries_data r = true ->
  exists c q post, gate rq = Accept c q
    /\ fx = EAudit (the_entry c (dispatch q) (act_of (dispatch q)) true) :: post
    /\ (post = [] \/ post = [ESave]).
Proof. exact (@front_value_logged V veqb). Qed.

(* a 403 left its record, authorized = false, unless the sink itself failed *)
Theorem Chain_front_denial_logged : forall ev (s : dbstate V) (rq : request V) c q s' rsp fx,
  gate rq = Accept c q -> http_step veqb ev s rq = (s', rsp, fx) -> status rsp = 403 ->
  fx = [EAudit (the_entry c (dispatch q) (act_of (dispatch q)) false)] \/ audit_failed fx = true.
Proof. exact (@front_denial_logged V veqb). Qed.

End Chain.

Print Assumptions Chain_front_requires_grant.
Print Assumptions Chain_front_refusal_blind.
Print Assumptions Chain_reject_status.
Print Assumptions Chain_front_value_logged.
Print Assumptions Chain_front_denial_logged.

(* non-vacuity: a caller granted only `info` on "a": a conditional get of "a" is refused identically on a
   store that has "a" at version 1 and on an empty one; its info call is informative *)
Definition info_only := [ {| r_actions := [AInfo]; r_secrets := [[97]] |} ].
Definition w_info : whois := {| w_fail := false; w_tags := Some 1003; w_login := None; w_cap_bare := CapRules info_only; w_cap_https := CapAbsent |}.
Definition mkrq (e : endpoint) (b : body N) : request N :=
  {| rq_endpoint := e; rq_meth := MPost; rq_ctype := CTJson; rq_hdr := HSetec; rq_addr_ok := true; rq_whois := w_info; rq_body := b; rq_empty := 0 |}.
Definition st_a : dbstate N := {| kv := [([97], {| vers := [(1, 5)]; active := 1; latest := 1 |})]; gen := 2; audit_dead := false |}.
Definition st_e : dbstate N := {| kv := []; gen := 1; audit_dead := false |}.
Definition okev : env := {| save_ok := true; audit := AOk |}.
Example Chain_front_ex_blind :
  snd (fst (http_step N.eqb okev st_a (mkrq EGet (BObj (QGet [97] 1 true))))) = {| status := 403; rb := BodyConst |}
  /\ snd (fst (http_step N.eqb okev st_e (mkrq EGet (BObj (QGet [97] 1 true))))) = {| status := 403; rb := BodyConst |}.
Proof. vm_compute. split; reflexivity. Qed.
Example Chain_front_ex_informative :
  snd (fst (http_step N.eqb okev st_a (mkrq EInfo (BObj (QInfo [97]))))) = {| status := 200; rb := BodyResult (RInfo [1] 1) |}.
Proof. vm_compute. reflexivity. Qed.
