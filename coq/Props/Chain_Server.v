(* The server-side chain C02/C03 - C04 - C05 over the COMPOSITION of the models
   (Server/EndToEnd.v): db_step (DB.v/KV.v) whose save outcome is the verdict of
   atomicfile.WriteFile (FS.v) on the encoding of the encrypted (Crypto.v) persisted document
   (Persist.v) of the state being saved; restart = read the live path, decode, open with the
   key, load.  Statements only; proofs in Server/EndToEndProofs.v.  Not a property of its own:
   built and assumption-checked with every C04 run. *)
From Coq Require Import List Bool NArith.
Import ListNotations.
From Setec Require Import Base.SMap Acl.Glob Server.KV Server.KVProofs Server.DB Server.DBFacts Server.DBProofs
  Server.Persist Server.FSMap Server.FS Server.FSProofs Server.Crypto Server.CryptoProofs
  Server.EndToEnd Server.EndToEndProofs.
Open Scope N_scope.

Section Chain.
Variable V : Type.                                   (* ANY value type ... *)
Variable veqb : V -> V -> bool.
Variable tok : V -> N.                               (* ... that injects into the value atoms of the symbolic model *)
Variable untok : N -> V.
Hypothesis untok_tok : forall v, untok (tok v) = v.
Variable B : Type.                                   (* ANY byte type with decidable equality ... *)
Variable beq : B -> B -> bool.
Hypothesis beq_spec : forall a b, beq a b = true <-> a = b.
Variable enc : term -> list B.                       (* ... and an invertible encoding of file terms *)
Variable unenc : list B -> option term.
Hypothesis unenc_enc : forall t, unenc (enc t) = Some t.
Variable origin : B -> term.                         (* a byte on disk stands for the file term it is part of: *)
Hypothesis origin_enc : forall t b, In b (enc t) -> origin b = t.   (* a prefix reveals at most what the whole reveals *)
Variables kek dek r1 : N.
Notation c0 := (fst (c_create kek dek r1)).

(* 0. the save outcome given to db_step IS what atomicfile.WriteFile returns on that trace *)
Theorem Chain_outcome : forall (x : fault) c (k : kvs V),
  save_ok (env_of B x) =
  snd (write_file (f_fd x) (f_tmp x) (enc (sfile tok c (f_nonce x) k)) (f_fail x)
                  (firstn (f_partial x) (enc (sfile tok c (f_nonce x) k)))).
Proof. exact (@chain_outcome V tok B enc). Qed.

(* 1+2. chain_crash: for every invariant state, caller, call, failing step (incl. a partial
   write of any length) and EVERY crash state of the call's file-system trace - between two
   operations or inside one after any prefix of a write - reading the live path, decoding,
   opening with the key and loading the document yields exactly the pre-call store or exactly
   the post-call store (next-version counters included: it is the whole [kvs]), never an
   unopenable file; exactly the pre-call store whenever the call reports an error or did not
   save; and exactly the post-call store once the call has returned. *)
Theorem Chain_crash : forall (x : fault) (s : dbstate V) cl o r0 s' res fx tr,
  Inv (kv s) ->
  e2e_step veqb tok enc c0 x s cl o = (s', res, fx, tr) ->
  let fs0 := FS.init (Some (enc (sfile tok c0 r0 (kv s)))) in
  (forall fs', crash_state fs0 tr fs' ->
     recover untok unenc kek fs' = Some (kv s) \/ recover untok unenc kek fs' = Some (kv s'))
  /\ (is_error res = true \/ has_save fx = false ->
      forall fs', crash_state fs0 tr fs' -> recover untok unenc kek fs' = Some (kv s))
  /\ recover untok unenc kek (FS.exec fs0 tr) = Some (kv s').
Proof. exact (@chain_crash V veqb tok untok untok_tok B beq beq_spec enc unenc unenc_enc kek dek r1). Qed.

(* 3. chain_history: for every history of calls (any caller, any fault), reopens, and kills at
   any crash point followed by a restart from the file, starting from a consistent world:
   the server always comes up; the world stays consistent (what is served is exactly what the
   live file decrypts to); and the state served is the one DB.v ALONE reaches on the same calls
   with the same save/audit outcomes, where each crash is a restart from the pre- or from the
   post-state of the interrupted call. *)
Theorem Chain_history : forall (h : list (event V)) (w : world V B),
  good tok enc origin kek dek r1 w ->
  exists w' ah, run veqb tok untok enc unenc kek w h = Some w'
                /\ good tok enc origin kek dek r1 w'
                /\ Forall2 (@refines_ev V B) h ah
                /\ w_s w' = abs_run veqb (w_s w) ah.
Proof. exact (@chain_history V veqb tok untok untok_tok B beq beq_spec enc unenc unenc_enc origin origin_enc kek dek r1). Qed.

(* ... and each call of that abstract machine is a step of C02's plain-map specification on
   the call's own secret (acknowledged: it saved), or changes nothing *)
Theorem Chain_call_is_spec_step : forall ev (s : dbstate V) c o s' r fx,
  Inv (kv s) -> db_step veqb ev s c o = (s', r, fx) ->
  kv s' = kv s
  \/ (has_save fx = true /\ exists ko, ktarget ko = Some (target o) /\ kv s' = fst (spec_step veqb (kv s) ko)).
Proof. exact (@call_is_spec_step V veqb). Qed.

(* 4. chain_secrecy: along any such history, from whatever the attacker holds that is free of
   the two keys together with EVERY byte that has been on disk - in the live file, in a
   temporary, in a partially written temporary, in the leftovers of a crash - no secret value
   is derivable, and (prior knowledge free of names) no secret name either. *)
Theorem Chain_secrecy : forall (h : list (event V)) (w w' : world V B),
  good tok enc origin kek dek r1 w ->
  run veqb tok untok enc unenc kek w h = Some w' ->
  let prot := fun k => k = kek \/ k = dek in
  forall names_public (K0 : term -> Prop), (forall t, K0 t -> safe prot names_public t) ->
  (forall v, ~ derives (fun t => K0 t \/ exists b, In b (w_seen w') /\ origin b = t) (Sec v))
  /\ (names_public = false ->
      forall n, ~ derives (fun t => K0 t \/ exists b, In b (w_seen w') /\ origin b = t) (Nam n)).
Proof. exact (@chain_secrecy V veqb tok untok untok_tok B beq beq_spec enc unenc unenc_enc origin origin_enc kek dek r1). Qed.

(* [w_seen] misses nothing: at every crash state of a call, every byte of every file of the
   directory was in the live file before the call or is written by its trace *)
Theorem Chain_seen_complete : forall (live : list B) (tr : list (FS.op B)) fs',
  crash_state (FS.init (Some live)) tr fs' ->
  forall p f, afind p (FS.d fs') = Some f -> forall b, In b (FS.data f) -> In b live \/ In b (trace_bytes tr).
Proof. exact (@disk_bytes B). Qed.

End Chain.

Print Assumptions Chain_outcome.
Print Assumptions Chain_crash.
Print Assumptions Chain_history.
Print Assumptions Chain_call_is_spec_step.
Print Assumptions Chain_secrecy.
Print Assumptions Chain_seen_complete.

(* ---------- non-vacuity: a concrete instance of every assumption, and a concrete history ----------
   values = N, bytes = file terms, a file is written as two chunks [t; t]. *)
Definition idN (x : N) : N := x.
Definition Chain_history_instance :=
  @Chain_history N N.eqb idN idN (fun _ => eq_refl) term term_eqb term_eqb_spec enc2 unenc2 unenc2_enc2 (fun t => t) origin2_enc2 7 9 0.
Definition Chain_crash_instance :=
  @Chain_crash N N.eqb idN idN (fun _ => eq_refl) term term_eqb term_eqb_spec enc2 unenc2 unenc2_enc2 7 9 0.

Definition su : caller := {| principal := 1; rules := [ {| r_actions := [AGet; AInfo; APut; AActivate; ADelete]; r_secrets := [[42]] |} ] |}.
Definition cc := fst (c_create 7 9 0).
Definition fl (fail : option wstep) (nonce : N) : fault :=
  {| f_fd := 5; f_tmp := 3; f_fail := fail; f_partial := 1; f_nonce := nonce; f_audit := AOk |}.
(* a freshly created database *)
Definition w0 : world N term :=
  {| w_c := cc; w_s := db_create N; w_live := enc2 (sfile idN cc 99 []); w_seen := enc2 (sfile idN cc 99 []) |}.

Example Chain_ex_good : good idN enc2 (fun t => t) 7 9 0 w0.
Proof.
  split; [reflexivity|]. split; [apply inv_init|]. split; [exists 99; reflexivity|].
  intros b [<-|[<-|[]]]; exists 99, []; reflexivity.
Qed.

(* put a=5; put a=6 KILLED inside the write of the temporary after one of its two chunks;
   restart; put b=7 with fsync failing; reopen; put a=6 killed after the rename; restart *)
Definition hist : list (event N) :=
  [ ECall (fl None 100) su (OPut [97] 5);
    ECrash (fl None 101) su (OPut [97] 6) (CInside 2 1);
    ECall (fl (Some WSync) 102) su (OPut [98] 7);
    @EReopen N;
    ECrash (fl None 103) su (OPut [97] 6) (CBetween 8) ].

Example Chain_ex_run :
  option_map (fun w => (kv (w_s w), gen (w_s w), length (w_seen w))) (run N.eqb idN idN enc2 unenc2 7 w0 hist)
  = Some ([([97], {| vers := [(1, 5); (2, 6)]; active := 1; latest := 2 |})], 1, 10%nat).
Proof. vm_compute. reflexivity. Qed.

(* the crash inside the write: the temporary holds ONE of the two chunks, the live path still
   decrypts to the pre-call store, and the leftover is remembered as seen *)
Definition pre1 : dbstate N := fst (fst (fst (e2e_step N.eqb idN enc2 cc (fl None 100) (db_create N) su (OPut [97] 5)))).
Definition tr2 := snd (e2e_step N.eqb idN enc2 cc (fl None 101) pre1 su (OPut [97] 6)).
Definition fs2 := crash_at (FS.init (Some (enc2 (sfile idN cc 100 (kv pre1))))) tr2 (CInside 2 1).
Example Chain_ex_crash_inside :
  (length tr2, option_map (@length term) (FS.read fs2 (Tmp 3)), recover idN unenc2 7 fs2)
  = (8%nat, Some 1%nat, Some [([97], {| vers := [(1, 5)]; active := 1; latest := 1 |})]).
Proof. vm_compute. reflexivity. Qed.
(* one operation later (the whole write, chmod, fsync, close, stat done; before the rename) still the old store; after the rename the new one *)
Example Chain_ex_crash_around_rename :
  (recover idN unenc2 7 (crash_at (FS.init (Some (enc2 (sfile idN cc 100 (kv pre1))))) tr2 (CBetween 7)),
   recover idN unenc2 7 (crash_at (FS.init (Some (enc2 (sfile idN cc 100 (kv pre1))))) tr2 (CBetween 8)))
  = (Some [([97], {| vers := [(1, 5)]; active := 1; latest := 1 |})],
     Some [([97], {| vers := [(1, 5); (2, 6)]; active := 1; latest := 2 |})]).
Proof. vm_compute. reflexivity. Qed.
(* a file that is NOT what the database wrote (one chunk only) does not come up - the theorems say this never happens *)
Example Chain_ex_partial_file_unopenable : restart_bytes idN unenc2 7 [sfile idN cc 100 (kv pre1)] = None.
Proof. vm_compute. reflexivity. Qed.
