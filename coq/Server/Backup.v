(* C17 - model of server/backup.go: the periodic backup loop over a timeline.

     lastWriteGen := 0
     for { gen := db.WriteGen()
           if gen != lastWriteGen { if doBackup(ctx) fails {log} else {lastWriteGen = gen} }
           select { case <-time.After(time.Minute): ; case <-ctx.Done(): return } }
     doBackup: ctx with a 5-minute timeout; read the live file whole; PutObject.

   External behaviour is an explicit input (the timeline): the instants at which the
   database is written, what the object store does with the k-th upload (how long it takes,
   whether it succeeds, how many database writes happen while it is being handled - a write
   racing the upload), and the instant at which the server's context is cancelled.  Time
   is virtual, in milliseconds; reading the generation, reading the file and starting the
   request take no virtual time.  A file version is identified by the write generation that
   produced it (the live file is only ever replaced whole, by rename - C04).
   Executable definitions only. *)
From Coq Require Import List Bool NArith.
Import ListNotations.
From Setec Require Import Base.SMap Server.KV.
Open Scope N_scope.

Definition period : N := 60000.            (* time.Minute *)
Definition upload_timeout : N := 300000.   (* 5 * time.Minute *)

(* what the object store does with one PutObject *)
Record upl := { u_dur : N; u_ok : bool; u_race : N }.
Definition default_upl : upl := {| u_dur := 0; u_ok := true; u_race := 0 |}.

Record timeline := {
  writes : list (N * bool);
                         (* instants of client calls on the database, with "the database file was
                            replaced": true = a successful write; false = a write attempt whose save
                            FAILED, or a read (list/get/info) - generation and file unchanged *)
  script : list upl;     (* the store's answers, by upload position; then [default_upl] *)
  cancel : N;            (* the instant the context is cancelled *)
  read_faults : list (N * N)
                         (* intervals [lo, hi] during which the database file cannot be read (moved aside,
                            a directory in its place, EIO ...): os.ReadFile in doBackup fails *)
}.

(* one upload attempt: start instant, generation of the file read (= the body), whether the
   store acknowledged it, instant at which PutObject returned *)
Record attempt := { a_t : N; a_gen : N; a_ok : bool; a_end : N; a_race : N; a_sent : bool }.
   (* a_sent = false: the file could not be read - doBackup failed before any request was made *)
   (* a_race: database writes made on the store's side while this request was handled *)

(* one loop iteration: wake-up instant, generation read, the upload if one was made *)
Record iter := { i_t : N; i_gen : N; i_up : option attempt }.

Fixpoint count_le (t : N) (ws : list N) : N :=
  match ws with
  | [] => 0
  | w :: ws' => (if w <=? t then 1 else 0) + count_le t ws'
  end.

(* db.WriteGen at instant t: 1 after Open, +1 per write; [r] = writes made by the store side *)
Definition gen_at (ws : list N) (r t : N) : N := 1 + r + count_le t ws.

(* one pass through the loop body at instant t: the upload if one is made, the instant the
   body is left, the new lastWriteGen, the store-side writes so far, the rest of the script *)
Definition read_fails (rf : list (N * N)) (t : N) : bool :=
  existsb (fun iv => (fst iv <=? t) && (t <=? snd iv)) rf.

Definition iter_step (ws : list N) (rf : list (N * N)) (c t last r : N) (sc : list upl)
  : option attempt * N * N * N * list upl :=
  let g := gen_at ws r t in
  if g =? last then (None, t, last, r, sc)
  else if read_fails rf t then
    (* os.ReadFile fails: doBackup returns the error at once - nothing is sent (above all no empty
       object), lastWriteGen stays, the store's script is not consumed; retried after the wait *)
    (Some {| a_t := t; a_gen := g; a_ok := false; a_end := t; a_race := 0; a_sent := false |},
     t, last, r, sc)
  else
    let e := hd default_upl sc in
    let d := N.min (u_dur e) upload_timeout in
    let aborted := c <? t + d in                                (* cancelled while in flight *)
    let ok := u_ok e && (u_dur e <=? upload_timeout) && negb aborted in
    let t1 := if aborted then c else t + d in
    (Some {| a_t := t; a_gen := g; a_ok := ok; a_end := t1; a_race := u_race e; a_sent := true |},
     t1, (if ok then g else last), r + u_race e, tl sc).

Fixpoint loop (fuel : nat) (ws : list N) (rf : list (N * N)) (c : N) (t last r : N) (sc : list upl) : option (list iter * N) :=
  match fuel with
  | O => None
  | S f =>
      let '(up, t1, last', r', sc') := iter_step ws rf c t last r sc in
      let it := {| i_t := t; i_gen := gen_at ws r t; i_up := up |} in
      if c <=? t1 + period then Some ([it], c)                        (* ctx.Done wins the select *)
      else match loop f ws rf c (t1 + period) last' r' sc' with
           | Some (its, x) => Some (it :: its, x)
           | None => None
           end
  end.

Definition fuel_for (c : N) : nat := S (S (N.to_nat (c / period))).

(* ---- client events as database calls: whether a call is a WRITE is decided by the model of
   the store (Server/KV.v), not by the caller.  A put of the bytes of the newest existing
   version, an activate of the version already active, a delete of an absent secret, a
   delete-version of an unknown version ... save nothing; a call whose save fails changes
   nothing.  Values are tokens. ---- *)
Definition dbev := (N * bool * kop N)%type.     (* instant, "the file system accepts a save", the call *)

Definition is_saved (sv : saved) : bool := match sv with Saved => true | _ => false end.

(* the events tagged with "the database file was replaced", and the store's state afterwards *)
Fixpoint classify (s : kvs N) (evs : list dbev) : list (N * bool) * kvs N :=
  match evs with
  | [] => ([], s)
  | (t, ok, o) :: r =>
      let '(s', _, sv) := kv_step N.eqb ok s o in
      let '(l, sf) := classify s' r in
      ((t, is_saved sv) :: l, sf)
  end.

(* the instants at which the database file really changed: only these move the generation *)
Definition ok_writes (tl : timeline) : list N := map fst (filter snd (writes tl)).

(* lastWriteGen before any upload ("nothing uploaded yet"), and the generation a database handle
   reports right after db.Open - of a file it has just created AND of a file that existed (a
   restart: the normal case in production); see [Server/DB.v]: db_create, db_open *)
Definition no_upload_yet : N := 0.
Definition open_gen : N := 1.

(* the run of the backup task: its iterations and the instant it returns *)
Definition backup_run (tl : timeline) : option (list iter * N) :=
  loop (fuel_for (cancel tl)) (ok_writes tl) (read_faults tl) (cancel tl) 0 no_upload_yet 0 (script tl).

(* the generation covered by the last acknowledged upload (lastWriteGen), from the log *)
Definition lastok_step (l : N) (it : iter) : N :=
  match i_up it with
  | Some a => if a_ok a then a_gen a else l
  | None => l
  end.
Definition lastok (l0 : N) (its : list iter) : N := fold_left lastok_step its l0.

Definition end_of (it : iter) : N := match i_up it with Some a => a_end a | None => i_t it end.

Definition attempts (its : list iter) : list attempt :=
  flat_map (fun it => match i_up it with Some a => [a] | None => [] end) its.

(* the attempts that reached the object store *)
Definition sent (its : list iter) : list attempt := filter a_sent (attempts its).

(* counting attempts: acknowledged, not acknowledged, store-side writes *)
Fixpoint n_acked (l : list attempt) : N :=
  match l with [] => 0 | a :: l' => (if a_ok a then 1 else 0) + n_acked l' end.
Fixpoint n_failed (l : list attempt) : N :=
  match l with [] => 0 | a :: l' => (if a_ok a then 0 else 1) + n_failed l' end.
Fixpoint n_races (l : list attempt) : N :=
  match l with [] => 0 | a :: l' => a_race a + n_races l' end.

(* ---- monitors on an observed upload log (start instant, generation of the body, acknowledged) ---- *)
Definition obs_upload := (N * N * bool)%type.

(* consecutive uploads at least a minute apart *)
Fixpoint mon_rate (l : list obs_upload) : bool :=
  match l with
  | (t1, _, _) :: (((t2, _, _) :: _) as l') => (t1 + period <=? t2) && mon_rate l'
  | _ => true
  end.

(* after an acknowledged upload of generation g, a further upload only of a later generation *)
Fixpoint mon_change (last : N) (l : list obs_upload) : bool :=
  match l with
  | [] => true
  | (_, g, ok) :: l' => negb (g =? last) && mon_change (if ok then g else last) l'
  end.

(* every body is a file version that existed: a generation between 1 and the current one *)
Definition mon_snapshot (ws : list N) (racing : N) (l : list obs_upload) : bool :=
  forallb (fun '(t, g, _) => (1 <=? g) && (g <=? gen_at ws racing t)) l.

(* the first upload happens at start-up *)
Definition mon_first (l : list obs_upload) : bool :=
  match l with (0, _, _) :: _ => true | _ => false end.

(* byte identity: two consecutive acknowledged uploads never carry identical bytes (an upload
   of an unchanged file is a violation whatever the generation counter says).  The log here
   is (acknowledged, identifier of the body's bytes), identifiers given by exact comparison. *)
Fixpoint mon_bytes (last : option N) (l : list (bool * N)) : bool :=
  match l with
  | [] => true
  | (ok, b) :: l' =>
      if ok then match last with Some b0 => negb (b =? b0) | None => true end && mon_bytes (Some b) l'
      else mon_bytes last l'
  end.
