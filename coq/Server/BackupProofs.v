(* Proofs about Server/Backup.v: for every timeline (write instants, store script,
   cancellation instant) the backup loop is change-driven, rate-limited, retries, catches up
   and goes quiet, sleeps, and returns at the cancellation. *)
From Coq Require Import List Bool NArith Lia ZifyN ZifyNat ZifyBool.
Import ListNotations.
From Setec Require Import Base.SMap Acl.Glob Server.KV Server.KVProofs Server.DB Server.Backup.
Open Scope N_scope.

(* ---- the generation counter ---- *)
Lemma count_le_mono t t' ws : t <= t' -> count_le t ws <= count_le t' ws.
Proof.
  intros H. induction ws as [|w ws IH]; cbn [count_le]; [lia|].
  destruct (w <=? t) eqn:E1; destruct (w <=? t') eqn:E2; lia.
Qed.

Lemma gen_at_mono ws r r' t t' : r <= r' -> t <= t' -> gen_at ws r t <= gen_at ws r' t'.
Proof. intros Hr Ht. unfold gen_at. pose proof (count_le_mono t t' ws Ht). lia. Qed.

Lemma gen_at_pos ws r t : 1 <= gen_at ws r t.
Proof. unfold gen_at. lia. Qed.

(* ---- one pass through the loop body ---- *)
Lemma step_none ws rf c t last r sc t1 last' r' sc' :
  iter_step ws rf c t last r sc = (None, t1, last', r', sc') ->
  gen_at ws r t = last /\ t1 = t /\ last' = last /\ r' = r /\ sc' = sc.
Proof.
  unfold iter_step. destruct (gen_at ws r t =? last) eqn:E; [|destruct (read_fails rf t); discriminate].
  intros H. injection H as <- <- <- <-. apply N.eqb_eq in E. auto.
Qed.

Lemma step_some ws rf c t last r sc a t1 last' r' sc' :
  t <= c ->
  iter_step ws rf c t last r sc = (Some a, t1, last', r', sc') ->
  gen_at ws r t <> last /\ a_t a = t /\ a_gen a = gen_at ws r t /\ a_end a = t1
  /\ t <= t1 /\ t1 <= c /\ t1 <= t + upload_timeout
  /\ last' = (if a_ok a then a_gen a else last) /\ r <= r' /\ r' = r + a_race a
  /\ (a_ok a = true -> t1 = t + u_dur (hd default_upl sc) /\ u_ok (hd default_upl sc) = true)
  /\ (a_sent a = negb (read_fails rf t)) /\ (a_sent a = false -> a_ok a = false /\ t1 = t /\ r' = r /\ sc' = sc).
Proof.
  intros Htc. unfold iter_step. destruct (gen_at ws r t =? last) eqn:E; [discriminate|].
  apply N.eqb_neq in E. destruct (read_fails rf t) eqn:Erf.
  { intros H. injection H as <- <- <- <- <-. cbn [a_t a_gen a_ok a_end a_race a_sent negb]. unfold upload_timeout.
    repeat split; auto; try lia; discriminate. }
  intros H. injection H as <- <- <- <- <-. cbn [a_t a_gen a_ok a_end a_race a_sent negb].
  set (e := hd default_upl sc). unfold upload_timeout.
  destruct (c <? t + N.min (u_dur e) 300000) eqn:Ea.
  - apply N.ltb_lt in Ea. repeat split; auto; try lia.
    all: try (rewrite ?andb_false_r; discriminate).
  - apply N.ltb_ge in Ea. repeat split; auto; try lia; discriminate.
Qed.

Lemma loop_exit f ws rf c : forall t last r sc its x, loop f ws rf c t last r sc = Some (its, x) -> x = c.
Proof.
  induction f as [|f IH]; intros t last r sc its x H; cbn [loop] in H; [discriminate|].
  destruct (iter_step ws rf c t last r sc) as [[[[up t1] last'] r'] sc'].
  destruct (c <=? t1 + period); [injection H as _ <-; reflexivity|].
  destruct (loop f ws rf c (t1 + period) last' r' sc') as [[its' x']|] eqn:E; [|discriminate].
  injection H as _ <-. eapply IH; eauto.
Qed.

(* the first iteration of a run *)
Lemma loop_head f ws rf c t last r sc it rest x :
  loop f ws rf c t last r sc = Some (it :: rest, x) ->
  i_t it = t /\ i_gen it = gen_at ws r t /\ (i_up it = None <-> gen_at ws r t = last).
Proof.
  destruct f as [|f]; cbn [loop]; [discriminate|].
  destruct (iter_step ws rf c t last r sc) as [[[[up t1] last'] r'] sc'] eqn:Es.
  assert (Hup : up = None <-> gen_at ws r t = last).
  { unfold iter_step in Es. destruct (gen_at ws r t =? last) eqn:E.
    - injection Es as <- _ _ _ _. apply N.eqb_eq in E. tauto.
    - apply N.eqb_neq in E. destruct (read_fails rf t); injection Es as <- _ _ _ _; (split; [discriminate|contradiction]). }
  destruct (c <=? t1 + period).
  - intros H. injection H as <- _ _. cbn. auto.
  - destruct (loop f ws rf c (t1 + period) last' r' sc') as [[its' x']|]; [|discriminate].
    intros H. injection H as <- _ _. cbn. auto.
Qed.

Lemma loop_nonempty f ws rf c t last r sc its x : loop f ws rf c t last r sc = Some (its, x) -> its <> [].
Proof.
  destruct f as [|f]; cbn [loop]; [discriminate|].
  destruct (iter_step ws rf c t last r sc) as [[[[up t1] last'] r'] sc'].
  destruct (c <=? t1 + period).
  - intros H. injection H as <- _. discriminate.
  - destruct (loop f ws rf c (t1 + period) last' r' sc') as [[its' x']|]; [|discriminate].
    intros H. injection H as <- _. discriminate.
Qed.

(* a state of the loop that can be reached: lastWriteGen never exceeds the generation *)
Definition okstate (ws : list N) (c t last r : N) : Prop := t <= c /\ last <= gen_at ws r t.

(* unfolding one iteration, with everything known about it *)
Lemma loop_step f ws rf c t last r sc its x :
  okstate ws c t last r ->
  loop (S f) ws rf c t last r sc = Some (its, x) ->
  exists up t1 last' r' sc',
    iter_step ws rf c t last r sc = (up, t1, last', r', sc')
    /\ t <= t1 /\ t1 <= c /\ r <= r'
    /\ last' = lastok_step last {| i_t := t; i_gen := gen_at ws r t; i_up := up |}
    /\ t1 = end_of {| i_t := t; i_gen := gen_at ws r t; i_up := up |}
    /\ ((c <= t1 + period /\ its = [{| i_t := t; i_gen := gen_at ws r t; i_up := up |}])
        \/ (t1 + period < c /\ okstate ws c (t1 + period) last' r' /\
            exists its', loop f ws rf c (t1 + period) last' r' sc' = Some (its', x)
                         /\ its = {| i_t := t; i_gen := gen_at ws r t; i_up := up |} :: its')).
Proof.
  intros [Htc Hl] H. cbn [loop] in H.
  destruct (iter_step ws rf c t last r sc) as [[[[up t1] last'] r'] sc'] eqn:Es.
  exists up, t1, last', r', sc'. split; [reflexivity|].
  assert (F : t <= t1 /\ t1 <= c /\ r <= r' /\ last' <= gen_at ws r t
              /\ last' = lastok_step last {| i_t := t; i_gen := gen_at ws r t; i_up := up |}
              /\ t1 = end_of {| i_t := t; i_gen := gen_at ws r t; i_up := up |}).
  { destruct up as [a|].
    - destruct (step_some _ _ _ _ _ _ _ _ _ _ _ _ Htc Es) as (_ & _ & Hg & He & H1 & H2 & _ & Hl' & Hr & _).
      unfold lastok_step, end_of; cbn [i_up]. repeat split; auto.
      rewrite Hl'. destruct (a_ok a); lia.
    - destruct (step_none _ _ _ _ _ _ _ _ _ _ _ Es) as (_ & -> & -> & -> & _).
      unfold lastok_step, end_of; cbn. repeat split; auto; lia. }
  destruct F as (F1 & F2 & F3 & F4 & F5 & F6). repeat (split; [assumption|]).
  destruct (c <=? t1 + period) eqn:Ec.
  - left. apply N.leb_le in Ec. injection H as <- _. auto.
  - right. apply N.leb_gt in Ec. split; [exact Ec|].
    destruct (loop f ws rf c (t1 + period) last' r' sc') as [[its' x']|] eqn:El; [|discriminate].
    injection H as <- <-. split.
    + split; [lia|]. pose proof (gen_at_mono ws r r' t (t1 + period) F3). unfold period in *. lia.
    + exists its'. auto.
Qed.

(* ---- change-driven: an iteration uploads exactly when the generation differs from the one
   covered by the last acknowledged upload; the body is the file of the generation read ---- *)
Lemma loop_change_driven f ws rf c : forall t last r sc its x,
  okstate ws c t last r -> loop f ws rf c t last r sc = Some (its, x) ->
  forall pre it post, its = pre ++ it :: post ->
  (i_up it = None <-> i_gen it = lastok last pre)
  /\ (forall a, i_up it = Some a -> a_gen a = i_gen it /\ a_t a = i_t it /\ i_gen it <> lastok last pre).
Proof.
  induction f as [|f IH]; intros t last r sc its x Hs H pre it post E; [discriminate|].
  destruct (loop_step _ _ _ _ _ _ _ _ _ _ Hs H) as (up & t1 & last' & r' & sc' & Es & _ & _ & _ & Hl' & _ & D).
  assert (Cur : forall it0, it0 = {| i_t := t; i_gen := gen_at ws r t; i_up := up |} ->
          (i_up it0 = None <-> i_gen it0 = last)
          /\ (forall a, i_up it0 = Some a -> a_gen a = i_gen it0 /\ a_t a = i_t it0 /\ i_gen it0 <> last)).
  { intros it0 ->. cbn [i_up i_gen i_t]. destruct up as [a|].
    - destruct Hs as [Htc _].
      destruct (step_some _ _ _ _ _ _ _ _ _ _ _ _ Htc Es) as (Hne & Ht & Hg & _).
      split; [split; [discriminate|intros; contradiction]|].
      intros a' Ha. injection Ha as <-. auto.
    - destruct (step_none _ _ _ _ _ _ _ _ _ _ _ Es) as (Hg & _). split; [tauto|discriminate]. }
  destruct D as [[_ ->]|(_ & Hs' & its' & Hrec & ->)].
  - destruct pre as [|p pre]; cbn in E.
    + injection E as <- _. apply Cur. reflexivity.
    + injection E as _ E. destruct pre; discriminate.
  - destruct pre as [|p pre]; cbn in E.
    + injection E as <- _. apply Cur. reflexivity.
    + injection E as <- E. cbn [lastok fold_left]. rewrite <- Hl'.
      apply (IH _ _ _ _ _ _ Hs' Hrec pre it post E).
Qed.

(* ---- rate: an iteration starts one period after the previous one ended ---- *)
Lemma loop_rate f ws rf c : forall t last r sc its x,
  okstate ws c t last r -> loop f ws rf c t last r sc = Some (its, x) ->
  forall pre it1 it2 post, its = pre ++ it1 :: it2 :: post ->
  i_t it2 = end_of it1 + period /\ i_t it1 <= end_of it1.
Proof.
  induction f as [|f IH]; intros t last r sc its x Hs H pre it1 it2 post E; [discriminate|].
  destruct (loop_step _ _ _ _ _ _ _ _ _ _ Hs H) as (up & t1 & last' & r' & sc' & Es & Ht1 & _ & _ & _ & He & D).
  destruct D as [[_ ->]|(_ & Hs' & its' & Hrec & ->)].
  - destruct pre as [|p [|q pre]]; discriminate.
  - destruct pre as [|p pre]; cbn in E.
    + injection E as <- E. subst its'.
      destruct (loop_head _ _ _ _ _ _ _ _ _ _ _ Hrec) as (Ht2 & _).
      rewrite Ht2, <- He. cbn [i_t]. auto.
    + injection E as _ E. apply (IH _ _ _ _ _ _ Hs' Hrec pre it1 it2 post E).
Qed.

(* wake-up instants are at least a period apart, pairwise *)
Fixpoint gapped (l : list N) : Prop :=
  match l with
  | [] => True
  | x :: l' => (forall y, In y l' -> x + period <= y) /\ gapped l'
  end.

Lemma loop_gapped f ws rf c : forall t last r sc its x,
  okstate ws c t last r -> loop f ws rf c t last r sc = Some (its, x) ->
  gapped (map i_t its) /\ (forall y, In y (map i_t its) -> t <= y /\ y <= c).
Proof.
  induction f as [|f IH]; intros t last r sc its x Hs H; [discriminate|].
  destruct (loop_step _ _ _ _ _ _ _ _ _ _ Hs H) as (up & t1 & last' & r' & sc' & Es & Ht1 & Ht1c & _ & _ & _ & D).
  destruct Hs as [Htc _].
  destruct D as [[_ ->]|(Hlt & Hs' & its' & Hrec & ->)].
  - cbn. split; [split; [intros y []|exact I]|]. intros y [<-|[]]. lia.
  - destruct (IH _ _ _ _ _ _ Hs' Hrec) as [G B]. cbn [map i_t gapped]. split.
    + split; auto. intros y Hy. apply B in Hy. lia.
    + intros y [<-|Hy]; [lia|]. apply B in Hy. lia.
Qed.

(* counting: pairwise gaps of a period => at most W/period + 1 elements in any window of length W *)
Lemma gapped_window l : gapped l -> forall a W, (forall y, In y l -> a <= y /\ y <= a + W) ->
  N.of_nat (length l) * period <= W + period.
Proof.
  unfold period. induction l as [|x l IH]; intros G a W B; [cbn; lia|].
  cbn [gapped] in G. destruct G as [G1 G2].
  destruct l as [|y l'].
  - cbn. lia.
  - assert (Hx : a <= x /\ x <= a + W) by (apply B; left; reflexivity).
    assert (Hy : x + 60000 <= y) by (apply G1; left; reflexivity).
    assert (Hyb : a <= y /\ y <= a + W) by (apply B; right; left; reflexivity).
    specialize (IH G2 (x + 60000) (a + W - (x + 60000))).
    assert (IH' : N.of_nat (length (y :: l')) * 60000 <= a + W - (x + 60000) + 60000).
    { apply IH. intros z Hz. specialize (G1 z Hz). destruct (B z (or_intror Hz)). unfold period in G1. lia. }
    change (length (x :: y :: l')) with (S (length (y :: l'))). lia.
Qed.

Lemma gapped_filter p l : gapped l -> gapped (filter p l).
Proof.
  induction l as [|x l IH]; cbn [filter gapped]; auto. intros [G1 G2].
  destruct (p x); cbn [gapped]; auto. split; auto.
  intros y Hy. apply filter_In in Hy. apply G1. tauto.
Qed.

(* ---- retry: after an upload that was not acknowledged the next iteration uploads again ---- *)
Lemma loop_retry f ws rf c : forall t last r sc its x,
  okstate ws c t last r -> loop f ws rf c t last r sc = Some (its, x) ->
  forall pre it1 it2 post a, its = pre ++ it1 :: it2 :: post ->
  i_up it1 = Some a -> a_ok a = false -> i_up it2 <> None.
Proof.
  induction f as [|f IH]; intros t last r sc its x Hs H pre it1 it2 post a E Hu Hf; [discriminate|].
  destruct (loop_step _ _ _ _ _ _ _ _ _ _ Hs H) as (up & t1 & last' & r' & sc' & Es & Ht1 & _ & Hr & Hl' & _ & D).
  destruct D as [[_ ->]|(_ & Hs' & its' & Hrec & ->)].
  - destruct pre as [|p [|q pre]]; discriminate.
  - destruct pre as [|p pre]; cbn in E.
    + injection E as <- E. subst its'. cbn [i_up] in Hu. subst up.
      destruct Hs as [Htc Hl].
      destruct (step_some _ _ _ _ _ _ _ _ _ _ _ _ Htc Es) as (Hne & _ & _ & _ & _ & _ & _ & Hl2 & _).
      rewrite Hf in Hl2. subst last'.
      destruct (loop_head _ _ _ _ _ _ _ _ _ _ _ Hrec) as (_ & _ & Hn).
      intros Hnone. apply Hn in Hnone.
      pose proof (gen_at_mono ws r r' t (t1 + period) Hr). unfold period in *. lia.
    + injection E as _ E. apply (IH _ _ _ _ _ _ Hs' Hrec pre it1 it2 post a E Hu Hf).
Qed.

(* ---- catching up and going quiet: purely a consequence of change-drivenness ---- *)
Lemma lastok_app l0 a b : lastok l0 (a ++ b) = lastok (lastok l0 a) b.
Proof. unfold lastok. apply fold_left_app. Qed.

Lemma quiet_after f ws rf c t last r sc its x :
  okstate ws c t last r -> loop f ws rf c t last r sc = Some (its, x) ->
  forall post pre g, its = pre ++ post -> lastok last pre = g ->
  (forall it, In it post -> i_gen it = g) -> forall it, In it post -> i_up it = None.
Proof.
  intros Hs H. induction post as [|p post IH]; intros pre g E Hl Hg it Hin; [destruct Hin|].
  destruct (loop_change_driven _ _ _ _ _ _ _ _ _ _ Hs H pre p post E) as [Hn _].
  assert (Hp : i_up p = None) by (apply Hn; rewrite Hl; apply Hg; left; reflexivity).
  destruct Hin as [<-|Hin]; [exact Hp|].
  apply (IH (pre ++ [p]) g); auto.
  - rewrite <- app_assoc. exact E.
  - rewrite lastok_app, Hl. cbn. unfold lastok_step. rewrite Hp. reflexivity.
  - intros it' Hi. apply Hg. right. exact Hi.
Qed.

(* ---- termination: with the fuel of [backup_run] the loop always returns ---- *)
Lemma loop_terminates f ws rf c : forall t last r sc,
  okstate ws c t last r -> c < t + N.of_nat f * period ->
  exists its, loop f ws rf c t last r sc = Some (its, c).
Proof.
  unfold period. induction f as [|f IH]; intros t last r sc Hs Hf.
  - destruct Hs. cbn in Hf. lia.
  - cbn [loop]. destruct (iter_step ws rf c t last r sc) as [[[[up t1] last'] r'] sc'] eqn:Es.
    destruct Hs as [Htc Hl].
    assert (F : t <= t1 /\ r <= r' /\ last' <= gen_at ws r t).
    { destruct up as [a|].
      - destruct (step_some _ _ _ _ _ _ _ _ _ _ _ _ Htc Es) as (_ & _ & Hg & _ & H1 & _ & _ & Hl' & Hr & _).
        repeat split; auto. rewrite Hl'. destruct (a_ok a); lia.
      - destruct (step_none _ _ _ _ _ _ _ _ _ _ _ Es) as (_ & -> & -> & -> & _). repeat split; lia. }
    destruct F as (F1 & F2 & F3).
    destruct (c <=? t1 + period) eqn:Ec; [eexists; reflexivity|].
    apply N.leb_gt in Ec. unfold period in Ec.
    destruct (IH (t1 + 60000) last' r' sc') as [its Hi].
    + split; [lia|]. pose proof (gen_at_mono ws r r' t (t1 + 60000) F2). lia.
    + lia.
    + unfold period. rewrite Hi. eexists; reflexivity.
Qed.

Lemma fuel_enough c : c < 0 + N.of_nat (fuel_for c) * period.
Proof.
  unfold fuel_for, period. rewrite !Nat2N.inj_succ, N2Nat.id.
  pose proof (N.mul_succ_div_gt c 60000). lia.
Qed.

Lemma init_ok ws c : okstate ws c 0 0 0.
Proof. split; [lia|]. pose proof (gen_at_pos ws 0 0). lia. Qed.

(* ================= the theorems about [backup_run] ================= *)

Theorem run_returns_at_cancel tl : exists its, backup_run tl = Some (its, cancel tl).
Proof. apply loop_terminates; [apply init_ok|apply fuel_enough]. Qed.

Theorem run_first_upload tl its x : backup_run tl = Some (its, x) ->
  exists it rest a, its = it :: rest /\ i_t it = 0 /\ i_up it = Some a.
Proof.
  intros H. pose proof (loop_nonempty _ _ _ _ _ _ _ _ _ _ H) as Hne.
  destruct its as [|it rest]; [contradiction|].
  destruct (loop_head _ _ _ _ _ _ _ _ _ _ _ H) as (Ht & Hg & Hn).
  destruct (i_up it) as [a|] eqn:E.
  - exists it, rest, a. auto.
  - exfalso. assert (G : gen_at (ok_writes tl) 0 0 = 0) by (apply Hn; reflexivity).
    pose proof (gen_at_pos (ok_writes tl) 0 0). lia.
Qed.

Theorem run_change_driven tl its x : backup_run tl = Some (its, x) ->
  forall pre it post, its = pre ++ it :: post ->
  (i_up it = None <-> i_gen it = lastok 0 pre)
  /\ (forall a, i_up it = Some a -> a_gen a = i_gen it /\ a_t a = i_t it /\ i_gen it <> lastok 0 pre).
Proof. intros H. eapply loop_change_driven; [apply init_ok|exact H]. Qed.

Theorem run_rate tl its x : backup_run tl = Some (its, x) ->
  forall pre it1 it2 post, its = pre ++ it1 :: it2 :: post ->
  i_t it2 = end_of it1 + period /\ i_t it1 <= end_of it1.
Proof. intros H. eapply loop_rate; [apply init_ok|exact H]. Qed.

Theorem run_quiescent tl its x : backup_run tl = Some (its, x) ->
  forall a W, N.of_nat (length (filter (fun t => (a <=? t) && (t <=? a + W)) (map i_t its))) * period <= W + period.
Proof.
  intros H a W. destruct (loop_gapped _ _ _ _ _ _ _ _ _ _ (init_ok _ _) H) as [G _].
  apply (gapped_window _ (gapped_filter _ _ G) a W).
  intros y Hy. apply filter_In in Hy. destruct Hy as [_ Hy]. lia.
Qed.

Theorem run_retry tl its x : backup_run tl = Some (its, x) ->
  forall pre it1 it2 post a, its = pre ++ it1 :: it2 :: post ->
  i_up it1 = Some a -> a_ok a = false -> i_up it2 <> None.
Proof. intros H. eapply loop_retry; [apply init_ok|exact H]. Qed.

Theorem run_catches_up tl its x : backup_run tl = Some (its, x) ->
  forall pre it post a, its = pre ++ it :: post -> i_up it = Some a -> a_ok a = true ->
  (forall it', In it' post -> i_gen it' = a_gen a) ->
  a_gen a = i_gen it /\ forall it', In it' post -> i_up it' = None.
Proof.
  intros H pre it post a E Hu Hok Hq.
  destruct (run_change_driven _ _ _ H pre it post E) as [_ Hs]. destruct (Hs a Hu) as (Hg & _).
  split; [exact Hg|].
  apply (quiet_after _ _ _ _ _ _ _ _ _ _ (init_ok _ _) H post (pre ++ [it]) (a_gen a)).
  - rewrite <- app_assoc. exact E.
  - rewrite lastok_app. cbn. unfold lastok_step. rewrite Hu, Hok. reflexivity.
  - exact Hq.
Qed.

Lemma loop_cancel f ws rf c : forall t last r sc its x,
  okstate ws c t last r -> loop f ws rf c t last r sc = Some (its, x) ->
  (forall it, In it its -> i_t it <= c /\ end_of it <= c)
  /\ (exists pre it, its = pre ++ [it] /\ c <= end_of it + period).
Proof.
  induction f as [|f IH]; intros t last r sc its x Hs H; [discriminate|].
  destruct (loop_step _ _ _ _ _ _ _ _ _ _ Hs H) as (up & t1 & last' & r' & sc' & Es & Ht1 & Ht1c & _ & _ & He & D).
  destruct Hs as [Htc _].
  destruct D as [[Hc ->]|(Hlt & Hs' & its' & Hrec & ->)].
  - split.
    + intros it [<-|[]]. rewrite <- He. cbn [i_t]. lia.
    + exists [], {| i_t := t; i_gen := gen_at ws r t; i_up := up |}. rewrite <- He. auto.
  - destruct (IH _ _ _ _ _ _ Hs' Hrec) as [A (pre & it & -> & B)]. split.
    + intros it0 [<-|Hin]; [rewrite <- He; cbn [i_t]; lia|auto].
    + exists ({| i_t := t; i_gen := gen_at ws r t; i_up := up |} :: pre), it. auto.
Qed.

Theorem run_cancel tl its x : backup_run tl = Some (its, x) ->
  x = cancel tl
  /\ (forall it, In it its -> i_t it <= cancel tl /\ end_of it <= cancel tl)
  /\ (exists pre it, its = pre ++ [it] /\ cancel tl <= end_of it + period).
Proof.
  intros H. split; [eapply loop_exit; exact H|].
  eapply loop_cancel; [apply init_ok|exact H].
Qed.

(* every body is the file of the generation current at the instant it was read, the
   wake-up instant of its iteration; an acknowledged upload took exactly the time the store
   took and stayed under the 5-minute limit *)
Theorem run_snapshot tl its x : backup_run tl = Some (its, x) ->
  forall it a, In it its -> i_up it = Some a ->
  a_gen a = i_gen it /\ a_t a = i_t it /\ 1 <= a_gen a.
Proof.
  intros H it a Hin Hu. apply in_split in Hin. destruct Hin as (pre & post & E).
  destruct (run_change_driven _ _ _ H pre it post E) as [_ Hs]. destruct (Hs a Hu) as (Hg & Ht & _).
  repeat split; auto.
  unfold backup_run in H.
  assert (G : forall f t last r sc its x, loop f (ok_writes tl) (read_faults tl) (cancel tl) t last r sc = Some (its, x) ->
              forall it, In it its -> 1 <= i_gen it).
  { clear. induction f as [|f IH]; intros t last r sc its x H it Hin; [discriminate|]. cbn [loop] in H.
    destruct (iter_step (ok_writes tl) (read_faults tl) (cancel tl) t last r sc) as [[[[up t1] last'] r'] sc'].
    destruct (cancel tl <=? t1 + period).
    - injection H as <- _. destruct Hin as [<-|[]]. cbn. apply gen_at_pos.
    - destruct (loop f (ok_writes tl) (read_faults tl) (cancel tl) (t1 + period) last' r' sc') as [[its' x']|] eqn:E; [|discriminate].
      injection H as <- _. destruct Hin as [<-|Hin]; [cbn; apply gen_at_pos|eauto]. }
  rewrite Hg. eapply G; eauto. subst its. apply in_or_app. right. left. reflexivity.
Qed.

(* ---- the monitors mean what they say ---- *)
Lemma mon_rate_spec l : mon_rate l = true ->
  forall pre t1 g1 o1 t2 g2 o2 post, l = pre ++ (t1, g1, o1) :: (t2, g2, o2) :: post -> t1 + period <= t2.
Proof.
  induction l as [|[[t g] o] l IH]; intros H pre t1 g1 o1 t2 g2 o2 post E.
  - destruct pre; discriminate.
  - destruct l as [|[[t' g'] o'] l'].
    + destruct pre as [|? [|? ?]]; discriminate.
    + cbn [mon_rate] in H. apply andb_true_iff in H. destruct H as [H1 H2]. apply N.leb_le in H1.
      destruct pre as [|p pre]; cbn in E.
      * inversion E; subst. exact H1.
      * injection E as _ E. eapply IH; eauto.
Qed.

Lemma mon_change_spec l : forall last, mon_change last l = true ->
  forall pre t g o post, l = pre ++ (t, g, o) :: post ->
  g <> fold_left (fun (l0 : N) (u : obs_upload) => if snd u then snd (fst u) else l0) pre last.
Proof.
  induction l as [|[[t g] o] l IH]; intros last H pre t0 g0 o0 post E.
  - destruct pre; discriminate.
  - cbn [mon_change] in H. apply andb_true_iff in H. destruct H as [H1 H2].
    destruct pre as [|p pre]; cbn in E.
    + inversion E; subst. cbn. apply negb_true_iff, N.eqb_neq in H1. exact H1.
    + injection E as <- E. cbn [fold_left]. eapply IH; eauto.
Qed.

(* ---- failed write attempts and reads: they are not in [ok_writes], so the run does not
   depend on them at all ---- *)
Lemma ok_writes_ignores tl extra :
  (forall e, In e extra -> snd e = false) ->
  ok_writes {| writes := writes tl ++ extra; script := script tl; cancel := cancel tl; read_faults := read_faults tl |} = ok_writes tl.
Proof.
  intros H. unfold ok_writes. cbn [writes]. rewrite filter_app, map_app.
  assert (E : filter snd extra = []).
  { induction extra as [|e extra IH]; [reflexivity|]. cbn [filter].
    rewrite (H e (or_introl eq_refl)). apply IH. intros e' He'. apply H. right. exact He'. }
  rewrite E. cbn. apply app_nil_r.
Qed.

Theorem run_ignores_unchanged tl extra :
  (forall e, In e extra -> snd e = false) ->
  backup_run {| writes := writes tl ++ extra; script := script tl; cancel := cancel tl; read_faults := read_faults tl |} = backup_run tl.
Proof. intros H. unfold backup_run. rewrite (ok_writes_ignores tl extra H). reflexivity. Qed.

(* ---- how many uploads: each acknowledged upload covers a generation strictly above the
   previous acknowledged one, and generations only come from successful writes ---- *)
Lemma count_le_len t ws : count_le t ws <= N.of_nat (length ws).
Proof.
  induction ws as [|w ws IH]; cbn [count_le length]; [lia|].
  rewrite Nat2N.inj_succ. destruct (w <=? t); lia.
Qed.

Lemma attempts_cons it its :
  attempts (it :: its) = match i_up it with Some a => a :: attempts its | None => attempts its end.
Proof. unfold attempts. cbn [flat_map]. destruct (i_up it); reflexivity. Qed.

Lemma loop_acked_bound f ws rf c : forall t last r sc its x,
  okstate ws c t last r -> loop f ws rf c t last r sc = Some (its, x) ->
  n_acked (attempts its) + last <= 1 + r + n_races (attempts its) + N.of_nat (length ws).
Proof.
  induction f as [|f IH]; intros t last r sc its x Hs H; [discriminate|].
  destruct (loop_step _ _ _ _ _ _ _ _ _ _ Hs H) as (up & t1 & last' & r' & sc' & Es & _ & _ & _ & _ & _ & D).
  destruct Hs as [Htc Hl].
  pose proof (count_le_len t ws) as Hc.
  assert (Hg : gen_at ws r t <= 1 + r + N.of_nat (length ws)) by (unfold gen_at; lia).
  assert (Cur : forall rest, 
     n_acked (attempts rest) + last' <= 1 + r' + n_races (attempts rest) + N.of_nat (length ws) ->
     n_acked (attempts ({| i_t := t; i_gen := gen_at ws r t; i_up := up |} :: rest)) + last
       <= 1 + r + n_races (attempts ({| i_t := t; i_gen := gen_at ws r t; i_up := up |} :: rest)) + N.of_nat (length ws)).
  { intros rest Hrest. rewrite attempts_cons. cbn [i_up]. destruct up as [a|].
    - destruct (step_some _ _ _ _ _ _ _ _ _ _ _ _ Htc Es) as (Hne & _ & Hga & _ & _ & _ & _ & Hl' & _ & Hr' & _).
      cbn [n_acked n_races]. destruct (a_ok a); lia.
    - destruct (step_none _ _ _ _ _ _ _ _ _ _ _ Es) as (_ & _ & -> & -> & _). exact Hrest. }
  destruct D as [[_ ->]|(_ & Hs' & its' & Hrec & ->)].
  - apply Cur. change (attempts []) with (@nil attempt). cbn [n_acked n_races].
    destruct up as [a|].
    + destruct (step_some _ _ _ _ _ _ _ _ _ _ _ _ Htc Es) as (Hne & _ & Hga & _ & _ & _ & _ & Hl' & _ & Hr' & _).
      destruct (a_ok a) eqn:Eo; rewrite ?Eo in *; lia.
    + destruct (step_none _ _ _ _ _ _ _ _ _ _ _ Es) as (_ & _ & -> & -> & _). lia.
  - apply Cur. apply (IH _ _ _ _ _ _ Hs' Hrec).
Qed.

Lemma acked_failed_len l : N.of_nat (length l) = n_acked l + n_failed l.
Proof.
  induction l as [|a l IH]; [reflexivity|]. cbn [length n_acked n_failed].
  rewrite Nat2N.inj_succ. destruct (a_ok a); lia.
Qed.

(* the number of uploads after the first is at most the number of SUCCESSFUL database writes
   (by clients, or on the store's side during an upload) plus the number of failed uploads;
   failed write attempts and reads do not count *)
Theorem run_upload_count tl its x : backup_run tl = Some (its, x) ->
  N.of_nat (length (attempts its))
  <= 1 + N.of_nat (length (ok_writes tl)) + n_races (attempts its) + n_failed (attempts its).
Proof.
  intros H. pose proof (loop_acked_bound _ _ _ _ _ _ _ _ _ _ (init_ok _ _) H).
  rewrite acked_failed_len. lia.
Qed.

(* ---- the byte-identity monitor ---- *)
Lemma mon_bytes_spec l : forall last, mon_bytes last l = true ->
  forall pre b1 mid b2 post, l = pre ++ (true, b1) :: mid ++ (true, b2) :: post ->
  (forall e, In e mid -> fst e = false) -> b1 <> b2.
Proof.
  induction l as [|[ok b] l IH]; intros last H pre b1 mid b2 post E Hm.
  - destruct pre; discriminate.
  - cbn [mon_bytes] in H. destruct pre as [|p pre]; cbn in E.
    + injection E as -> -> E. apply andb_true_iff in H. destruct H as [_ H].
      (* skip the unacknowledged ones in between *)
      clear IH. revert l H E. induction mid as [|[ok' b'] mid IHm]; intros l H E; cbn in E; subst l.
      * cbn [mon_bytes] in H. apply andb_true_iff in H. destruct H as [H _].
        apply negb_true_iff, N.eqb_neq in H. congruence.
      * assert (ok' = false) by (apply (Hm (ok', b')); left; reflexivity). subst ok'.
        cbn [mon_bytes] in H. eapply IHm; [|exact H|reflexivity].
        intros e He. apply Hm. right. exact He.
    + injection E as _ E. destruct ok.
      * apply andb_true_iff in H. destruct H as [_ H]. eapply IH; eauto.
      * eapply IH; eauto.
Qed.

(* ---- which client calls are writes: exactly those for which the sequential specification
   of the store needs a save (C02's [needs_save]) and whose save succeeds ---- *)
Lemma neqb_spec : forall a b : N, N.eqb a b = true <-> a = b.
Proof. intros a b. apply N.eqb_eq. Qed.

Theorem saved_iff_needs_save ok (s : kvs N) o : Inv s ->
  is_saved (snd (kv_step N.eqb ok s o)) = ok && needs_save N.eqb s o.
Proof.
  intros I. destruct ok.
  - pose proof (@refines_spec_ok N N.eqb s o I) as H.
    destruct (kv_step N.eqb true s o) as [[s' r] sv]. destruct (spec_step N.eqb s o) as [t q].
    destruct H as (_ & _ & ->). cbn [snd andb]. destruct (needs_save N.eqb s o); reflexivity.
  - pose proof (@refines_spec_fail N N.eqb s o I) as H.
    destruct (kv_step N.eqb false s o) as [[s' r] sv]. cbn [snd andb].
    destruct (needs_save N.eqb s o).
    + destruct H as (_ & _ & ->). reflexivity.
    + destruct H as (_ & ->). reflexivity.
Qed.

(* every tag computed by [classify] from the empty store is that verdict, in a state
   satisfying the store's invariant *)
Lemma classify_tags : forall evs s, Inv s ->
  forall pre t ok o post, evs = pre ++ (t, ok, o) :: post ->
  exists s1, Inv s1 /\ nth_error (fst (classify s evs)) (length pre) = Some (t, ok && needs_save N.eqb s1 o).
Proof.
  induction evs as [|[[t0 ok0] o0] evs IH]; intros s I pre t ok o post E.
  - destruct pre; discriminate.
  - cbn [classify]. destruct (kv_step N.eqb ok0 s o0) as [[s' r] sv] eqn:K.
    destruct (classify s' evs) as [l sf] eqn:C. cbn [fst].
    destruct pre as [|p pre]; cbn in E.
    + injection E as -> -> -> _. exists s. split; [exact I|]. cbn [length nth_error].
      pose proof (saved_iff_needs_save ok s o I) as H. rewrite K in H. cbn [snd] in H. rewrite H. reflexivity.
    + injection E as _ E. cbn [length nth_error].
      assert (I' : Inv s') by (eapply inv_step; eauto).
      destruct (IH s' I' pre t ok o post E) as (s1 & I1 & H). rewrite C in H. exists s1. auto.
Qed.

(* ---- caught up at every wake-up: after an iteration whose upload (if any) was acknowledged,
   the newest acknowledged backup is the file of the generation current at that wake-up ---- *)
Theorem run_caught_up_each_wake tl its x : backup_run tl = Some (its, x) ->
  forall pre it post, its = pre ++ it :: post ->
  (forall a, i_up it = Some a -> a_ok a = true) ->
  lastok 0 (pre ++ [it]) = i_gen it.
Proof.
  intros H pre it post E Hok.
  destruct (run_change_driven _ _ _ H pre it post E) as [Hn Hs].
  rewrite lastok_app. cbn. unfold lastok_step.
  destruct (i_up it) as [a|] eqn:Eu.
  - rewrite (Hok a eq_refl). destruct (Hs a eq_refl) as (Hg & _). exact Hg.
  - symmetry. apply Hn. reflexivity.
Qed.

(* ---- the first round, in every lifetime: the loop's "nothing uploaded yet" differs from every
   generation a just-opened database reports - whether db.Open created the file or found it
   (a restart with an existing database) - and from every later generation; so the task as
   started by a process uploads at its first round even when nothing is written in this
   lifetime ---- *)
Lemma open_gen_is_db_open (V : Type) (k : kvs V) :
  gen (db_open k) = open_gen /\ gen (db_create V) = open_gen.
Proof. split; reflexivity. Qed.

Lemma gen_at_from_open ws r t : gen_at ws r t = open_gen + r + count_le t ws.
Proof. reflexivity. Qed.

Theorem first_round_uploads tl :
  (forall (V : Type) (k : kvs V), gen (db_open k) <> no_upload_yet /\ gen (db_create V) <> no_upload_yet)
  /\ (forall r t, gen_at (ok_writes tl) r t <> no_upload_yet)
  /\ (forall its x, backup_run tl = Some (its, x) ->
       exists it rest a, its = it :: rest /\ i_t it = 0 /\ i_up it = Some a
                         /\ a_t a = 0 /\ a_gen a = open_gen + count_le 0 (ok_writes tl)).
Proof.
  split; [|split].
  - intros V k. unfold no_upload_yet. cbn. split; discriminate.
  - intros r t. pose proof (gen_at_pos (ok_writes tl) r t). unfold no_upload_yet. lia.
  - intros its x H. destruct (run_first_upload _ _ _ H) as (it & rest & a & -> & Ht & Hu).
    exists it, rest, a. repeat split; auto.
    + destruct (run_change_driven _ _ _ H [] it rest eq_refl) as [_ Hs].
      destruct (Hs a Hu) as (_ & Hat & _). rewrite Hat. exact Ht.
    + destruct (run_change_driven _ _ _ H [] it rest eq_refl) as [_ Hs].
      destruct (Hs a Hu) as (Hg & _). rewrite Hg.
      destruct (loop_head _ _ _ _ _ _ _ _ _ _ _ H) as (_ & Hgen & _). rewrite Hgen.
      unfold gen_at, open_gen. lia.
Qed.

(* ---- a failing READ of the database file at a backup instant: the attempt fails before
   anything is sent ---- *)
Lemma loop_sent f ws rf c : forall t last r sc its x,
  okstate ws c t last r -> loop f ws rf c t last r sc = Some (its, x) ->
  forall it a, In it its -> i_up it = Some a ->
  a_sent a = negb (read_fails rf (i_t it)) /\ (a_sent a = false -> a_ok a = false /\ a_end a = a_t a /\ a_race a = 0).
Proof.
  induction f as [|f IH]; intros t last r sc its x Hs H it a Hin Hu; [discriminate|].
  destruct (loop_step _ _ _ _ _ _ _ _ _ _ Hs H) as (up & t1 & last' & r' & sc' & Es & _ & _ & _ & _ & _ & D).
  assert (Cur : forall a0, up = Some a0 ->
            a_sent a0 = negb (read_fails rf t) /\ (a_sent a0 = false -> a_ok a0 = false /\ a_end a0 = a_t a0 /\ a_race a0 = 0)).
  { intros a0 ->. destruct Hs as [Htc _].
    destruct (step_some _ _ _ _ _ _ _ _ _ _ _ _ Htc Es) as (_ & Hat & _ & Hae & _ & _ & _ & _ & _ & Hr & _ & Hsent & Hns).
    split; [exact Hsent|]. intros Hf. destruct (Hns Hf) as (Hok & Ht1 & Hr' & _).
    repeat split; auto; [congruence|lia]. }
  destruct D as [[_ ->]|(_ & Hs' & its' & Hrec & ->)].
  - destruct Hin as [<-|[]]. cbn [i_up i_t] in *. apply Cur. exact Hu.
  - destruct Hin as [<-|Hin].
    + cbn [i_up i_t] in *. apply Cur. exact Hu.
    + eapply IH; eauto.
Qed.

(* when os.ReadFile fails at a backup instant: nothing is sent (no object at all, hence no empty
   or partial one), the attempt is not acknowledged and takes no time, lastWriteGen does not
   advance - and (run_retry) the very next iteration tries again *)
Theorem run_read_failure tl its x : backup_run tl = Some (its, x) ->
  forall pre it post a, its = pre ++ it :: post -> i_up it = Some a ->
  a_sent a = negb (read_fails (read_faults tl) (i_t it))
  /\ (a_sent a = false ->
      a_ok a = false /\ a_end a = a_t a /\ lastok 0 (pre ++ [it]) = lastok 0 pre
      /\ (forall it2 post', post = it2 :: post' -> i_up it2 <> None /\ i_t it2 = i_t it + period)).
Proof.
  intros H pre it post a E Hu.
  assert (Hin : In it its) by (subst its; apply in_or_app; right; left; reflexivity).
  destruct (loop_sent _ _ _ _ _ _ _ _ _ _ (init_ok _ _) H it a Hin Hu) as [Hs Hn].
  split; [exact Hs|]. intros Hf. destruct (Hn Hf) as (Hok & He & _).
  repeat split; auto.
  - rewrite lastok_app. cbn. unfold lastok_step. rewrite Hu, Hok. reflexivity.
  - subst post. eapply run_retry; eauto.
  - subst post. destruct (run_rate _ _ _ H pre it it2 post' E) as [Ht _]. rewrite Ht.
    unfold end_of. rewrite Hu, He.
    destruct (run_change_driven _ _ _ H pre it (it2 :: post') E) as [_ Hc]. destruct (Hc a Hu) as (_ & Hat & _).
    rewrite Hat. reflexivity.
Qed.

(* everything that reaches the store is the file of the generation read: [sent] attempts only *)
Lemma sent_subset its a : In a (sent its) -> In a (attempts its) /\ a_sent a = true.
Proof. unfold sent. intros H. apply filter_In in H. exact H. Qed.
