(* Symbolic (Dolev-Yao) model of what setec writes to disk (property C05): terms built from
   public constants, secret names, secret values, keys, arbitrary structure (JSON), arbitrary
   invertible encodings (base64, hex, JSON escaping) and AEAD ciphertexts; the database file
   of db/kv.go ([wrapper], [file_of], [c_save]); the symbolic image of openOrCreateKV ([open]);
   the audit record; the files and audit lines written along a history of Server/DB.v; the
   key-encryption-key use count of each operation; the monitor applied to the outcome of
   opening a tampered file.  Executable definitions only (proofs: CryptoProofs.v). *)
From Coq Require Import List Bool NArith.
Import ListNotations.
From Setec Require Import Base.SMap Acl.Glob Server.KV Server.DB Server.DBFacts.
Set Implicit Arguments.
Open Scope N_scope.

Inductive term :=
| Pub (n : N)                       (* public constant: field names, numbers, contexts, principals *)
| Nam (n : name)                    (* a secret's name *)
| Sec (v : N)                       (* a secret's value (token) *)
| Key (k : N)                       (* a symmetric key *)
| Tup (l : list term)               (* any structure: JSON object / array / member *)
| Code (t : term)                   (* any invertible encoding: base64, hex, JSON string escaping *)
| Enc (k : N) (ad : N) (r : N) (m : term).   (* AEAD ciphertext under key k, associated data ad, nonce r *)

(* associated-data contexts: "setec DEK v1", "setec database v1" *)
Definition adDEK : N := 1.
Definition adDB : N := 2.

(* the wrapper {"Version":..,"DEK":..,"DB":..}; []byte fields are base64 in JSON *)
Definition wrapper (ver dekf dbf : term) : term :=
  Tup [Tup [Pub 10; ver]; Tup [Pub 11; Code dekf]; Tup [Pub 12; Code dbf]].

Definition file_of (kek dek r1 r2 : N) (doc : term) : term :=
  wrapper (Pub 1) (Enc kek adDEK r1 (Key dek)) (Enc dek adDB r2 doc).

(* json.Marshal(persist{Secrets}) - names in clear, values base64, version numbers public *)
Definition doc_term (k : kvs N) : term :=
  Tup (map (fun '(n, x) =>
              Tup [Nam n; Tup (map (fun '(v, b) => Tup [Pub v; Code (Sec b)]) (vers x)); Pub (active x); Pub (latest x)]) k).

(* ---- what the kv keeps in memory: the data key and the wrapped key bytes, NOT used: the kek ---- *)
Record cstate := { c_dek : N; c_dekraw : term }.

(* newKV: fresh data key, wrapped once by the caller's key.  Second component: KEK uses. *)
Definition c_create (kek dek r1 : N) : cstate * N :=
  ({| c_dek := dek; c_dekraw := Enc kek adDEK r1 (Key dek) |}, 1).

(* save: only the data key and the stored wrapped-key bytes *)
Definition c_save (c : cstate) (r : N) (doc : term) : term * N :=
  (wrapper (Pub 1) (c_dekraw c) (Enc (c_dek c) adDB r doc), 0).

(* the AEAD decryption primitive (ideal): succeeds only under the ciphertext's own key and
   associated data *)
Definition dec (k ad : N) (t : term) : option term :=
  match t with
  | Enc k' ad' _ m => if (N.eqb k' k && N.eqb ad' ad)%bool then Some m else None
  | _ => None
  end.

(* the fields of a wrapper *)
Definition wrapper_fields (f : term) : option (term * term * term) :=
  match f with
  | Tup [Tup [Pub 10; ver]; Tup [Pub 11; Code dekf]; Tup [Pub 12; Code dbf]] => Some (ver, dekf, dbf)
  | _ => None
  end.

(* openOrCreateKV on an existing file *)
Definition open (kek : N) (f : term) : option term :=
  match f with
  | Tup [Tup [Pub 10; Pub 1]; Tup [Pub 11; Code (Enc k1 ad1 _ (Key dek))]; Tup [Pub 12; Code (Enc k2 ad2 _ doc)]] =>
      if (N.eqb k1 kek && N.eqb ad1 adDEK && N.eqb k2 dek && N.eqb ad2 adDB)%bool then Some doc else None
  | _ => None
  end.

(* Opening with the key the caller gives.  Second component: uses of THAT key: it is
   consulted exactly once as soon as the file parses as a version-1 wrapper whose DEK field
   is a ciphertext (whether or not it then unwraps), and not at all otherwise.  No other key
   is ever consulted, and nothing but the file and the given key enters the result - in
   particular not what an earlier open in the same process found. *)
Definition c_open (kek : N) (f : term) : option (cstate * term) * N :=
  match wrapper_fields f with
  | Some (Pub 1, Enc k ad r m, dbf) =>
      (match open kek f, m with
       | Some doc, Key dek => Some ({| c_dek := dek; c_dekraw := Enc k ad r m |}, doc)
       | _, _ => None
       end, 1)
  | _ => (None, 0)
  end.

(* ---- the audit record: principal, action, name, version, flag - no value field ---- *)
Definition action_code (a : action) : N :=
  match a with AGet => 0 | AInfo => 1 | APut => 2 | AActivate => 3 | ADelete => 4 | AOther n => 5 + n end.
Definition entry_term (e : entry) : term :=
  Tup [Pub (e_principal e); Pub (action_code (e_action e)); Nam (e_secret e); Pub (e_version e);
       Pub (if e_authorized e then 1 else 0)].

(* ---- everything written along a history of calls (each step with its nonce) ---- *)
Definition audit_terms (fx : list effect) : list term :=
  flat_map (fun e => match e with EAudit x => [entry_term x] | _ => [] end) fx.

(* a history: calls (each with its environment - whether the file system accepts the save,
   what the audit sink does - and the nonce of its save, if any) and REOPENS - the handle is
   dropped and the file on disk is opened again with the same key *)
Inductive hstep :=
| HCall (ev : env) (cl : caller) (o : op N) (r : N)
| HReopen
| HBackup.    (* a round of the server's periodic backup task: the file on disk, as it is, is
                 copied to the object store - by a process that holds no more than the kv does;
                 the copy is one more place where an attacker finds the file *)

(* the call attempted a save that the file system refused (ev.save_ok = false) *)
Definition save_failed (fx : list effect) : bool :=
  existsb (fun e => match e with ESaveFail => true | _ => false end) fx.

Definition count_reopens (h : list hstep) : N :=
  N.of_nat (length (filter (fun x => match x with HReopen => true | _ => false end) h)).

(* [f] is the file currently on disk.  Returns (database files incl. temporaries, audit lines,
   KEK uses).  A reopen that fails ends the history (the server does not start). *)
Fixpoint run_terms (kek : N) (c : cstate) (s : dbstate N) (f : term) (h : list hstep) : list term * list term * N :=
  match h with
  | [] => ([], [], 0)
  | HCall ev cl o r :: h' =>
      let '(s', _, fx) := db_step N.eqb ev s cl o in
      let '(f', u) := c_save c r (doc_term (kv s')) in
      let saved := has_save fx in
      let '(files, audits, uses) := run_terms kek c s' (if saved then f' else f) h' in
      ((if saved then [f'; f']                        (* the temporary and, after the rename, the live file *)
        else if save_failed fx then [f']              (* a REFUSED save: the temporary may have been written; the file on disk stays *)
        else []) ++ files,
       audit_terms fx ++ audits,
       (if saved then u else 0) + uses)
  | HReopen :: h' =>
      match c_open kek f with
      | (Some (c', _), u) =>
          let '(files, audits, uses) := run_terms kek c' (db_open (kv s)) f h' in
          (files, audits, u + uses)
      | (None, u) => ([], [], u)
      end
  | HBackup :: h' =>
      let '(files, audits, uses) := run_terms kek c s f h' in
      (f :: files, audits, uses)           (* no key use: copying bytes needs no key *)
  end.

(* the file a freshly created database writes first *)
Definition first_file (c : cstate) (r0 : N) : term := fst (c_save c r0 (doc_term [])).

(* ---- monitor on the outcome of opening a damaged / spliced file ---- *)
Inductive outcome (D : Type) := OErr | OOpened (d : D).
Arguments OErr {D}.
(* key use of one open attempt: a successful open consulted the key it was given exactly
   once; a failed one at most once; the keys it was not given were not consulted *)
Definition open_uses_ok (opened : bool) (given others : N) : bool :=
  (if opened then given =? 1 else given <=? 1) && (others =? 0).

Definition tamper_ok {D} (deq : D -> D -> bool) (original : D) (o : outcome D) : bool :=
  match o with OErr => true | OOpened d => deq d original end.
