(* Proofs for the symbolic model of the files at rest (property C05). *)
From Coq Require Import List Bool NArith Lia.
Import ListNotations.
From Setec Require Import Base.SMap Acl.Glob Server.KV Server.DB Server.DBFacts Server.Crypto.
Set Implicit Arguments.
Open Scope N_scope.

Section Secrecy.
Variable protected : N -> Prop.     (* keys the attacker does not hold: kek, dek *)
Variable names_public : bool.       (* may secret NAMES appear in clear (audit log) or not (database file) *)

(* what an attacker can derive from a set of terms: take structures apart, undo every
   encoding, decrypt with keys it can derive *)
Inductive derives (K : term -> Prop) : term -> Prop :=
| d_in t : K t -> derives K t
| d_proj l t : derives K (Tup l) -> In t l -> derives K t
| d_decode t : derives K (Code t) -> derives K t
| d_open k ad r m : derives K (Enc k ad r m) -> derives K (Key k) -> derives K m.

(* safe to publish: values (and names, unless public) and protected keys occur only under
   encryption with a protected key *)
Inductive safe : term -> Prop :=
| s_pub n : safe (Pub n)
| s_nam n : names_public = true -> safe (Nam n)
| s_key k : ~ protected k -> safe (Key k)
| s_tup l : (forall t, In t l -> safe t) -> safe (Tup l)
| s_code t : safe t -> safe (Code t)
| s_enc_prot k ad r m : protected k -> safe (Enc k ad r m)
| s_enc_open k ad r m : safe m -> safe (Enc k ad r m).

Theorem derives_safe (K : term -> Prop) : (forall t, K t -> safe t) -> forall t, derives K t -> safe t.
Proof.
  intros HK t D. induction D as [t H|l t D IH Hin|t D IH|k ad r m D1 IH1 D2 IH2].
  - auto.
  - inversion IH; subst. auto.
  - inversion IH; subst. auto.
  - inversion IH2 as [| |k' NP| | | |]; subst. inversion IH1; subst; [contradiction|assumption].
Qed.

Corollary value_not_derivable (K : term -> Prop) v : (forall t, K t -> safe t) -> ~ derives K (Sec v).
Proof. intros HK D. apply (derives_safe HK) in D. inversion D. Qed.

Corollary name_not_derivable (K : term -> Prop) n : names_public = false -> (forall t, K t -> safe t) -> ~ derives K (Nam n).
Proof. intros NP HK D. apply (derives_safe HK) in D. inversion D. congruence. Qed.

Corollary protected_key_not_derivable (K : term -> Prop) k : (forall t, K t -> safe t) -> protected k -> ~ derives K (Key k).
Proof. intros HK P D. apply (derives_safe HK) in D. inversion D; contradiction. Qed.

Lemma saved_file_safe kek dek r1 r doc :
  protected kek -> protected dek ->
  safe (fst (c_save (fst (c_create kek dek r1)) r doc)).
Proof.
  intros Pk Pd. cbn. unfold wrapper.
  constructor. intros t [<-|[<-|[<-|[]]]]; constructor; intros t' [<-|[<-|[]]]; try constructor.
  - apply s_enc_prot; assumption.
  - apply s_enc_prot; assumption.
Qed.

Lemma entry_safe e : names_public = true -> safe (entry_term e).
Proof.
  intro NP. unfold entry_term. constructor.
  intros t [<-|[<-|[<-|[<-|[<-|[]]]]]]; try constructor. assumption.
Qed.

Lemma audit_terms_safe fx t : names_public = true -> In t (audit_terms fx) -> safe t.
Proof.
  intros NP. unfold audit_terms. rewrite in_flat_map. intros (e & _ & H).
  destruct e; try contradiction. destruct H as [<-|[]]. apply entry_safe. assumption.
Qed.

(* reopening a file this database wrote, with its own key, gives back the same in-memory
   crypto state and the document, for one use of the key *)
Lemma c_open_own kek dek r1 r doc :
  c_open kek (fst (c_save (fst (c_create kek dek r1)) r doc)) = (Some (fst (c_create kek dek r1), doc), 1).
Proof. unfold c_open, c_save, c_create, wrapper, open. cbn. rewrite !N.eqb_refl. reflexivity. Qed.

Lemma count_reopens_call ev cl o r h : count_reopens (HCall ev cl o r :: h) = count_reopens h.
Proof. reflexivity. Qed.
Lemma count_reopens_reopen h : count_reopens (HReopen :: h) = 1 + count_reopens h.
Proof. unfold count_reopens. cbn [filter length]. rewrite Nat2N.inj_succ. lia. Qed.

(* every database file (and temporary) written along ANY history - calls and reopens - is safe,
   whatever the documents contain; every audit line is safe as far as values are concerned;
   the key-encryption key is used once per reopen and by nothing else *)
Lemma run_terms_safe kek dek r1 : protected kek -> protected dek ->
  forall h (s : dbstate N) f files audits uses,
  (exists r doc, f = fst (c_save (fst (c_create kek dek r1)) r doc)) ->
  run_terms kek (fst (c_create kek dek r1)) s f h = (files, audits, uses) ->
  (forall t, In t files -> safe t) /\ (names_public = true -> forall t, In t audits -> safe t)
  /\ uses = count_reopens h.
Proof.
  intros Pk Pd. induction h as [|[ev cl o r| |] h IH]; intros s f files audits uses Hf H.
  - cbn in H. injection H as <- <- <-. repeat split; intros; contradiction.
  - cbn [run_terms] in H.
    destruct (db_step N.eqb ev s cl o) as [[s' res] fx].
    destruct (c_save (fst (c_create kek dek r1)) r (doc_term (kv s'))) as [f' u] eqn:Ef.
    destruct (run_terms kek (fst (c_create kek dek r1)) s' (if has_save fx then f' else f) h) as [[files' audits'] uses'] eqn:Er.
    injection H as <- <- <-.
    assert (Ff : f' = fst (c_save (fst (c_create kek dek r1)) r (doc_term (kv s')))) by (rewrite Ef; reflexivity).
    assert (Hf' : exists r0 doc, (if has_save fx then f' else f) = fst (c_save (fst (c_create kek dek r1)) r0 doc)).
    { destruct (has_save fx); [exists r, (doc_term (kv s')); exact Ff|exact Hf]. }
    destruct (IH _ _ _ _ _ Hf' Er) as (Hfi & Ha & Hu).
    assert (Sf : safe f') by (rewrite Ff; apply saved_file_safe; assumption).
    assert (U : u = 0) by (cbn in Ef; injection Ef as _ <-; reflexivity).
    repeat split.
    + intros t I. apply in_app_or in I. destruct I as [I|I]; [|auto].
      destruct (has_save fx); [destruct I as [<-|[<-|[]]]; assumption|].
      destruct (save_failed fx); [destruct I as [<-|[]]; assumption|contradiction].
    + intros NP t I. apply in_app_or in I. destruct I as [I|I]; [|auto].
      eapply audit_terms_safe; eassumption.
    + rewrite count_reopens_call. subst. destruct (has_save fx); reflexivity.
  - cbn [run_terms] in H. destruct Hf as (r0 & doc & ->). rewrite c_open_own in H.
    destruct (run_terms kek (fst (c_create kek dek r1)) (db_open (kv s)) (fst (c_save (fst (c_create kek dek r1)) r0 doc)) h)
      as [[files' audits'] uses'] eqn:Er.
    injection H as <- <- <-.
    destruct (IH _ _ _ _ _ (ex_intro _ r0 (ex_intro _ doc eq_refl)) Er) as (Hfi & Ha & Hu).
    repeat split; auto. rewrite count_reopens_reopen. subst. reflexivity.
  - cbn [run_terms] in H.
    destruct (run_terms kek (fst (c_create kek dek r1)) s f h) as [[files' audits'] uses'] eqn:Er.
    injection H as <- <- <-.
    destruct (IH _ _ _ _ _ Hf Er) as (Hfi & Ha & Hu).
    repeat split; auto.
    intros t [<-|I]; [|auto]. destruct Hf as (r0 & doc & ->). apply saved_file_safe; assumption.
Qed.

End Secrecy.

(* C05, first sentence, over all histories incl. reopens: from everything the attacker already
   holds (safe terms: anything not containing the keys or the secrets in clear) together with
   EVERY database file and temporary and EVERY audit line written during the history, no
   secret value can be derived; from the database files and temporaries, no secret name either. *)
Theorem files_reveal_nothing kek dek r1 r0 doc0 h (s : dbstate N) files audits uses :
  run_terms kek (fst (c_create kek dek r1)) s (fst (c_save (fst (c_create kek dek r1)) r0 doc0)) h = (files, audits, uses) ->
  let prot := fun k => k = kek \/ k = dek in
  (forall (K0 : term -> Prop) v, (forall t, K0 t -> safe prot true t) ->
     ~ derives (fun t => K0 t \/ In t files \/ In t audits) (Sec v))
  /\ (forall (K0 : term -> Prop) n, (forall t, K0 t -> safe prot false t) ->
     ~ derives (fun t => K0 t \/ In t files) (Nam n)).
Proof.
  intros H prot. split.
  - intros K0 v HK. apply value_not_derivable with (protected := prot) (names_public := true).
    destruct (@run_terms_safe prot true kek dek r1 (or_introl eq_refl) (or_intror eq_refl) h s _ _ _ _
                (ex_intro _ r0 (ex_intro _ doc0 eq_refl)) H) as (Hf & Ha & _).
    intros t [I|[I|I]]; auto.
  - intros K0 n HK. apply name_not_derivable with (protected := prot) (names_public := false); [reflexivity|].
    destruct (@run_terms_safe prot false kek dek r1 (or_introl eq_refl) (or_intror eq_refl) h s _ _ _ _
                (ex_intro _ r0 (ex_intro _ doc0 eq_refl)) H) as (Hf & _ & _).
    intros t [I|I]; auto.
Qed.

(* the audit record has no value field: whatever the call, its term mentions no value *)
Fixpoint value_free (t : term) : Prop :=
  match t with
  | Sec _ => False
  | Tup l => (fix all (l : list term) : Prop := match l with [] => True | x :: l' => value_free x /\ all l' end) l
  | Code t' => value_free t'
  | Enc _ _ _ m => value_free m
  | _ => True
  end.
Theorem audit_has_no_values e : value_free (entry_term e).
Proof. cbn. tauto. Qed.

(* the key-encryption key is consulted once at creation and once at each reopen - by no call,
   in particular not by the first write after a reopen: along any history of calls and
   reopens the uses are exactly the number of reopens *)
Theorem kek_uses_history kek dek r1 r0 doc0 h (s : dbstate N) files audits uses :
  snd (c_create kek dek r1) = 1
  /\ (run_terms kek (fst (c_create kek dek r1)) s (fst (c_save (fst (c_create kek dek r1)) r0 doc0)) h = (files, audits, uses) ->
      uses = count_reopens h)
  /\ (forall c r doc, snd (c_save c r doc) = 0).
Proof.
  repeat split.
  intro H. destruct (@run_terms_safe (fun k => k = kek \/ k = dek) true kek dek r1 (or_introl eq_refl) (or_intror eq_refl) h s _ _ _ _
                       (ex_intro _ r0 (ex_intro _ doc0 eq_refl)) H) as (_ & _ & U).
  exact U.
Qed.

(* ---------------- opening ---------------- *)
Theorem open_roundtrip kek dek r1 r2 doc : open kek (file_of kek dek r1 r2 doc) = Some doc.
Proof. unfold open, file_of, wrapper. rewrite !N.eqb_refl. reflexivity. Qed.

Theorem open_sound kek ver dekf dbf doc :
  open kek (wrapper ver dekf dbf) = Some doc ->
  ver = Pub 1 /\ exists dek r1 r2, dekf = Enc kek adDEK r1 (Key dek) /\ dbf = Enc dek adDB r2 doc.
Proof.
  unfold open, wrapper. intro H.
  destruct ver as [v| | | | | |]; try discriminate.
  destruct v as [|p]; try discriminate. destruct p; try discriminate.
  destruct dekf as [| | | | | |k1 ad1 r1 m1]; try discriminate.
  destruct m1 as [| | |dek| | |]; try discriminate.
  destruct dbf as [| | | | | |k2 ad2 r2 m2]; try discriminate.
  destruct (N.eqb k1 kek && N.eqb ad1 adDEK && N.eqb k2 dek && N.eqb ad2 adDB)%bool eqn:E; try discriminate.
  injection H as ->. repeat (apply andb_true_iff in E; destruct E as [E ?]).
  apply N.eqb_eq in E. repeat match goal with H : N.eqb _ _ = true |- _ => apply N.eqb_eq in H end. subst.
  split; auto. exists dek, r1, r2. auto.
Qed.

(* open is: version check, unwrap the data key with the DEK context, decrypt with the
   database context *)
Theorem open_via_dec kek ver dekf dbf :
  open kek (wrapper ver dekf dbf) =
  match ver with
  | Pub 1 => match dec kek adDEK dekf with
             | Some (Key dek) => dec dek adDB dbf
             | _ => None end
  | _ => None end.
Proof.
  unfold open, wrapper, dec.
  destruct ver as [v| | | | | |]; try reflexivity.
  destruct v as [|[p|p|]]; try reflexivity.
  destruct dekf as [| | | | | |k1 ad1 r1 m1]; try reflexivity.
  destruct m1 as [| | |dk| | |]; try (destruct (N.eqb k1 kek && N.eqb ad1 adDEK)%bool; reflexivity).
  destruct dbf as [| | | | | |k2 ad2 r2 m2]; try (destruct (N.eqb k1 kek && N.eqb ad1 adDEK)%bool; reflexivity).
Qed.

(* a file whose DB field is the original one opens - under ANY key, with ANY version field and
   ANY data-key field (damaged, or taken from another database) - to the original contents or
   not at all *)
Theorem tamper_db_field_kept kek' ver dekf dek r2 doc doc' :
  open kek' (wrapper ver dekf (Enc dek adDB r2 doc)) = Some doc' -> doc' = doc.
Proof.
  intro H. apply open_sound in H. destruct H as (_ & dk & a & b & _ & E). injection E as _ _ ->. reflexivity.
Qed.

(* a file whose data-key field is the original one opens only if its DB field is a ciphertext
   made with this database's own data key and the database context, i.e. was produced by a
   save of this very database; it then yields exactly what that save wrote *)
Theorem tamper_dek_field_kept kek kek' ver r1 dek dbf doc' :
  open kek' (wrapper ver (Enc kek adDEK r1 (Key dek)) dbf) = Some doc' ->
  kek' = kek /\ ver = Pub 1 /\ exists r', dbf = Enc dek adDB r' doc'.
Proof.
  intro H. apply open_sound in H. destruct H as (-> & dk & a & b & E1 & E2).
  injection E1 as -> _ ->. split; [reflexivity|split; [reflexivity|]]. exists b. exact E2.
Qed.

(* hence: splicing the DB field of a different database (different data key) or a damaged
   field (not a ciphertext at all) next to the original data key is an error *)
Corollary splice_foreign_db_rejected kek ver r1 dek dek2 ad r doc2 :
  dek2 <> dek -> open kek (wrapper ver (Enc kek adDEK r1 (Key dek)) (Enc dek2 ad r doc2)) = None.
Proof.
  intro N. destruct (open kek _) eqn:E; [|reflexivity].
  apply tamper_dek_field_kept in E. destruct E as (_ & _ & r' & E). injection E as -> _ _ _. contradiction.
Qed.

Corollary damaged_field_rejected kek ver dekf dbf :
  (forall k ad r m, dekf <> Enc k ad r m) \/ (forall k ad r m, dbf <> Enc k ad r m) ->
  open kek (wrapper ver dekf dbf) = None.
Proof.
  intro G. destruct (open kek _) eqn:E; [|reflexivity].
  apply open_sound in E. destruct E as (_ & dk & a & b & E1 & E2). destruct G as [G|G]; [elim (G _ _ _ _ E1)|elim (G _ _ _ _ E2)].
Qed.

Theorem foreign_kek_rejected kek kek' dek r1 r2 doc : kek' <> kek -> open kek' (file_of kek dek r1 r2 doc) = None.
Proof.
  intro N. destruct (open kek' _) eqn:E; [|reflexivity].
  unfold file_of in E. apply tamper_dek_field_kept in E. destruct E as (E & _). contradiction.
Qed.

Theorem version_checked kek ver dekf dbf : ver <> Pub 1 -> open kek (wrapper ver dekf dbf) = None.
Proof.
  intro N. destruct (open kek _) eqn:E; [|reflexivity]. apply open_sound in E. destruct E as (E & _). contradiction.
Qed.

Theorem context_checked kek ad1 ad2 r1 r2 dek doc :
  ad1 <> adDEK \/ ad2 <> adDB -> open kek (wrapper (Pub 1) (Enc kek ad1 r1 (Key dek)) (Enc dek ad2 r2 doc)) = None.
Proof.
  intro N. destruct (open kek _) eqn:E; [|reflexivity]. apply open_sound in E.
  destruct E as (_ & dk & a & b & E1 & E2). injection E1 as -> _ ->. injection E2 as -> _ _. destruct N as [N|N]; congruence.
Qed.

(* the monitor applied to real outcomes: for a file that differs from a valid one in ONE field
   (version, data key or DB; any replacement whatsoever for the version and data-key field;
   for the DB field anything but another snapshot saved by the same database), opening
   reports an error or yields exactly the original contents *)
Definition doc_outcome (o : option term) : outcome term := match o with Some d => OOpened d | None => OErr end.

Theorem single_field_error_or_original kek dek r1 r2 doc f' :
  (exists ver, f' = wrapper ver (Enc kek adDEK r1 (Key dek)) (Enc dek adDB r2 doc))
  \/ (exists dekf, f' = wrapper (Pub 1) dekf (Enc dek adDB r2 doc))
  \/ (exists dbf, f' = wrapper (Pub 1) (Enc kek adDEK r1 (Key dek)) dbf /\ (forall r d, dbf = Enc dek adDB r d -> d = doc)) ->
  forall kek', open kek' f' = None \/ open kek' f' = Some doc.
Proof.
  intros H kek'. destruct (open kek' f') as [d|] eqn:E; [right|left; reflexivity].
  destruct H as [(ver & ->)|[(dekf & ->)|(dbf & -> & G)]].
  - apply tamper_db_field_kept in E. congruence.
  - apply tamper_db_field_kept in E. congruence.
  - apply tamper_dek_field_kept in E. destruct E as (_ & _ & r' & E). f_equal. eapply G. exact E.
Qed.

(* ---------------- every open consults the key it is given, and only that ---------------- *)
(* c_open agrees with open; it is a function of the file and the given key alone *)
Theorem c_open_result kek f : option_map snd (fst (c_open kek f)) = open kek f \/ fst (c_open kek f) = None.
Proof.
  unfold c_open. destruct (wrapper_fields f) as [[[ver dekf] dbf]|]; [|right; reflexivity].
  destruct ver as [v| | | | | |]; try (right; reflexivity).
  destruct v as [|[p|p|]]; try (right; reflexivity).
  destruct dekf as [| | | | | |k ad r m]; try (right; reflexivity).
  cbn [fst]. destruct (open kek f) as [doc|]; [|right; reflexivity].
  destruct m; try (right; reflexivity). left. reflexivity.
Qed.

Theorem open_uses_at_most_once kek f : snd (c_open kek f) <= 1.
Proof.
  unfold c_open. destruct (wrapper_fields f) as [[[ver dekf] dbf]|]; cbn [snd]; [|lia].
  destruct ver as [v| | | | | |]; cbn [snd]; try lia.
  destruct v as [|[p|p|]]; cbn [snd]; try lia.
  destruct dekf; cbn [snd]; lia.
Qed.

(* a successful open consulted its key: no open succeeds on the strength of anything else *)
Theorem open_success_used_key kek f x : fst (c_open kek f) = Some x -> snd (c_open kek f) = 1.
Proof.
  unfold c_open. destruct (wrapper_fields f) as [[[ver dekf] dbf]|]; cbn [fst snd]; [|discriminate].
  destruct ver as [v| | | | | |]; cbn [fst snd]; try discriminate.
  destruct v as [|[p|p|]]; cbn [fst snd]; try discriminate.
  destruct dekf; cbn [fst snd]; try discriminate. reflexivity.
Qed.

(* an undamaged file: whichever key is given is consulted exactly once; the right one opens it
   to its document, every other one is refused *)
Theorem open_valid_file kek dek r1 r2 doc kek' :
  snd (c_open kek' (file_of kek dek r1 r2 doc)) = 1
  /\ (kek' = kek -> option_map snd (fst (c_open kek' (file_of kek dek r1 r2 doc))) = Some doc)
  /\ (kek' <> kek -> fst (c_open kek' (file_of kek dek r1 r2 doc)) = None).
Proof.
  split; [reflexivity|]. split.
  - intros ->. unfold c_open, file_of, wrapper, open. cbn. rewrite !N.eqb_refl. reflexivity.
  - intro N. destruct (c_open_result kek' (file_of kek dek r1 r2 doc)) as [E|E]; [|exact E].
    rewrite (foreign_kek_rejected dek r1 r2 doc N) in E.
    destruct (fst (c_open kek' (file_of kek dek r1 r2 doc))); [discriminate|reflexivity].
Qed.

Theorem open_uses_ok_spec opened given others :
  open_uses_ok opened given others = true <->
  (if opened then given = 1 else given <= 1) /\ others = 0.
Proof.
  unfold open_uses_ok. rewrite andb_true_iff, N.eqb_eq. destruct opened; [rewrite N.eqb_eq|rewrite N.leb_le]; tauto.
Qed.

Theorem tamper_ok_spec {D} (deq : D -> D -> bool) (deq_spec : forall a b, deq a b = true <-> a = b) original o :
  tamper_ok deq original o = true <-> o = OErr \/ o = OOpened original.
Proof.
  destruct o as [|d]; cbn; split; intro H; auto.
  - apply deq_spec in H. subst. auto.
  - destruct H as [H|H]; [discriminate|]. injection H as ->. apply deq_spec. reflexivity.
Qed.
