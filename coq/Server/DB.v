(* Model of db/db.go: callers, ACL check + audit record (checkAndLog), name
   validation, the reserved "_internal/" prefix, the special ordering of
   GetConditional and List, on top of Server/KV.v.  One call = one [db_step]
   returning the new state, the result and the ordered list of effects
   (audit records written, saves).  Executable definitions only. *)
From Coq Require Import List Bool NArith.
Import ListNotations.
From Setec Require Import Base.SMap Acl.Glob Server.KV.
Set Implicit Arguments.
Open Scope N_scope.

Section DB.
Variable V : Type.
Variable veqb : V -> V -> bool.

Notation kvs := (kvs V).

Record caller := { principal : N; rules : list rule }.

Inductive op :=
| OList
| OInfo (n : name)
| OGet (n : name)
| OGetCond (n : name) (v : N)
| OGetVer (n : name) (v : N)
| OPut (n : name) (b : V)
| OActivate (n : name) (v : N)
| ODelVer (n : name) (v : N)
| ODel (n : name).

(* what the audit sink does with the next record *)
Inductive afault := AOk | AWriteFail | ASyncFail.

Record env := { save_ok : bool; audit : afault }.

Record dbstate := {
  kv : kvs;
  gen : N;            (* write generation: +1 per successful save *)
  audit_dead : bool   (* json.Encoder keeps its first write error: sticky *)
}.

Record entry := { e_principal : N; e_action : action; e_secret : name; e_version : N; e_authorized : bool }.

Inductive effect :=
| EAudit (e : entry)        (* one complete record appended (and synced unless followed by ESyncFail) *)
| EAuditFail                (* the record could not be written *)
| ESyncFail                 (* the record was written but Sync failed *)
| ESave                     (* database file replaced with the new state *)
| ESaveFail.                (* save attempted and failed; file unchanged *)

Inductive result :=
| RList (l : list (name * list N * N))
| RInfo (vs : list N) (act : N)
| RVal (ver : N) (b : V)
| RVer (v : N)
| ROk
| RNotChanged
| RDenied
| RNotFound
| ROther.        (* any other error *)

(* "_internal/" *)
Definition config_prefix : name := [95; 105; 110; 116; 101; 114; 110; 97; 108; 47].

Fixpoint has_prefix (p n : name) : bool :=
  match p, n with
  | [], _ => true
  | x :: p', y :: n' => (x =? y) && has_prefix p' n'
  | _ :: _, [] => false
  end.

Definition reserved (n : name) : bool := has_prefix config_prefix n.
Definition is_empty (n : name) : bool := match n with [] => true | _ => false end.

(* audit.Writer.WriteEntries for one entry: returns (written ok?, effects, dead') *)
Definition audit_write (s : dbstate) (ev : env) (e : entry) : bool * list effect * bool :=
  if audit_dead s then (false, [EAuditFail], true)
  else match audit ev with
       | AOk => (true, [EAudit e], false)
       | AWriteFail => (false, [EAuditFail], true)
       | ASyncFail => (false, [EAudit e; ESyncFail], false)
       end.

(* checkAndLog: Some err when the caller must not proceed *)
Definition check_and_log (s : dbstate) (ev : env) (c : caller) (a : action) (n : name) (v : N)
  : option result * list effect * bool :=
  let authorized := allow (rules c) a n in
  let '(ok, fx, dead) := audit_write s ev
      {| e_principal := principal c; e_action := a; e_secret := n; e_version := v; e_authorized := authorized |} in
  let err := if negb authorized then Some RDenied else if negb ok then Some ROther else None in
  (err, fx, dead).

Definition res_of_kres (r : kres V) : result :=
  match r with
  | KVer v => RVer v
  | KOk => ROk
  | KVal ver b => RVal ver b
  | KInfo vs act => RInfo vs act
  | KNotFound => RNotFound
  | KInvalid | KActiveDel | KSaveErr | KUnexpected | KNames _ => ROther
  end.

Definition fx_of_saved (sv : saved) : list effect :=
  match sv with NoSave => [] | Saved => [ESave] | SaveFailed => [ESaveFail] end.

Definition gen_after (g : N) (sv : saved) : N := match sv with Saved => g + 1 | _ => g end.

Definition with_dead (s : dbstate) (d : bool) : dbstate := {| kv := kv s; gen := gen s; audit_dead := d |}.

(* a mutating kv call under the lock *)
Definition mutate (s : dbstate) (dead : bool) (fx : list effect) (r : kvs * kres V * saved)
  : dbstate * result * list effect :=
  let '(k', kr, sv) := r in
  ({| kv := k'; gen := gen_after (gen s) sv; audit_dead := dead |}, res_of_kres kr, fx ++ fx_of_saved sv).

Definition list_payload (c : caller) (k : kvs) : list (name * list N * N) :=
  map (fun '(n, x) => (n, map fst (vers x), active x))
      (filter (fun '(n, _) => allow (rules c) AInfo n) k).

Definition db_step (ev : env) (s : dbstate) (c : caller) (o : op) : dbstate * result * list effect :=
  match o with
  | OList =>
      let '(ok, fx, dead) := audit_write s ev
          {| e_principal := principal c; e_action := AInfo; e_secret := []; e_version := 0; e_authorized := true |} in
      if ok then (with_dead s dead, RList (list_payload c (kv s)), fx)
      else (with_dead s dead, ROther, fx)
  | OInfo n =>
      match check_and_log s ev c AInfo n 0 with
      | (Some err, fx, dead) => (with_dead s dead, err, fx)
      | (None, fx, dead) => (with_dead s dead, res_of_kres (kv_info (kv s) n), fx)
      end
  | OGet n =>
      match check_and_log s ev c AGet n 0 with
      | (Some err, fx, dead) => (with_dead s dead, err, fx)
      | (None, fx, dead) => (with_dead s dead, res_of_kres (kv_get (kv s) n), fx)
      end
  | OGetCond n v =>
      if negb (allow (rules c) AGet n) then
        (* denied: the refusal is logged immediately *)
        match check_and_log s ev c AGet n 0 with
        | (Some err, fx, dead) => (with_dead s dead, err, fx)
        | (None, fx, dead) => (with_dead s dead, ROther, fx)   (* unreachable: not authorized *)
        end
      else
        match kv_get (kv s) n with
        | KVal ver b =>
            if ver =? v then (s, RNotChanged, [])             (* unchanged: no record *)
            else match check_and_log s ev c AGet n 0 with     (* delivery: logged before returning *)
                 | (Some err, fx, dead) => (with_dead s dead, err, fx)
                 | (None, fx, dead) => (with_dead s dead, RVal ver b, fx)
                 end
        | kr => (s, res_of_kres kr, [])
        end
  | OGetVer n v =>
      match check_and_log s ev c AGet n v with
      | (Some err, fx, dead) => (with_dead s dead, err, fx)
      | (None, fx, dead) => (with_dead s dead, res_of_kres (kv_get_version (kv s) n v), fx)
      end
  | OPut n b =>
      if is_empty n then (s, ROther, []) else
      match check_and_log s ev c APut n 0 with
      | (Some err, fx, dead) => (with_dead s dead, err, fx)
      | (None, fx, dead) =>
          if reserved n then (with_dead s dead, ROther, fx)
          else mutate s dead fx (kv_put veqb (save_ok ev) (kv s) n b)
      end
  | OActivate n v =>
      if is_empty n then (s, ROther, []) else
      match check_and_log s ev c AActivate n v with
      | (Some err, fx, dead) => (with_dead s dead, err, fx)
      | (None, fx, dead) =>
          if reserved n then (with_dead s dead, ROther, fx)
          else mutate s dead fx (kv_set_active (save_ok ev) (kv s) n v)
      end
  | ODelVer n v =>
      match check_and_log s ev c ADelete n v with
      | (Some err, fx, dead) => (with_dead s dead, err, fx)
      | (None, fx, dead) =>
          if reserved n then (with_dead s dead, ROther, fx)
          else mutate s dead fx (kv_delete_version (save_ok ev) (kv s) n v)
      end
  | ODel n =>
      match check_and_log s ev c ADelete n 0 with
      | (Some err, fx, dead) => (with_dead s dead, err, fx)
      | (None, fx, dead) =>
          if reserved n then (with_dead s dead, ROther, fx)
          else mutate s dead fx (kv_delete_secret (save_ok ev) (kv s) n)
      end
  end.

(* db.Open of a non-existing path: an empty store saved once (gen 1);
   of an existing file: its contents, gen 1, nothing written. *)
Definition db_create : dbstate := {| kv := []; gen := 1; audit_dead := false |}.
Definition db_open (k : kvs) : dbstate := {| kv := k; gen := 1; audit_dead := false |}.

(* the action each call requires, and its target *)
Definition need (o : op) : option action :=
  match o with
  | OList => None
  | OInfo _ => Some AInfo
  | OGet _ | OGetCond _ _ | OGetVer _ _ => Some AGet
  | OPut _ _ => Some APut
  | OActivate _ _ => Some AActivate
  | ODelVer _ _ | ODel _ => Some ADelete
  end.

Definition target (o : op) : name :=
  match o with
  | OList => []
  | OInfo n | OGet n | OGetCond n _ | OGetVer n _ | OPut n _ | OActivate n _ | ODelVer n _ | ODel n => n
  end.

(* run a history *)
Fixpoint db_run (s : dbstate) (h : list (env * caller * op)) : dbstate * list (result * list effect) :=
  match h with
  | [] => (s, [])
  | (ev, c, o) :: h' =>
      let '(s1, r, fx) := db_step ev s c o in
      let '(s2, rs) := db_run s1 h' in
      (s2, (r, fx) :: rs)
  end.

End DB.

Arguments OList {V}. Arguments OInfo {V}. Arguments OGet {V}. Arguments OGetCond {V}. Arguments OGetVer {V}.
Arguments OActivate {V}. Arguments ODelVer {V}. Arguments ODel {V}.
Arguments RList {V}. Arguments RInfo {V}. Arguments RVer {V}. Arguments ROk {V}. Arguments RNotChanged {V}.
Arguments RDenied {V}. Arguments RNotFound {V}. Arguments ROther {V}.
