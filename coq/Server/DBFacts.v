(* Proofs about the model of db/db.go (properties C01, C06, C09, C03, C04). *)
From Coq Require Import List Bool NArith Lia.
Import ListNotations.
From Setec Require Import Base.SMap Acl.Glob Server.KV Server.KVProofs Server.DB.
Set Implicit Arguments.
Open Scope N_scope.

Local Arguments reserved : simpl never.
Local Arguments is_empty : simpl never.
Local Arguments allow : simpl never.
Local Arguments kv_delete_secret : simpl never.
Local Arguments kv_delete_version : simpl never.
Local Arguments kv_set_active : simpl never.
Local Arguments kv_put : simpl never.
Local Arguments kv_get : simpl never.
Local Arguments kv_get_version : simpl never.
Local Arguments kv_info : simpl never.

Section DBFacts.
Variable V : Type.
Variable veqb : V -> V -> bool.
Hypothesis veqb_spec : forall a b, veqb a b = true <-> a = b.

Notation dbstate := (dbstate V).
Notation db_step := (db_step veqb).
Notation op := (op V).
Notation result := (result V).

Definition carries_data (r : result) : bool :=
  match r with RList _ | RInfo _ _ | RVal _ _ | RVer _ => true | _ => false end.

(* a request is malformed when it is refused before any permission check *)
Definition wellformed (o : op) : bool :=
  match o with
  | OPut n _ | OActivate n _ => negb (is_empty n)
  | _ => true
  end.

Definition has_save (fx : list effect) : bool :=
  existsb (fun e => match e with ESave => true | _ => false end) fx.

Definition audit_failed (fx : list effect) : bool :=
  existsb (fun e => match e with EAuditFail | ESyncFail => true | _ => false end) fx.

(* the version number a call's audit record carries *)
Definition audit_version (o : op) : N :=
  match o with
  | OGetVer _ v | OActivate _ v | ODelVer _ v => v
  | _ => 0
  end.

Definition the_entry (c : caller) (o : op) (a : action) (auth : bool) : entry :=
  {| e_principal := principal c; e_action := a; e_secret := target o; e_version := audit_version o; e_authorized := auth |}.

(* ---------- audit_write / check_and_log ---------- *)
Lemma audit_write_cases (s : dbstate) ev e :
  (audit_write s ev e = (true, [EAudit e], false) /\ audit_dead s = false /\ audit ev = AOk)
  \/ (audit_write s ev e = (false, [EAuditFail], true) /\ (audit_dead s = true \/ audit ev = AWriteFail))
  \/ (audit_write s ev e = (false, [EAudit e; ESyncFail], false) /\ audit_dead s = false /\ audit ev = ASyncFail).
Proof.
  unfold audit_write. destruct (audit_dead s); [right; left; auto|].
  destruct (audit ev); [left|right; left|right; right]; auto.
Qed.

Ltac audit_split s ev :=
  unfold check_and_log, audit_write;
  destruct (audit_dead s) eqn:?; [|destruct (audit ev) eqn:?].

(* ---------- C01 ---------- *)

(* An ungranted call: refused, nothing revealed, nothing changed, nothing saved. *)
Theorem denied_refused ev (s : dbstate) c o a s' r fx :
  need o = Some a -> allow (rules c) a (target o) = false ->
  db_step ev s c o = (s', r, fx) ->
  (r = (if wellformed o then RDenied else ROther))
  /\ kv s' = kv s /\ gen s' = gen s /\ has_save fx = false /\ carries_data r = false.
Proof.
  intros Hn Ha H.
  destruct o as [|n|n|n v|n v|n b|n v|n v|n]; cbn [need target] in Hn, Ha; try discriminate;
    injection Hn as <-; cbn [DB.db_step wellformed] in *;
    try (destruct (is_empty n); cbn [negb]; [injection H as <- <- <-; auto|]);
    revert H; rewrite ?Ha; cbn [negb]; audit_split s ev; cbn; rewrite ?Ha; cbn;
    intro H; injection H as <- <- <-; auto.
Qed.

(* Contrapositive, in the words of the property: data, a state change or a save
   only if one of the caller's rules grants the required action on that very name. *)
Theorem only_if_granted ev (s : dbstate) c o a s' r fx :
  need o = Some a -> db_step ev s c o = (s', r, fx) ->
  (carries_data r = true \/ kv s' <> kv s \/ has_save fx = true) ->
  allow (rules c) a (target o) = true.
Proof.
  intros Hn H D. destruct (allow (rules c) a (target o)) eqn:Ha; [reflexivity|].
  destruct (denied_refused _ _ _ _ Hn Ha H) as (_ & K & _ & Sv & Cd).
  destruct D as [D|[D|D]]; [congruence|contradiction|congruence].
Qed.

(* The refusal is a function of the caller and the request only: identical
   whether or not the secret exists, whatever the state and the environment. *)
Theorem denied_blind ev1 ev2 (s1 s2 : dbstate) c o a :
  need o = Some a -> allow (rules c) a (target o) = false ->
  snd (fst (db_step ev1 s1 c o)) = snd (fst (db_step ev2 s2 c o)).
Proof.
  intros Hn Ha.
  destruct (db_step ev1 s1 c o) as [[s1' r1] fx1] eqn:H1.
  destruct (db_step ev2 s2 c o) as [[s2' r2] fx2] eqn:H2.
  destruct (denied_refused _ _ _ _ Hn Ha H1) as (-> & _).
  destruct (denied_refused _ _ _ _ Hn Ha H2) as (-> & _). reflexivity.
Qed.

(* list: exactly the secrets on which the caller holds info; names and version numbers only *)
Theorem list_result ev (s : dbstate) c s' r fx :
  db_step ev s c OList = (s', r, fx) ->
  kv s' = kv s /\ gen s' = gen s /\ has_save fx = false
  /\ (r = RList (list_payload c (kv s)) \/ (r = ROther /\ audit_failed fx = true)).
Proof.
  cbn [DB.db_step]. audit_split s ev; intro H; injection H as <- <- <-; cbn; auto 10.
Qed.

Theorem list_payload_spec c (k : kvs V) n vs a : sorted k ->
  (In (n, vs, a) (list_payload c k) <->
   exists x, find n k = Some x /\ allow (rules c) AInfo n = true /\ vs = map fst (vers x) /\ a = active x).
Proof.
  intro Sk. unfold list_payload. rewrite in_map_iff. split.
  - intros ([n' x] & E & I). injection E as <- <- <-. apply filter_In in I. destruct I as [I A].
    exists x. repeat split; auto. apply in_find; assumption.
  - intros (x & F & A & -> & ->). exists (n, x). split; [reflexivity|]. apply filter_In. split; [|assumption].
    apply find_in; assumption.
Qed.

(* the metadata view of a store: names, version numbers, active version - no values *)
Definition meta (k : kvs V) : list (name * list N * N) := map (fun '(n, x) => (n, map fst (vers x), active x)) k.

Theorem list_no_values c (k1 k2 : kvs V) : meta k1 = meta k2 -> list_payload c k1 = list_payload c k2.
Proof.
  unfold meta, list_payload. revert k2. induction k1 as [|[n x] k1 IH]; intros [|[n2 x2] k2] E; cbn in *; try discriminate; auto.
  injection E as -> Ev Ea Er. destruct (allow (rules c) AInfo n2); cbn; [rewrite Ev, Ea; f_equal|]; apply IH; assumption.
Qed.

(* ---------- C06 ---------- *)

(* every effect list of a step has one of these shapes *)
Inductive fx_shape (c : caller) (o : op) (a : action) : list effect -> Prop :=
| FxNone : fx_shape c o a []                                           (* malformed, or unchanged/absent conditional get *)
| FxRec auth : fx_shape c o a [EAudit (the_entry c o a auth)]                 (* record written, no save *)
| FxRecSave : fx_shape c o a [EAudit (the_entry c o a true); ESave]           (* record, then the save *)
| FxRecSaveFail : fx_shape c o a [EAudit (the_entry c o a true); ESaveFail]   (* record, then a refused save *)
| FxFail : fx_shape c o a [EAuditFail]                                 (* record refused *)
| FxSync auth : fx_shape c o a [EAudit (the_entry c o a auth); ESyncFail].    (* record written, sync refused *)

Definition act_of (o : op) : action := match need o with Some a => a | None => AInfo end.

Lemma mutate_shape (s : dbstate) dead fx0 (k' : kvs V) kr sv s' r fx :
  mutate s dead fx0 (k', kr, sv) = (s', r, fx) ->
  s' = {| kv := k'; gen := gen_after (gen s) sv; audit_dead := dead |} /\ r = res_of_kres kr /\ fx = fx0 ++ fx_of_saved sv.
Proof. unfold mutate. intro H. injection H as <- <- <-. auto. Qed.

(* All the order/content facts of C06 about one step. *)
Definition audit_facts (s : dbstate) (c : caller) (o : op) (s' : dbstate) (r : result) (fx : list effect) : Prop :=
  fx_shape c o (act_of o) fx
  (* the authorized flag of a written record is the access decision *)
  /\ (forall e, In (EAudit e) fx -> o <> OList -> e_authorized e = allow (rules c) (act_of o) (target o))
  (* a value / metadata / version number is returned only after a complete authorized record *)
  /\ (carries_data r = true ->
      fx = [EAudit (the_entry c o (act_of o) true)] \/ fx = [EAudit (the_entry c o (act_of o) true); ESave])
  (* a refused call wrote its (unauthorized) record, unless the sink itself failed *)
  /\ (r = RDenied -> fx = [EAudit (the_entry c o (act_of o) false)] \/ audit_failed fx = true)
  (* fail closed *)
  /\ (audit_failed fx = true -> carries_data r = false /\ kv s' = kv s /\ gen s' = gen s /\ has_save fx = false)
  (* a refused write is sticky *)
  /\ (In EAuditFail fx -> audit_dead s' = true)
  /\ (audit_dead s = true -> audit_dead s' = true /\ (fx = [] \/ fx = [EAuditFail]))
  (* an unchanged conditional get is silent *)
  /\ (r = RNotChanged -> fx = [])
  (* every save is preceded, in the same call, by its authorized record *)
  /\ (has_save fx = true -> fx = [EAudit (the_entry c o (act_of o) true); ESave])
  (* the generation counts the saves *)
  /\ gen s' = (if has_save fx then gen s + 1 else gen s).

Ltac leaf :=
  unfold audit_facts, act_of, the_entry; cbn;
  repeat split; intros;
  repeat match goal with
  | H : _ \/ _ |- _ => destruct H
  | H : False |- _ => contradiction
  | H : EAudit _ = EAudit _ |- _ => injection H as <-
  | H : ?a = ?b |- _ => discriminate H
  | H : ?x <> ?x |- _ => contradiction H; reflexivity
  end; cbn; try congruence; try (constructor; fail); auto.

Lemma facts_list ev s c s' r fx : db_step ev s c OList = (s', r, fx) -> audit_facts s c OList s' r fx.
Proof.
  cbn [DB.db_step]. audit_split s ev; intro H; injection H as <- <- <-; leaf.
Qed.

Lemma facts_read ev s c o s' r fx :
  (exists n, o = OInfo n) \/ (exists n, o = OGet n) \/ (exists n v, o = OGetVer n v) ->
  db_step ev s c o = (s', r, fx) -> audit_facts s c o s' r fx.
Proof.
  intros [(n & ->)|[(n & ->)|(n & v & ->)]]; cbn [DB.db_step].
  - destruct (allow (rules c) AInfo n) eqn:A; audit_split s ev; cbn; rewrite ?A; cbn;
      try destruct (kv_info (kv s) n) eqn:K; intro H; injection H as <- <- <-; leaf; rewrite ?A; auto.
  - destruct (allow (rules c) AGet n) eqn:A; audit_split s ev; cbn; rewrite ?A; cbn;
      try destruct (kv_get (kv s) n) eqn:K; intro H; injection H as <- <- <-; leaf; rewrite ?A; auto.
  - destruct (allow (rules c) AGet n) eqn:A; audit_split s ev; cbn; rewrite ?A; cbn;
      try destruct (kv_get_version (kv s) n v) eqn:K; intro H; injection H as <- <- <-; leaf; rewrite ?A; auto.
Qed.

Lemma kv_get_cases (k : kvs V) n :
  (exists ver b, kv_get k n = KVal ver b) \/ kv_get k n = KNotFound \/ kv_get k n = KUnexpected.
Proof.
  unfold kv_get. destruct (find n k) as [x|]; [|auto]. destruct (find (active x) (vers x)); eauto.
Qed.

Lemma facts_getcond ev s c n v s' r fx :
  db_step ev s c (OGetCond n v) = (s', r, fx) -> audit_facts s c (OGetCond n v) s' r fx.
Proof.
  cbn [DB.db_step]. destruct (allow (rules c) AGet n) eqn:A; cbn [negb].
  - destruct (kv_get_cases (kv s) n) as [(ver & b & K)|[K|K]]; rewrite K;
      try (intro H; injection H as <- <- <-; leaf; rewrite ?A; auto; fail).
    destruct (ver =? v); [intro H; injection H as <- <- <-; leaf; rewrite ?A; auto|].
    audit_split s ev; cbn; rewrite ?A; cbn; intro H; injection H as <- <- <-; leaf; rewrite ?A; auto.
  - audit_split s ev; cbn; rewrite ?A; cbn; intro H; injection H as <- <- <-; leaf; rewrite ?A; auto.
Qed.

(* a refused save is always reported as an error *)
Lemma savefail_put ok (k : kvs V) n b k' kr : kv_put veqb ok k n b = (k', kr, SaveFailed) -> kr = KSaveErr.
Proof.
  unfold kv_put. destruct (find n k) as [x|].
  - destruct (match find (latest x) (vers x) with Some cur => veqb cur b | None => false end); [discriminate|].
    destruct ok; intro H; [discriminate|injection H as _ <-; reflexivity].
  - destruct ok; intro H; [discriminate|injection H as _ <-; reflexivity].
Qed.
Lemma savefail_active ok (k : kvs V) n v k' kr : kv_set_active ok k n v = (k', kr, SaveFailed) -> kr = KSaveErr.
Proof.
  unfold kv_set_active. destruct (v =? 0); [discriminate|]. destruct (find n k) as [x|]; [|discriminate].
  destruct (find v (vers x)); [|discriminate]. destruct (active x =? v); [discriminate|].
  destruct ok; intro H; [discriminate|injection H as _ <-; reflexivity].
Qed.
Lemma savefail_delver ok (k : kvs V) n v k' kr : kv_delete_version ok k n v = (k', kr, SaveFailed) -> kr = KSaveErr.
Proof.
  unfold kv_delete_version. destruct (v =? 0); [discriminate|]. destruct (find n k) as [x|]; [|discriminate].
  destruct (v =? active x); [discriminate|]. destruct (find v (vers x)); [|discriminate].
  destruct ok; intro H; [discriminate|injection H as _ <-; reflexivity].
Qed.
Lemma savefail_del ok (k : kvs V) n k' kr : kv_delete_secret ok k n = (k', kr, SaveFailed) -> kr = KSaveErr.
Proof.
  unfold kv_delete_secret. destruct (find n k) as [x|]; [|discriminate].
  destruct ok; intro H; [discriminate|injection H as _ <-; reflexivity].
Qed.

Lemma facts_mut ev s c o s' r fx :
  (exists n b, o = OPut n b) \/ (exists n v, o = OActivate n v) \/ (exists n v, o = ODelVer n v) \/ (exists n, o = ODel n) ->
  db_step ev s c o = (s', r, fx) -> audit_facts s c o s' r fx.
Proof.
  intros [(n & b & ->)|[(n & v & ->)|[(n & v & ->)|(n & ->)]]]; cbn [DB.db_step].
  - destruct (is_empty n); [intro H; injection H as <- <- <-; leaf|].
    destruct (allow (rules c) APut n) eqn:A; audit_split s ev; cbn; rewrite ?A; cbn;
      try destruct (reserved n); try (destruct (kv_put veqb (save_ok ev) (kv s) n b) as [[k' kr] sv] eqn:K; destruct sv; [| |apply savefail_put in K; subst kr]);
      try destruct kr; unfold mutate; cbn; intro H; injection H as <- <- <-; leaf; rewrite ?A; auto.
  - destruct (is_empty n); [intro H; injection H as <- <- <-; leaf|].
    destruct (allow (rules c) AActivate n) eqn:A; audit_split s ev; cbn; rewrite ?A; cbn;
      try destruct (reserved n); try (destruct (kv_set_active (save_ok ev) (kv s) n v) as [[k' kr] sv] eqn:K; destruct sv; [| |apply savefail_active in K; subst kr]);
      try destruct kr; unfold mutate; cbn; intro H; injection H as <- <- <-; leaf; rewrite ?A; auto.
  - destruct (allow (rules c) ADelete n) eqn:A; audit_split s ev; cbn; rewrite ?A; cbn;
      try destruct (reserved n); try (destruct (kv_delete_version (save_ok ev) (kv s) n v) as [[k' kr] sv] eqn:K; destruct sv; [| |apply savefail_delver in K; subst kr]);
      try destruct kr; unfold mutate; cbn; intro H; injection H as <- <- <-; leaf; rewrite ?A; auto.
  - destruct (allow (rules c) ADelete n) eqn:A; audit_split s ev; cbn; rewrite ?A; cbn;
      try destruct (reserved n); try (destruct (kv_delete_secret (save_ok ev) (kv s) n) as [[k' kr] sv] eqn:K; destruct sv; [| |apply savefail_del in K; subst kr]);
      try destruct kr; unfold mutate; cbn; intro H; injection H as <- <- <-; leaf; rewrite ?A; auto.
Qed.

Theorem step_facts ev s c o s' r fx : db_step ev s c o = (s', r, fx) -> audit_facts s c o s' r fx.
Proof.
  destruct o as [|n|n|n v|n v|n b|n v|n v|n]; intro H.
  - eapply facts_list; eassumption.
  - eapply facts_read; [|eassumption]. left. eauto.
  - eapply facts_read; [|eassumption]. right; left. eauto.
  - eapply facts_getcond; eassumption.
  - eapply facts_read; [|eassumption]. right; right. eauto.
  - eapply facts_mut; [|eassumption]. left. eauto.
  - eapply facts_mut; [|eassumption]. right; left. eauto.
  - eapply facts_mut; [|eassumption]. right; right; left. eauto.
  - eapply facts_mut; [|eassumption]. right; right; right. eauto.
Qed.

End DBFacts.
