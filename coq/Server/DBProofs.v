(* Proofs about the model of db/db.go, part 2 (C03, C04, C09; part 1 is DBFacts.v). *)
From Coq Require Import List Bool NArith Lia.
Import ListNotations.
From Setec Require Import Base.SMap Acl.Glob Server.KV Server.KVProofs Server.DB Server.DBFacts.
Set Implicit Arguments.
Open Scope N_scope.

Local Arguments reserved : simpl never.
Local Arguments is_empty : simpl never.
Local Arguments allow : simpl never.
Local Arguments kv_delete_secret : simpl never.
Local Arguments kv_delete_version : simpl never.
Local Arguments kv_set_active : simpl never.
Local Arguments kv_put : simpl never.
Local Arguments kv_get : simpl never.
Local Arguments kv_get_version : simpl never.
Local Arguments kv_info : simpl never.

Ltac audit_split s ev :=
  unfold check_and_log, audit_write;
  destruct (audit_dead s) eqn:?; [|destruct (audit ev) eqn:?].

Section DBProofs.
Variable V : Type.
Variable veqb : V -> V -> bool.
Hypothesis veqb_spec : forall a b, veqb a b = true <-> a = b.

Notation dbstate := (dbstate V).
Notation db_step := (db_step veqb).
Notation op := (op V).
Notation result := (result V).
Notation has_save := DBFacts.has_save.
Notation carries_data := (@DBFacts.carries_data V).
Notation kv_get_cases := (@DBFacts.kv_get_cases V).

(* ---------- the store under a db step ---------- *)
Definition saved_flag (sv : saved) : bool := match sv with Saved => true | _ => false end.

Lemma db_step_kv ev (s : dbstate) c o s' r fx : db_step ev s c o = (s', r, fx) ->
  (kv s' = kv s /\ has_save fx = false)
  \/ (exists ko kr sv, kv_step veqb (save_ok ev) (kv s) ko = (kv s', kr, sv)
                      /\ has_save fx = saved_flag sv /\ r = res_of_kres kr /\ ktarget ko = Some (target o)).
Proof.
  destruct o as [|n|n|n v|n v|n b|n v|n v|n]; cbn [DB.db_step].
  - audit_split s ev; intro H; injection H as <- <- <-; left; auto.
  - destruct (allow (rules c) AInfo n) eqn:A; audit_split s ev; cbn; rewrite ?A; cbn; intro H; injection H as <- <- <-; left; auto.
  - destruct (allow (rules c) AGet n) eqn:A; audit_split s ev; cbn; rewrite ?A; cbn; intro H; injection H as <- <- <-; left; auto.
  - destruct (allow (rules c) AGet n) eqn:A; cbn [negb].
    + destruct (kv_get_cases (kv s) n) as [(ver & b & K)|[K|K]]; rewrite K; try (intro H; injection H as <- <- <-; left; auto; fail).
      destruct (ver =? v); [intro H; injection H as <- <- <-; left; auto|].
      audit_split s ev; cbn; rewrite ?A; cbn; intro H; injection H as <- <- <-; left; auto.
    + audit_split s ev; cbn; rewrite ?A; cbn; intro H; injection H as <- <- <-; left; auto.
  - destruct (allow (rules c) AGet n) eqn:A; audit_split s ev; cbn; rewrite ?A; cbn; intro H; injection H as <- <- <-; left; auto.
  - destruct (is_empty n); [intro H; injection H as <- <- <-; left; auto|].
    destruct (allow (rules c) APut n) eqn:A; audit_split s ev; cbn; rewrite ?A; cbn;
      try destruct (reserved n); try (intro H; injection H as <- <- <-; left; auto; fail).
    destruct (kv_put veqb (save_ok ev) (kv s) n b) as [[k' kr] sv] eqn:K. unfold mutate. intro H; injection H as <- <- <-.
    right. exists (KPut n b), kr, sv. cbn. repeat split; auto. destruct sv; reflexivity.
  - destruct (is_empty n); [intro H; injection H as <- <- <-; left; auto|].
    destruct (allow (rules c) AActivate n) eqn:A; audit_split s ev; cbn; rewrite ?A; cbn;
      try destruct (reserved n); try (intro H; injection H as <- <- <-; left; auto; fail).
    destruct (kv_set_active (save_ok ev) (kv s) n v) as [[k' kr] sv] eqn:K. unfold mutate. intro H; injection H as <- <- <-.
    right. exists (KSetActive n v), kr, sv. cbn. repeat split; auto. destruct sv; reflexivity.
  - destruct (allow (rules c) ADelete n) eqn:A; audit_split s ev; cbn; rewrite ?A; cbn;
      try destruct (reserved n); try (intro H; injection H as <- <- <-; left; auto; fail).
    destruct (kv_delete_version (save_ok ev) (kv s) n v) as [[k' kr] sv] eqn:K. unfold mutate. intro H; injection H as <- <- <-.
    right. exists (KDelVer n v), kr, sv. cbn. repeat split; auto. destruct sv; reflexivity.
  - destruct (allow (rules c) ADelete n) eqn:A; audit_split s ev; cbn; rewrite ?A; cbn;
      try destruct (reserved n); try (intro H; injection H as <- <- <-; left; auto; fail).
    destruct (kv_delete_secret (save_ok ev) (kv s) n) as [[k' kr] sv] eqn:K. unfold mutate. intro H; injection H as <- <- <-.
    right. exists (KDel n), kr, sv. cbn. repeat split; auto. destruct sv; reflexivity.
Qed.

Notation Inv := (@Inv V).

(* invariant; a call that did not save left the store exactly as it was; a save
   happens only if the file system accepted it *)
Theorem db_step_inv ev (s : dbstate) c o s' r fx :
  Inv (kv s) -> db_step ev s c o = (s', r, fx) ->
  Inv (kv s') /\ (has_save fx = false -> kv s' = kv s) /\ (has_save fx = true -> save_ok ev = true).
Proof.
  intros I H. pose proof H as HK. apply db_step_kv in HK. destruct HK as [(K & Sv)|(ko & kr & sv & K & Sv & _)].
  - rewrite K, Sv. split; [assumption|split; [reflexivity|intro Q; discriminate Q]].
  - split; [eapply inv_step; eassumption|]. rewrite Sv. split; intro Q.
    + eapply unsaved_noop; [exact I|exact K|]. destruct sv; discriminate.
    + destruct sv; try discriminate. eapply saved_needs_ok; eassumption.
Qed.

(* ---------- C04: a refused save changes nothing, and the call can be retried ---------- *)
Theorem failed_save_rollback ev (s : dbstate) c o s' r fx :
  Inv (kv s) -> save_ok ev = false -> db_step ev s c o = (s', r, fx) ->
  kv s' = kv s /\ gen s' = gen s /\ has_save fx = false.
Proof.
  intros I F H. edestruct db_step_inv as (_ & U & O); [exact I|exact H|].
  destruct (has_save fx) eqn:Sv; [rewrite O in F by reflexivity; discriminate|].
  pose proof H as HF. apply step_facts in HF. destruct HF as (_ & _ & _ & _ & _ & _ & _ & _ & _ & G). rewrite Sv in G. auto.
Qed.

(* ---------- C03: the file always holds exactly the acknowledged state ---------- *)
Fixpoint db_run_disk (s : dbstate) (disk : kvs V) (h : list (env * caller * op)) : dbstate * kvs V :=
  match h with
  | [] => (s, disk)
  | (ev, c, o) :: h' =>
      let '(s1, r, fx) := db_step ev s c o in
      db_run_disk s1 (if has_save fx then kv s1 else disk) h'
  end.

Theorem disk_is_memory h : forall (s : dbstate) disk s' disk',
  Inv (kv s) -> disk = kv s -> db_run_disk s disk h = (s', disk') -> disk' = kv s' /\ Inv (kv s').
Proof.
  induction h as [|[[ev c] o] h IH]; intros s disk s' disk' I D H; cbn [db_run_disk] in H.
  - injection H as <- <-. auto.
  - destruct (db_step ev s c o) as [[s1 r] fx] eqn:E.
    edestruct db_step_inv as (I1 & U & _); [exact I|exact E|].
    eapply IH; [exact I1| |exact H].
    destruct (has_save fx); [reflexivity|]. rewrite U by reflexivity. assumption.
Qed.

(* ---------- C09 ---------- *)
Theorem getcond_spec ev (s : dbstate) c (n : name) v s' r fx :
  allow (rules c) AGet n = true -> audit_dead s = false -> audit ev = AOk ->
  db_step ev s c (OGetCond n v) = (s', r, fx) ->
  kv s' = kv s /\
  match kv_get (kv s) n with
  | KVal ver b => if ver =? v then r = RNotChanged /\ fx = [] else r = RVal ver b
  | kr => r = res_of_kres kr
  end.
Proof.
  intros A D W. cbn [DB.db_step]. rewrite A. cbn [negb].
  destruct (kv_get_cases (kv s) n) as [(ver & b & K)|[K|K]]; rewrite K;
    try (intro H; injection H as <- <- <-; auto; fail).
  destruct (ver =? v); [intro H; injection H as <- <- <-; auto|].
  unfold check_and_log, audit_write. rewrite D, W, A. cbn. intro H; injection H as <- <- <-. auto.
Qed.

Theorem getcond_notchanged_iff ev (s : dbstate) c (n : name) v s' r fx :
  Inv (kv s) -> allow (rules c) AGet n = true -> audit_dead s = false -> audit ev = AOk ->
  db_step ev s c (OGetCond n v) = (s', r, fx) ->
  (r = RNotChanged <-> exists x, find n (kv s) = Some x /\ active x = v).
Proof.
  intros I A D W H. edestruct getcond_spec as (_ & M); [exact A|exact D|exact W|exact H|].
  destruct (find n (kv s)) as [x|] eqn:F.
  - destruct (@active_exists V (kv s) n x I F) as (b & G). rewrite G in M.
    destruct (active x =? v) eqn:E.
    + apply N.eqb_eq in E. destruct M as [-> _]. split; eauto.
    + apply N.eqb_neq in E. subst r. split; [discriminate|]. intros (x' & Q & Q'). congruence.
  - rewrite (@kv_get_absent V (kv s) n F) in M. cbn in M. subst r. split; [discriminate|]. intros (x' & Q & _). discriminate.
Qed.

(* whenever a value is returned it is the active version with its bytes - never another one *)
Theorem getcond_returns_active ev (s : dbstate) c (n : name) v s' ver b fx :
  Inv (kv s) -> db_step ev s c (OGetCond n v) = (s', RVal ver b, fx) ->
  exists x, find n (kv s) = Some x /\ ver = active x /\ find ver (vers x) = Some b /\ ver <> v.
Proof.
  intros I. cbn [DB.db_step]. destruct (allow (rules c) AGet n) eqn:A; cbn [negb].
  - destruct (find n (kv s)) as [x|] eqn:F.
    + destruct (@active_exists V (kv s) n x I F) as (b0 & G). rewrite G.
      destruct (active x =? v) eqn:E; [discriminate|]. apply N.eqb_neq in E.
      audit_split s ev; cbn; rewrite ?A; cbn; intro H; try discriminate H; inversion H; subst; clear H.
      exists x. repeat split; auto. unfold kv_get in G. rewrite F in G.
      destruct (find (active x) (vers x)); [injection G as <-; reflexivity|discriminate].
    + rewrite (@kv_get_absent V (kv s) n F). discriminate.
  - audit_split s ev; cbn; rewrite ?A; cbn; discriminate.
Qed.

(* with V = 0 the condition can never hold (versions start at 1): the active value is returned *)
Theorem getcond_zero_is_get ev (s : dbstate) c (n : name) :
  Inv (kv s) -> allow (rules c) AGet n = true -> audit_dead s = false -> audit ev = AOk ->
  snd (fst (db_step ev s c (OGetCond n 0))) = snd (fst (db_step ev s c (OGet n))).
Proof.
  intros I A D W. destruct (db_step ev s c (OGetCond n 0)) as [[s1 r1] fx1] eqn:H.
  edestruct getcond_spec as (_ & M); [exact A|exact D|exact W|exact H|]. cbn [fst snd].
  cbn [DB.db_step]. unfold check_and_log, audit_write. rewrite D, W, A. cbn.
  destruct (find n (kv s)) as [x|] eqn:F.
  - destruct (@active_exists V (kv s) n x I F) as (b & G). rewrite G in M |- *. cbn.
    destruct I as [_ Hs]. destruct (Hs _ _ F) as (_ & Hv & _).
    unfold kv_get in G. rewrite F in G. destruct (find (active x) (vers x)) as [b'|] eqn:Hb; [|discriminate].
    assert (active x =? 0 = false) as E by (apply N.eqb_neq; apply find_in, Hv in Hb; lia).
    rewrite E in M. assumption.
  - rewrite (@kv_get_absent V (kv s) n F) in M |- *. cbn in *. assumption.
Qed.

(* ---------- C06 clause by clause (projections of step_facts) ---------- *)
Notation the_entry := (@DBFacts.the_entry V).
Notation act_of := (@DBFacts.act_of V).
Notation audit_failed := DBFacts.audit_failed.

Theorem value_implies_logged ev (s : dbstate) c o s' r fx :
  db_step ev s c o = (s', r, fx) -> carries_data r = true ->
  exists post, fx = EAudit (the_entry c o (act_of o) true) :: post /\ (post = [] \/ post = [ESave]).
Proof.
  intros H D. apply step_facts in H. destruct H as (_ & _ & P & _). destruct (P D) as [->| ->]; eauto.
Qed.

Theorem save_preceded_by_record ev (s : dbstate) c o s' r fx :
  db_step ev s c o = (s', r, fx) -> has_save fx = true -> fx = [EAudit (the_entry c o (act_of o) true); ESave].
Proof. intros H D. apply step_facts in H. destruct H as (_ & _ & _ & _ & _ & _ & _ & _ & P & _). auto. Qed.

Theorem denial_logged ev (s : dbstate) c o s' fx :
  db_step ev s c o = (s', RDenied, fx) ->
  fx = [EAudit (the_entry c o (act_of o) false)] \/ audit_failed fx = true.
Proof. intros H. apply step_facts in H. destruct H as (_ & _ & _ & P & _). auto. Qed.

Theorem fail_closed ev (s : dbstate) c o s' r fx :
  db_step ev s c o = (s', r, fx) -> audit_failed fx = true ->
  carries_data r = false /\ kv s' = kv s /\ gen s' = gen s /\ has_save fx = false.
Proof. intros H D. apply step_facts in H. destruct H as (_ & _ & _ & _ & P & _). auto. Qed.

Theorem write_failure_sticky ev (s : dbstate) c o s' r fx :
  db_step ev s c o = (s', r, fx) ->
  (In EAuditFail fx -> audit_dead s' = true) /\
  (audit_dead s = true -> audit_dead s' = true /\ (fx = [] \/ fx = [EAuditFail])).
Proof. intros H. apply step_facts in H. destruct H as (_ & _ & _ & _ & _ & P & Q & _). auto. Qed.

Theorem unchanged_poll_silent ev (s : dbstate) c o s' fx :
  db_step ev s c o = (s', RNotChanged, fx) -> fx = [].
Proof. intros H. apply step_facts in H. destruct H as (_ & _ & _ & _ & _ & _ & _ & P & _). auto. Qed.

Theorem record_shape ev (s : dbstate) c o s' r fx :
  db_step ev s c o = (s', r, fx) ->
  DBFacts.fx_shape c o (act_of o) fx /\
  (forall e, In (EAudit e) fx -> o <> OList -> e_authorized e = allow (rules c) (act_of o) (target o)).
Proof. intros H. apply step_facts in H. destruct H as (P & Q & _). auto. Qed.

Theorem gen_counts_saves ev (s : dbstate) c o s' r fx :
  db_step ev s c o = (s', r, fx) -> gen s' = (if has_save fx then gen s + 1 else gen s).
Proof. intros H. apply step_facts in H. destruct H as (_ & _ & _ & _ & _ & _ & _ & _ & _ & P). auto. Qed.

(* the audit log of a history is the concatenation of the calls' records, in call order *)
Definition records (fx : list effect) : list entry :=
  flat_map (fun e => match e with EAudit x => [x] | _ => [] end) fx.

Definition log_of (rs : list (result * list effect)) : list entry := flat_map (fun p => records (snd p)) rs.

Theorem log_append h1 : forall h2 (s : dbstate),
  log_of (snd (db_run veqb s (h1 ++ h2))) =
  log_of (snd (db_run veqb s h1)) ++ log_of (snd (db_run veqb (fst (db_run veqb s h1)) h2)).
Proof.
  induction h1 as [|[[ev c] o] h1 IH]; intros h2 s; [reflexivity|].
  cbn [app DB.db_run]. destruct (db_step ev s c o) as [[s1 r] fx].
  specialize (IH h2 s1). destruct (db_run veqb s1 (h1 ++ h2)) as [sa ra]. destruct (db_run veqb s1 h1) as [sb rb].
  cbn [fst snd] in *. unfold log_of in *. cbn [flat_map snd]. rewrite IH, app_assoc. reflexivity.
Qed.

End DBProofs.
