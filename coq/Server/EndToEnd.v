(* The server-side models composed (chain C02/C03 - C04 - C05):

     db.go / kv.go      Server/DB.v, KV.v      one call = db_step, save outcome an INPUT
     persisted document Server/Persist.v       doc_of / load
     encryption         Server/Crypto.v        doc_term, c_save / c_open (symbolic file term)
     file replacement   Server/FS.v            write_file (atomicfile.WriteFile with a fault
                                               oracle), exec, crash states

   Here the save outcome is no longer an input: it is what the file-system protocol returns
   under a fault oracle, the bytes written are the encoding of the encrypted document of the
   state being saved, and a restart reads the live path, decodes, opens with the key and loads
   the document.  Executable definitions only (proofs: EndToEndProofs.v).

   Modelling choices.
   - Values: any type V with an injection into the value atoms of the symbolic model
     ([tok], [untok], untok (tok v) = v; for V = N the identity).
   - Bytes: any type B with an encoding of file terms [enc : term -> list B], a decoder
     [unenc] with unenc (enc t) = Some t, and [origin : B -> term] telling which file term a
     byte on disk comes from (In b (enc t) -> origin b = t): a prefix of an encoding reveals at
     most what the whole term reveals - that is how partial writes are treated symbolically.
   - Each save runs in a directory where the name of its temporary is fresh (O_EXCL; leftovers
     of earlier crashes keep other names and are never touched again): a trace is executed
     from [FS.init (Some live)], and every byte it may put on disk is remembered in [w_seen]. *)
From Coq Require Import List Bool NArith.
Import ListNotations.
From Setec Require Import Base.SMap Acl.Glob Server.KV Server.DB Server.DBFacts Server.Persist
  Server.FSMap Server.FS Server.Crypto.
Set Implicit Arguments.
Open Scope N_scope.

Section EndToEnd.
Variable V : Type.
Variable veqb : V -> V -> bool.
Variable tok : V -> N.
Variable untok : N -> V.
Variable B : Type.
Variable enc : term -> list B.
Variable unenc : list B -> option term.

(* ---- state -> symbolic document -> state ---- *)
Definition tok_secret (x : secret V) : secret N :=
  {| vers := map (fun '(v, b) => (v, tok b)) (vers x); active := active x; latest := latest x |}.
Definition tokk (k : kvs V) : kvs N := map (fun '(n, x) => (n, tok_secret x)) k.

Fixpoint all_some {X} (l : list (option X)) : option (list X) :=
  match l with
  | [] => Some []
  | Some x :: l' => option_map (cons x) (all_some l')
  | None :: _ => None
  end.

Definition term_version (e : term) : option (N * V) :=
  match e with Tup [Pub v; Code (Sec b)] => Some (v, untok b) | _ => None end.
Definition term_secret (t : term) : option (name * sdoc V) :=
  match t with
  | Tup [Nam n; Tup vs; Pub a; Pub l] => option_map (fun vv => (n, (vv, a, l))) (all_some (map term_version vs))
  | _ => None
  end.
(* json.Unmarshal of the decrypted document, on terms *)
Definition term_doc (t : term) : option (doc V) :=
  match t with Tup l => all_some (map term_secret l) | _ => None end.

(* the file kv.save writes for store [k] with nonce [r] *)
Definition sfile (c : cstate) (r : N) (k : kvs V) : term := fst (c_save c r (doc_term (tokk k))).

(* a restart: read the live path, decode, open with the key, load the document *)
Definition restart_bytes (kek : N) (bs : list B) : option (cstate * kvs V) :=
  match unenc bs with
  | Some f => match fst (c_open kek f) with
              | Some (c, dt) => option_map (fun d => (c, load d)) (term_doc dt)
              | None => None end
  | None => None
  end.
Definition recover (kek : N) (fs : FS.fs B) : option (kvs V) :=
  match FS.read fs Live with
  | Some bs => option_map snd (restart_bytes kek bs)
  | None => None
  end.

(* ---- one call with its file-system protocol ---- *)
Record fault := {
  f_fd : N; f_tmp : N;                 (* descriptor and temporary name the protocol happens to get *)
  f_fail : option wstep;               (* which step of atomicfile.WriteFile fails, if any *)
  f_partial : nat;                     (* a failing write transferred this many bytes first *)
  f_nonce : N;                         (* nonce of the encryption *)
  f_audit : afault                     (* what the audit sink does *)
}.

(* WriteFile's verdict depends on the failing step only *)
Definition wf_ok (fl : option wstep) : bool := snd (write_file 0 0 (@nil B) fl []).

Definition env_of (x : fault) : env := {| save_ok := wf_ok (f_fail x); audit := f_audit x |}.

(* the save trace of a db_step: WriteFile applied to the encoding of the encrypted document
   of the state being saved (for a refused save: of the state the call tried to save) *)
Definition save_trace (c : cstate) (x : fault) (k_saved : kvs V) : list (FS.op B) :=
  let bytes := enc (sfile c (f_nonce x) k_saved) in
  fst (write_file (f_fd x) (f_tmp x) bytes (f_fail x) (firstn (f_partial x) bytes)).

Definition e2e_step (c : cstate) (x : fault) (s : dbstate V) (cl : caller) (o : DB.op V)
  : dbstate V * result V * list effect * list (FS.op B) :=
  let '(s', r, fx) := db_step veqb (env_of x) s cl o in
  let '(s_try, _, _) := db_step veqb {| save_ok := true; audit := f_audit x |} s cl o in
  (s', r, fx, if has_save fx || save_failed fx then save_trace c x (kv s_try) else []).

(* ---- crash points, executably ---- *)
Inductive cpoint :=
| CBetween (k : nat)              (* after the first k operations *)
| CInside (k : nat) (n : nat).    (* inside operation k (a write), after n of its bytes *)

Definition crash_at (fs0 : FS.fs B) (tr : list (FS.op B)) (cp : cpoint) : FS.fs B :=
  match cp with
  | CBetween k => FS.exec fs0 (firstn k tr)
  | CInside k n =>
      match nth_error tr k with
      | Some (Write fd bs) => FS.exec1 (FS.exec fs0 (firstn k tr)) (Write fd (firstn n bs))
      | _ => FS.exec fs0 (firstn k tr)
      end
  end.

Definition trace_bytes (tr : list (FS.op B)) : list B :=
  flat_map (fun o => match o with Write _ bs => bs | _ => [] end) tr.

(* ---- histories: calls (any fault), reopens, crashes followed by a restart from the file ---- *)
Inductive event :=
| ECall (x : fault) (cl : caller) (o : DB.op V)
| EReopen
| ECrash (x : fault) (cl : caller) (o : DB.op V) (cp : cpoint).

Record world := {
  w_c : cstate;            (* data key + wrapped-key bytes held by the process *)
  w_s : dbstate V;         (* what the process serves *)
  w_live : list B;         (* contents of the live database file *)
  w_seen : list B          (* every byte that has been on disk, in any file, at any instant *)
}.

Definition restart (kek : N) (live seen : list B) : option world :=
  match restart_bytes kek live with
  | Some (c, k) => Some {| w_c := c; w_s := db_open k; w_live := live; w_seen := seen |}
  | None => None          (* the server does not come up *)
  end.

Definition live_of (fs : FS.fs B) (dflt : list B) : list B :=
  match FS.read fs Live with Some l => l | None => dflt end.

Fixpoint run (kek : N) (w : world) (h : list event) : option world :=
  match h with
  | [] => Some w
  | ECall x cl o :: h' =>
      let '(s', _, _, tr) := e2e_step (w_c w) x (w_s w) cl o in
      run kek {| w_c := w_c w; w_s := s';
                 w_live := live_of (FS.exec (FS.init (Some (w_live w))) tr) (w_live w);
                 w_seen := w_seen w ++ trace_bytes tr |} h'
  | EReopen :: h' =>
      match restart kek (w_live w) (w_seen w) with
      | Some w' => run kek w' h'
      | None => None
      end
  | ECrash x cl o cp :: h' =>
      let '(_, _, _, tr) := e2e_step (w_c w) x (w_s w) cl o in
      match restart kek (live_of (crash_at (FS.init (Some (w_live w))) tr cp) (w_live w)) (w_seen w ++ trace_bytes tr) with
      | Some w' => run kek w' h'
      | None => None
      end
  end.

(* ---- the abstract machine the composition refines: DB.v alone, where a crash is a restart
   from the pre- or the post-state of the interrupted call ---- *)
Inductive aevent :=
| ACall (ev : env) (cl : caller) (o : DB.op V)
| AReopen
| ACrash (ev : env) (cl : caller) (o : DB.op V) (landed : bool).

Fixpoint abs_run (s : dbstate V) (h : list aevent) : dbstate V :=
  match h with
  | [] => s
  | ACall ev cl o :: h' => abs_run (fst (fst (db_step veqb ev s cl o))) h'
  | AReopen :: h' => abs_run (db_open (kv s)) h'
  | ACrash ev cl o landed :: h' =>
      abs_run (db_open (if landed then kv (fst (fst (db_step veqb ev s cl o))) else kv s)) h'
  end.

Inductive refines_ev : event -> aevent -> Prop :=
| RCall x cl o : refines_ev (ECall x cl o) (ACall (env_of x) cl o)
| RReopen : refines_ev EReopen AReopen
| RCrash x cl o cp landed : refines_ev (ECrash x cl o cp) (ACrash (env_of x) cl o landed).

End EndToEnd.
