(* Proofs about the composed server-side models (Server/EndToEnd.v). *)
From Coq Require Import List Bool Arith NArith Lia.
Import ListNotations.
From Setec Require Import Base.SMap Acl.Glob Server.KV Server.KVProofs Server.DB Server.DBFacts Server.DBProofs
  Server.Persist Server.PersistProofs Server.FSMap Server.FS Server.FSProofs Server.Crypto Server.CryptoProofs
  Server.EndToEnd.
Set Implicit Arguments.
Open Scope N_scope.

Section EndToEndProofs.
Variable V : Type.
Variable veqb : V -> V -> bool.
Hypothesis veqb_spec : forall a b, veqb a b = true <-> a = b.
Variable tok : V -> N.
Variable untok : N -> V.
Hypothesis untok_tok : forall v, untok (tok v) = v.
Variable B : Type.
Variable beq : B -> B -> bool.
Hypothesis beq_spec : forall a b, beq a b = true <-> a = b.
Variable enc : term -> list B.
Variable unenc : list B -> option term.
Hypothesis unenc_enc : forall t, unenc (enc t) = Some t.
Variable origin : B -> term.
Hypothesis origin_enc : forall t b, In b (enc t) -> origin b = t.

Variables kek dek r1 : N.
Notation c0 := (fst (c_create kek dek r1)).
Notation Inv := (@KVProofs.Inv V).
Notation sfile := (sfile tok).
Notation term_doc := (term_doc untok).
Notation restart_bytes := (restart_bytes untok unenc).
Notation recover := (recover untok unenc).
Notation e2e_step := (e2e_step veqb tok enc).
Notation save_trace := (save_trace tok enc).
Notation run := (run veqb tok untok enc unenc).
Notation restart := (restart untok unenc).

(* ---------- document -> term -> document ---------- *)
Lemma all_some_map {X Y} (f : X -> option Y) (g : X -> Y) l :
  (forall x, In x l -> f x = Some (g x)) -> all_some (map f l) = Some (map g l).
Proof.
  induction l as [|x l IH]; intro H; [reflexivity|]. cbn [map all_some].
  rewrite (H x) by (left; reflexivity). rewrite IH by (intros; apply H; right; assumption). reflexivity.
Qed.

Lemma term_versions_roundtrip (vs : list (N * V)) :
  all_some (map (term_version untok) (map (fun '(v, b) => Tup [Pub v; Code (Sec b)]) (map (fun '(v, b) => (v, tok b)) vs))) = Some vs.
Proof.
  induction vs as [|[v b] vs IH]; [reflexivity|]. cbn [map all_some term_version]. rewrite IH. cbn. rewrite untok_tok. reflexivity.
Qed.

Lemma term_doc_roundtrip (k : kvs V) : term_doc (doc_term (tokk tok k)) = Some (doc_of k).
Proof.
  unfold EndToEnd.term_doc, doc_term, tokk, doc_of.
  induction k as [|[n x] k IH]; [reflexivity|].
  cbn [map]. cbn [all_some term_secret tok_secret vers active latest].
  rewrite term_versions_roundtrip. cbn [option_map]. rewrite IH. reflexivity.
Qed.

(* a restart from a file this database wrote gives back the crypto state and exactly the store *)
Lemma restart_bytes_own r (k : kvs V) : Inv k -> restart_bytes kek (enc (sfile c0 r k)) = Some (c0, k).
Proof.
  intro I. unfold EndToEnd.restart_bytes, EndToEnd.sfile. rewrite unenc_enc. rewrite c_open_own. cbn [fst].
  rewrite term_doc_roundtrip. cbn [option_map]. rewrite load_doc_of by assumption. reflexivity.
Qed.

Lemma recover_own (fs : FS.fs B) r (k : kvs V) : Inv k ->
  FS.read fs Live = Some (enc (sfile c0 r k)) -> recover kek fs = Some k.
Proof. intros I R. unfold EndToEnd.recover. rewrite R. rewrite restart_bytes_own by assumption. reflexivity. Qed.

(* ---------- one call ---------- *)
Lemma wf_ok_snd fd t (bytes : list B) fl p : snd (write_file fd t bytes fl p) = wf_ok B fl.
Proof. destruct fl as [[]|]; reflexivity. Qed.

Definition is_error (r : result V) : bool := match r with ROther | RDenied | RNotFound => true | _ => false end.

(* a call that reports an error leaves the store as it was *)
Lemma db_error_unchanged ev (s : dbstate V) c o s' r fx :
  Inv (kv s) -> db_step veqb ev s c o = (s', r, fx) -> is_error r = true -> kv s' = kv s.
Proof.
  intros I H E. destruct (@db_step_kv V veqb _ _ _ _ _ _ _ H) as [(K & _)|(ko & kr & sv & K & _ & -> & _)]; [exact K|].
  destruct kr; cbn in E; try discriminate;
    try (exact (@failed_is_noop V veqb _ _ _ _ _ _ I K eq_refl)).
  destruct ko; cbn [KV.kv_step] in K;
     unfold KV.kv_put, kv_set_active, kv_delete_version, kv_delete_secret in K;
     repeat match type of K with
            | context [match ?x with _ => _ end] => destruct x
            end;
     congruence.
Qed.

Lemma crash_state_nil (fs0 fs' : FS.fs B) : crash_state fs0 [] fs' -> fs' = fs0.
Proof.
  intro H. inversion H as [k|k o o' E P]; subst.
  - rewrite firstn_nil. reflexivity.
  - destruct k; discriminate.
Qed.

Lemma crash_state_end (fs0 : FS.fs B) tr : crash_state fs0 tr (FS.exec fs0 tr).
Proof.
  replace (FS.exec fs0 tr) with (FS.exec fs0 (firstn (length tr) tr)) by (rewrite firstn_all; reflexivity).
  constructor.
Qed.

(* what one call does to the live file: at every crash point and at the end *)
Lemma step_disk x (s : dbstate V) cl o r0 s' res fx tr :
  Inv (kv s) ->
  e2e_step c0 x s cl o = (s', res, fx, tr) ->
  let live := enc (sfile c0 r0 (kv s)) in
  Inv (kv s')
  /\ (has_save fx = false -> kv s' = kv s)
  /\ (forall fs', crash_state (FS.init (Some live)) tr fs' ->
        exists r' k', (k' = kv s \/ k' = kv s') /\ FS.read fs' Live = Some (enc (sfile c0 r' k')))
  /\ (exists r', FS.read (FS.exec (FS.init (Some live)) tr) Live = Some (enc (sfile c0 r' (kv s')))).
Proof.
  intros I H live. unfold EndToEnd.e2e_step in H.
  destruct (db_step veqb (env_of B x) s cl o) as [[s1 res1] fx1] eqn:E1.
  destruct (db_step veqb {| save_ok := true; audit := f_audit x |} s cl o) as [[st rt] fxt] eqn:Et.
  injection H as <- <- <- <-.
  destruct (@db_step_inv V veqb _ _ _ _ _ _ _ I E1) as (I1 & U & O).
  split; [exact I1|]. split; [exact U|].
  destruct (has_save fx1 || save_failed fx1) eqn:T.
  - (* the call ran the file protocol *)
    unfold EndToEnd.save_trace. cbv zeta.
    change {| c_dek := dek; c_dekraw := Enc kek adDEK r1 (Key dek) |} with c0.
    remember (enc (sfile c0 (f_nonce x) (kv st))) as bytes eqn:Hb.
    pose proof (@write_file_sound B beq beq_spec (f_fd x) (f_tmp x) bytes (f_fail x) (firstn (f_partial x) bytes) (Some live)) as WS.
    pose proof (wf_ok_snd (f_fd x) (f_tmp x) bytes (f_fail x) (firstn (f_partial x) bytes)) as WO.
    destruct (write_file (f_fd x) (f_tmp x) bytes (f_fail x) (firstn (f_partial x) bytes)) as [tr ok] eqn:WF.
    cbn [fst snd] in *. subst ok.
    destruct (wf_ok B (f_fail x)) eqn:W.
    + (* WriteFile returned nil: the same run as the "try" run *)
      unfold env_of in E1. rewrite W in E1. rewrite E1 in Et. injection Et as <- _ _. subst bytes.
      split.
      * intros fs' Hc. destruct (@monitor_crash_atomic B beq beq_spec _ _ _ WS fs' Hc) as [R|R].
        -- exists r0, (kv s). split; [left; reflexivity|exact R].
        -- exists (f_nonce x), (kv s1). split; [right; reflexivity|exact R].
      * exists (f_nonce x). pose proof (@monitor_completes B beq beq_spec _ _ _ WS) as C.
        unfold FS.read. rewrite C. reflexivity.
    + (* WriteFile returned an error: the store was rolled back *)
      assert (F : save_ok (env_of B x) = false) by (unfold env_of; cbn; exact W).
      destruct (@failed_save_rollback V veqb _ _ _ _ _ _ _ I F E1) as (K & _ & _).
      destruct (@error_atomic B _ _ WS) as (EA & _).
      split.
      * intros fs' Hc. exists r0, (kv s). split; [left; reflexivity|]. apply EA. exact Hc.
      * exists r0. rewrite K. apply EA. apply crash_state_end.
  - (* no save attempted: nothing touches the disk, the store is unchanged *)
    apply orb_false_iff in T. destruct T as [T1 _]. rewrite (U T1).
    split.
    + intros fs' Hc. apply crash_state_nil in Hc. subst fs'. exists r0, (kv s). split; [left; reflexivity|reflexivity].
    + exists r0. reflexivity.
Qed.

(* ---------- chain_crash ---------- *)
Theorem chain_crash x (s : dbstate V) cl o r0 s' res fx tr :
  Inv (kv s) ->
  e2e_step c0 x s cl o = (s', res, fx, tr) ->
  let fs0 := FS.init (Some (enc (sfile c0 r0 (kv s)))) in
  (forall fs', crash_state fs0 tr fs' -> recover kek fs' = Some (kv s) \/ recover kek fs' = Some (kv s'))
  /\ (is_error res = true \/ has_save fx = false ->
      forall fs', crash_state fs0 tr fs' -> recover kek fs' = Some (kv s))
  /\ recover kek (FS.exec fs0 tr) = Some (kv s').
Proof.
  intros I H fs0. destruct (step_disk x s cl o r0 I H) as (I1 & U & C & (rf & F)).
  assert (D : db_step veqb (env_of B x) s cl o = (s', res, fx)).
  { unfold EndToEnd.e2e_step in H. destruct (db_step veqb (env_of B x) s cl o) as [[a b] c].
    destruct (db_step veqb {| save_ok := true; audit := f_audit x |} s cl o) as [[a' b'] c']. injection H as <- <- <- _. reflexivity. }
  assert (CC : forall fs', crash_state fs0 tr fs' -> recover kek fs' = Some (kv s) \/ recover kek fs' = Some (kv s')).
  { intros fs' Hc. destruct (C fs' Hc) as (r' & k' & [->| ->] & R); [left|right]; eapply recover_own; eassumption. }
  split; [exact CC|]. split.
  - intros E fs' Hc.
    assert (K : kv s' = kv s).
    { destruct E as [E|E]; [eapply db_error_unchanged; eassumption|apply U; exact E]. }
    destruct (CC fs' Hc) as [R|R]; [exact R|rewrite R, K; reflexivity].
  - eapply recover_own; eassumption.
Qed.

(* the save outcome db_step is given IS the verdict of the file protocol on that trace *)
Theorem chain_outcome x c (k : kvs V) :
  save_ok (env_of B x) =
  snd (write_file (f_fd x) (f_tmp x) (enc (sfile c (f_nonce x) k)) (f_fail x) (firstn (f_partial x) (enc (sfile c (f_nonce x) k)))).
Proof. rewrite wf_ok_snd. reflexivity. Qed.

(* the executable crash points are crash states *)
Lemma crash_at_state (fs0 : FS.fs B) tr cp : crash_state fs0 tr (crash_at fs0 tr cp).
Proof.
  destruct cp as [k|k n]; cbn [crash_at]; [constructor|].
  destruct (nth_error tr k) as [o|] eqn:E; [|constructor].
  destruct o; try constructor.
  eapply CrashInside; [exact E|]. apply PWrite with (suf := skipn n bs). symmetry. apply firstn_skipn.
Qed.

(* ---------- which bytes can be on disk ---------- *)
Definition bytes_in (S : B -> Prop) (fs : FS.fs B) : Prop :=
  forall p f, afind p (FS.d fs) = Some f -> forall b, In b (FS.data f) -> S b.

Lemma path_eq_cases (p q : path) : p = q \/ p <> q.
Proof.
  destruct (path_eqb p q) eqn:E.
  - left. destruct p, q; cbn in E; try discriminate; try reflexivity; apply N.eqb_eq in E; congruence.
  - right. intros ->. destruct q; cbn in E; try discriminate; rewrite N.eqb_refl in E; discriminate.
Qed.

Lemma afind_aupd_inv (p q : path) (v f : FS.file B) m :
  afind p (aupd q v m) = Some f -> (p = q /\ f = v) \/ afind p m = Some f.
Proof.
  intro H. destruct (path_eq_cases p q) as [->|N].
  - rewrite afind_aupd_eq in H. injection H as <-. left. auto.
  - rewrite afind_aupd_neq in H by assumption. right. exact H.
Qed.

Lemma afind_adel_inv (p q : path) (f : FS.file B) m : afind p (adel q m) = Some f -> afind p m = Some f.
Proof.
  intro H. destruct (path_eq_cases p q) as [->|N].
  - rewrite afind_adel_eq in H. discriminate.
  - rewrite afind_adel_neq in H by assumption. exact H.
Qed.

Definition payload (o : FS.op B) : list B := match o with Write _ bs => bs | _ => [] end.

Lemma on_fd_bytes (S : B -> Prop) fs fd (g : FS.file B -> FS.file B) :
  bytes_in S fs -> (forall x b, (forall b', In b' (FS.data x) -> S b') -> In b (FS.data (g x)) -> S b) ->
  bytes_in S (on_fd fs fd g).
Proof.
  intros HB HG. unfold on_fd. destruct (afind fd (fds fs)) as [q|]; [|exact HB].
  destruct (afind q (FS.d fs)) as [x|] eqn:Fq; [|exact HB].
  intros p f Hf b Hb. cbn [FS.d] in Hf. apply afind_aupd_inv in Hf. destruct Hf as [(-> & ->)|Hf].
  - eapply HG; [|exact Hb]. intros b' Hb'. eapply HB; eassumption.
  - eapply HB; eassumption.
Qed.

Lemma exec1_bytes (S : B -> Prop) fs o :
  bytes_in S fs -> (forall b, In b (payload o) -> S b) -> bytes_in S (FS.exec1 fs o).
Proof.
  intros HB HP. destruct o; cbn [FS.exec1]; try exact HB.
  - intros q f Hf b Hb. cbn [FS.d] in Hf. apply afind_aupd_inv in Hf. destruct Hf as [(-> & ->)|Hf]; [contradiction|eapply HB; eassumption].
  - intros q f Hf b Hb. cbn [FS.d] in Hf. apply afind_aupd_inv in Hf. destruct Hf as [(-> & ->)|Hf]; [|eapply HB; eassumption].
    destruct (afind p (FS.d fs)) as [x|] eqn:Fp; [|contradiction].
    destruct trunc; [contradiction|eapply HB; eassumption].
  - apply on_fd_bytes; [exact HB|]. intros x b Hx Hb. cbn [FS.data] in Hb. apply in_app_or in Hb. destruct Hb; [auto|apply HP; assumption].
  - apply on_fd_bytes; [exact HB|]. intros x b Hx Hb. auto.
  - apply on_fd_bytes; [exact HB|]. intros x b Hx Hb. contradiction.
  - apply on_fd_bytes; [exact HB|]. intros x b Hx Hb. auto.
  - destruct (afind p (FS.d fs)) as [x|] eqn:Fp; [|exact HB].
    intros q' f Hf b Hb. cbn [FS.d] in Hf. apply afind_aupd_inv in Hf. destruct Hf as [(-> & ->)|Hf]; [eapply HB; eassumption|].
    apply afind_adel_inv in Hf. eapply HB; eassumption.
  - intros q f Hf b Hb. cbn [FS.d] in Hf. apply afind_adel_inv in Hf. eapply HB; eassumption.
Qed.

Lemma exec_bytes (S : B -> Prop) tr : forall fs,
  bytes_in S fs -> (forall b, In b (trace_bytes tr) -> S b) -> bytes_in S (FS.exec fs tr).
Proof.
  induction tr as [|o tr IH]; intros fs HB HP; [exact HB|].
  rewrite exec_cons. apply IH.
  - apply exec1_bytes; [exact HB|]. intros b Hb. apply HP. unfold trace_bytes. cbn [flat_map]. apply in_or_app. left. destruct o; exact Hb.
  - intros b Hb. apply HP. unfold trace_bytes. cbn [flat_map]. apply in_or_app. right. exact Hb.
Qed.

Lemma trace_bytes_firstn (tr : list (FS.op B)) : forall k b, In b (trace_bytes (firstn k tr)) -> In b (trace_bytes tr).
Proof.
  induction tr as [|o tr IH]; intros [|k] b H; cbn [firstn] in H; try contradiction.
  unfold trace_bytes in *. cbn [flat_map] in *. apply in_app_or in H. apply in_or_app. destruct H; [left; assumption|right; eauto].
Qed.

(* every byte in any file at any crash point of a trace was in the live file before or is
   written by the trace *)
Theorem disk_bytes (live : list B) (tr : list (FS.op B)) fs' :
  crash_state (FS.init (Some live)) tr fs' ->
  bytes_in (fun b => In b live \/ In b (trace_bytes tr)) fs'.
Proof.
  intro Hc.
  assert (H0 : bytes_in (fun b => In b live \/ In b (trace_bytes tr)) (FS.init (Some live))).
  { intros p f Hf b Hb. cbn in Hf. destruct p; cbn in Hf; try discriminate. injection Hf as <-. left. exact Hb. }
  inversion Hc as [k|k o o' E P]; subst.
  - apply exec_bytes; [exact H0|]. intros b Hb. right. eapply trace_bytes_firstn. exact Hb.
  - apply exec1_bytes.
    + apply exec_bytes; [exact H0|]. intros b Hb. right. eapply trace_bytes_firstn. exact Hb.
    + inversion P; subst. cbn [payload]. intros b Hb. right.
      unfold trace_bytes. apply in_flat_map. exists (Write fd (pre ++ suf)). split; [eapply nth_error_In; exact E|].
      apply in_or_app. left. exact Hb.
Qed.

(* ---------- histories ---------- *)
Definition seen_ok (l : list B) : Prop := forall b, In b l -> exists r (k : kvs V), origin b = sfile c0 r k.

(* the world is consistent: the process holds the crypto state of the database, serves an
   invariant store, the live file is the encoding of the encrypted document of exactly that
   store, and every byte ever on disk comes from a file this database saved *)
Definition good (w : world V B) : Prop :=
  w_c w = c0 /\ Inv (kv (w_s w))
  /\ (exists r, w_live w = enc (sfile c0 r (kv (w_s w))))
  /\ seen_ok (w_seen w).

Lemma e2e_step_db c x (s : dbstate V) cl o s' res fx tr :
  e2e_step c x s cl o = (s', res, fx, tr) -> db_step veqb (env_of B x) s cl o = (s', res, fx).
Proof.
  unfold EndToEnd.e2e_step. destruct (db_step veqb (env_of B x) s cl o) as [[a b] c'].
  destruct (db_step veqb {| save_ok := true; audit := f_audit x |} s cl o) as [[a' b'] c'']. intro H. injection H as <- <- <- _. reflexivity.
Qed.

Lemma write_file_bytes fd t (bytes : list B) fl n b :
  In b (trace_bytes (fst (write_file fd t bytes fl (firstn n bytes)))) -> In b bytes.
Proof.
  assert (P : In b (firstn n bytes) -> In b bytes).
  { intro H. rewrite <- (firstn_skipn n bytes). apply in_or_app. left. exact H. }
  destruct fl as [[]|]; unfold trace_bytes; cbn; rewrite ?app_nil_r; intro H;
    repeat (apply in_app_or in H; destruct H as [H|H]); auto; contradiction.
Qed.

Lemma e2e_trace_bytes x (s : dbstate V) cl o s' res fx tr :
  e2e_step c0 x s cl o = (s', res, fx, tr) -> seen_ok (trace_bytes tr).
Proof.
  unfold EndToEnd.e2e_step. destruct (db_step veqb (env_of B x) s cl o) as [[a b] c'].
  destruct (db_step veqb {| save_ok := true; audit := f_audit x |} s cl o) as [[st b'] c''].
  intro H. injection H as _ _ _ <-. destruct (has_save c' || save_failed c'); [|intros b0 []].
  intros b0 Hb. unfold EndToEnd.save_trace in Hb. cbv zeta in Hb. apply write_file_bytes in Hb.
  exists (f_nonce x), (kv st). apply origin_enc. exact Hb.
Qed.

Lemma seen_ok_app a b : seen_ok a -> seen_ok b -> seen_ok (a ++ b).
Proof. intros A Bb x H. apply in_app_or in H. destruct H; auto. Qed.

Lemma restart_own live seen r (k : kvs V) : Inv k -> live = enc (sfile c0 r k) ->
  restart kek live seen = Some {| w_c := c0; w_s := db_open k; w_live := live; w_seen := seen |}.
Proof. intros I ->. unfold EndToEnd.restart. rewrite restart_bytes_own by assumption. reflexivity. Qed.

(* chain_history: whatever the history - calls under any fault, reopens, kills at any crash
   point followed by a restart from the file - the server always comes up, the world stays
   consistent (in particular: what is served is exactly what the file holds), and the state
   served is the one the DB.v model alone reaches on the same calls with the same save/audit
   outcomes, where each crash is a restart from the pre- or the post-state of the
   interrupted call *)
Theorem chain_history h : forall w, good w ->
  exists w' ah, run kek w h = Some w' /\ good w'
                /\ Forall2 (@refines_ev V B) h ah /\ w_s w' = abs_run veqb (w_s w) ah.
Proof.
  induction h as [|e h IH]; intros w G.
  - exists w, []. split; [reflexivity|]. split; [exact G|]. split; [constructor|reflexivity].
  - destruct G as (Gc & GI & (r0 & GL) & GS). destruct e as [x cl o| |x cl o cp]; cbn [EndToEnd.run].
    + rewrite Gc. destruct (e2e_step c0 x (w_s w) cl o) as [[[s' res] fx] tr] eqn:E.
      destruct (step_disk x (w_s w) cl o r0 GI E) as (I1 & _ & _ & (rf & F)).
      rewrite GL. unfold EndToEnd.live_of. rewrite F.
      edestruct IH as (w' & ah & R & G' & FA & A).
      2:{ exists w', (ACall (env_of B x) cl o :: ah). split; [exact R|]. split; [exact G'|]. split; [constructor; [constructor|exact FA]|].
          rewrite A. cbn [EndToEnd.abs_run w_s]. rewrite (e2e_step_db _ _ _ _ _ E). reflexivity. }
      unfold good; cbn [w_c w_s w_live w_seen]. split; [reflexivity|]. split; [exact I1|]. split; [exists rf; reflexivity|].
      apply seen_ok_app; [exact GS|]. eapply e2e_trace_bytes. exact E.
    + rewrite (restart_own (w_seen w) GI GL).
      edestruct IH as (w' & ah & R & G' & FA & A).
      2:{ exists w', (@AReopen V :: ah). split; [exact R|]. split; [exact G'|]. split; [constructor; [constructor|exact FA]|].
          rewrite A. reflexivity. }
      unfold good; cbn [w_c w_s w_live w_seen]. split; [reflexivity|]. split; [exact GI|]. split; [exists r0; exact GL|exact GS].
    + rewrite Gc. destruct (e2e_step c0 x (w_s w) cl o) as [[[s' res] fx] tr] eqn:E.
      destruct (step_disk x (w_s w) cl o r0 GI E) as (I1 & _ & C & _).
      rewrite GL. destruct (C _ (crash_at_state (FS.init (Some (enc (sfile c0 r0 (kv (w_s w)))))) tr cp)) as (r' & k' & K & Rd).
      unfold EndToEnd.live_of. rewrite Rd.
      assert (Ik : Inv k') by (destruct K as [->| ->]; assumption).
      rewrite (restart_own (w_seen w ++ trace_bytes tr) Ik eq_refl).
      assert (G1 : good {| w_c := c0; w_s := db_open k'; w_live := enc (sfile c0 r' k'); w_seen := w_seen w ++ trace_bytes tr |}).
      { unfold good; cbn [w_c w_s w_live w_seen]. split; [reflexivity|]. split; [exact Ik|]. split; [exists r'; reflexivity|].
        apply seen_ok_app; [exact GS|]. eapply e2e_trace_bytes. exact E. }
      destruct (IH _ G1) as (w' & ah & R & G' & FA & A).
      assert (L : exists landed : bool, db_open k' = db_open (if landed then kv (fst (fst (db_step veqb (env_of B x) (w_s w) cl o))) else kv (w_s w))).
      { rewrite (e2e_step_db _ _ _ _ _ E). cbn [fst]. destruct K as [->| ->]; [exists false|exists true]; reflexivity. }
      destruct L as (landed & L).
      exists w', (ACrash (env_of B x) cl o landed :: ah).
      split; [exact R|]. split; [exact G'|]. split; [constructor; [constructor|exact FA]|].
      rewrite A. cbn [EndToEnd.abs_run w_s]. rewrite L. reflexivity.
Qed.

(* chain_secrecy: along any such history, from whatever the attacker holds that is free of the
   keys, together with EVERY byte that has been on disk in any file at any instant (live file,
   temporaries, partial writes, leftovers of crashes) - a byte standing for the file term it is
   part of - no secret value and no secret name is derivable *)
Theorem chain_secrecy h w w' : good w -> run kek w h = Some w' ->
  let prot := fun k => k = kek \/ k = dek in
  forall names_public (K0 : term -> Prop), (forall t, K0 t -> safe prot names_public t) ->
  (forall v, ~ derives (fun t => K0 t \/ exists b, In b (w_seen w') /\ origin b = t) (Sec v))
  /\ (names_public = false -> forall n, ~ derives (fun t => K0 t \/ exists b, In b (w_seen w') /\ origin b = t) (Nam n)).
Proof.
  intros G R prot np K0 HK.
  destruct (chain_history h G) as (w2 & ah & R2 & G2 & _). rewrite R in R2. injection R2 as <-.
  destruct G2 as (_ & _ & _ & S).
  assert (SAFE : forall t, (K0 t \/ exists b, In b (w_seen w') /\ origin b = t) -> safe prot np t).
  { intros t [H|(b & Hb & <-)]; [auto|]. destruct (S b Hb) as (r & k & ->).
    unfold EndToEnd.sfile. apply saved_file_safe; [left|right]; reflexivity. }
  split.
  - intro v. eapply value_not_derivable. exact SAFE.
  - intros NP n. eapply name_not_derivable; [exact NP|exact SAFE].
Qed.

(* the bytes remembered are all there ever are: at any crash point of a call made in a good
   world, every byte of every file of the directory is in w_seen after the call *)
Theorem chain_seen_complete x (w : world V B) cl o s' res fx tr fs' :
  good w -> (forall b, In b (w_live w) -> In b (w_seen w)) ->
  e2e_step (w_c w) x (w_s w) cl o = (s', res, fx, tr) ->
  crash_state (FS.init (Some (w_live w))) tr fs' ->
  bytes_in (fun b => In b (w_seen w ++ trace_bytes tr)) fs'.
Proof.
  intros G L E Hc p f Hf b Hb. apply in_or_app.
  destruct (disk_bytes Hc p Hf b Hb) as [H|H]; [left; auto|right; exact H].
Qed.

(* each call of the abstract machine is a step of the plain-map specification of C02 on the
   call's own secret, or changes nothing (a refused/failed/read-only call) *)
Theorem call_is_spec_step ev (s : dbstate V) c o s' r fx :
  Inv (kv s) -> db_step veqb ev s c o = (s', r, fx) ->
  kv s' = kv s
  \/ (has_save fx = true /\ exists ko, ktarget ko = Some (target o) /\ kv s' = fst (spec_step veqb (kv s) ko)).
Proof.
  intros I H. destruct (@db_step_inv V veqb _ _ _ _ _ _ _ I H) as (_ & U & O).
  destruct (has_save fx) eqn:Sv; [|left; apply U; reflexivity].
  right. split; [reflexivity|].
  destruct (@db_step_kv V veqb _ _ _ _ _ _ _ H) as [(_ & F)|(ko & kr & sv & K & _ & _ & T)]; [congruence|].
  exists ko. split; [exact T|]. rewrite (O eq_refl) in K.
  pose proof (@refines_spec_ok V veqb (kv s) ko I) as R. rewrite K in R.
  destruct (spec_step veqb (kv s) ko) as [t q]. destruct R as (-> & _). reflexivity.
Qed.

End EndToEndProofs.

(* ---------- a concrete instance of the byte-level assumptions ----------
   bytes = file terms, a file is written as TWO chunks [t; t] (so that there is a partial
   write that is neither nothing nor everything), the decoder wants two chunks and takes
   the first, a chunk comes from the term it is.  Decidable equality of terms. *)
Fixpoint term_eqb (a b : term) : bool :=
  match a, b with
  | Pub x, Pub y => N.eqb x y
  | Nam x, Nam y => (fix go (l m : list N) := match l, m with [], [] => true | p :: l', q :: m' => N.eqb p q && go l' m' | _, _ => false end) x y
  | Sec x, Sec y => N.eqb x y
  | Key x, Key y => N.eqb x y
  | Tup l, Tup m => (fix go (l m : list term) := match l, m with [], [] => true | p :: l', q :: m' => term_eqb p q && go l' m' | _, _ => false end) l m
  | Code x, Code y => term_eqb x y
  | Enc k a r m, Enc k' a' r' m' => N.eqb k k' && N.eqb a a' && N.eqb r r' && term_eqb m m'
  | _, _ => false
  end.

Section TermInd.
Variable P : term -> Prop.
Hypothesis HPub : forall n, P (Pub n).
Hypothesis HNam : forall n, P (Nam n).
Hypothesis HSec : forall n, P (Sec n).
Hypothesis HKey : forall n, P (Key n).
Hypothesis HTup : forall l, Forall P l -> P (Tup l).
Hypothesis HCode : forall t, P t -> P (Code t).
Hypothesis HEnc : forall k a r m, P m -> P (Enc k a r m).
Fixpoint term_ind_nested (t : term) : P t :=
  match t with
  | Pub n => HPub n | Nam n => HNam n | Sec n => HSec n | Key n => HKey n
  | Tup l => HTup ((fix go (l : list term) : Forall P l :=
                      match l with [] => Forall_nil P | x :: l' => Forall_cons x (term_ind_nested x) (go l') end) l)
  | Code t' => HCode (term_ind_nested t')
  | Enc k a r m => HEnc k a r (term_ind_nested m)
  end.
End TermInd.

Lemma name_eqb_spec (x : list N) : forall y,
  (fix go (l m : list N) := match l, m with [] , [] => true | p :: l', q :: m' => N.eqb p q && go l' m' | _, _ => false end) x y = true <-> x = y.
Proof.
  induction x as [|p x IH]; intros [|q y]; split; intro H; try discriminate; try reflexivity.
  - apply andb_true_iff in H. destruct H as [H1 H2]. apply N.eqb_eq in H1. apply IH in H2. congruence.
  - injection H as -> ->. rewrite N.eqb_refl. apply IH. reflexivity.
Qed.

Lemma term_eqb_spec : forall a b, term_eqb a b = true <-> a = b.
Proof.
  induction a as [x|x|x|x|l IH|t IH|k a r m IH] using term_ind_nested; intros b; destruct b; cbn [term_eqb];
    try (split; intro H; discriminate);
    try (rewrite N.eqb_eq; split; intro H; [subst; reflexivity|injection H as ->; reflexivity]).
  - rewrite name_eqb_spec. split; intro H; [subst; reflexivity|injection H as ->; reflexivity].
  - revert l0. induction IH as [|p l Hp Hl IHl]; intros [|q m]; split; intro H; try discriminate; try reflexivity.
    + apply andb_true_iff in H. destruct H as [H1 H2]. apply Hp in H1. apply IHl in H2. injection H2 as ->. subst. reflexivity.
    + injection H as -> ->. apply andb_true_iff. split; [apply Hp; reflexivity|apply IHl; reflexivity].
  - rewrite IH. split; intro H; [subst; reflexivity|injection H as ->; reflexivity].
  - rewrite !andb_true_iff, !N.eqb_eq, IH. split; [intros (((-> & ->) & ->) & ->); reflexivity|intro H; injection H as -> -> -> ->; auto].
Qed.

Definition enc2 (t : term) : list term := [t; t].
Definition unenc2 (bs : list term) : option term := match bs with [t; _] => Some t | _ => None end.
Lemma unenc2_enc2 t : unenc2 (enc2 t) = Some t.
Proof. reflexivity. Qed.
Lemma origin2_enc2 (t b : term) : In b (enc2 t) -> (fun x : term => x) b = t.
Proof. intros [<-|[<-|[]]]; reflexivity. Qed.
