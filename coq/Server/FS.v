(* A small file-system semantics for property C04 (database file update is all-or-nothing),
   the decidable monitors evaluated by the kernel on system-call traces recorded with strace
   from a process performing ONE real db operation, and a line-by-line model of
   tailscale.com/atomicfile.WriteFile with a fault oracle.

   Paths are abstracted as the harness classifies them: the live database file, other files
   of the state directory (temporaries), files elsewhere.  A file has its contents, its
   permission bits and the contents that reached stable storage at its last fsync (the
   power-loss reading of "flushed before it replaces the live file").
   Executable definitions only; the proofs are in FSProofs.v. *)
From Coq Require Import List Bool Arith NArith.
Import ListNotations.
From Setec Require Import Server.FSMap.
Set Implicit Arguments.
Open Scope N_scope.

Inductive path := Live | Tmp (i : N) | Other (i : N).
Definition path_eqb (a b : path) : bool :=
  match a, b with
  | Live, Live => true
  | Tmp i, Tmp j => N.eqb i j
  | Other i, Other j => N.eqb i j
  | _, _ => false
  end.
#[global] Program Instance EqB_path : EqB path := {| eqbk := path_eqb |}.
Next Obligation.
  destruct a, b; cbn; split; intro H; try discriminate; try reflexivity;
  try (apply N.eqb_eq in H; subst; reflexivity); try (injection H as ->; apply N.eqb_refl).
Qed.

Section FS.
Variable B : Type.                       (* byte (or content token) *)
Variable beq : B -> B -> bool.

Record file := { data : list B; mode : N; stable : list B }.
Definition dir := alist path file.
Definition fdt := alist N path.          (* descriptor -> path it was opened on *)
Record fs := { d : dir; fds : fdt }.

(* the EFFECTIVE operations of a trace: system calls that returned success (a failed or
   injected call has no effect and is not part of the trace; a short write appears with
   the bytes actually transferred) *)
Inductive op :=
| Stat (p : path)                          (* stat/lstat/access/open read-only: no effect *)
| CreateExcl (fd : N) (p : path) (m : N)   (* open O_CREAT|O_EXCL, mode m *)
| OpenW (fd : N) (p : path) (trunc : bool) (* open for writing (creating if absent), O_TRUNC or not *)
| Write (fd : N) (bs : list B)
| Chmod (fd : N) (m : N)
| Trunc (fd : N)                           (* ftruncate to 0 *)
| Fsync (fd : N)
| Close (fd : N)
| Rename (p q : path)
| Unlink (p : path)
| Unknown (p : path).                      (* any other call that may alter p *)

Definition on_fd (s : fs) (fd : N) (f : file -> file) : fs :=
  match afind fd (fds s) with
  | Some p => match afind p (d s) with
              | Some x => {| d := aupd p (f x) (d s); fds := fds s |}
              | None => s end
  | None => s end.

Definition exec1 (s : fs) (o : op) : fs :=
  match o with
  | Stat _ | Unknown _ => s
  | CreateExcl fd p m => {| d := aupd p {| data := []; mode := m; stable := [] |} (d s); fds := aupd fd p (fds s) |}
  | OpenW fd p trunc =>
      let f := match afind p (d s) with
               | Some f => if trunc then {| data := []; mode := mode f; stable := stable f |} else f
               | None => {| data := []; mode := 420; stable := [] |} end in
      {| d := aupd p f (d s); fds := aupd fd p (fds s) |}
  | Write fd bs => on_fd s fd (fun f => {| data := data f ++ bs; mode := mode f; stable := stable f |})
  | Chmod fd m => on_fd s fd (fun f => {| data := data f; mode := m; stable := stable f |})
  | Trunc fd => on_fd s fd (fun f => {| data := []; mode := mode f; stable := stable f |})
  | Fsync fd => on_fd s fd (fun f => {| data := data f; mode := mode f; stable := data f |})
  | Close fd => {| d := d s; fds := adel fd (fds s) |}
  | Rename p q =>
      match afind p (d s) with
      | Some f => {| d := aupd q f (adel p (d s)); fds := fds s |}
      | None => s end
  | Unlink p => {| d := adel p (d s); fds := fds s |}
  end.

Definition exec (s : fs) (tr : list op) : fs := fold_left exec1 tr s.

Definition read (s : fs) (p : path) : option (list B) := option_map data (afind p (d s)).

(* the initial state: the live file holds [old] (absent for database creation), owner-only,
   fully on stable storage; no descriptors *)
Definition init (old : option (list B)) : fs :=
  {| d := match old with Some o => [(Live, {| data := o; mode := 384; stable := o |})] | None => [] end;
     fds := [] |}.

(* may the operation alter what the live path holds (contents, permission, existence)? *)
Definition fd_is_live (s : fs) (fd : N) : bool :=
  match afind fd (fds s) with Some p => path_eqb p Live | None => false end.

Definition touches_live (s : fs) (o : op) : bool :=
  match o with
  | CreateExcl _ p _ | OpenW _ p _ | Unlink p | Unknown p => path_eqb p Live
  | Rename p q => path_eqb p Live || path_eqb q Live
  | Write fd _ | Chmod fd _ | Trunc fd | Fsync fd => fd_is_live s fd
  | Stat _ | Close _ => false
  end.

(* the live path is never touched along the trace *)
Fixpoint quiet (s : fs) (tr : list op) : bool :=
  match tr with
  | [] => true
  | o :: tr' => negb (touches_live s o) && quiet (exec1 s o) tr'
  end.

(* ---- the monitor of a successful save ---- *)
Fixpoint list_beq (a b : list B) : bool :=
  match a, b with
  | [], [] => true
  | x :: a', y :: b' => beq x y && list_beq a' b'
  | _, _ => false
  end.

(* split at the first rename onto the live path *)
Fixpoint split_rename (tr : list op) : option (list op * path * list op) :=
  match tr with
  | [] => None
  | Rename p Live :: rest => Some ([], p, rest)
  | o :: rest => match split_rename rest with
                 | Some (pre, p, post) => Some (o :: pre, p, post)
                 | None => None end
  end.

Definition passive (o : op) : bool :=
  match o with Stat _ | Close _ | Fsync _ => true | _ => false end.

Definition owner_only (m : N) : bool := N.eqb (N.land m 63) 0.     (* no group/other bits *)

(* every written byte, every chmod/truncate goes to a descriptor of path p; p is created
   exactly once, exclusively and owner-only, and opened in no other way; no unknown calls *)
Fixpoint only_fresh (p : path) (s : fs) (created : bool) (tr : list op) : bool :=
  match tr with
  | [] => created
  | o :: tr' =>
      match o with
      | CreateExcl _ q m => path_eqb q p && negb created && owner_only m && only_fresh p (exec1 s o) true tr'
      | OpenW _ _ _ | Unknown _ | Rename _ _ => false
      | Write fd _ | Chmod fd _ | Trunc fd =>
          match afind fd (fds s) with Some q => path_eqb q p | None => false end && only_fresh p (exec1 s o) created tr'
      | Unlink q => negb (path_eqb q p) && only_fresh p (exec1 s o) created tr'
      | Stat _ | Fsync _ | Close _ => only_fresh p (exec1 s o) created tr'
      end
  end.

Definition atomic_replace_ok (old : option (list B)) (new : list B) (tr : list op) : bool :=
  match split_rename tr with
  | Some (pre, Tmp t, post) =>
      let s0 := init old in
      quiet s0 pre
      && only_fresh (Tmp t) s0 false pre
      && match afind (Tmp t) (d (exec s0 pre)) with
         | Some f => list_beq (data f) new        (* the temporary holds exactly the new contents ... *)
                     && list_beq (stable f) new   (* ... all of it flushed to stable storage ... *)
                     && N.eqb (mode f) 384        (* ... readable by the owner only (0600) *)
         | None => false end
      && forallb passive post                     (* the rename is the last mutating operation *)
      && quiet (exec s0 (pre ++ [Rename (Tmp t) Live])) post
  | _ => false
  end.

(* ---- the monitor of a save that reported an error ---- *)
Definition is_tmp (p : path) : bool := match p with Tmp _ => true | _ => false end.
Definition no_unknown (tr : list op) : bool := forallb (fun o => match o with Unknown _ => false | _ => true end) tr.

Definition error_ok (old : option (list B)) (tr : list op) : bool :=
  let s0 := init old in
  quiet s0 tr && no_unknown tr && forallb (fun kv => negb (is_tmp (fst kv))) (d (exec s0 tr)).

(* ---- tailscale.com/atomicfile.WriteFile, line by line, with a fault oracle ----
   [fail = Some k]: step k returns an error (the write: after transferring [partial]).
   Returns the effective trace and whether WriteFile returned nil. *)
Inductive wstep :=
| WStat      (* fi, err := os.Stat(filename); only "exists and is not regular" is fatal, an error is not *)
| WCreate    (* os.CreateTemp(dir, base+".tmp") *)
| WWrite     (* f.Write(data) *)
| WChmod     (* f.Chmod(perm) *)
| WSync      (* f.Sync() *)
| WClose     (* f.Close() *)
| WLstat     (* os.Rename: Lstat(newname), error ignored *)
| WRename.   (* renameat *)

Definition write_file (fd t : N) (bytes : list B) (fail : option wstep) (partial : list B) : list op * bool :=
  let tmp := Tmp t in
  let cleanup_open := [Close fd; Unlink tmp] in         (* deferred: f.Close(); os.Remove(tmpName) *)
  let p1 := [Stat Live] in
  let p2 := p1 ++ [CreateExcl fd tmp 384] in
  let p3 := p2 ++ [Write fd bytes] in
  let p4 := p3 ++ [Chmod fd 384] in
  let p5 := p4 ++ [Fsync fd] in
  let p6 := p5 ++ [Close fd] in
  let p7 := p6 ++ [Stat Live] in
  match fail with
  | Some WCreate => (p1, false)
  | Some WWrite => (p2 ++ [Write fd partial] ++ cleanup_open, false)
  | Some WChmod => (p3 ++ cleanup_open, false)
  | Some WSync => (p4 ++ cleanup_open, false)
  | Some WClose => (p5 ++ [Unlink tmp], false)          (* close failed; the deferred Close is a no-op in package os *)
  | Some WRename => (p7 ++ [Unlink tmp], false)
  | Some WStat | Some WLstat | None => (p7 ++ [Rename tmp Live], true)
  end.

End FS.

Arguments Stat {B}. Arguments CreateExcl {B}. Arguments OpenW {B}. Arguments Chmod {B}. Arguments Trunc {B}.
Arguments Fsync {B}. Arguments Close {B}. Arguments Rename {B}. Arguments Unlink {B}. Arguments Unknown {B}.
