(* Plain association lists with a boolean key equality (class EqB): the directory and
   descriptor tables of the file-system model Server/FS.v (property C04).  Ported from the
   design-phase prototype; names carry an "a" prefix so that they do not clash with Base/SMap.v. *)
From Coq Require Import List Bool NArith Lia.
Import ListNotations.
Set Implicit Arguments.

Class EqB (A : Type) := { eqbk : A -> A -> bool; eqbk_spec : forall a b, eqbk a b = true <-> a = b }.
#[global] Program Instance EqB_N : EqB N := {| eqbk := N.eqb |}.
Next Obligation. apply N.eqb_eq. Qed.

Definition alist (K V : Type) := list (K * V).

Section AList.
Context {K V : Type} `{EK : EqB K}.
Notation keqb := (@eqbk K EK).
Definition keqb_spec := (@eqbk_spec K EK).

Lemma keqb_refl a : keqb a a = true. Proof. apply keqb_spec; reflexivity. Qed.
Lemma keqb_neq a b : a <> b -> keqb a b = false.
Proof. intro H. destruct (keqb a b) eqn:E; auto. apply keqb_spec in E. contradiction. Qed.
Lemma keqb_false a b : keqb a b = false -> a <> b.
Proof. intros E ->. rewrite keqb_refl in E. discriminate. Qed.


Fixpoint afind (k : K) (m : alist K V) : option V :=
  match m with [] => None | (k', v) :: m' => if keqb k k' then Some v else afind k m' end.

Fixpoint aupd (k : K) (v : V) (m : alist K V) : alist K V :=
  match m with
  | [] => [(k, v)]
  | (k', v') :: m' => if keqb k k' then (k, v) :: m' else (k', v') :: aupd k v m'
  end.

Fixpoint adel (k : K) (m : alist K V) : alist K V :=
  match m with
  | [] => []
  | (k', v') :: m' => if keqb k k' then adel k m' else (k', v') :: adel k m'
  end.

Definition akeys (m : alist K V) : list K := map fst m.

Lemma afind_aupd_eq k v m : afind k (aupd k v m) = Some v.
Proof. induction m as [|[k' v'] m IH]; cbn; [rewrite keqb_refl; auto|]. destruct (keqb k k') eqn:E; cbn; [rewrite keqb_refl|rewrite E]; auto. Qed.

Lemma afind_aupd_neq k k' v m : k' <> k -> afind k' (aupd k v m) = afind k' m.
Proof.
  intro N. induction m as [|[k2 v2] m IH]; cbn.
  - rewrite (keqb_neq N). reflexivity.
  - destruct (keqb k k2) eqn:E; cbn.
    + apply keqb_spec in E; subst k2. rewrite (keqb_neq N). reflexivity.
    + destruct (keqb k' k2); auto.
Qed.

Lemma afind_adel_eq k m : afind k (adel k m) = None.
Proof. induction m as [|[k' v'] m IH]; cbn; auto. destruct (keqb k k') eqn:E; cbn; [|rewrite E]; auto. Qed.

Lemma afind_adel_neq k k' m : k' <> k -> afind k' (adel k m) = afind k' m.
Proof.
  intro N. induction m as [|[k2 v2] m IH]; cbn; auto.
  destruct (keqb k k2) eqn:E; cbn.
  - apply keqb_spec in E; subst k2. rewrite (keqb_neq N). apply IH.
  - destruct (keqb k' k2); auto.
Qed.

Lemma afind_In k v m : afind k m = Some v -> In (k, v) m.
Proof. induction m as [|[k' v'] m IH]; cbn; [discriminate|]. destruct (keqb k k') eqn:E; intro H.
  - apply keqb_spec in E; subst. injection H as ->. auto.
  - auto.
Qed.

Lemma afind_None_akeys k m : afind k m = None <-> ~ In k (akeys m).
Proof.
  induction m as [|[k' v'] m IH]; cbn; [tauto|]. destruct (keqb k k') eqn:E.
  - apply keqb_spec in E; subst. split; [discriminate|]. intro H; exfalso; apply H; auto.
  - apply keqb_false in E. rewrite IH. split; intro H; [intros [F|F]; [congruence|auto] | auto].
Qed.

Lemma akeys_aupd_in k v m x : In x (akeys (aupd k v m)) <-> x = k \/ In x (akeys m).
Proof.
  induction m as [|[k' v'] m IH]; cbn; [intuition congruence|]. destruct (keqb k k') eqn:E; cbn.
  - apply keqb_spec in E; subst. intuition congruence.
  - rewrite IH. intuition congruence.
Qed.

Lemma NoDup_aupd k v m : NoDup (akeys m) -> NoDup (akeys (aupd k v m)).
Proof.
  induction m as [|[k' v'] m IH]; cbn; intro H.
  - constructor; [intros []|constructor].
  - inversion H; subst. destruct (keqb k k') eqn:E; cbn.
    + apply keqb_spec in E; subst. constructor; auto.
    + constructor; auto. intro F. apply akeys_aupd_in in F. destruct F as [->|F]; [rewrite keqb_refl in E; discriminate|auto].
Qed.

Lemma akeys_adel_in k m x : In x (akeys (adel k m)) <-> x <> k /\ In x (akeys m).
Proof.
  induction m as [|[k' v'] m IH]; cbn; [tauto|]. destruct (keqb k k') eqn:E; cbn.
  - apply keqb_spec in E; subst. rewrite IH. intuition congruence.
  - apply keqb_false in E. rewrite IH. intuition congruence.
Qed.

Lemma NoDup_adel k m : NoDup (akeys m) -> NoDup (akeys (adel k m)).
Proof.
  induction m as [|[k' v'] m IH]; cbn; intro H; [constructor|]. inversion H; subst.
  destruct (keqb k k'); cbn; auto. constructor; auto. intro F. apply akeys_adel_in in F. tauto.
Qed.

Lemma afind_Some_akeys k v m : afind k m = Some v -> In k (akeys m).
Proof. intro H. apply afind_In in H. apply (in_map fst) in H. exact H. Qed.

End AList.
