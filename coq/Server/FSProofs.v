(* Proofs about the file-system model (property C04): a trace accepted by the monitor
   [atomic_replace_ok] leaves the live file holding the complete old or the complete new
   contents after a kill between or INSIDE any operation (partial writes included), the
   live file is at every instant entirely on stable storage, it is touched by the rename
   only; a trace accepted by [error_ok] leaves the old contents and no temporary; the
   model of atomicfile.WriteFile satisfies the monitors under every single fault. *)
From Coq Require Import List Bool Arith NArith Lia.
Import ListNotations.
From Setec Require Import Server.FSMap Server.FS.
Set Implicit Arguments.
Open Scope N_scope.

Section FSProofs.
Variable B : Type.
Variable beq : B -> B -> bool.
Hypothesis beq_spec : forall a b, beq a b = true <-> a = b.

Notation op := (op B).
Notation fs := (fs B).
Notation file := (file B).
Notation exec1 := (@exec1 B).
Notation exec := (@exec B).
Notation quiet := (@quiet B).
Notation touches_live := (@touches_live B).
Notation read := (@read B).
Notation init := (@init B).
Notation list_beq := (list_beq beq).
Notation atomic_replace_ok := (atomic_replace_ok beq).

Lemma list_beq_eq a : forall b, list_beq a b = true <-> a = b.
Proof.
  induction a as [|x a IH]; intros [|y b]; cbn; split; intro H; try discriminate; try reflexivity.
  - apply andb_true_iff in H. destruct H as [H1 H2]. apply beq_spec in H1. apply IH in H2. congruence.
  - injection H as -> ->. apply andb_true_iff. split; [apply beq_spec; reflexivity|apply IH; reflexivity].
Qed.

Lemma path_neq_live p : path_eqb p Live = false -> Live <> p.
Proof. intros H <-. cbn in H. discriminate. Qed.

Lemma on_fd_untouched (s : fs) fd f : fd_is_live s fd = false ->
  afind Live (d (on_fd s fd f)) = afind Live (d s).
Proof.
  unfold fd_is_live, on_fd. destruct (afind fd (fds s)) as [p|]; [|reflexivity].
  intro H. destruct (afind p (d s)); [|reflexivity]. cbn [d].
  apply afind_aupd_neq. apply path_neq_live. exact H.
Qed.

Lemma exec1_untouched s o : touches_live s o = false -> afind Live (d (exec1 s o)) = afind Live (d s).
Proof.
  destruct o; cbn [FS.touches_live FS.exec1]; intro H; try reflexivity;
    try (apply on_fd_untouched; exact H).
  - cbn [d]. apply afind_aupd_neq. apply path_neq_live. exact H.
  - cbn [d]. apply afind_aupd_neq. apply path_neq_live. exact H.
  - apply orb_false_iff in H. destruct H as [H1 H2]. destruct (afind p (d s)); [|reflexivity]. cbn [d].
    rewrite afind_aupd_neq by (apply path_neq_live; exact H2).
    apply afind_adel_neq. apply path_neq_live. exact H1.
  - cbn [d]. apply afind_adel_neq. apply path_neq_live. exact H.
Qed.

Lemma exec_app s a b : exec s (a ++ b) = exec (exec s a) b.
Proof. unfold FS.exec. apply fold_left_app. Qed.

Lemma exec_cons s o tr : exec s (o :: tr) = exec (exec1 s o) tr.
Proof. reflexivity. Qed.

Lemma quiet_preserves tr : forall s, quiet s tr = true -> afind Live (d (exec s tr)) = afind Live (d s).
Proof.
  induction tr as [|o tr IH]; intros s H; [reflexivity|].
  cbn [FS.quiet] in H. apply andb_true_iff in H. destruct H as [H1 H2]. apply negb_true_iff in H1.
  rewrite exec_cons. rewrite IH by assumption. apply exec1_untouched. assumption.
Qed.

Lemma quiet_firstn tr : forall s k, quiet s tr = true -> quiet s (firstn k tr) = true.
Proof.
  induction tr as [|o tr IH]; intros s k H; destruct k; cbn [firstn FS.quiet]; auto.
  cbn [FS.quiet] in H. apply andb_true_iff in H. destruct H as [H1 H2]. rewrite H1. cbn [andb]. apply IH; assumption.
Qed.

Lemma quiet_nth tr : forall s k o, quiet s tr = true -> nth_error tr k = Some o ->
  touches_live (exec s (firstn k tr)) o = false.
Proof.
  induction tr as [|a tr IH]; intros s k o H E; destruct k; cbn [nth_error] in E; try discriminate.
  - injection E as ->. cbn [FS.quiet] in H. apply andb_true_iff in H. destruct H as [H1 _].
    apply negb_true_iff in H1. exact H1.
  - cbn [FS.quiet] in H. apply andb_true_iff in H. destruct H as [_ H2].
    cbn [firstn]. rewrite exec_cons. apply IH; assumption.
Qed.

(* a kill inside operation o: either o did not happen at all (that is the state "between"),
   or, for a write, only a prefix of its bytes was transferred *)
Inductive partial_of : op -> op -> Prop :=
| PWrite fd bs pre suf : bs = pre ++ suf -> partial_of (Write fd bs) (Write fd pre).

Inductive crash_state (s0 : fs) (tr : list op) : fs -> Prop :=
| CrashBetween k : crash_state s0 tr (exec s0 (firstn k tr))
| CrashInside k o o' : nth_error tr k = Some o -> partial_of o o' ->
                       crash_state s0 tr (exec1 (exec s0 (firstn k tr)) o').

Lemma partial_touch s o o' : partial_of o o' -> touches_live s o' = touches_live s o.
Proof. intro P. inversion P; subst. reflexivity. Qed.

(* the protocol, at the level of the file RECORD (contents, mode, flushed contents) *)
Theorem crash_record s0 pre post t fnew :
  quiet s0 pre = true ->
  afind (Tmp t) (d (exec s0 pre)) = Some fnew ->
  quiet (exec s0 (pre ++ [Rename (Tmp t) Live])) post = true ->
  forall s, crash_state s0 (pre ++ Rename (Tmp t) Live :: post) s ->
  afind Live (d s) = afind Live (d s0) \/ afind Live (d s) = Some fnew.
Proof.
  intros Hpre Hnew Hpost s Hc.
  assert (Hafter : afind Live (d (exec s0 (pre ++ [Rename (Tmp t) Live]))) = Some fnew).
  { rewrite exec_app. cbn [FS.exec fold_left FS.exec1]. fold (exec s0 pre). rewrite Hnew. cbn [d].
    apply afind_aupd_eq. }
  assert (Happ : pre ++ Rename (Tmp t) Live :: post = (pre ++ [Rename (Tmp t) Live]) ++ post)
    by (rewrite <- app_assoc; reflexivity).
  inversion Hc as [k|k o o' E P]; subst.
  - destruct (Nat.le_gt_cases k (length pre)) as [Hk|Hk].
    + left. rewrite firstn_app. replace (k - length pre)%nat with 0%nat by lia. cbn [firstn]. rewrite app_nil_r.
      apply quiet_preserves. apply quiet_firstn. assumption.
    + right. rewrite Happ. rewrite firstn_app. rewrite firstn_all2 by (rewrite app_length; cbn; lia).
      rewrite exec_app. rewrite quiet_preserves; [exact Hafter|apply quiet_firstn; assumption].
  - destruct (Nat.lt_ge_cases k (length pre)) as [Hk|Hk].
    + left. rewrite nth_error_app1 in E by assumption.
      rewrite firstn_app. replace (k - length pre)%nat with 0%nat by lia. cbn [firstn]. rewrite app_nil_r.
      pose proof (@quiet_nth _ _ _ _ Hpre E) as T. rewrite <- (partial_touch _ P) in T.
      rewrite exec1_untouched by exact T.
      apply quiet_preserves. apply quiet_firstn. assumption.
    + right. rewrite nth_error_app2 in E by assumption.
      destruct (k - length pre)%nat as [|j] eqn:Ej; cbn [nth_error] in E.
      { injection E as <-. inversion P. }
      rewrite Happ. rewrite firstn_app. rewrite firstn_all2 by (rewrite app_length; cbn; lia).
      rewrite app_length. cbn [length]. replace (k - (length pre + 1))%nat with j by lia.
      rewrite exec_app.
      pose proof (@quiet_nth _ _ _ _ Hpost E) as T. rewrite <- (partial_touch _ P) in T.
      rewrite exec1_untouched by exact T.
      rewrite quiet_preserves; [exact Hafter|apply quiet_firstn; assumption].
Qed.

(* the prototype's statement, on contents *)
Theorem crash_atomic s0 pre post t old new :
  read s0 Live = old ->
  quiet s0 pre = true ->
  read (exec s0 pre) (Tmp t) = Some new ->
  quiet (exec s0 (pre ++ [Rename (Tmp t) Live])) post = true ->
  forall s, crash_state s0 (pre ++ Rename (Tmp t) Live :: post) s ->
  read s Live = old \/ read s Live = Some new.
Proof.
  intros Hold Hpre Hnew Hpost s Hc. unfold FS.read in *.
  destruct (afind (Tmp t) (d (exec s0 pre))) as [f|] eqn:F; [|discriminate]. cbn in Hnew.
  destruct (@crash_record _ _ _ _ _ Hpre F Hpost _ Hc) as [E|E]; rewrite E; [left; assumption|right; exact Hnew].
Qed.

(* ---- the monitor ---- *)
Lemma split_rename_spec (tr : list op) : forall pre p post,
  split_rename tr = Some (pre, p, post) -> tr = pre ++ Rename p Live :: post.
Proof.
  induction tr as [|o tr IH]; intros pre p post H; [discriminate|].
  assert (G : match split_rename tr with Some (pre', p', post') => Some (o :: pre', p', post') | None => None end
              = Some (pre, p, post) -> o :: tr = pre ++ Rename p Live :: post).
  { destruct (split_rename tr) as [[[pre' p'] post']|]; [|discriminate]. intro G. injection G as <- <- <-.
    cbn [app]. f_equal. apply IH. reflexivity. }
  destruct o; try exact (G H).
  destruct q; try exact (G H).
  cbn [FS.split_rename] in H. injection H as <- <- <-. reflexivity.
Qed.

Lemma init_live old : read (init old) Live = old.
Proof. destruct old; reflexivity. Qed.

Definition new_file (new : list B) : file := {| data := new; mode := 384; stable := new |}.

(* what the monitor establishes *)
Lemma monitor_facts old new tr : atomic_replace_ok old new tr = true ->
  exists pre t post,
    tr = pre ++ Rename (Tmp t) Live :: post
    /\ quiet (init old) pre = true
    /\ afind (Tmp t) (d (exec (init old) pre)) = Some (new_file new)
    /\ quiet (exec (init old) (pre ++ [Rename (Tmp t) Live])) post = true
    /\ forallb (@passive B) post = true.
Proof.
  unfold FS.atomic_replace_ok. destruct (split_rename tr) as [[[pre p] post]|] eqn:S; [|discriminate].
  destruct p as [|t|]; try discriminate. intro H.
  repeat (apply andb_true_iff in H; destruct H as [H ?]).
  exists pre, t, post. split; [apply split_rename_spec; assumption|].
  split; [assumption|].
  destruct (afind (Tmp t) (d (exec (init old) pre))) as [f|]; [|discriminate].
  match goal with X : _ && _ && _ = true |- _ => rename X into HF end.
  apply andb_true_iff in HF. destruct HF as [HF Hm]. apply andb_true_iff in HF. destruct HF as [Hd Hs].
  apply list_beq_eq in Hd. apply list_beq_eq in Hs. apply N.eqb_eq in Hm.
  split; [|split; assumption].
  destruct f as [fd fm fst]. cbn in Hd, Hs, Hm. subst. reflexivity.
Qed.

(* C04, first sentence: a kill at any instant - between two system calls or inside one,
   after any prefix of a write - leaves the complete old or the complete new contents *)
Theorem monitor_crash_atomic old new tr : atomic_replace_ok old new tr = true ->
  forall s, crash_state (init old) tr s -> read s Live = old \/ read s Live = Some new.
Proof.
  intros H s Hc. destruct (monitor_facts _ _ _ H) as (pre & t & post & -> & Hq & Hf & Hp & _).
  refine (@crash_atomic (init old) pre post t old new (init_live old) Hq _ Hp s Hc).
  unfold FS.read. rewrite Hf. reflexivity.
Qed.

(* a completed save leaves exactly the new contents, owner-only *)
Theorem monitor_completes old new tr : atomic_replace_ok old new tr = true ->
  afind Live (d (exec (init old) tr)) = Some (new_file new).
Proof.
  intro H. destruct (monitor_facts _ _ _ H) as (pre & t & post & -> & Hq & Hf & Hp & _).
  destruct (@crash_record _ _ _ _ _ Hq Hf Hp (exec (init old) (pre ++ Rename (Tmp t) Live :: post))) as [E|E].
  - rewrite <- (firstn_all (pre ++ Rename (Tmp t) Live :: post)) at 2. constructor.
  - (* impossible branch: the whole trace includes the rename *)
    replace (pre ++ Rename (Tmp t) Live :: post) with ((pre ++ [Rename (Tmp t) Live]) ++ post) in *
      by (rewrite <- app_assoc; reflexivity).
    rewrite exec_app. rewrite quiet_preserves by assumption.
    rewrite exec_app. cbn [FS.exec fold_left FS.exec1]. fold (exec (init old) pre). rewrite Hf. cbn [d].
    apply afind_aupd_eq.
  - exact E.
Qed.

(* C04, last sentence (power-loss reading): at every instant, whatever the live path holds
   is entirely on stable storage - the new contents were flushed before they became visible *)
Theorem monitor_flushed_before_visible old new tr : atomic_replace_ok old new tr = true ->
  forall s, crash_state (init old) tr s ->
  forall f, afind Live (d s) = Some f -> stable f = data f /\ mode f = 384.
Proof.
  intros H s Hc f Hf. destruct (monitor_facts _ _ _ H) as (pre & t & post & -> & Hq & Hn & Hp & _).
  destruct (@crash_record _ _ _ _ _ Hq Hn Hp _ Hc) as [E|E]; rewrite E in Hf.
  - destruct old as [o|]; cbn in Hf; [|discriminate]. injection Hf as <-. split; reflexivity.
  - injection Hf as <-. split; reflexivity.
Qed.

(* C04, last sentence: the live file is never written in place - the only operation of the
   trace that can alter the live path is the rename of the temporary onto it *)
Theorem monitor_never_in_place old new tr : atomic_replace_ok old new tr = true ->
  forall k o, nth_error tr k = Some o -> touches_live (exec (init old) (firstn k tr)) o = true ->
  exists t, o = Rename (Tmp t) Live.
Proof.
  intros H k o E T. destruct (monitor_facts _ _ _ H) as (pre & t & post & -> & Hq & Hn & Hp & _).
  destruct (Nat.lt_ge_cases k (length pre)) as [Hk|Hk].
  - rewrite nth_error_app1 in E by assumption.
    rewrite firstn_app in T. replace (k - length pre)%nat with 0%nat in T by lia. cbn [firstn] in T. rewrite app_nil_r in T.
    rewrite (@quiet_nth _ _ _ _ Hq E) in T. discriminate.
  - rewrite nth_error_app2 in E by assumption.
    destruct (k - length pre)%nat as [|j] eqn:Ej; cbn [nth_error] in E.
    + injection E as <-. exists t. reflexivity.
    + replace (pre ++ Rename (Tmp t) Live :: post) with ((pre ++ [Rename (Tmp t) Live]) ++ post) in T
        by (rewrite <- app_assoc; reflexivity).
      rewrite firstn_app in T. rewrite firstn_all2 in T by (rewrite app_length; cbn; lia).
      rewrite app_length in T. cbn [length] in T. replace (k - (length pre + 1))%nat with j in T by lia.
      rewrite exec_app in T. rewrite (@quiet_nth _ _ _ _ Hp E) in T. discriminate.
Qed.

(* ---- a save that reported an error ---- *)
Theorem error_atomic old tr : error_ok old tr = true ->
  (forall s, crash_state (init old) tr s -> read s Live = old)
  /\ (forall t, afind (Tmp t) (d (exec (init old) tr)) = None).
Proof.
  unfold FS.error_ok. intro H. apply andb_true_iff in H. destruct H as [H Ht].
  apply andb_true_iff in H. destruct H as [Hq _]. split.
  - intros s Hc. unfold FS.read. inversion Hc as [k|k o o' E P]; subst.
    + rewrite quiet_preserves by (apply quiet_firstn; assumption). apply init_live.
    + pose proof (@quiet_nth _ _ _ _ Hq E) as T. rewrite <- (partial_touch _ P) in T.
      rewrite exec1_untouched by exact T.
      rewrite quiet_preserves by (apply quiet_firstn; assumption). apply init_live.
  - intro t. destruct (afind (Tmp t) (d (exec (init old) tr))) as [f|] eqn:F; [|reflexivity].
    apply afind_In in F. rewrite forallb_forall in Ht. apply Ht in F. cbn in F. discriminate.
Qed.

(* ---- the model of atomicfile.WriteFile meets the monitors under every single fault ---- *)
Lemma list_beq_refl a : list_beq a a = true.
Proof. apply list_beq_eq. reflexivity. Qed.

Theorem write_file_sound fd t bytes fail partial old :
  let '(tr, ok) := write_file fd t bytes fail partial in
  if ok then atomic_replace_ok old bytes tr = true else error_ok old tr = true.
Proof.
  destruct old as [o|]; destruct fail as [[| | | | | | |]|];
    unfold FS.write_file, FS.atomic_replace_ok, FS.error_ok;
    repeat (cbn; unfold FS.on_fd, FS.fd_is_live; cbn; rewrite ?N.eqb_refl, ?list_beq_refl); reflexivity.
Qed.

End FSProofs.
