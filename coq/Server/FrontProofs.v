(* The front door composed with the access decision: what a reply can tell a caller, and what a request
   can change, is bounded by the grants of the identity the tailnet reports for the request's source
   address.  (Http.v's gate + DB.v's check, composed; C08 and C01 each state one half.) *)
From Coq Require Import List Bool NArith Lia.
Import ListNotations.
From Setec Require Import Base.SMap Acl.Glob Server.KV Server.KVProofs Server.DB Server.DBFacts Server.DBProofs Server.Http Server.HttpProofs.
Set Implicit Arguments.
Open Scope N_scope.

Section Front.
Variable V : Type.
Variable veqb : V -> V -> bool.

Notation request := (request V).
Notation http_step := (http_step veqb).

(* statuses that say something about the store: a result, "not modified", "no such secret/version" *)
Definition informative (st : N) : bool := (st =? 200) || (st =? 304) || (st =? 404).

Lemma respond_informative (r : result V) :
  informative (status (respond r)) = true -> r <> RDenied /\ r <> ROther.
Proof. destruct r; cbn; intro H; try discriminate; split; discriminate. Qed.

Lemma reject_status (rq : request) st : gate rq = Reject st -> st = 400 \/ st = 403 \/ st = 500.
Proof.
  unfold Http.gate. destruct (is_api (rq_endpoint rq)).
  - unfold api_gate. destruct (rq_meth rq); try (intro H; injection H as <-; auto).
    destruct (rq_ctype rq); try (intro H; injection H as <-; auto).
    destruct (rq_hdr rq); try (intro H; injection H as <-; auto).
    destruct (identity (rq_addr_ok rq) (rq_whois rq)); try (intro H; injection H as <-; auto).
    destruct (decode (rq_endpoint rq) (rq_body rq) (rq_empty rq)); try discriminate; intro H; injection H as <-; auto.
  - unfold html_gate. destruct (rq_meth rq); try (intro H; injection H as <-; auto).
    destruct (identity (rq_addr_ok rq) (rq_whois rq)); try discriminate; intro H; injection H as <-; auto.
Qed.

(* Any request - API endpoint or listing page, whatever its method, headers, body - that gets an
   informative reply, or changes the stored state, or causes a save, was accepted by the gate for the
   caller the identity function derives from the tailnet's answer, and that caller holds the action the
   operation needs on exactly the name it names. *)
Theorem front_requires_grant ev (s : dbstate V) (rq : request) s' rsp fx :
  http_step ev s rq = (s', rsp, fx) ->
  (informative (status rsp) = true \/ kv s' <> kv s \/ has_save fx = true) ->
  exists c q, gate rq = Accept c q
    /\ identity (rq_addr_ok rq) (rq_whois rq) = Some c
    /\ (forall a, need (dispatch q) = Some a -> allow (rules c) a (target (dispatch q)) = true).
Proof.
  unfold Http.http_step. destruct (gate rq) as [st|c q] eqn:G.
  - intro H; injection H as <- <- <-. intros [H|[H|H]]; [|contradiction H; reflexivity|discriminate].
    exfalso. cbn [status] in H.
    destruct (reject_status _ G) as [E|[E|E]]; subst st; discriminate H.
  - destruct (db_step veqb ev s c (dispatch q)) as [[s1 r] fx1] eqn:D. intro H; injection H as <- <- <-.
    intro Obs. exists c, q. split; [reflexivity|]. split.
    + unfold Http.gate in G. destruct (is_api (rq_endpoint rq)).
      * unfold api_gate in G. destruct (rq_meth rq); try discriminate. destruct (rq_ctype rq); try discriminate.
        destruct (rq_hdr rq); try discriminate.
        destruct (identity (rq_addr_ok rq) (rq_whois rq)) as [c'|]; try discriminate.
        destruct (decode (rq_endpoint rq) (rq_body rq) (rq_empty rq)); try discriminate. injection G as <- _. reflexivity.
      * unfold html_gate in G. destruct (rq_meth rq); try discriminate.
        destruct (identity (rq_addr_ok rq) (rq_whois rq)) as [c'|]; try discriminate. injection G as <- _. reflexivity.
    + intros a Na. destruct (allow (rules c) a (target (dispatch q))) eqn:A; [reflexivity|exfalso].
      destruct (@denied_refused V veqb ev s c (dispatch q) a s1 r fx1 Na A D) as (Hr & Hk & _ & Hs & _).
      destruct Obs as [H|[H|H]].
      * apply respond_informative in H. destruct H as [H1 H2]. destruct (wellformed (dispatch q)); congruence.
      * contradiction.
      * congruence.
Qed.

(* The converse direction for refusals: a caller that holds no grant for the operation gets the same
   reply whatever the store contains - the reply cannot be used to probe for existence or versions. *)
Theorem front_refusal_blind ev1 ev2 (s1 s2 : dbstate V) (rq : request) c q a :
  gate rq = Accept c q -> need (dispatch q) = Some a -> allow (rules c) a (target (dispatch q)) = false ->
  snd (fst (http_step ev1 s1 rq)) = snd (fst (http_step ev2 s2 rq)).
Proof.
  intros G Na A. unfold Http.http_step. rewrite G.
  pose proof (@denied_blind V veqb ev1 ev2 s1 s2 c (dispatch q) a Na A) as H.
  destruct (db_step veqb ev1 s1 c (dispatch q)) as [[x1 r1] f1].
  destruct (db_step veqb ev2 s2 c (dispatch q)) as [[x2 r2] f2]. cbn in *. subst. reflexivity.
Qed.

(* Every reply that carries data - a value, metadata, a version number, a listing, the HTML page - was
   preceded by one complete audit record naming the caller the front door identified, the action, the
   secret and the version asked for, authorized = true; nothing but the save may follow it.  (C06's
   record-before-disclosure clause, stated at the wire.) *)
Theorem front_value_logged ev (s : dbstate V) (rq : request) s' rsp fx r :
  http_step ev s rq = (s', rsp, fx) -> rb rsp = BodyResult r -> carries_data r = true ->
  exists c q post, gate rq = Accept c q
    /\ fx = EAudit (the_entry c (dispatch q) (act_of (dispatch q)) true) :: post
    /\ (post = [] \/ post = [ESave]).
Proof.
  unfold Http.http_step. destruct (gate rq) as [st|c q] eqn:G.
  - intro H; injection H as _ <- _. discriminate.
  - destruct (db_step veqb ev s c (dispatch q)) as [[s1 r0] fx1] eqn:D. intro H; injection H as _ <- <-.
    intros B C. assert (r0 = r) by (destruct r0; cbn in B; try discriminate; injection B as <-; reflexivity). subst r0.
    destruct (@value_implies_logged V veqb ev s c (dispatch q) s1 r fx1 D C) as (post & -> & P).
    exists c, q, post. auto.
Qed.

(* ... and a request refused for lack of permission (403) left its record, authorized = false, unless the
   sink itself failed *)
Theorem front_denial_logged ev (s : dbstate V) (rq : request) c q s' rsp fx :
  gate rq = Accept c q -> http_step ev s rq = (s', rsp, fx) -> status rsp = 403 ->
  fx = [EAudit (the_entry c (dispatch q) (act_of (dispatch q)) false)] \/ audit_failed fx = true.
Proof.
  intros G. unfold Http.http_step. rewrite G.
  destruct (db_step veqb ev s c (dispatch q)) as [[s1 r0] fx1] eqn:D. intro H; injection H as _ <- <-.
  intro St. assert (r0 = RDenied) by (destruct r0; cbn in St; try discriminate; reflexivity). subst r0.
  exact (@denial_logged V veqb ev s c (dispatch q) s1 fx1 D).
Qed.

End Front.
