(* Model of the HTTP front door (server/server.go: serveJSON, getIdentity, the
   get dispatch, the error -> status map) and of the client's status -> sentinel
   map (client/setec/client.go: do, Get, GetIfChanged) and of FileClient.
   Executable definitions only. *)
From Coq Require Import List Bool NArith.
Import ListNotations.
From Setec Require Import Base.SMap Acl.Glob Server.KV Server.DB.
Set Implicit Arguments.
Open Scope N_scope.

Section Http.
Variable V : Type.
Variable veqb : V -> V -> bool.

Inductive meth := MPost | MGet | MPut | MDelete | MHead | MOtherMeth.
Inductive ctype := CTJson | CTOther.           (* exactly "application/json", or anything else incl. absent / with parameters *)
Inductive nbhdr := HSetec | HOther.            (* Sec-X-Tailscale-No-Browsers: exactly "setec", or anything else incl. absent *)
Inductive endpoint := EList | EGet | EInfo | EPut | EActivate | EDelete | EDeleteVersion
| EHtml.   (* not an API endpoint: the HTML listing that the mux serves on "/" and on every path no API route matches *)

(* one capability entry of the WhoIs answer's CapMap *)
Inductive capval :=
| CapAbsent                         (* key not present *)
| CapRules (rs : list rule)         (* present, every element decodes as a rule (possibly none) *)
| CapMalformed.                     (* present, some element does not decode *)

Record whois := {
  w_fail : bool;                    (* the lookup itself failed *)
  w_tags : option N;                (* Some id: the node is tagged (id of the tag set) *)
  w_login : option N;               (* Some id: non-empty login name *)
  w_cap_bare : capval;              (* "tailscale.com/cap/secrets" *)
  w_cap_https : capval              (* "https://tailscale.com/cap/secrets" *)
}.

(* api request types, one per endpoint *)
Inductive apireq :=
| QList
| QGet (n : name) (v : N) (upd : bool)
| QInfo (n : name)
| QPut (n : name) (b : V)
| QActivate (n : name) (v : N)
| QDelete (n : name)
| QDeleteVersion (n : name) (v : N).

Inductive body :=
| BInvalid                          (* not JSON, truncated, wrong types, out-of-range numbers, empty *)
| BNull                             (* JSON null: decodes to the zero request *)
| BObj (q : apireq).                (* an object (extra fields are ignored) *)

Record request := {
  rq_endpoint : endpoint;
  rq_meth : meth;
  rq_ctype : ctype;
  rq_hdr : nbhdr;
  rq_addr_ok : bool;                (* RemoteAddr parses as ip:port *)
  rq_whois : whois;
  rq_body : body;
  rq_empty : V                      (* the empty byte string, for zero requests *)
}.

Inductive rbody :=
| BodyConst                         (* one of the fixed constant error strings *)
| BodyEmpty
| BodyResult (r : result V).        (* JSON encoding of the result *)

Record response := { status : N; rb : rbody }.

(* getIdentity *)
Definition identity (addr_ok : bool) (w : whois) : option caller :=
  if negb addr_ok then None else
  if w_fail w then None else
  match (match w_tags w with Some t => Some t | None => w_login w end) with
  | None => None
  | Some pid =>
      match w_cap_bare w with
      | CapMalformed => None
      | CapRules (r :: rs) => Some {| principal := pid; rules := r :: rs |}
      | CapRules [] | CapAbsent =>
          match w_cap_https w with
          | CapMalformed => None
          | CapRules rs => Some {| principal := pid; rules := rs |}
          | CapAbsent => Some {| principal := pid; rules := [] |}
          end
      end
  end.

Definition zero_req (e : endpoint) (empty : V) : apireq :=
  match e with
  | EList => QList
  | EGet => QGet [] 0 false
  | EInfo => QInfo []
  | EPut => QPut [] empty
  | EActivate => QActivate [] 0
  | EDelete => QDelete []
  | EDeleteVersion => QDeleteVersion [] 0
  | EHtml => QList
  end.

Definition endpoint_of (q : apireq) : endpoint :=
  match q with
  | QList => EList | QGet _ _ _ => EGet | QInfo _ => EInfo | QPut _ _ => EPut
  | QActivate _ _ => EActivate | QDelete _ => EDelete | QDeleteVersion _ _ => EDeleteVersion
  end.

Definition endpoint_eqb (a b : endpoint) : bool :=
  match a, b with
  | EList, EList | EGet, EGet | EInfo, EInfo | EPut, EPut | EActivate, EActivate
  | EDelete, EDelete | EDeleteVersion, EDeleteVersion | EHtml, EHtml => true
  | _, _ => false
  end.

Definition is_api (e : endpoint) : bool := match e with EHtml => false | _ => true end.

(* json decoding of the body into the endpoint's request type *)
Definition decode (e : endpoint) (b : body) (empty : V) : option apireq :=
  match b with
  | BInvalid => None
  | BNull => Some (zero_req e empty)
  | BObj q => if endpoint_eqb (endpoint_of q) e then Some q else None
  end.

(* the three get variants *)
Definition dispatch (q : apireq) : op V :=
  match q with
  | QList => OList
  | QGet n v upd => if negb (v =? 0) then (if upd then OGetCond n v else OGetVer n v) else OGet n
  | QInfo n => OInfo n
  | QPut n b => OPut n b
  | QActivate n v => OActivate n v
  | QDelete n => ODel n
  | QDeleteVersion n v => ODelVer n v
  end.

(* error -> status *)
Definition respond (r : result V) : response :=
  match r with
  | RDenied => {| status := 403; rb := BodyConst |}
  | RNotFound => {| status := 404; rb := BodyConst |}
  | RNotChanged => {| status := 304; rb := BodyEmpty |}
  | ROther => {| status := 500; rb := BodyConst |}
  | ok => {| status := 200; rb := BodyResult ok |}
  end.

Inductive gate_result :=
| Reject (st : N)
| Accept (c : caller) (q : apireq).

(* the HTML listing (htmlList): GET only; no content-type or header requirement (it is meant for browsers);
   the body is ignored; the caller is identified exactly as for the API; the page is db.List for that caller *)
Definition html_gate (rq : request) : gate_result :=
  match rq_meth rq with
  | MGet =>
      match identity (rq_addr_ok rq) (rq_whois rq) with
      | None => Reject 500
      | Some c => Accept c QList
      end
  | _ => Reject 400
  end.

Definition api_gate (rq : request) : gate_result :=
  match rq_meth rq with
  | MPost =>
      match rq_ctype rq with
      | CTJson =>
          match rq_hdr rq with
          | HSetec =>
              match identity (rq_addr_ok rq) (rq_whois rq) with
              | None => Reject 500
              | Some c =>
                  match decode (rq_endpoint rq) (rq_body rq) (rq_empty rq) with
                  | None => Reject 400
                  | Some q => Accept c q
                  end
              end
          | HOther => Reject 403
          end
      | CTOther => Reject 400
      end
  | _ => Reject 400
  end.

Definition gate (rq : request) : gate_result :=
  if is_api (rq_endpoint rq) then api_gate rq else html_gate rq.

Definition http_step (ev : env) (s : dbstate V) (rq : request) : dbstate V * response * list effect :=
  match gate rq with
  | Reject st => (s, {| status := st; rb := BodyConst |}, [])
  | Accept c q =>
      let '(s', r, fx) := db_step veqb ev s c (dispatch q) in
      (s', respond r, fx)
  end.

(* ---- the network client: status -> sentinel ---- *)
Inductive cres :=
| CResult (r : result V)      (* decoded 200 body *)
| CNotChanged | CNotFound | CDenied
| COtherErr.

Definition client_of_response (rsp : response) : cres :=
  if status rsp =? 200 then match rb rsp with BodyResult r => CResult r | _ => COtherErr end
  else if status rsp =? 404 then CNotFound
  else if status rsp =? 403 then CDenied
  else if status rsp =? 304 then CNotChanged
  else COtherErr.

(* Client.GetIfChanged: old version 0 behaves as Get *)
Definition client_getifchanged_req (n : name) (old : N) : apireq :=
  if old =? 0 then QGet n 0 false else QGet n old true.

(* ---- FileClient: a static map name -> (version, bytes) ---- *)
Definition fc_get (db : @smap name (N * V)) (n : name) : cres :=
  match find n db with
  | Some (ver, b) => CResult (RVal ver b)
  | None => CNotFound
  end.

Definition fc_getifchanged (db : @smap name (N * V)) (n : name) (old : N) : cres :=
  match find n db with
  | None => CNotFound
  | Some (ver, b) => if ver =? old then CNotChanged else CResult (RVal ver b)
  end.

End Http.

Arguments QList {V}. Arguments QGet {V}. Arguments QInfo {V}. Arguments QActivate {V}.
Arguments QDelete {V}. Arguments QDeleteVersion {V}.
Arguments BInvalid {V}. Arguments BNull {V}.
Arguments BodyConst {V}. Arguments BodyEmpty {V}.
Arguments CNotChanged {V}. Arguments CNotFound {V}. Arguments CDenied {V}. Arguments COtherErr {V}.
Arguments Reject {V}.
