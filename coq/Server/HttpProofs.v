(* Proofs about the HTTP front door model (C08) and the client surfaces (C09). *)
From Coq Require Import List Bool NArith Lia.
Import ListNotations.
From Setec Require Import Base.SMap Acl.Glob Server.KV Server.KVProofs Server.DB Server.DBFacts Server.DBProofs Server.Http.
Set Implicit Arguments.
Open Scope N_scope.

Section HttpProofs.
Variable V : Type.
Variable veqb : V -> V -> bool.

Notation request := (request V).
Notation gate := (@gate V).
Notation http_step := (http_step veqb).

(* a request is accepted only if it passed every gate *)
Theorem gate_sound (rq : request) c q : is_api (rq_endpoint rq) = true -> gate rq = Accept c q ->
  rq_meth rq = MPost /\ rq_ctype rq = CTJson /\ rq_hdr rq = HSetec
  /\ identity (rq_addr_ok rq) (rq_whois rq) = Some c
  /\ decode (rq_endpoint rq) (rq_body rq) (rq_empty rq) = Some q.
Proof.
  unfold Http.gate. intros ->. unfold api_gate.
  destruct (rq_meth rq); try discriminate. destruct (rq_ctype rq); try discriminate.
  destruct (rq_hdr rq); try discriminate.
  destruct (identity (rq_addr_ok rq) (rq_whois rq)) as [c'|]; try discriminate.
  destruct (decode (rq_endpoint rq) (rq_body rq) (rq_empty rq)) as [q'|]; try discriminate.
  intro H; injection H as <- <-. auto.
Qed.

(* and conversely: any failing gate rejects *)
Theorem gate_complete (rq : request) : is_api (rq_endpoint rq) = true ->
  (rq_meth rq <> MPost \/ rq_ctype rq <> CTJson \/ rq_hdr rq <> HSetec
   \/ identity (rq_addr_ok rq) (rq_whois rq) = None
   \/ decode (rq_endpoint rq) (rq_body rq) (rq_empty rq) = None) ->
  exists st, gate rq = Reject st.
Proof.
  unfold Http.gate. intros -> H. unfold api_gate.
  destruct (rq_meth rq); try (eexists; reflexivity).
  destruct (rq_ctype rq); try (eexists; reflexivity).
  destruct (rq_hdr rq); try (eexists; reflexivity).
  destruct (identity (rq_addr_ok rq) (rq_whois rq)); try (eexists; reflexivity).
  destruct (decode (rq_endpoint rq) (rq_body rq) (rq_empty rq)); try (eexists; reflexivity).
  destruct H as [H|[H|[H|[H|H]]]]; try discriminate; contradiction H; reflexivity.
Qed.

(* a rejected request: non-2xx status, constant body, never reaches the store *)
Theorem reject_inert ev (s : dbstate V) (rq : request) st : gate rq = Reject st ->
  400 <= st < 600 /\ http_step ev s rq = (s, {| status := st; rb := BodyConst |}, []).
Proof.
  intro G. unfold Http.http_step. rewrite G. split; [|reflexivity].
  unfold Http.gate in G. destruct (is_api (rq_endpoint rq)).
  2:{ unfold html_gate in G. destruct (rq_meth rq); try (injection G as <-; lia).
      destruct (identity (rq_addr_ok rq) (rq_whois rq)); try discriminate; injection G as <-; lia. }
  unfold api_gate in G. destruct (rq_meth rq); try (injection G as <-; lia).
  destruct (rq_ctype rq); try (injection G as <-; lia).
  destruct (rq_hdr rq); try (injection G as <-; lia).
  destruct (identity (rq_addr_ok rq) (rq_whois rq)); try (injection G as <-; lia).
  destruct (decode (rq_endpoint rq) (rq_body rq) (rq_empty rq)); try discriminate; injection G as <-; lia.
Qed.

Definition is_success (r : result V) : bool :=
  match r with RList _ | RInfo _ _ | RVal _ _ | RVer _ | ROk => true | _ => false end.

(* outcome -> status, exactly *)
Theorem status_exact (r : result V) :
  (status (respond r) = 200 <-> is_success r = true)
  /\ (status (respond r) = 304 <-> r = RNotChanged)
  /\ (status (respond r) = 403 <-> r = RDenied)
  /\ (status (respond r) = 404 <-> r = RNotFound)
  /\ (is_success r = true -> rb (respond r) = BodyResult r)
  /\ (r = RNotChanged -> rb (respond r) = BodyEmpty)
  /\ (is_success r = false -> r <> RNotChanged -> rb (respond r) = BodyConst /\ 400 <= status (respond r) < 600).
Proof.
  destruct r; cbn; repeat split; intros; try discriminate; try reflexivity; try lia; try congruence.
Qed.

(* an accepted request is exactly the database call of the identified caller *)
Theorem accepted_is_db_call ev (s : dbstate V) (rq : request) c q s' r fx :
  gate rq = Accept c q -> db_step veqb ev s c (dispatch q) = (s', r, fx) ->
  http_step ev s rq = (s', respond r, fx).
Proof. intros G H. unfold Http.http_step. rewrite G, H. reflexivity. Qed.

(* no reply other than 200 carries a result (hence no secret bytes) *)
Theorem no_secret_in_errors ev (s : dbstate V) (rq : request) s' rsp fx :
  http_step ev s rq = (s', rsp, fx) -> status rsp <> 200 -> rb rsp = BodyConst \/ rb rsp = BodyEmpty.
Proof.
  unfold Http.http_step. destruct (gate rq) as [st|c q].
  - intro H; injection H as _ <- _. auto.
  - destruct (db_step veqb ev s c (dispatch q)) as [[s1 r] fx1]. intro H; injection H as _ <- _.
    destruct r; cbn; auto; intro N; contradiction N; reflexivity.
Qed.

(* ---------- the HTML listing ---------- *)
(* the page is served only to a GET from an identified caller, and is then exactly that caller's List call *)
Theorem html_gate_exact (rq : request) c q : rq_endpoint rq = EHtml ->
  (gate rq = Accept c q <->
   rq_meth rq = MGet /\ identity (rq_addr_ok rq) (rq_whois rq) = Some c /\ q = QList).
Proof.
  intro E. unfold Http.gate. rewrite E. cbn [is_api]. unfold html_gate.
  destruct (rq_meth rq); try (split; [discriminate|intros (Q & _); discriminate]).
  destruct (identity (rq_addr_ok rq) (rq_whois rq)) as [c'|].
  - split; [intro H; injection H as <- <-; auto|intros (_ & Q & ->); injection Q as <-; reflexivity].
  - split; [discriminate|intros (_ & Q & _); discriminate].
Qed.

Theorem html_is_list ev (s : dbstate V) (rq : request) c :
  rq_endpoint rq = EHtml -> rq_meth rq = MGet -> identity (rq_addr_ok rq) (rq_whois rq) = Some c ->
  http_step ev s rq = (let '(s', r, fx) := db_step veqb ev s c OList in (s', respond r, fx)).
Proof.
  intros E M I. unfold Http.http_step, Http.gate. rewrite E. cbn [is_api]. unfold html_gate. rewrite M, I.
  reflexivity.
Qed.

(* identity, exactly *)
Theorem identity_exact addr_ok (w : whois) c : identity addr_ok w = Some c <->
  addr_ok = true /\ w_fail w = false
  /\ (exists pid, (w_tags w = Some pid \/ (w_tags w = None /\ w_login w = Some pid)) /\ principal c = pid)
  /\ ((exists r rs, w_cap_bare w = CapRules (r :: rs) /\ rules c = r :: rs)
      \/ ((w_cap_bare w = CapAbsent \/ w_cap_bare w = CapRules [])
          /\ ((exists rs, w_cap_https w = CapRules rs /\ rules c = rs)
              \/ (w_cap_https w = CapAbsent /\ rules c = [])))).
Proof.
  unfold identity. destruct addr_ok; cbn [negb]; [|split; [discriminate|intros (Q & _); discriminate]].
  destruct (w_fail w); [split; [discriminate|intros (_ & Q & _); discriminate]|].
  destruct c as [p rs0]. cbn [principal rules].
  destruct (w_tags w) as [t|]; [|destruct (w_login w) as [l|]].
  3:{ split; [discriminate|]. intros (_ & _ & (pid & [Q|[_ Q]] & _) & _); discriminate. }
  all: destruct (w_cap_bare w) as [|[|r rs]|]; try destruct (w_cap_https w) as [|rs'|];
    (split; [intro H; try discriminate H; injection H as <- <-; repeat split; eauto 12
            | intros (_ & _ & (pid & [Q|[Q1 Q]] & <-) & R); try discriminate; injection Q as <-;
              destruct R as [(r0 & rs1 & E & ->)|([E|E] & [(rs1 & E2 & ->)|(E2 & ->)])]; try discriminate;
              try (injection E as <- <-); try (injection E2 as <-); reflexivity]).
Qed.

(* deleting an absent secret succeeds (200) for a caller allowed to delete *)
Theorem delete_absent_ok (s : dbstate V) c (n : name) :
  allow (rules c) ADelete n = true -> reserved n = false -> find n (kv s) = None -> audit_dead s = false ->
  exists fx, db_step veqb {| save_ok := true; audit := AOk |} s c (ODel n) = (s, ROk, fx).
Proof.
  intros A R F D. cbn [DB.db_step]. unfold check_and_log, audit_write. rewrite D, A. cbn [audit negb].
  rewrite R. unfold kv_delete_secret. rewrite F. unfold mutate. cbn.
  destruct s as [k g d]. cbn in *. subst d. replace (g + 0) with g by lia. eexists. reflexivity.
Qed.

(* ---------- C09: what the clients surface ---------- *)
Theorem client_surface (r : result V) :
  client_of_response (respond r) =
  match r with
  | RNotChanged => CNotChanged
  | RNotFound => CNotFound
  | RDenied => CDenied
  | ROther => COtherErr
  | ok => CResult ok
  end.
Proof. destruct r; reflexivity. Qed.

(* Client.GetIfChanged sends a conditional get unless the old version is 0 *)
Theorem client_getifchanged_dispatch (n : name) old :
  dispatch (@client_getifchanged_req V n old) = (if old =? 0 then OGet n else OGetCond n old).
Proof. unfold client_getifchanged_req. destruct (old =? 0) eqn:E; cbn; rewrite ?E; reflexivity. Qed.

Theorem fileclient_spec (db : @smap name (N * V)) (n : name) old :
  match find n db with
  | None => fc_getifchanged db n old = CNotFound /\ fc_get db n = CNotFound
  | Some (ver, b) =>
      fc_get db n = CResult (RVal ver b) /\
      (ver = old -> fc_getifchanged db n old = CNotChanged) /\
      (ver <> old -> fc_getifchanged db n old = CResult (RVal ver b))
  end.
Proof.
  unfold fc_getifchanged, fc_get. destruct (find n db) as [[ver b]|]; [|auto].
  split; [reflexivity|]. split; intro H.
  - subst. rewrite N.eqb_refl. reflexivity.
  - apply N.eqb_neq in H. rewrite H. reflexivity.
Qed.

End HttpProofs.
