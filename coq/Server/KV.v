(* Model of db/kv.go: the versioned key/value store.  Each mutating operation is
   written as the Go code is: mutate the in-memory maps, call save, and undo the
   mutation if save failed.  The outcome of save is an input ([ok]).  Go maps are
   canonical sorted association lists (Base/SMap.v), so Go's extensional map
   equality is Leibniz equality here.  Executable definitions only. *)
From Coq Require Import List Bool NArith.
Import ListNotations.
From Setec Require Import Base.SMap.
Set Implicit Arguments.
Open Scope N_scope.

Definition name := list N.

Section KV.
Variable V : Type.
Variable veqb : V -> V -> bool.

Record secret := { vers : @smap N V; active : N; latest : N }.
Definition kvs := @smap name secret.

Inductive kres :=
| KVer (v : N)                     (* put: the version assigned / found *)
| KOk                              (* activate, delete-version, delete *)
| KVal (ver : N) (b : V)           (* get, get-version *)
| KInfo (vs : list N) (act : N)    (* info *)
| KNotFound
| KInvalid                         (* version 0 *)
| KActiveDel                       (* cannot delete active version *)
| KSaveErr                         (* save failed, mutation undone *)
| KUnexpected                      (* active version missing from the map *)
| KNames (l : list name).          (* list *)

(* did the operation call save, and with what outcome *)
Inductive saved := NoSave | Saved | SaveFailed.

Definition sv (ok : bool) : saved := if ok then Saved else SaveFailed.

Definition kv_list (s : kvs) : list name := map fst s.

Definition kv_info (s : kvs) (n : name) : kres :=
  match find n s with
  | None => KNotFound
  | Some x => KInfo (map fst (vers x)) (active x)
  end.

Definition kv_get (s : kvs) (n : name) : kres :=
  match find n s with
  | None => KNotFound
  | Some x => match find (active x) (vers x) with
              | Some b => KVal (active x) b
              | None => KUnexpected
              end
  end.

Definition kv_get_version (s : kvs) (n : name) (v : N) : kres :=
  match find n s with
  | None => KNotFound
  | Some x => match find v (vers x) with
              | Some b => KVal v b
              | None => KNotFound
              end
  end.

(* kv.put (with the F1 repair: the latest version must still exist for the
   de-duplication short-cut to apply) *)
Definition kv_put (ok : bool) (s : kvs) (n : name) (b : V) : kvs * kres * saved :=
  match find n s with
  | None =>
      let s1 := upd n {| vers := [(1, b)]; active := 1; latest := 1 |} s in
      if ok then (s1, KVer 1, Saved) else (del n s1, KSaveErr, SaveFailed)
  | Some x =>
      let dedupe := match find (latest x) (vers x) with Some cur => veqb cur b | None => false end in
      if dedupe then (s, KVer (latest x), NoSave)
      else
        let x1 := {| vers := upd (latest x + 1) b (vers x); active := active x; latest := latest x + 1 |} in
        let s1 := upd n x1 s in
        if ok then (s1, KVer (latest x1), Saved)
        else (upd n {| vers := del (latest x1) (vers x1); active := active x1; latest := latest x1 - 1 |} s1,
              KSaveErr, SaveFailed)
  end.

Definition kv_set_active (ok : bool) (s : kvs) (n : name) (v : N) : kvs * kres * saved :=
  if v =? 0 then (s, KInvalid, NoSave) else
  match find n s with
  | None => (s, KNotFound, NoSave)
  | Some x =>
    match find v (vers x) with
    | None => (s, KNotFound, NoSave)
    | Some _ =>
      if active x =? v then (s, KOk, NoSave) else
      let s1 := upd n {| vers := vers x; active := v; latest := latest x |} s in
      if ok then (s1, KOk, Saved)
      else (upd n {| vers := vers x; active := active x; latest := latest x |} s1, KSaveErr, SaveFailed)
    end
  end.

Definition kv_delete_version (ok : bool) (s : kvs) (n : name) (v : N) : kvs * kres * saved :=
  if v =? 0 then (s, KInvalid, NoSave) else
  match find n s with
  | None => (s, KNotFound, NoSave)
  | Some x =>
    if v =? active x then (s, KActiveDel, NoSave) else
    match find v (vers x) with
    | None => (s, KNotFound, NoSave)
    | Some old =>
      let x1 := {| vers := del v (vers x); active := active x; latest := latest x |} in
      let s1 := upd n x1 s in
      if ok then (s1, KOk, Saved)
      else (upd n {| vers := upd v old (vers x1); active := active x1; latest := latest x1 |} s1,
            KSaveErr, SaveFailed)
    end
  end.

Definition kv_delete_secret (ok : bool) (s : kvs) (n : name) : kvs * kres * saved :=
  match find n s with
  | None => (s, KOk, NoSave)
  | Some x =>
    let s1 := del n s in
    if ok then (s1, KOk, Saved) else (upd n x s1, KSaveErr, SaveFailed)
  end.

(* ---- all operations as one step function ---- *)
Inductive kop :=
| KPut (n : name) (b : V)
| KSetActive (n : name) (v : N)
| KDelVer (n : name) (v : N)
| KDel (n : name)
| KGet (n : name)
| KGetVer (n : name) (v : N)
| KInfoOp (n : name)
| KListOp.

Definition kv_step (ok : bool) (s : kvs) (o : kop) : kvs * kres * saved :=
  match o with
  | KPut n b => kv_put ok s n b
  | KSetActive n v => kv_set_active ok s n v
  | KDelVer n v => kv_delete_version ok s n v
  | KDel n => kv_delete_secret ok s n
  | KGet n => (s, kv_get s n, NoSave)
  | KGetVer n v => (s, kv_get_version s n v, NoSave)
  | KInfoOp n => (s, kv_info s n, NoSave)
  | KListOp => (s, KNames (kv_list s), NoSave)
  end.

Definition ktarget (o : kop) : option name :=
  match o with
  | KPut n _ | KSetActive n _ | KDelVer n _ | KDel n | KGet n | KGetVer n _ | KInfoOp n => Some n
  | KListOp => None
  end.

Fixpoint kv_run (s : kvs) (h : list (bool * kop)) : kvs * list (kres * saved) :=
  match h with
  | [] => (s, [])
  | (ok, o) :: h' =>
      let '(s1, r, sv) := kv_step ok s o in
      let '(s2, rs) := kv_run s1 h' in
      (s2, (r, sv) :: rs)
  end.

(* ---- the sequential specification, in the words of the property: a plain map
   from names to (versions, active, last number assigned); no mutate/undo ---- *)
Definition spec_step (s : kvs) (o : kop) : kvs * kres :=
  match o with
  | KPut n b =>
      match find n s with
      | None => (upd n {| vers := [(1, b)]; active := 1; latest := 1 |} s, KVer 1)   (* first put: version 1, active *)
      | Some x =>
          match find (latest x) (vers x) with
          | Some cur => if veqb cur b then (s, KVer (latest x))                         (* same bytes as the most recent, still existing *)
                        else (upd n {| vers := upd (latest x + 1) b (vers x); active := active x; latest := latest x + 1 |} s,
                              KVer (latest x + 1))
          | None => (upd n {| vers := upd (latest x + 1) b (vers x); active := active x; latest := latest x + 1 |} s,
                     KVer (latest x + 1))
          end
      end
  | KSetActive n v =>
      if v =? 0 then (s, KInvalid) else
      match find n s with
      | None => (s, KNotFound)
      | Some x => match find v (vers x) with
                  | None => (s, KNotFound)
                  | Some _ => (upd n {| vers := vers x; active := v; latest := latest x |} s, KOk)
                  end
      end
  | KDelVer n v =>
      if v =? 0 then (s, KInvalid) else
      match find n s with
      | None => (s, KNotFound)
      | Some x => if v =? active x then (s, KActiveDel) else
                  match find v (vers x) with
                  | None => (s, KNotFound)
                  | Some _ => (upd n {| vers := del v (vers x); active := active x; latest := latest x |} s, KOk)
                  end
      end
  | KDel n => (del n s, KOk)
  | KGet n => (s, kv_get s n)
  | KGetVer n v => (s, kv_get_version s n v)
  | KInfoOp n => (s, kv_info s n)
  | KListOp => (s, KNames (kv_list s))
  end.

End KV.

Arguments KVer {V}. Arguments KOk {V}. Arguments KNotFound {V}. Arguments KInvalid {V}.
Arguments KActiveDel {V}. Arguments KSaveErr {V}. Arguments KUnexpected {V}. Arguments KInfo {V}. Arguments KNames {V}.
Arguments KSetActive {V}. Arguments KDelVer {V}. Arguments KDel {V}. Arguments KGet {V}. Arguments KGetVer {V}.
Arguments KInfoOp {V}. Arguments KListOp {V}.
