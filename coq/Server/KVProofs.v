(* Proofs about the model of db/kv.go (properties C02, C04-rollback; used by C01,
   C03, C06, C09). *)
From Coq Require Import List Bool NArith Lia.
Import ListNotations.
From Setec Require Import Base.SMap Server.KV.
Set Implicit Arguments.
Open Scope N_scope.

Section KVProofs.
Variable V : Type.
Variable veqb : V -> V -> bool.
Hypothesis veqb_spec : forall a b, veqb a b = true <-> a = b.

Notation kvs := (kvs V).
Notation secret := (secret V).
Notation kv_step := (kv_step veqb).
Notation kv_put := (kv_put veqb).
Notation spec_step := (spec_step veqb).
Notation kv_run := (kv_run veqb).

(* ---- the invariant ---- *)
Definition sec_ok (x : secret) : Prop :=
  sorted (vers x)
  /\ (forall v b, In (v, b) (vers x) -> 1 <= v /\ v <= latest x)
  /\ (exists b, find (active x) (vers x) = Some b).

Definition Inv (s : kvs) : Prop := sorted s /\ forall n x, find n s = Some x -> sec_ok x.

Lemma secret_eta (x : secret) : {| vers := vers x; active := active x; latest := latest x |} = x.
Proof. destruct x; reflexivity. Qed.

Lemma inv_init : Inv [].
Proof. split; [constructor|]. intros n x H; discriminate. Qed.

Lemma name_eq_dec (a b : name) : {a = b} + {a <> b}.
Proof. apply list_eq_dec. apply N.eq_dec. Qed.

Lemma inv_upd s n x : Inv s -> sec_ok x -> Inv (upd n x s).
Proof.
  intros [Ss Hs] Hx. split; [apply sorted_upd; assumption|].
  intros n' x' F. destruct (name_eq_dec n' n) as [->|N].
  - rewrite find_upd_eq in F. injection F as <-. assumption.
  - rewrite find_upd_neq in F by assumption. eauto.
Qed.

Lemma inv_del s n : Inv s -> Inv (del n s).
Proof.
  intros [Ss Hs]. split; [apply sorted_del; assumption|].
  intros n' x' F. destruct (name_eq_dec n' n) as [->|N].
  - rewrite find_del_eq in F by assumption. discriminate.
  - rewrite find_del_neq in F by assumption. eauto.
Qed.

Lemma del_absent (s : kvs) n : sorted s -> find n s = None -> del n s = s.
Proof.
  intros Ss F. apply sorted_ext; [apply sorted_del; assumption|assumption|].
  intro k. destruct (name_eq_dec k n) as [->|N].
  - rewrite find_del_eq by assumption. auto.
  - rewrite find_del_neq by assumption. reflexivity.
Qed.

Lemma sorted_single (k : N) (b : V) : sorted [(k, b)].
Proof. constructor; [intros ? ? []|constructor]. Qed.

Lemma sec_ok_first b : sec_ok {| vers := [(1, b)]; active := 1; latest := 1 |}.
Proof.
  split; [apply sorted_single|]. split.
  - intros v b' [Q|[]]. injection Q as <- <-. cbn. lia.
  - exists b. reflexivity.
Qed.

Lemma sec_ok_put x b : sec_ok x ->
  sec_ok {| vers := upd (latest x + 1) b (vers x); active := active x; latest := latest x + 1 |}.
Proof.
  intros (Sv & Hv & (ab & Ha)). unfold sec_ok. cbn [vers active latest]. split; [apply sorted_upd; assumption|]. split.
  - intros v b' I. apply in_upd in I. destruct I as [[-> ->]|I]; [lia|]. apply Hv in I. lia.
  - exists ab. rewrite find_upd_neq; [assumption|]. apply find_in, Hv in Ha. lia.
Qed.

Lemma sec_ok_active x v b : sec_ok x -> find v (vers x) = Some b ->
  sec_ok {| vers := vers x; active := v; latest := latest x |}.
Proof.
  intros (Sv & Hv & _) F. unfold sec_ok. cbn [vers active latest]. split; [assumption|]. split; [assumption|]. eauto.
Qed.

Lemma sec_ok_delver x v : sec_ok x -> v <> active x ->
  sec_ok {| vers := del v (vers x); active := active x; latest := latest x |}.
Proof.
  intros (Sv & Hv & (ab & Ha)) N. unfold sec_ok. cbn [vers active latest]. split; [apply sorted_del; assumption|]. split.
  - intros v' b' I. apply in_del in I. eapply Hv; eassumption.
  - exists ab. rewrite find_del_neq; auto.
Qed.

(* ---- C04: every rollback branch restores exactly the previous state ---- *)
Theorem rollback_exact s o s' r sv : Inv s -> kv_step false s o = (s', r, sv) -> s' = s.
Proof.
  intros [Ss Hs] H. destruct o as [n b|n v|n v|n|n|n v|n|]; cbn [KV.kv_step] in H;
    try (injection H as <- _ _; reflexivity).
  - unfold KV.kv_put in H. destruct (find n s) as [x|] eqn:F.
    + destruct (match find (latest x) (vers x) with Some cur => veqb cur b | None => false end);
        [injection H as <- _ _; reflexivity|].
      injection H as <- _ _. cbn [vers active latest].
      destruct (Hs _ _ F) as (Sv & Hv & _).
      rewrite upd_upd by assumption.
      rewrite del_upd_absent; [| assumption |].
      * replace (latest x + 1 - 1) with (latest x) by lia. rewrite secret_eta. apply upd_same; assumption.
      * destruct (find (latest x + 1) (vers x)) as [b'|] eqn:Fv; auto.
        apply find_in, Hv in Fv. lia.
    + injection H as <- _ _. apply del_upd_absent; assumption.
  - unfold kv_set_active in H. destruct (v =? 0); [injection H as <- _ _; reflexivity|].
    destruct (find n s) as [x|] eqn:F; [|injection H as <- _ _; reflexivity].
    destruct (find v (vers x)); [|injection H as <- _ _; reflexivity].
    destruct (active x =? v); injection H as <- _ _; [reflexivity|].
    rewrite upd_upd by assumption. rewrite secret_eta. apply upd_same; assumption.
  - unfold kv_delete_version in H. destruct (v =? 0); [injection H as <- _ _; reflexivity|].
    destruct (find n s) as [x|] eqn:F; [|injection H as <- _ _; reflexivity].
    destruct (v =? active x); [injection H as <- _ _; reflexivity|].
    destruct (find v (vers x)) as [old|] eqn:Fv; injection H as <- _ _; [|reflexivity].
    cbn [vers active latest]. destruct (Hs _ _ F) as (Sv & Hv & _).
    rewrite upd_upd by assumption. rewrite upd_del_present by assumption. rewrite secret_eta. apply upd_same; assumption.
  - unfold kv_delete_secret in H. destruct (find n s) as [x|] eqn:F; injection H as <- _ _; [|reflexivity].
    apply upd_del_present; assumption.
Qed.

(* the concrete step is the specification's step when the save succeeds (or is not
   needed), and a no-op reporting the save error otherwise *)
Definition needs_save (s : kvs) (o : kop V) : bool :=
  match o with
  | KPut n b => match find n s with
                | None => true
                | Some x => match find (latest x) (vers x) with Some cur => negb (veqb cur b) | None => true end
                end
  | KSetActive n v =>
      negb (v =? 0) && match find n s with
                       | Some x => match find v (vers x) with Some _ => negb (active x =? v) | None => false end
                       | None => false end
  | KDelVer n v =>
      negb (v =? 0) && match find n s with
                       | Some x => negb (v =? active x) && match find v (vers x) with Some _ => true | None => false end
                       | None => false end
  | KDel n => match find n s with Some _ => true | None => false end
  | _ => false
  end.

Theorem refines_spec_ok s o : Inv s ->
  let '(s', r, sv) := kv_step true s o in
  let '(t, q) := spec_step s o in
  s' = t /\ r = q /\ sv = (if needs_save s o then Saved else NoSave).
Proof.
  intros [Ss Hs]. destruct o as [n b|n v|n v|n|n|n v|n|]; cbn [KV.kv_step KV.spec_step needs_save];
    try (repeat split; reflexivity).
  - unfold KV.kv_put. destruct (find n s) as [x|] eqn:F; [|repeat split; reflexivity].
    destruct (find (latest x) (vers x)) as [cur|]; [|repeat split; reflexivity].
    destruct (veqb cur b); repeat split; reflexivity.
  - unfold kv_set_active. destruct (v =? 0); [repeat split; reflexivity|]. cbn [negb andb].
    destruct (find n s) as [x|] eqn:F; [|repeat split; reflexivity].
    destruct (find v (vers x)) as [b|] eqn:Fv; [|repeat split; reflexivity].
    destruct (active x =? v) eqn:E; [|repeat split; reflexivity].
    apply N.eqb_eq in E. subst v. rewrite secret_eta. rewrite upd_same by assumption. repeat split; reflexivity.
  - unfold kv_delete_version. destruct (v =? 0); [repeat split; reflexivity|]. cbn [negb andb].
    destruct (find n s) as [x|] eqn:F; [|repeat split; reflexivity].
    destruct (v =? active x); [repeat split; reflexivity|].
    destruct (find v (vers x)); repeat split; reflexivity.
  - unfold kv_delete_secret. destruct (find n s) as [x|] eqn:F; [repeat split; reflexivity|].
    repeat split; try reflexivity. symmetry. apply del_absent; assumption.
Qed.

Theorem refines_spec_fail s o : Inv s ->
  let '(s', r, sv) := kv_step false s o in
  if needs_save s o then s' = s /\ r = KSaveErr /\ sv = SaveFailed
  else (s', r) = spec_step s o /\ sv = NoSave.
Proof.
  intros I. destruct (kv_step false s o) as [[s' r] sv] eqn:H.
  pose proof (rollback_exact _ I H) as E. destruct I as [Ss Hs].
  destruct o as [n b|n v|n v|n|n|n v|n|]; cbn [KV.kv_step KV.spec_step needs_save] in *;
    try (injection H as _ <- <-; rewrite ?E; split; reflexivity).
  - unfold KV.kv_put in H. destruct (find n s) as [x|] eqn:F.
    + destruct (find (latest x) (vers x)) as [cur|].
      * destruct (veqb cur b); cbn [negb]; injection H as _ <- <-; rewrite ?E; repeat split; reflexivity.
      * injection H as _ <- <-; rewrite ?E; repeat split; reflexivity.
    + injection H as _ <- <-; rewrite ?E; repeat split; reflexivity.
  - unfold kv_set_active in H. destruct (v =? 0); cbn [negb andb]; [injection H as _ <- <-; rewrite ?E; split; reflexivity|].
    destruct (find n s) as [x|] eqn:F; [|injection H as _ <- <-; rewrite ?E; split; reflexivity].
    destruct (find v (vers x)) as [b|] eqn:Fv; [|injection H as _ <- <-; rewrite ?E; split; reflexivity].
    destruct (active x =? v) eqn:Q; cbn [negb]; injection H as _ <- <-; rewrite ?E; [|repeat split; reflexivity].
    apply N.eqb_eq in Q. subst v. rewrite secret_eta. rewrite upd_same by assumption. split; reflexivity.
  - unfold kv_delete_version in H. destruct (v =? 0); cbn [negb andb]; [injection H as _ <- <-; rewrite ?E; split; reflexivity|].
    destruct (find n s) as [x|] eqn:F; [|injection H as _ <- <-; rewrite ?E; split; reflexivity].
    destruct (v =? active x); cbn [negb andb]; [injection H as _ <- <-; rewrite ?E; split; reflexivity|].
    destruct (find v (vers x)); injection H as _ <- <-; rewrite ?E; repeat split; reflexivity.
  - unfold kv_delete_secret in H. destruct (find n s) as [x|] eqn:F; injection H as _ <- <-; rewrite ?E; [repeat split; reflexivity|].
    split; [|reflexivity]. f_equal. symmetry. apply del_absent; assumption.
Qed.

(* ---- invariant preservation ---- *)
Lemma inv_spec_step s o : Inv s -> Inv (fst (spec_step s o)).
Proof.
  intros I. pose proof I as [Ss Hs].
  destruct o as [n b|n v|n v|n|n|n v|n|]; cbn [KV.spec_step fst]; try assumption.
  - destruct (find n s) as [x|] eqn:F.
    + destruct (find (latest x) (vers x)) as [cur|]; [destruct (veqb cur b); [assumption|]|];
        apply inv_upd; auto; apply sec_ok_put; eauto.
    + apply inv_upd; auto. apply sec_ok_first.
  - destruct (v =? 0); [assumption|]. destruct (find n s) as [x|] eqn:F; [|assumption].
    destruct (find v (vers x)) as [b|] eqn:Fv; [|assumption]. cbn [fst].
    apply inv_upd; auto. eapply sec_ok_active; eauto.
  - destruct (v =? 0); [assumption|]. destruct (find n s) as [x|] eqn:F; [|assumption].
    destruct (v =? active x) eqn:E; [assumption|]. destruct (find v (vers x)); [|assumption]. cbn [fst].
    apply inv_upd; auto. apply sec_ok_delver; eauto. apply N.eqb_neq; assumption.
  - apply inv_del; assumption.
Qed.

Theorem inv_step ok s o s' r sv : Inv s -> kv_step ok s o = (s', r, sv) -> Inv s'.
Proof.
  intros I H. destruct ok.
  - pose proof (refines_spec_ok o I) as R. rewrite H in R.
    pose proof (inv_spec_step o I) as J. destruct (spec_step s o) as [t q]. destruct R as (-> & _). exact J.
  - rewrite (rollback_exact _ I H). assumption.
Qed.

Theorem inv_run h : forall s s' rs, Inv s -> kv_run s h = (s', rs) -> Inv s'.
Proof.
  induction h as [|[ok o] h IH]; intros s s' rs I H; cbn [KV.kv_run] in H.
  - injection H as <- _. assumption.
  - destruct (kv_step ok s o) as [[s1 r] sv] eqn:E. destruct (kv_run s1 h) as [s2 rs'] eqn:E2.
    injection H as <- _. eapply IH; [|eassumption]. eapply inv_step; eassumption.
Qed.

Corollary reachable_inv h s' rs : kv_run [] h = (s', rs) -> Inv s'.
Proof. apply inv_run, inv_init. Qed.

(* ---- failed calls change nothing ---- *)
Definition is_err (r : kres V) : bool :=
  match r with KNotFound | KInvalid | KActiveDel | KSaveErr | KUnexpected => true | _ => false end.

Theorem failed_is_noop ok s o s' r sv : Inv s -> kv_step ok s o = (s', r, sv) -> is_err r = true -> s' = s.
Proof.
  intros I H E. destruct ok; [|eapply rollback_exact; eassumption].
  destruct o as [n b|n v|n v|n|n|n v|n|]; cbn [KV.kv_step] in H; try (injection H as <- _ _; reflexivity).
  - unfold KV.kv_put in H. destruct (find n s) as [x|].
    + destruct (match find (latest x) (vers x) with Some cur => veqb cur b | None => false end);
        injection H as _ <- _; discriminate.
    + injection H as _ <- _; discriminate.
  - unfold kv_set_active in H. destruct (v =? 0); [injection H as <- _ _; reflexivity|].
    destruct (find n s) as [x|]; [|injection H as <- _ _; reflexivity].
    destruct (find v (vers x)); [|injection H as <- _ _; reflexivity].
    destruct (active x =? v); injection H as _ <- _; discriminate.
  - unfold kv_delete_version in H. destruct (v =? 0); [injection H as <- _ _; reflexivity|].
    destruct (find n s) as [x|]; [|injection H as <- _ _; reflexivity].
    destruct (v =? active x); [injection H as <- _ _; reflexivity|].
    destruct (find v (vers x)); [|injection H as <- _ _; reflexivity].
    injection H as _ <- _; discriminate.
  - unfold kv_delete_secret in H. destruct (find n s) as [x|]; injection H as _ <- _; discriminate.
Qed.

(* a step that did not save left the state exactly as it was *)
Theorem unsaved_noop ok s o s' r sv : Inv s -> kv_step ok s o = (s', r, sv) -> sv <> Saved -> s' = s.
Proof.
  intros I H NS. destruct ok; [|eapply rollback_exact; eassumption].
  pose proof (refines_spec_ok o I) as R. rewrite H in R. destruct I as [Ss Hs].
  destruct o as [n b|n v|n v|n|n|n v|n|]; cbn [KV.spec_step needs_save] in R;
    try (destruct R as (-> & _); reflexivity).
  - destruct (find n s) as [x|]; [destruct (find (latest x) (vers x)) as [cur|]; [destruct (veqb cur b)|]|];
      cbn [negb] in R; destruct R as (-> & _ & ->); try reflexivity; contradiction NS; reflexivity.
  - destruct (v =? 0); [destruct R as (-> & _); reflexivity|]. cbn [negb andb] in R.
    destruct (find n s) as [x|] eqn:F; [|destruct R as (-> & _); reflexivity].
    destruct (find v (vers x)); [|destruct R as (-> & _); reflexivity].
    destruct (active x =? v) eqn:E; cbn [negb] in R; destruct R as (-> & _ & ->); [|contradiction NS; reflexivity].
    apply N.eqb_eq in E. subst v. rewrite secret_eta. apply upd_same; assumption.
  - destruct (v =? 0); [destruct R as (-> & _); reflexivity|]. cbn [negb andb] in R.
    destruct (find n s) as [x|] eqn:F; [|destruct R as (-> & _); reflexivity].
    destruct (v =? active x); cbn [negb andb] in R; [destruct R as (-> & _); reflexivity|].
    destruct (find v (vers x)); destruct R as (-> & _ & ->); [contradiction NS; reflexivity|reflexivity].
  - destruct (find n s) as [x|] eqn:F; destruct R as (-> & _ & ->); [contradiction NS; reflexivity|].
    apply del_absent; assumption.
Qed.

(* a save is attempted successfully only when the file system allows it *)
Theorem saved_needs_ok ok s o s' r : kv_step ok s o = (s', r, Saved) -> ok = true.
Proof.
  destruct ok; [reflexivity|]. destruct o as [n b|n v|n v|n|n|n v|n|]; cbn [KV.kv_step]; try discriminate.
  - unfold KV.kv_put. destruct (find n s) as [x|];
      [destruct (match find (latest x) (vers x) with Some cur => veqb cur b | None => false end)|]; discriminate.
  - unfold kv_set_active. destruct (v =? 0); [discriminate|]. destruct (find n s) as [x|]; [|discriminate].
    destruct (find v (vers x)); [|discriminate]. destruct (active x =? v); discriminate.
  - unfold kv_delete_version. destruct (v =? 0); [discriminate|]. destruct (find n s) as [x|]; [|discriminate].
    destruct (v =? active x); [discriminate|]. destruct (find v (vers x)); discriminate.
  - unfold kv_delete_secret. destruct (find n s); discriminate.
Qed.

(* ---- frame: operations on one name never affect another ---- *)
Theorem frame ok s o s' r sv n :
  Inv s -> kv_step ok s o = (s', r, sv) -> ktarget o <> Some n -> find n s' = find n s.
Proof.
  intros I H T. destruct ok; [|rewrite (rollback_exact _ I H); reflexivity].
  pose proof (refines_spec_ok o I) as R. rewrite H in R. destruct I as [Ss Hs].
  destruct o as [m b|m v|m v|m|m|m v|m|]; cbn [KV.spec_step ktarget] in *;
    try (destruct R as (-> & _); reflexivity);
    assert (N : n <> m) by (intros ->; apply T; reflexivity).
  - destruct (find m s) as [x|]; [destruct (find (latest x) (vers x)) as [cur|]; [destruct (veqb cur b)|]|];
      destruct R as (-> & _); try reflexivity; apply find_upd_neq; assumption.
  - destruct (v =? 0); [destruct R as (-> & _); reflexivity|].
    destruct (find m s) as [x|]; [|destruct R as (-> & _); reflexivity].
    destruct (find v (vers x)); destruct R as (-> & _); [apply find_upd_neq; assumption|reflexivity].
  - destruct (v =? 0); [destruct R as (-> & _); reflexivity|].
    destruct (find m s) as [x|]; [|destruct R as (-> & _); reflexivity].
    destruct (v =? active x); [destruct R as (-> & _); reflexivity|].
    destruct (find v (vers x)); destruct R as (-> & _); [apply find_upd_neq; assumption|reflexivity].
  - destruct R as (-> & _). apply find_del_neq; assumption.
Qed.

(* ---- puts ---- *)
Theorem first_put s n b : find n s = None ->
  kv_put true s n b = (upd n {| vers := [(1, b)]; active := 1; latest := 1 |} s, KVer 1, Saved).
Proof. intro F. unfold KV.kv_put. rewrite F. reflexivity. Qed.

(* the de-duplication rule, exactly *)
Definition dedupes (x : secret) (b : V) : Prop := find (latest x) (vers x) = Some b.

Lemma dedupes_dec x b :
  (match find (latest x) (vers x) with Some cur => veqb cur b | None => false end) = true <-> dedupes x b.
Proof.
  unfold dedupes. destruct (find (latest x) (vers x)) as [cur|]; [|split; discriminate].
  rewrite veqb_spec. split; [intros ->; reflexivity|intro Q; injection Q; auto].
Qed.

Theorem put_existing ok s n b x s' r sv : Inv s -> find n s = Some x -> kv_put ok s n b = (s', r, sv) ->
  (dedupes x b /\ s' = s /\ r = KVer (latest x) /\ sv = NoSave)
  \/ (~ dedupes x b /\ ok = true /\ r = KVer (latest x + 1) /\ sv = Saved
      /\ find n s' = Some {| vers := upd (latest x + 1) b (vers x); active := active x; latest := latest x + 1 |}
      /\ (forall v b', In (v, b') (vers x) -> v < latest x + 1))
  \/ (~ dedupes x b /\ ok = false /\ s' = s /\ r = KSaveErr /\ sv = SaveFailed).
Proof.
  intros I F H. pose proof H as H0. unfold KV.kv_put in H. rewrite F in H.
  destruct (match find (latest x) (vers x) with Some cur => veqb cur b | None => false end) eqn:D.
  - left. apply dedupes_dec in D. injection H as <- <- <-. auto.
  - assert (ND : ~ dedupes x b) by (intro Q; apply dedupes_dec in Q; congruence).
    destruct ok.
    + right; left. injection H as <- <- <-. cbn [latest]. repeat split; auto.
      * apply find_upd_eq.
      * intros v b' Hin. destruct I as [_ Hs]. destruct (Hs _ _ F) as (_ & Hv & _). apply Hv in Hin. lia.
    + right; right. assert (s' = s).
      { eapply rollback_exact with (o := KPut n b); [exact I|]. cbn [KV.kv_step]. exact H0. }
      injection H as _ <- <-. auto.
Qed.

(* a version number returned by a successful put is immediately retrievable with
   exactly the bytes put *)
Theorem put_retrievable ok s n b s' k sv : Inv s -> kv_put ok s n b = (s', KVer k, sv) ->
  kv_get_version s' n k = KVal k b.
Proof.
  intros I H. destruct (find n s) as [x|] eqn:F.
  - destruct (@put_existing _ _ _ _ _ _ _ _ I F H) as [(D & -> & Q & _)|[(_ & _ & Q & _ & F' & _)|(_ & _ & _ & Q & _)]];
      try discriminate; injection Q as ->.
    + unfold kv_get_version. rewrite F. rewrite D. reflexivity.
    + unfold kv_get_version. rewrite F'. cbn [vers]. rewrite find_upd_eq. reflexivity.
  - unfold KV.kv_put in H. rewrite F in H. destruct ok; [|discriminate].
    injection H as <- <- _. unfold kv_get_version. rewrite find_upd_eq. reflexivity.
Qed.

(* ---- the active version ---- *)
Theorem active_exists s n x : Inv s -> find n s = Some x -> exists b, kv_get s n = KVal (active x) b.
Proof.
  intros [_ Hs] F. destruct (Hs _ _ F) as (_ & _ & (b & Ha)). exists b. unfold kv_get. rewrite F, Ha. reflexivity.
Qed.

Lemma kv_get_absent (s : kvs) n : find n s = None -> kv_get s n = KNotFound.
Proof. intro F. unfold kv_get. rewrite F. reflexivity. Qed.

Theorem active_undeletable ok s n x : find n s = Some x ->
  exists r, kv_delete_version ok s n (active x) = (s, r, NoSave) /\ is_err r = true.
Proof.
  intro F. unfold kv_delete_version. destruct (active x =? 0); [eexists; split; reflexivity|].
  rewrite F, N.eqb_refl. eexists; split; reflexivity.
Qed.

Theorem only_activate_moves_active ok s o s' r sv n x x' :
  Inv s -> kv_step ok s o = (s', r, sv) -> find n s = Some x -> find n s' = Some x' ->
  active x' = active x \/ (exists v, o = KSetActive n v /\ r = KOk /\ active x' = v).
Proof.
  intros I H F F'. destruct ok; [|rewrite (rollback_exact _ I H) in F'; left; congruence].
  pose proof (refines_spec_ok o I) as R. rewrite H in R. destruct I as [Ss Hs].
  destruct o as [m b|m v|m v|m|m|m v|m|]; cbn [KV.spec_step] in R;
    try (destruct R as (-> & _); left; congruence).
  - destruct (name_eq_dec n m) as [->|N].
    + rewrite F in R. destruct (find (latest x) (vers x)) as [cur|]; [destruct (veqb cur b)|];
        destruct R as (-> & _); try (left; congruence);
        rewrite find_upd_eq in F'; injection F' as <-; left; reflexivity.
    + left. destruct (find m s) as [y|]; [destruct (find (latest y) (vers y)) as [cur|]; [destruct (veqb cur b)|]|];
        destruct R as (-> & _); try congruence; rewrite find_upd_neq in F' by assumption; congruence.
  - destruct (v =? 0); [destruct R as (-> & _); left; congruence|].
    destruct (name_eq_dec n m) as [->|N].
    + rewrite F in R. destruct (find v (vers x)); destruct R as (-> & -> & _); [|left; congruence].
      rewrite find_upd_eq in F'. injection F' as <-. right. exists v. auto.
    + left. destruct (find m s) as [y|]; [destruct (find v (vers y))|]; destruct R as (-> & _); try congruence.
      rewrite find_upd_neq in F' by assumption; congruence.
  - destruct (v =? 0); [destruct R as (-> & _); left; congruence|]. left.
    destruct (name_eq_dec n m) as [->|N].
    + rewrite F in R. destruct (v =? active x); [destruct R as (-> & _); congruence|].
      destruct (find v (vers x)); destruct R as (-> & _); [|congruence].
      rewrite find_upd_eq in F'. injection F' as <-. reflexivity.
    + destruct (find m s) as [y|]; [destruct (v =? active y); [|destruct (find v (vers y))]|];
        destruct R as (-> & _); try congruence. rewrite find_upd_neq in F' by assumption; congruence.
  - left. destruct R as (-> & _). destruct (name_eq_dec n m) as [->|N].
    + rewrite find_del_eq in F' by assumption. discriminate.
    + rewrite find_del_neq in F' by assumption. congruence.
Qed.

(* ---- the bytes bound to (name, version) never change until deleted ---- *)
Theorem bytes_immutable ok s o s' r sv n x v b :
  Inv s -> kv_step ok s o = (s', r, sv) -> find n s = Some x -> find v (vers x) = Some b ->
  (exists x', find n s' = Some x' /\ find v (vers x') = Some b) \/ o = KDelVer n v \/ o = KDel n.
Proof.
  intros I H F Fv. destruct ok; [|rewrite (rollback_exact _ I H); left; eauto].
  pose proof (refines_spec_ok o I) as R. rewrite H in R. pose proof I as [Ss Hs].
  destruct o as [m b0|m v0|m v0|m|m|m v0|m|]; cbn [KV.spec_step] in R;
    try (destruct R as (-> & _); left; solve [eauto]).
  - left. destruct (name_eq_dec n m) as [->|N].
    + rewrite F in R. destruct (find (latest x) (vers x)) as [cur|] eqn:L; [destruct (veqb cur b0)|];
        destruct R as (-> & _); eauto; rewrite find_upd_eq; eexists; (split; [reflexivity|]); cbn [vers];
        rewrite find_upd_neq; auto; destruct (Hs _ _ F) as (_ & Hv & _); apply find_in, Hv in Fv; lia.
    + destruct (find m s) as [y|]; [destruct (find (latest y) (vers y)) as [cur|]; [destruct (veqb cur b0)|]|];
        destruct R as (-> & _); eauto; rewrite find_upd_neq by assumption; eauto.
  - left. destruct (v0 =? 0); [destruct R as (-> & _); eauto|].
    destruct (name_eq_dec n m) as [->|N].
    + rewrite F in R. destruct (find v0 (vers x)); destruct R as (-> & _); eauto.
      rewrite find_upd_eq. eexists; split; [reflexivity|]. exact Fv.
    + destruct (find m s) as [y|]; [destruct (find v0 (vers y))|]; destruct R as (-> & _); eauto.
      rewrite find_upd_neq by assumption; eauto.
  - destruct (v0 =? 0); [destruct R as (-> & _); left; eauto|].
    destruct (name_eq_dec n m) as [->|N].
    + rewrite F in R. destruct (v0 =? active x); [destruct R as (-> & _); left; eauto|].
      destruct (find v0 (vers x)) eqn:F0; destruct R as (-> & _); [|left; eauto].
      destruct (N.eq_dec v v0) as [->|NV]; [right; left; reflexivity|].
      left. rewrite find_upd_eq. eexists; split; [reflexivity|]. cbn [vers]. rewrite find_del_neq; auto.
    + left. destruct (find m s) as [y|]; [destruct (v0 =? active y); [|destruct (find v0 (vers y))]|];
        destruct R as (-> & _); eauto. rewrite find_upd_neq by assumption; eauto.
  - destruct (name_eq_dec n m) as [->|N]; [right; right; reflexivity|].
    left. destruct R as (-> & _). rewrite find_del_neq by assumption. eauto.
Qed.

(* ---- numbers are never reused while the secret exists ---- *)
Theorem latest_monotone ok s o s' r sv n x :
  Inv s -> kv_step ok s o = (s', r, sv) -> find n s = Some x -> o <> KDel n ->
  exists x', find n s' = Some x' /\ latest x <= latest x'.
Proof.
  intros I H F ND. destruct ok; [|rewrite (rollback_exact _ I H); exists x; split; [assumption|lia]].
  pose proof (refines_spec_ok o I) as R. rewrite H in R. pose proof I as [Ss Hs].
  destruct o as [m b0|m v0|m v0|m|m|m v0|m|]; cbn [KV.spec_step] in R;
    try (destruct R as (-> & _); exists x; split; [assumption|lia]).
  - destruct (name_eq_dec n m) as [->|N].
    + rewrite F in R. destruct (find (latest x) (vers x)) as [cur|]; [destruct (veqb cur b0)|];
        destruct R as (-> & _); try (exists x; split; [assumption|lia]);
        rewrite find_upd_eq; eexists; (split; [reflexivity|]); cbn [latest]; lia.
    + exists x. split; [|lia].
      destruct (find m s) as [y|]; [destruct (find (latest y) (vers y)) as [cur|]; [destruct (veqb cur b0)|]|];
        destruct R as (-> & _); auto; rewrite find_upd_neq by assumption; assumption.
  - destruct (v0 =? 0); [destruct R as (-> & _); exists x; split; [assumption|lia]|].
    destruct (name_eq_dec n m) as [->|N].
    + rewrite F in R. destruct (find v0 (vers x)); destruct R as (-> & _); [|exists x; split; [assumption|lia]].
      rewrite find_upd_eq. eexists; split; [reflexivity|]. cbn [latest]. lia.
    + exists x. split; [|lia]. destruct (find m s) as [y|]; [destruct (find v0 (vers y))|]; destruct R as (-> & _); auto.
      rewrite find_upd_neq by assumption; assumption.
  - destruct (v0 =? 0); [destruct R as (-> & _); exists x; split; [assumption|lia]|].
    destruct (name_eq_dec n m) as [->|N].
    + rewrite F in R. destruct (v0 =? active x); [destruct R as (-> & _); exists x; split; [assumption|lia]|].
      destruct (find v0 (vers x)); destruct R as (-> & _); [|exists x; split; [assumption|lia]].
      rewrite find_upd_eq. eexists; split; [reflexivity|]. cbn [latest]. lia.
    + exists x. split; [|lia]. destruct (find m s) as [y|]; [destruct (v0 =? active y); [|destruct (find v0 (vers y))]|];
        destruct R as (-> & _); auto. rewrite find_upd_neq by assumption; assumption.
  - destruct (name_eq_dec n m) as [->|N]; [contradiction ND; reflexivity|].
    destruct R as (-> & _). exists x. split; [|lia]. rewrite find_del_neq by assumption. assumption.
Qed.

(* over any history that does not delete the whole secret, the counter only grows *)
Theorem latest_monotone_run h : forall s s' rs n x,
  Inv s -> kv_run s h = (s', rs) -> find n s = Some x -> (forall ok, ~ In (ok, KDel n) h) ->
  exists x', find n s' = Some x' /\ latest x <= latest x'.
Proof.
  induction h as [|[ok o] h IH]; intros s s' rs n x I H F ND; cbn [KV.kv_run] in H.
  - injection H as <- _. exists x. split; [assumption|lia].
  - destruct (kv_step ok s o) as [[s1 r] sv] eqn:E. destruct (kv_run s1 h) as [s2 rs'] eqn:E2.
    injection H as <- _.
    destruct (@latest_monotone ok s o s1 r sv n x I E F) as (x1 & F1 & L1).
    { intros ->. apply (ND ok). left. reflexivity. }
    destruct (IH _ _ _ n x1 (@inv_step ok s o s1 r sv I E) E2 F1) as (x2 & F2 & L2).
    { intros ok' Hin. apply (ND ok'). right. assumption. }
    exists x2. split; [assumption|lia].
Qed.

(* a fresh (stored) put of n returns a number strictly above the counter, hence
   above every number assigned to n earlier in any deletion-free history *)
Theorem never_reused h s s1 rs n x b s2 k :
  Inv s -> find n s = Some x ->
  (forall ok, ~ In (ok, KDel n) h) ->
  kv_run s h = (s1, rs) ->
  kv_put true s1 n b = (s2, KVer k, Saved) ->
  latest x < k /\ (forall v b', In (v, b') (vers x) -> v < k).
Proof.
  intros I F ND R P.
  destruct (@latest_monotone_run h s s1 rs n x I R F ND) as (x1 & F1 & L).
  pose proof (@inv_run h s s1 rs I R) as I1.
  destruct (@put_existing _ _ _ _ _ _ _ _ I1 F1 P) as [(_ & _ & _ & Q)|[(_ & _ & Q & _)|(_ & Q & _)]]; try discriminate.
  injection Q as ->. split; [lia|]. intros v b' Hin.
  destruct I as [_ Hs]. destruct (Hs _ _ F) as (_ & Hv & _). apply Hv in Hin. lia.
Qed.

(* the list and info results are sorted and duplicate-free views of the map *)
Theorem list_is_names (s : kvs) : kv_list s = map fst s.
Proof. reflexivity. Qed.

End KVProofs.
