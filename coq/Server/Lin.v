(* C14 - linearizability of recorded concurrent histories, generic in the sequential
   specification.  Executable definitions and the declarative notions only; proofs
   are in LinProofs.v.

   A history is a list of completed calls, each stamped at invocation and at response
   by one global counter.  [step] is the sequential specification; [accept r o] says
   that the observation [o] recorded for a call is what a caller sees of the
   specification's result [r] (a projection: e.g. error texts are not compared);
   [fin s] is a decidable predicate on the state after the whole order (the final
   sequential dump of the real system).

   [lin] is the decision procedure (depth-first search over the calls that are minimal
   in the real-time order, fuel = number of calls); [atomic machine] is the model of
   the lock-based design whose every execution is proved linearizable. *)
From Coq Require Import List Bool NArith Permutation.
Import ListNotations.
Set Implicit Arguments.

Section Lin.
Variables (St Op Res Obs : Type).
Variable step : St -> Op -> St * Res.
Variable accept : Res -> Obs -> bool.

(* one completed call: invocation stamp, response stamp, operation, observed result *)
Record call := { inv : N; rsp : N; cop : Op; cres : Obs }.

(* a finished before b started *)
Definition before (a b : call) : bool := N.ltb (rsp a) (inv b).

(* sequential legality of a total order: every observation is acceptable for the
   specification's result in the state left by the calls before it *)
Fixpoint legal (s : St) (l : list call) : Prop :=
  match l with
  | [] => True
  | c :: l' => accept (snd (step s (cop c))) (cres c) = true /\ legal (fst (step s (cop c))) l'
  end.

(* the state after a total order *)
Fixpoint final (s : St) (l : list call) : St :=
  match l with
  | [] => s
  | c :: l' => final (fst (step s (cop c))) l'
  end.

(* the order respects real time: nothing later in the order finished before an
   earlier element started *)
Fixpoint rt_ok (l : list call) : Prop :=
  match l with
  | [] => True
  | c :: l' => (forall d, In d l' -> before d c = false) /\ rt_ok l'
  end.

(* l is a linearization of h ending in a state satisfying P *)
Definition linearization (P : St -> Prop) (s : St) (h l : list call) : Prop :=
  Permutation l h /\ rt_ok l /\ legal s l /\ P (final s l).

Definition linearizable (P : St -> Prop) (s : St) (h : list call) : Prop :=
  exists l, linearization P s h l.

(* ---- the decision procedure ---- *)

(* all ways to pick one element *)
Fixpoint picks (l : list call) : list (call * list call) :=
  match l with
  | [] => []
  | c :: l' => (c, l') :: map (fun '(d, r) => (d, c :: r)) (picks l')
  end.

Definition minimal (c : call) (r : list call) : bool := forallb (fun d => negb (before d c)) r.

(* [existsb] with a lazy right-hand side: the kernel's VM is call-by-value, so [f x || ...]
   and [a && b] would evaluate every alternative and every sub-search even after a
   success or a mismatch; [if] is lazy *)
Fixpoint anyb {X} (f : X -> bool) (l : list X) : bool :=
  match l with
  | [] => false
  | x :: l' => if f x then true else anyb f l'
  end.

Fixpoint lin (fuel : nat) (fin : St -> bool) (s : St) (h : list call) : bool :=
  match h with
  | [] => fin s
  | _ =>
    match fuel with
    | O => false
    | S f =>
      anyb (fun '(c, r) =>
        if minimal c r
        then (let '(s', res) := step s (cop c) in if accept res (cres c) then lin f fin s' r else false)
        else false) (picks h)
    end
  end.

Definition lin_check (fin : St -> bool) (s : St) (h : list call) : bool := lin (length h) fin s h.

(* ---- the lock-based design as a machine ----
   Events of a concurrent execution, in the order in which they happen (the position
   in the trace is the global time stamp):
     EInv i o : call i is invoked with operation o      (the caller takes its stamp)
     ELin i   : call i takes effect: ONE atomic step of the shared state, with the
                result computed from exactly that state   (the critical section)
     ERet i   : call i returns the result computed at its step  (the response stamp)
   Work done outside the critical section (the access check and the audit record of
   db.go) does not touch the shared state and is therefore not an event.  [view] is
   what the caller records of a result. *)
Variable view : Res -> Obs.

Inductive event := EInv (i : nat) (o : Op) | ELin (i : nat) | ERet (i : nat).

Record lrec := { l_id : nat; l_inv : N; l_lp : N; l_op : Op; l_res : Res }.

Record mst := {
  m_sh : St;                           (* the shared state *)
  m_now : N;                           (* the global stamp counter *)
  m_invs : list (nat * (N * Op));      (* invoked calls *)
  m_lin : list lrec;                   (* calls that have taken effect, in the order of their steps *)
  m_rets : list (nat * N)              (* returned calls with their response stamps *)
}.

Fixpoint lookup {X} (i : nat) (l : list (nat * X)) : option X :=
  match l with
  | [] => None
  | (j, x) :: l' => if Nat.eqb i j then Some x else lookup i l'
  end.

Definition has {X} (i : nat) (l : list (nat * X)) : bool :=
  match lookup i l with Some _ => true | None => false end.

Definition lin_ids (l : list lrec) : list (nat * unit) := map (fun r => (l_id r, tt)) l.

(* one event; None = not an execution of the design (a call stepping twice, returning
   before its step, ...) *)
Definition mstep (m : mst) (e : event) : option mst :=
  match e with
  | EInv i o =>
      if has i (m_invs m) then None
      else Some {| m_sh := m_sh m; m_now := N.succ (m_now m); m_invs := (i, (m_now m, o)) :: m_invs m;
                   m_lin := m_lin m; m_rets := m_rets m |}
  | ELin i =>
      match lookup i (m_invs m) with
      | None => None
      | Some (t, o) =>
          if has i (lin_ids (m_lin m)) then None
          else let '(s', r) := step (m_sh m) o in
               Some {| m_sh := s'; m_now := N.succ (m_now m); m_invs := m_invs m;
                       m_lin := m_lin m ++ [{| l_id := i; l_inv := t; l_lp := m_now m; l_op := o; l_res := r |}];
                       m_rets := m_rets m |}
      end
  | ERet i =>
      if has i (lin_ids (m_lin m)) && negb (has i (m_rets m))
      then Some {| m_sh := m_sh m; m_now := N.succ (m_now m); m_invs := m_invs m; m_lin := m_lin m;
                   m_rets := (i, m_now m) :: m_rets m |}
      else None
  end.

Fixpoint mrun (m : mst) (tr : list event) : option mst :=
  match tr with
  | [] => Some m
  | e :: tr' => match mstep m e with Some m' => mrun m' tr' | None => None end
  end.

Definition minit (s : St) : mst := {| m_sh := s; m_now := 0; m_invs := []; m_lin := []; m_rets := [] |}.

(* every call that took effect has returned *)
Definition complete (m : mst) : Prop := forall r, In r (m_lin m) -> has (l_id r) (m_rets m) = true.

Definition rsp_of (m : mst) (i : nat) : N := match lookup i (m_rets m) with Some t => t | None => 0 end.

Definition call_of (m : mst) (r : lrec) : call :=
  {| inv := l_inv r; rsp := rsp_of m (l_id r); cop := l_op r; cres := view (l_res r) |}.

(* the calls of the execution with their stamps, listed in the order of their steps *)
Definition history_of (m : mst) : list call := map (call_of m) (m_lin m).

End Lin.

Arguments ELin {Op}. Arguments ERet {Op}.
