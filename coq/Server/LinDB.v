(* C14 - the linearizability checker of Server/Lin.v instantiated with the sequential
   model of the database (Server/DB.v): one call = one [db_step] of a given caller with
   a working disk and audit sink; a response is compared with the model's result by
   [result_beq] (result class, version numbers, value tokens, list payload - no error
   texts); the final state is compared with the dump taken after all clients finished.
   Executable definitions only. *)
From Coq Require Import List Bool NArith.
Import ListNotations.
From Setec Require Import Base.SMap Acl.Glob Server.KV Server.DB Server.Lin Corr.Common Corr.Run_DB.
Open Scope N_scope.

(* a call: index of the caller in the case's caller table, and the operation *)
(* a call: index of the caller in the case's caller table, whether the file system accepts a
   save while the call runs (false = the state directory is unreachable: a save the call
   needs is REFUSED), and the operation *)
Definition lop := (nat * bool * op V)%type.
Definition lcall := call lop (result V).

Definition okenv : env := {| save_ok := true; audit := AOk |}.

Definition env_of (ok : bool) : env := {| save_ok := ok; audit := AOk |}.

(* the sequential specification of one call.  With a refused save, [db_step] is the code as
   written (mutate, save, undo): by C04's rollback_exact that is "no state change, an error" *)
Definition lin_db_step (cs : list caller) (s : dbstate V) (o : lop) : dbstate V * result V :=
  let '(c, ok, op) := o in
  let '(s', r, _) := db_step N.eqb (env_of ok) s (get_caller cs c) op in (s', r).

(* the final sequential dump: the state served, the file reopened (with the version
   counters) and the write generation *)
Definition fin_ok (live : live_dump) (disk : disk_dump) (g : N) (s : dbstate V) : bool :=
  live_beq (live_of (kv s)) live && disk_beq (disk_of (kv s)) disk && (gen s =? g).

(* the state at a quiescent point (no call in flight), from the dump taken there *)
Definition state_of_dump (d : disk_dump) (g : N) : dbstate V :=
  {| kv := kvs_of_disk d; gen := g; audit_dead := false |}.

Definition db_lin_check (cs : list caller) (s0 : dbstate V) (live : live_dump) (disk : disk_dump) (g : N) (h : list lcall) : bool :=
  lin_check (lin_db_step cs) result_beq (fin_ok live disk g) s0 h.
