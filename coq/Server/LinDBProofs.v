(* The instantiation of the linearizability theorems with the database model. *)
From Coq Require Import List Bool NArith Permutation.
Import ListNotations.
From Setec Require Import Base.SMap Acl.Glob Server.KV Server.DB Server.Lin Server.LinProofs Server.LinDB Corr.Common Corr.Run_DB.
Open Scope N_scope.

Lemma list_beq_refl {X} (eq : X -> X -> bool) (l : list X) : (forall x, In x l -> eq x x = true) -> list_beq eq l l = true.
Proof.
  induction l as [|a l IH]; cbn [list_beq]; intros H; [reflexivity|].
  rewrite (H a (or_introl eq_refl)). cbn [andb]. apply IH. intros x Hx. apply H. right. exact Hx.
Qed.

Lemma bytes_beq_refl (b : list N) : bytes_beq b b = true.
Proof. apply list_beq_refl. intros x _. apply N.eqb_refl. Qed.

Lemma nlist_beq_refl (l : list N) : list_beq N.eqb l l = true.
Proof. apply list_beq_refl. intros x _. apply N.eqb_refl. Qed.

(* a response that IS the model's result is always accepted *)
Lemma result_beq_refl (r : result V) : result_beq r r = true.
Proof.
  destruct r as [l|vs a|ver b|v| | | | | ]; cbn [result_beq]; try reflexivity.
  - apply list_beq_refl. intros [[n vs] a] _. rewrite bytes_beq_refl, nlist_beq_refl, N.eqb_refl. reflexivity.
  - rewrite nlist_beq_refl, N.eqb_refl. reflexivity.
  - rewrite !N.eqb_refl. reflexivity.
  - apply N.eqb_refl.
Qed.

(* the checker, for the database *)
Theorem db_lin_check_iff cs s0 live disk g h :
  db_lin_check cs s0 live disk g h = true <->
  linearizable (lin_db_step cs) result_beq (fun s => fin_ok live disk g s = true) s0 h.
Proof. apply lin_check_iff. Qed.

(* the one-mutex design, for the database: any interleaving of invocations, atomic
   [db_step]s and responses yields a history the checker accepts against the final
   shared state *)
Theorem db_atomic_steps_linearizable cs s0 tr m h :
  mrun (lin_db_step cs) (minit lop (result V) s0) tr = Some m -> complete m ->
  Permutation h (history_of (fun r => r) m) ->
  linearization (lin_db_step cs) result_beq (fun s => s = m_sh m) s0 h (history_of (fun r => r) m).
Proof. apply atomic_steps_linearizable. exact result_beq_refl. Qed.

Lemma vers_beq_refl (l : list (N * V)) : vers_beq l l = true.
Proof. apply list_beq_refl. intros [a b] _. unfold pair_beq. cbn. rewrite !N.eqb_refl. reflexivity. Qed.

Lemma live_beq_refl (d : live_dump) : live_beq d d = true.
Proof.
  apply list_beq_refl. intros [[n vs] a] _. rewrite bytes_beq_refl, vers_beq_refl, N.eqb_refl. reflexivity.
Qed.

Lemma disk_beq_refl (d : disk_dump) : disk_beq d d = true.
Proof.
  apply list_beq_refl. intros [[[n vs] a] l] _. rewrite bytes_beq_refl, vers_beq_refl, !N.eqb_refl. reflexivity.
Qed.

(* no false alarm on the design: the history of ANY execution of the atomic-step machine
   over the database model, with the dump of its final state, is accepted by the checker *)
Theorem db_design_accepted cs s0 tr m h :
  mrun (lin_db_step cs) (minit lop (result V) s0) tr = Some m -> complete m ->
  Permutation h (history_of (fun r => r) m) ->
  db_lin_check cs s0 (live_of (kv (m_sh m))) (disk_of (kv (m_sh m))) (gen (m_sh m)) h = true.
Proof.
  intros R C P. apply db_lin_check_iff. exists (history_of (fun r => r) m).
  destruct (db_atomic_steps_linearizable cs s0 tr m h R C P) as (P' & RT & L & F).
  split; [exact P'|]. split; [exact RT|]. split; [exact L|].
  rewrite F. unfold fin_ok. rewrite live_beq_refl, disk_beq_refl, N.eqb_refl. reflexivity.
Qed.

(* the sequential specification of a call whose save is refused: the store and the write
   generation are those before the call (the response is whatever [db_step] answers: the save
   error, or the ordinary result when the call needed no save) *)
From Setec Require Import Server.KVProofs Server.DBProofs.
Theorem lin_db_step_refused cs (s : dbstate V) c o s' r :
  Inv (kv s) -> lin_db_step cs s (c, false, o) = (s', r) -> kv s' = kv s /\ gen s' = gen s.
Proof.
  intros I H. unfold lin_db_step in H.
  destruct (db_step N.eqb (env_of false) s (get_caller cs c) o) as [[s1 r1] fx] eqn:E.
  injection H as <- <-.
  assert (F : save_ok (env_of false) = false) by reflexivity.
  first [ destruct (@failed_save_rollback V N.eqb (fun a b => N.eqb_eq a b) _ _ _ _ _ _ _ I F E) as (A & B & _)
        | destruct (@failed_save_rollback V N.eqb _ _ _ _ _ _ _ I F E) as (A & B & _) ].
  auto.
Qed.
