(* Proofs about Server/Lin.v:
   - the checker decides linearizability (sound and complete, for every sequential
     specification, acceptance relation and final-state predicate);
   - every execution of the atomic-step machine (the lock-based design) is linearizable,
     in the order of the atomic steps, ending in the machine's shared state. *)
From Coq Require Import List Bool NArith PeanoNat Lia ZifyN ZifyNat Permutation.
Import ListNotations.
From Setec Require Import Server.Lin.
Set Implicit Arguments.

Section LinProofs.
Variables (St Op Res Obs : Type).
Variable step : St -> Op -> St * Res.
Variable accept : Res -> Obs -> bool.

Notation call := (call Op Obs).
Notation legal := (legal step accept).
Notation final := (@final St Op Res Obs step).
Notation lin := (lin step accept).
Notation linearizable := (linearizable step accept).
Notation linearization := (linearization step accept).

Lemma picks_perm (l : list call) c r : In (c, r) (picks l) -> Permutation (c :: r) l.
Proof.
  revert c r; induction l as [|a l IH]; cbn; intros c r H; [contradiction|].
  destruct H as [H|H].
  - injection H as -> ->. reflexivity.
  - apply in_map_iff in H. destruct H as ([d r'] & E & H). injection E as -> <-.
    apply IH in H. rewrite perm_swap. constructor. exact H.
Qed.

Lemma picks_complete (l : list call) c r :
  Permutation (c :: r) l -> exists r', In (c, r') (picks l) /\ Permutation r r'.
Proof.
  revert c r; induction l as [|a l IH]; intros c r H.
  - apply Permutation_sym, Permutation_nil in H. discriminate.
  - assert (Hin : In c (a :: l)) by (eapply Permutation_in; [exact H|left; reflexivity]).
    destruct Hin as [->|Hin].
    + exists l. split; [left; reflexivity|]. eapply Permutation_cons_inv; eauto.
    + apply in_split in Hin. destruct Hin as (l1 & l2 & ->).
      assert (P1 : Permutation (c :: l1 ++ l2) (l1 ++ c :: l2)) by apply Permutation_middle.
      destruct (IH c (l1 ++ l2) P1) as (r' & Hr' & Pr').
      exists (a :: r'). split.
      * right. apply in_map_iff. exists (c, r'). auto.
      * assert (P2 : Permutation (c :: r) (c :: a :: l1 ++ l2)).
        { rewrite H. rewrite perm_swap. constructor. symmetry. exact P1. }
        apply Permutation_cons_inv in P2. rewrite P2. constructor. exact Pr'.
Qed.

Lemma rt_ok_perm_min (c : call) r r' :
  (forall d, In d r -> before d c = false) -> Permutation r r' -> minimal c r' = true.
Proof.
  intros H P. apply forallb_forall. intros d Hd. rewrite H; auto.
  eapply Permutation_in; [symmetry; exact P|exact Hd].
Qed.

Lemma anyb_existsb {X} (f : X -> bool) l : anyb f l = existsb f l.
Proof. induction l as [|x l IH]; cbn; auto. destruct (f x); auto. Qed.

Lemma lin_unfold f fin s a h0 :
  lin (S f) fin s (a :: h0) =
  existsb (fun '(c, r) =>
    minimal c r && (let '(s', res) := step s (cop c) in accept res (cres c) && lin f fin s' r)) (picks (a :: h0)).
Proof.
  cbn [Lin.lin]. rewrite anyb_existsb. f_equal.
Qed.

Theorem lin_sound fin fuel s h :
  lin fuel fin s h = true -> linearizable (fun x => fin x = true) s h.
Proof.
  revert s h; induction fuel as [|f IH]; intros s h H.
  - destruct h; [|discriminate]. exists []. cbn in *. repeat split; auto.
  - destruct h as [|a h0]; [exists []; cbn in *; repeat split; auto|].
    rewrite lin_unfold in H. apply existsb_exists in H. destruct H as ([c r] & Hin & H).
    apply andb_true_iff in H. destruct H as [Hm H].
    destruct (step s (cop c)) as [s' res] eqn:E. apply andb_true_iff in H. destruct H as [Hr H].
    apply IH in H. destruct H as (l & P & RT & L & F).
    exists (c :: l). split; [|split; [|split]].
    + rewrite P. apply picks_perm. exact Hin.
    + cbn. split; auto. intros d Hd. unfold minimal in Hm. rewrite forallb_forall in Hm.
      assert (Hd' : In d r) by (eapply Permutation_in; eauto).
      apply Hm in Hd'. destruct (before d c); auto; discriminate.
    + cbn. rewrite E. cbn. auto.
    + cbn. rewrite E. cbn. exact F.
Qed.

Theorem lin_complete_aux fin (l : list call) : forall fuel s h,
  Permutation l h -> rt_ok l -> legal s l -> fin (final s l) = true -> length h <= fuel ->
  lin fuel fin s h = true.
Proof.
  induction l as [|c l IH]; intros fuel s h P RT L F Fu.
  - apply Permutation_nil in P. subst. destruct fuel; exact F.
  - destruct h as [|a h0]; [apply Permutation_sym, Permutation_nil in P; discriminate|].
    destruct fuel as [|f]; [cbn in Fu; lia|].
    rewrite lin_unfold. apply existsb_exists.
    destruct (picks_complete P) as (r' & Hin & Pr).
    exists (c, r'). split; [exact Hin|].
    cbn in RT, L, F. destruct RT as [RT1 RT2]. destruct L as [L1 L2].
    rewrite (rt_ok_perm_min _ RT1 Pr). cbn [andb].
    destruct (step s (cop c)) as [s' res] eqn:E. cbn in L1, L2, F.
    rewrite L1. cbn [andb].
    apply IH; auto.
    apply picks_perm in Hin. apply Permutation_length in Hin. cbn in Hin, Fu. lia.
Qed.

(* the verified monitor: the checker answers true exactly on the linearizable histories
   whose order ends in a state accepted by [fin] *)
Theorem lin_check_iff fin s h :
  lin_check step accept fin s h = true <-> linearizable (fun x => fin x = true) s h.
Proof.
  unfold lin_check. split; [apply lin_sound|].
  intros (l & P & RT & L & F). eapply lin_complete_aux; eauto.
Qed.

(* ---- consequences of a linearization, in the words of the property ---- *)

Lemma legal_app s (l1 l2 : list call) : legal s (l1 ++ l2) <-> legal s l1 /\ legal (final s l1) l2.
Proof.
  revert s; induction l1 as [|c l1 IH]; intros s; cbn; [tauto|].
  rewrite IH. tauto.
Qed.

Lemma final_app s (l1 l2 : list call) : final s (l1 ++ l2) = final (final s l1) l2.
Proof. revert s; induction l1 as [|c l1 IH]; intros s; cbn; auto. Qed.

(* every response is the specification's in the state reached by the calls ordered
   before it *)
Theorem linearization_response P s h l l1 c l2 :
  linearization P s h l -> l = l1 ++ c :: l2 ->
  accept (snd (step (final s l1) (cop c))) (cres c) = true.
Proof.
  intros (_ & _ & L & _) ->. apply legal_app in L. destruct L as [_ L]. cbn in L. tauto.
Qed.

(* a call that had returned before another was invoked is ordered before it *)
Lemma rt_ok_app (l1 l2 : list call) : rt_ok (l1 ++ l2) -> rt_ok l2 /\ forall c d, In c l1 -> In d l2 -> before d c = false.
Proof.
  induction l1 as [|a l1 IH]; cbn; intros H.
  - split; [exact H|]. intros c d [].
  - destruct H as [H1 H2]. destruct (IH H2) as [R IH']. split; [exact R|].
    intros c d [->|Hc] Hd.
    + apply H1. apply in_or_app. auto.
    + auto.
Qed.

Theorem linearization_real_time P s h l l1 c l2 d :
  linearization P s h l -> l = l1 ++ c :: l2 -> In d l2 -> before d c = false.
Proof.
  intros (_ & RT & _ & _) -> Hd. apply rt_ok_app in RT. destruct RT as [RT _].
  cbn in RT. destruct RT as [RT _]. auto.
Qed.

(* ---- the atomic-step machine ---- *)
Variable view : Res -> Obs.
Hypothesis accept_view : forall r, accept r (view r) = true.

Notation mst := (mst St Op Res).
Notation lrec := (lrec Op Res).
Notation mstep := (mstep step).
Notation mrun := (mrun step).
Notation minit := (@minit St Op Res).

Definition mk (rs : nat -> N) (r : lrec) : call :=
  {| inv := l_inv r; rsp := rs (l_id r); cop := l_op r; cres := view (l_res r) |}.

Fixpoint ordered (l : list lrec) : Prop :=
  match l with
  | [] => True
  | a :: l' => (forall b, In b l' -> (l_lp a <= l_lp b)%N) /\ ordered l'
  end.

Lemma ordered_snoc l r : ordered l -> (forall a, In a l -> (l_lp a <= l_lp r)%N) -> ordered (l ++ [r]).
Proof.
  induction l as [|a l IH]; cbn; intros O H.
  - split; auto. intros b [].
  - destruct O as [O1 O2]. split.
    + intros b Hb. apply in_app_or in Hb. destruct Hb as [Hb|[<-|[]]]; auto.
    + apply IH; auto.
Qed.

(* stamps: the step of every call lies between its invocation and its response, and the
   steps are listed in the order in which they happened => the list respects real time *)
Lemma rt_ok_of_stamps rs (l : list lrec) :
  ordered l -> (forall r, In r l -> (l_inv r <= l_lp r)%N /\ (l_lp r <= rs (l_id r))%N) ->
  rt_ok (map (mk rs) l).
Proof.
  induction l as [|a l IH]; cbn [map rt_ok ordered]; intros O H; [exact I|].
  destruct O as [O1 O2]. split.
  - intros d Hd. apply in_map_iff in Hd. destruct Hd as (b & <- & Hb).
    unfold before, mk; cbn [rsp inv]. apply N.ltb_ge.
    destruct (H a (or_introl eq_refl)) as [Ha _]. destruct (H b (or_intror Hb)) as [_ Hb2].
    specialize (O1 b Hb). lia.
  - apply IH; auto. intros r Hr. apply H. right. exact Hr.
Qed.

Lemma legal_mk_ext rs rs' s (l : list lrec) : legal s (map (mk rs) l) -> legal s (map (mk rs') l).
Proof. revert s; induction l as [|a l IH]; intros s; cbn; auto. intros [H1 H2]. split; auto. Qed.

Lemma final_mk_ext rs rs' s (l : list lrec) : final s (map (mk rs) l) = final s (map (mk rs') l).
Proof. revert s; induction l as [|a l IH]; intros s; cbn; auto. Qed.

Lemma has_lin_ids i (l : list lrec) : has i (lin_ids l) = true <-> exists r, In r l /\ l_id r = i.
Proof.
  unfold has. induction l as [|a l IH]; cbn.
  - split; [discriminate|]. intros (r & [] & _).
  - destruct (Nat.eqb i (l_id a)) eqn:E.
    + apply Nat.eqb_eq in E. split; auto. intros _. exists a. auto.
    + apply Nat.eqb_neq in E. rewrite IH. split.
      * intros (r & Hr & Hi). exists r. auto.
      * intros (r & [<-|Hr] & Hi); [congruence|]. exists r. auto.
Qed.

(* what every reachable machine state satisfies *)
Record MInv (s0 : St) (m : mst) : Prop := {
  mi_invs : forall i t o, lookup i (m_invs m) = Some (t, o) -> (t < m_now m)%N;
  mi_lp : forall r, In r (m_lin m) -> (l_inv r <= l_lp r)%N /\ (l_lp r < m_now m)%N;
  mi_ord : ordered (m_lin m);
  mi_rets : forall i t, lookup i (m_rets m) = Some t ->
            has i (lin_ids (m_lin m)) = true /\ forall r, In r (m_lin m) -> l_id r = i -> (l_lp r <= t)%N;
  mi_legal : forall rs, legal s0 (map (mk rs) (m_lin m));
  mi_final : forall rs, final s0 (map (mk rs) (m_lin m)) = m_sh m
}.

Lemma MInv_init s0 : MInv s0 (minit s0).
Proof.
  constructor; cbn; try discriminate; try tauto; auto.
Qed.

Lemma MInv_step s0 m e m' : MInv s0 m -> mstep m e = Some m' -> MInv s0 m'.
Proof.
  intros [I1 I2 I3 I4 I5 I6] H. destruct e as [i o|i|i]; cbn [Lin.mstep] in H.
  - (* invocation *)
    destruct (has i (m_invs m)); [discriminate|]. injection H as <-.
    constructor; cbn [m_sh m_now m_invs m_lin m_rets]; auto.
    + intros j t o' Hl. cbn [lookup] in Hl. destruct (Nat.eqb j i).
      * injection Hl as <- <-. lia.
      * apply I1 in Hl. lia.
    + intros r Hr. destruct (I2 r Hr). split; lia.
  - (* the atomic step *)
    destruct (lookup i (m_invs m)) as [[t o]|] eqn:El; [|discriminate].
    destruct (has i (lin_ids (m_lin m))) eqn:Eh; [discriminate|].
    destruct (step (m_sh m) o) as [s' r] eqn:Es. injection H as <-.
    pose proof (I1 _ _ _ El) as Ht.
    constructor; cbn [m_sh m_now m_invs m_lin m_rets].
    + intros j t' o' Hl. apply I1 in Hl. lia.
    + intros x Hx. apply in_app_or in Hx. destruct Hx as [Hx|[<-|[]]].
      * destruct (I2 x Hx). split; lia.
      * cbn. split; lia.
    + apply ordered_snoc; auto. intros a Ha. destruct (I2 a Ha). cbn. lia.
    + intros j t' Hl. destruct (I4 _ _ Hl) as [Hh Hle]. split.
      * apply has_lin_ids. apply has_lin_ids in Hh. destruct Hh as (x & Hx & Hi).
        exists x. split; auto. apply in_or_app. auto.
      * intros x Hx Hi. apply in_app_or in Hx. destruct Hx as [Hx|[<-|[]]]; auto.
        cbn in Hi. subst j. congruence.
    + intros rs. rewrite map_app. apply legal_app. split; auto.
      rewrite I6. cbn. rewrite Es. cbn. split; auto.
    + intros rs. rewrite map_app, final_app, I6. cbn. rewrite Es. reflexivity.
  - (* the response *)
    destruct (has i (lin_ids (m_lin m))) eqn:Eh; [|discriminate].
    destruct (has i (m_rets m)) eqn:Er; [discriminate|]. cbn in H. injection H as <-.
    constructor; cbn [m_sh m_now m_invs m_lin m_rets]; auto.
    + intros j t o Hl. apply I1 in Hl. lia.
    + intros r Hr. destruct (I2 r Hr). split; lia.
    + intros j t Hl. cbn [lookup] in Hl. destruct (Nat.eqb j i) eqn:E.
      * apply Nat.eqb_eq in E. subst j. injection Hl as <-. split; auto.
        intros r Hr _. destruct (I2 r Hr). lia.
      * apply I4. exact Hl.
Qed.

Lemma MInv_run s0 tr : forall m m', MInv s0 m -> mrun m tr = Some m' -> MInv s0 m'.
Proof.
  induction tr as [|e tr IH]; cbn; intros m m' Hi H.
  - injection H as <-. exact Hi.
  - destruct (mstep m e) as [m1|] eqn:E; [|discriminate].
    eapply IH; [|exact H]. eapply MInv_step; eauto.
Qed.

(* THE DESIGN THEOREM.  Any execution in which every call takes effect in one atomic
   step between its invocation and its response: the calls, listed in the order of
   their steps, are a linearization of the recorded history (whatever order the
   recorder lists it in), and the state at the end is the specification's state after
   that order. *)
Theorem atomic_steps_linearizable s0 tr m h :
  mrun (minit s0) tr = Some m -> complete m ->
  Permutation h (history_of view m) ->
  linearization (fun s => s = m_sh m) s0 h (history_of view m).
Proof.
  intros R C P. pose proof (MInv_run tr (MInv_init s0) R) as [I1 I2 I3 I4 I5 I6].
  unfold history_of. change (call_of view m) with (mk (rsp_of m)).
  split; [symmetry; exact P|]. split; [|split].
  - apply rt_ok_of_stamps; auto. intros r Hr. destruct (I2 r Hr) as [Ha _]. split; auto.
    specialize (C r Hr). unfold has in C. unfold rsp_of.
    destruct (lookup (l_id r) (m_rets m)) as [t|] eqn:El; [|discriminate].
    destruct (I4 _ _ El) as [_ Hle]. auto.
  - apply I5.
  - apply I6.
Qed.

End LinProofs.
