(* Model of the persisted document of db/kv.go (schema version 1), at the level of
   the parsed JSON tree:  Secrets -> name -> { Versions : version -> bytes,
   ActiveVersion, LatestVersion }.  The textual JSON/base64 layer is Go's standard
   library and is not re-modelled.  Executable definitions only. *)
From Coq Require Import List Bool NArith.
Import ListNotations.
From Setec Require Import Base.SMap Server.KV.
Set Implicit Arguments.
Open Scope N_scope.

Section Persist.
Variable V : Type.

(* a JSON object is an unordered collection of members: here a list in the order
   the encoder happened to emit them *)
Definition sdoc := (list (N * V) * N * N)%type.          (* Versions, ActiveVersion, LatestVersion *)
Definition doc := list (name * sdoc).                     (* Secrets *)

(* json.Marshal(persist{Secrets: kv.secrets}) *)
Definition doc_of (k : kvs V) : doc := map (fun '(n, x) => (n, (vers x, active x, latest x))) k.

(* json.Unmarshal into Go maps: members are inserted one by one *)
Definition load_versions (vs : list (N * V)) : @smap N V := fold_right (fun '(v, b) m => upd v b m) [] vs.
Definition load (d : doc) : kvs V :=
  fold_right (fun '(n, (vs, a, l)) m => upd n {| vers := load_versions vs; active := a; latest := l |} m) [] d.

End Persist.
