From Coq Require Import List Bool NArith Lia.
Import ListNotations.
From Setec Require Import Base.SMap Server.KV Server.KVProofs Server.Persist.
Set Implicit Arguments.
Open Scope N_scope.

Section Gen.
Context {K W : Type} `{OK : Ord K}.

Lemma upd_lt_all (k : K) (v : W) (m : @smap K W) :
  (forall k' v', In (k', v') m -> cmp k k' = Lt) -> upd k v m = (k, v) :: m.
Proof.
  destruct m as [|[k1 v1] m]; [reflexivity|]. intro H. cbn. rewrite (H k1 v1) by (left; reflexivity). reflexivity.
Qed.

(* inserting the members of a canonical map one by one rebuilds it *)
Lemma rebuild_sorted (m : @smap K W) : sorted m -> fold_right (fun '(k, v) acc => upd k v acc) [] m = m.
Proof.
  induction 1 as [|k v m Hlt Hs IH]; [reflexivity|]. cbn. rewrite IH. apply upd_lt_all. assumption.
Qed.
End Gen.

Section PersistProofs.
Variable V : Type.

Lemma load_versions_sorted (vs : @smap N V) : sorted vs -> load_versions vs = vs.
Proof. apply rebuild_sorted. Qed.

(* C03: decoding the document of any invariant state yields exactly that state -
   names, version sets, bytes, active versions AND the next-version counters *)
Theorem load_doc_of (s : kvs V) : Inv s -> load (doc_of s) = s.
Proof.
  intros [Ss Hs]. unfold load, doc_of.
  assert (G : forall m : kvs V, sorted m -> (forall n x, In (n, x) m -> sorted (vers x)) ->
              fold_right (fun '(n, (vs, a, l)) acc => upd n {| vers := load_versions vs; active := a; latest := l |} acc) []
                (map (fun '(n, x) => (n, (vers x, active x, latest x))) m) = m).
  { induction 1 as [|k x m Hlt Hm IH]; intro Hv; [reflexivity|]. cbn.
    rewrite IH by (intros; eapply Hv; right; eassumption).
    rewrite load_versions_sorted by (eapply Hv; left; reflexivity).
    rewrite upd_lt_all by assumption. destruct x; reflexivity. }
  apply G; [assumption|]. intros n x I. apply in_find in I; [|assumption]. apply Hs in I. apply I.
Qed.

End PersistProofs.
