(* C04, in-memory half, consequence of KVProofs.rollback_exact: a call refused because the
   save failed can be repeated and then behaves exactly as if the failure had not happened. *)
From Coq Require Import List Bool NArith.
From Setec Require Import Base.SMap Server.KV Server.KVProofs.
Set Implicit Arguments.

Section Rollback.
Variable V : Type.
Variable veqb : V -> V -> bool.
Hypothesis veqb_spec : forall a b, veqb a b = true <-> a = b.

Theorem retry_after_refusal (s : kvs V) o s1 r1 sv1 :
  Inv s -> kv_step veqb false s o = (s1, r1, sv1) ->
  kv_step veqb true s1 o = kv_step veqb true s o /\ Inv s1.
Proof.
  intros I H. assert (E : s1 = s) by (first [exact (@rollback_exact V veqb veqb_spec s o s1 r1 sv1 I H) | exact (@rollback_exact V veqb s o s1 r1 sv1 I H)]).
  subst s1. split; [reflexivity|exact I].
Qed.

End Rollback.
