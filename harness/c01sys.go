package main

// C01, systematic part: the decisive cross product is enumerated, not sampled:
// all 32 action subsets x 6 rule shapes x 4 name classes x 9 calls.

import (
	"fmt"
	"os"
)

func init() {
	preRecords["C01"] = systematicC01
}

func actionSubset(mask int) []string {
	var out []string
	for i, a := range allActions {
		if mask&(1<<i) != 0 {
			out = append(out, a)
		}
	}
	return out
}

func systematicC01(work string) []Record {
	targets := []struct {
		class string
		name  []byte
		pfx   []byte
	}{
		{"existing", []byte("a/b"), []byte("a/*")},
		{"absent", []byte("zz/y"), []byte("zz*")},
		{"reserved", []byte("_internal/x"), []byte("_internal/*")},
		{"empty", []byte(""), []byte("*")},
	}
	shapes := []string{"exact", "star", "prefix", "nomatch", "split", "none"}
	ops := []string{"list", "info", "get", "getcond", "getver", "put", "activate", "delver", "del"}
	var out []Record
	idx := 0
	// quick tier: the empty set, the five singletons, their complements and the full set;
	// thorough tier: all 32 subsets.  Four subsets per history (large single terms elaborate slowly).
	masks := []int{0, 1, 2, 4, 8, 16, 30, 29, 27, 23, 15, 31}
	if os.Getenv("VERIF_TIER_INTERNAL") == "thorough" {
		masks = nil
		for m := 0; m < 32; m++ {
			masks = append(masks, m)
		}
	}
	for _, tg := range targets {
		for _, shape := range shapes {
			for g := 0; g < len(masks); g += 4 {
				group := masks[g:min(g+4, len(masks))]
				in := DBInput{Profile: "C01sys", Callers: []DBCaller{{ID: 1, Rules: superRules()}}}
				for _, mask := range group {
					acts := actionSubset(mask)
					var rules []c07Rule
					switch shape {
					case "exact":
						rules = []c07Rule{{Actions: acts, Secrets: [][]byte{tg.name}}}
					case "star":
						rules = []c07Rule{{Actions: acts, Secrets: [][]byte{[]byte("*")}}}
					case "prefix":
						rules = []c07Rule{{Actions: acts, Secrets: [][]byte{tg.pfx}}}
					case "nomatch":
						rules = []c07Rule{{Actions: acts, Secrets: [][]byte{[]byte("nomatch"), append(append([]byte{}, tg.name...), 'x')}}}
					case "split": // the actions in one rule, the matching pattern in another
						rules = []c07Rule{{Actions: acts, Secrets: [][]byte{[]byte("nomatch")}}, {Actions: actionSubset(31 &^ mask), Secrets: [][]byte{tg.name}}}
					case "none":
					}
					in.Callers = append(in.Callers, DBCaller{ID: 100 + mask, Rules: rules})
				}
				mkq := func(st DBStep) DBStep { st.NameQ = fmt.Sprintf("%q", st.Name); return st }
				restore := []DBStep{mkq(DBStep{Caller: 0, Kind: "put", Name: []byte("a/b"), Val: 1}), mkq(DBStep{Caller: 0, Kind: "put", Name: []byte("a/b"), Val: 2}), mkq(DBStep{Caller: 0, Kind: "put", Name: []byte("k"), Val: 3})}
				for gi := range group {
					in.Ops = append(in.Ops, restore...)
					for _, k := range ops {
						st := DBStep{Caller: 1 + gi, Kind: k, Name: tg.name, Ver: 1, Val: 2}
						if k == "delver" {
							st.Ver = 2
						}
						if k == "getcond" {
							st.Ver = 7
						}
						in.Ops = append(in.Ops, mkq(st))
					}
				}
				rec := runDBHistory(work, 40+idx, profC01, in, nil, 0)
				rec.Tags = append(rec.Tags, "systematic:"+tg.class+":"+shape)
				out = append(out, rec)
				idx++
			}
		}
	}
	return out
}
