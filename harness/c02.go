package main

func init() {
	commands["C02"] = func(o Opts) { runDBProfile(o, profC02, nil) }
}

var stdWeights = map[string]int{"put": 34, "activate": 14, "delver": 14, "del": 5, "get": 8, "getver": 9, "info": 6, "list": 4} // conditional get is C09's

var profC02 = &dbProfile{
	Name: "C02", N: map[string]int{"quick": 400, "thorough": 20000}, MinLen: 4, MaxLen: 40,
	Callers: superOnly, Weights: stdWeights,
	// "failed calls change nothing" includes calls that fail because the file system refused the save or
	// the audit log refused the record (write and sync failures)
	SaveFailP: 0.08, AuditP: 0.04,
	Nontrivial: func(in DBInput, obs []stepObs) bool {
		// at least one successful mutation after the first put, and one failed call
		muts, fails := 0, 0
		for i, st := range in.Ops {
			if (st.Kind == "put" || st.Kind == "activate" || st.Kind == "delver" || st.Kind == "del") && (obs[i].Res.Class == "ok" || obs[i].Res.Class == "ver") {
				muts++
			}
			if obs[i].Res.Class == "notfound" || obs[i].Res.Class == "other" {
				fails++
			}
		}
		return muts >= 2 && fails >= 1
	},
}
