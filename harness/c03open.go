package main

// C03, opening under read faults: a database file that exists but cannot be READ (open or read
// fails with EACCES / EIO / ...) is not "no database yet". db.Open must report an error (or serve
// exactly what the file holds) and must leave the file alone; afterwards a normal open still finds
// every acknowledged secret.  The fault is injected from outside with strace, on the database file
// only (-P path), in a child process that performs one db.Open and one read-only call.

import (
	"bytes"
	"encoding/json"
	"fmt"
	"io"
	"os"
	"os/exec"
	"path/filepath"
	"time"

	"github.com/tailscale/setec/audit"
	"github.com/tailscale/setec/db"
)

func c03OpenFaults(work string) []Record {
	var out []Record
	injections := []string{"openat:error=EACCES", "openat:error=EIO", "openat:error=ESTALE", "read:error=EIO", "read:error=EINTR:when=1", "pread64:error=EIO"}
	for i, inj := range injections {
		dir := filepath.Join(work, fmt.Sprintf("c03open%d", i))
		os.RemoveAll(dir)
		state := filepath.Join(dir, "state")
		os.MkdirAll(state, 0700)
		kekPath := filepath.Join(dir, "kek.json")
		kek := writeCleartextKEK(kekPath)
		path := filepath.Join(state, "db.json")
		in := map[string]any{"kind": "open-under-read-fault", "inject": inj}
		rec := Record{Kind: "openfault", Input: in, Key: "openfault:" + inj, Nontrivial: true, Tags: []string{"open-under-read-fault"}}
		d, err := db.Open(path, kek, audit.New(io.Discard))
		if err != nil {
			rec.Direct = &DirectVerdict{OK: false, What: "cannot create a database: " + err.Error()}
			out = append(out, rec)
			continue
		}
		super := mkCaller(DBCaller{ID: 0, Rules: superRules()})
		d.Put(super, "a", valueBytes(1))
		d.Put(super, "a", valueBytes(2))
		d.Put(super, "b", valueBytes(3))
		d.Activate(super, "a", 2)
		before, _ := decodeFile(path, kek)
		h0 := fileHash(path)
		// the child: open the existing file and get "a", with every open/read OF THAT FILE failing
		spec := c04Spec{State: state, KEK: kekPath, Op: DBStep{Kind: "get", Name: []byte("a")}}
		sb, _ := json.Marshal(spec)
		specFile := filepath.Join(dir, "spec.json")
		resFile := filepath.Join(dir, "res.json")
		os.WriteFile(specFile, sb, 0600)
		self, _ := os.Executable()
		cmd := exec.Command("strace", "-f", "-o", filepath.Join(dir, "trace.txt"), "-P", path, "-e", "trace=openat,read,pread64",
			"-e", "inject="+inj, self, "c04child", "-replay", specFile, "-out", resFile)
		cmd.Dir = dir
		var stderr bytes.Buffer
		cmd.Stderr = &stderr
		done := make(chan error, 1)
		if err := cmd.Start(); err != nil {
			rec.Direct = &DirectVerdict{OK: false, What: "strace cannot be started: " + err.Error()}
			out = append(out, rec)
			continue
		}
		go func() { done <- cmd.Wait() }()
		select {
		case <-done:
		case <-time.After(60 * time.Second):
			cmd.Process.Kill()
			<-done
		}
		tb, _ := os.ReadFile(filepath.Join(dir, "trace.txt"))
		hit := bytes.Contains(tb, []byte("(INJECTED)"))
		var res c04Result
		if rb, rerr := os.ReadFile(resFile); rerr == nil {
			json.Unmarshal(rb, &res)
		}
		// afterwards, with no fault: the file must be the same bytes and hold the same state
		after, derr := decodeFile(path, kek)
		if derr != nil {
			after = []secDump{{Name: []byte("<<file no longer opens: " + derr.Error() + ">>")}}
		}
		rec.Obs = map[string]any{"injected": hit, "child_open_error": res.OpenErr, "child_result": res.Res, "file_unchanged": h0 == fileHash(path)}
		rec.Coq = "Golden " + coqDisk(before) + " " + coqDisk(after)
		switch {
		case !hit:
			rec.Tags = append(rec.Tags, "open-fault-not-reached")
			rec.Nontrivial = false // this call is not made while opening: nothing was exercised
		case h0 != fileHash(path):
			rec.Direct = &DirectVerdict{OK: false, What: fmt.Sprintf("db.Open of an existing database file that could not be read (%s) modified the file", inj)}
		case res.Done && res.OpenErr == "" && !(res.Res.Class == "val" && res.Res.Ver == 2):
			rec.Direct = &DirectVerdict{OK: false, What: fmt.Sprintf("db.Open of an existing database file that could not be read (%s) succeeded and serves other contents (get a: %s)", inj, res.Res.Class)}
		}
		os.RemoveAll(dir)
		out = append(out, rec)
	}
	return out
}
