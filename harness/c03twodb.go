package main

// C03, several databases in one process: db.DB is a value a program can have more than one of (test
// fixtures, a migration tool with source and destination open, two servers embedded in one binary).  What
// one of them acknowledges must be in ITS file, whatever the others are doing at that moment.  Two databases
// with different keys are written concurrently by one goroutine each; after every acknowledged put the
// writer decodes its own file (the file is replaced atomically and nobody else writes it) and compares it
// with what its own handle serves.  The first difference - or the final state - is handed to the kernel as
// a `Golden expected observed` case.

import (
	"bytes"
	"fmt"
	"hash/crc32"
	"io"
	"path/filepath"
	"sync"

	"github.com/tailscale/setec/audit"
	"github.com/tailscale/setec/db"
)

func c03TwoDatabases(work string) []Record {
	var out []Record
	const names, rounds = 120, 160
	type side struct {
		env      *dbEnv
		tag      string
		bad      bool
		exp, obs []secDump
		what     string
	}
	var sides []*side
	for _, tag := range []string{"A", "B"} {
		env, err := newDBEnv(filepath.Join(work, "c03two"+tag))
		if err != nil {
			return []Record{{Kind: "twodb", Key: "twodb", Input: map[string]any{"kind": "two-databases"}, Direct: &DirectVerdict{OK: false, What: "cannot create a database: " + err.Error()}}}
		}
		env.sink.mu.Lock()
		env.sink.quiet = true
		env.sink.mu.Unlock()
		for i := 0; i < names; i++ { // a database large enough for a save to take a while
			env.d.Put(env.super, fmt.Sprintf("%s/%03d", tag, i), valueBytes(4+i%9))
		}
		sides = append(sides, &side{env: env, tag: tag})
	}
	var wg sync.WaitGroup
	for _, s := range sides {
		wg.Add(1)
		go func(s *side) {
			defer wg.Done()
			for k := 0; k < rounds && !s.bad; k++ {
				name := fmt.Sprintf("%s/%03d", s.tag, (k*7)%names)
				if _, err := s.env.d.Put(s.env.super, name, valueBytes(1+(k+len(s.tag))%12)); err != nil {
					continue
				}
				file, derr := decodeFile(s.env.path, s.env.kek.inner)
				live, lerr := dumpVia(s.env.d, s.env.super)
				if lerr != nil {
					continue
				}
				if derr != nil {
					s.bad, s.exp, s.obs = true, live, []secDump{{Name: []byte("<<file does not decode: " + derr.Error() + ">>")}}
					s.what = fmt.Sprintf("after acknowledged put %d of %q the file no longer decodes: %v", k, name, derr)
				} else if !sameDump(live, file, false) {
					s.bad, s.exp, s.obs = true, live, file
					s.what = fmt.Sprintf("after acknowledged put %d of %q the file holds other contents than the handle serves", k, name)
				}
			}
		}(s)
	}
	wg.Wait()
	for _, s := range sides {
		if !s.bad {
			s.exp, _ = dumpVia(s.env.d, s.env.super)
			s.obs, _ = decodeFile(s.env.path, s.env.kek.inner)
		}
		// keep the kernel's term small: only the secrets that differ, plus the first few
		exp, obs := trimDumps(s.exp, s.obs)
		for i := range obs { // the API does not show the next-version counter: compare names, versions, bytes, active
			obs[i].Latest = 0
		}
		for i := range exp {
			exp[i].Latest = 0
		}
		rec := Record{Kind: "twodb", Key: "twodb:" + s.tag, Nontrivial: true, Tags: []string{"two-databases-one-process"},
			Input: map[string]any{"kind": "two-databases", "side": s.tag, "names": names, "rounds": rounds},
			Obs:   map[string]any{"diverged": s.bad, "what": s.what},
			Coq:   "Golden " + coqDisk(exp) + " " + coqDisk(obs)}
		out = append(out, rec)
		s.env.close()
	}
	return out
}

// trimDumps keeps the entries on which two dumps differ and at most four others.
func trimDumps(a, b []secDump) ([]secDump, []secDump) {
	if len(a) != len(b) {
		if len(a) > 6 {
			a = a[:6]
		}
		if len(b) > 6 {
			b = b[:6]
		}
		return a, b
	}
	var ra, rb []secDump
	same := 0
	for i := range a {
		if sameDump(a[i:i+1], b[i:i+1], false) {
			if same < 4 {
				ra, rb = append(ra, a[i]), append(rb, b[i])
			}
			same++
		} else {
			ra, rb = append(ra, a[i]), append(rb, b[i])
		}
	}
	return ra, rb
}

// c03BigValues: values around a megabyte (a size limit applied on one side only - accepted by Put, refused
// when the file is loaded - would make the database unopenable after the next restart).  The values are
// identified by a checksum; the kernel compares what was acknowledged with what the reopened file serves.
func c03BigValues(work string) []Record {
	env, err := newDBEnv(filepath.Join(work, "c03big"))
	in := map[string]any{"kind": "big-values", "sizes": []int{1<<20 - 1, 1 << 20, 1<<20 + 1, 3 << 20}}
	if err != nil {
		return []Record{{Kind: "bigvalues", Key: "bigvalues", Input: in, Direct: &DirectVerdict{OK: false, What: "cannot create a database: " + err.Error()}}}
	}
	defer env.close()
	env.sink.mu.Lock()
	env.sink.quiet = true
	env.sink.mu.Unlock()
	sum := func(b []byte) uint64 { return uint64(crc32.ChecksumIEEE(b)) + 1000000 }
	var exp []secDump
	for i, n := range []int{1<<20 - 1, 1 << 20, 1<<20 + 1, 3 << 20} {
		val := bytes.Repeat([]byte{byte('a' + i), 0xff, 0x00, '\n'}, n/4+1)[:n]
		name := fmt.Sprintf("big/%d", i)
		v, perr := env.d.Put(env.super, name, val)
		if perr != nil {
			continue // a refused value is not acknowledged: it need not be there afterwards
		}
		exp = append(exp, secDump{Name: []byte(name), Vers: []verVal{{Ver: uint64(v), Val: sum(val)}}, Active: uint64(v)})
	}
	obs := []secDump{{Name: []byte("<<the file no longer opens>>")}}
	if d2, oerr := db.Open(env.path, env.kek.inner, audit.New(io.Discard)); oerr == nil {
		obs = nil
		for _, e := range exp {
			sd := secDump{Name: e.Name}
			if sv, gerr := d2.Get(env.super, string(e.Name)); gerr == nil {
				sd.Vers, sd.Active = []verVal{{Ver: uint64(sv.Version), Val: sum(sv.Value)}}, uint64(sv.Version)
			}
			obs = append(obs, sd)
		}
	} else {
		obs[0].Name = []byte("<<the file no longer opens: " + oerr.Error() + ">>")
	}
	return []Record{{Kind: "bigvalues", Key: "bigvalues", Nontrivial: len(exp) >= 3, Tags: []string{"values-around-a-megabyte"}, Input: in,
		Obs: map[string]any{"acknowledged": len(exp)}, Coq: "Golden " + coqDisk(exp) + " " + coqDisk(obs)}}
}
