package main

// Property C04: database file update is all-or-nothing under crashes and I/O failures.
//   (1) histories with refused saves on the real db.DB (rollback; judged by Run_DB.check_C04);
//   (2) per kind of mutating call, a child process performs ONE real db operation under
//       strace: the recorded system calls go to the verified monitor (kernel);
//   (3) the same call killed at the entry of every one of those system calls (and after the
//       last one), then db.Open + dump;
//   (4) the same call with every one of those system calls failing (EIO, ENOSPC): the same
//       process keeps serving, is dumped, and retries.

import (
	"encoding/json"
	"fmt"
	"math/rand/v2"
	"os"
	"path/filepath"
	"strings"
	"sync"
	"sync/atomic"
	"time"

	"github.com/tailscale/setec/audit"
	"github.com/tailscale/setec/db"
	"github.com/tink-crypto/tink-go/v2/tink"
	"io"
)

type c04Scenario struct {
	Kind string   `json:"kind"` // create firstput newversion activate delver del
	Pre  []DBStep `json:"pre"`  // operations building the pre-call state (all succeed)
	Op   DBStep   `json:"op"`
}

type c04Run struct {
	Sc    c04Scenario `json:"scenario"`
	Run   string      `json:"run"`             // trace | kill | fault
	Index int         `json:"index"`           // index of the system call in the window (kill: len = after the last)
	Errno string      `json:"errno,omitempty"` // fault: EIO ENOSPC ...
	Sys   string      `json:"syscall,omitempty"`
}

// C04Input is either a history (fields of DBInput, shrinkable on "ops") or a file-system run.
type C04Input struct {
	DBInput
	FS *c04Run `json:"fs,omitempty"`
}

func init() {
	commands["C04"] = runC04
}

// Child runs that ended because a call on the database handle never returned.  Every one costs
// its time-out and they all say the same, so after c04HungCap of them the remaining fault runs
// of the run are skipped (and counted).
var c04Hung, c04Skipped atomic.Int32

const c04HungCap = 8

// bounded runs f (calls into a database handle) and reports whether it returned within
// dbCallTimeout; if not, the goroutine is left behind (nothing can be done for it).
func bounded(f func()) bool {
	done := make(chan struct{})
	go func() {
		defer close(done)
		f()
	}()
	select {
	case <-done:
		return true
	case <-time.After(dbCallTimeout):
		return false
	}
}

var c04Kinds = []string{"create", "firstput", "newversion", "activate", "delver", "del"}

func c04Scenarios(seed uint64, tier string) []c04Scenario {
	per := 3
	if tier == "thorough" {
		per = 8
	}
	var out []c04Scenario
	for ki, kind := range c04Kinds {
		n := per
		if kind == "create" {
			n = 1
		}
		for j := 0; j < n; j++ {
			r := NewRand(seed, uint64(40000+ki*100+j))
			out = append(out, genC04Scenario(r, kind, tier == "thorough"))
		}
	}
	return out
}

func genC04Scenario(r *rand.Rand, kind string, big bool) c04Scenario {
	sc := c04Scenario{Kind: kind}
	if kind == "create" {
		return sc
	}
	mk := func(k string, name []byte, ver uint32, val int) DBStep {
		return DBStep{Kind: k, Name: name, NameQ: fmt.Sprintf("%q", name), Ver: ver, Val: val}
	}
	names := [][]byte{[]byte("a"), []byte("b"), []byte("a/b"), []byte("p/q")}
	// some unrelated content first (the file must keep it across the call)
	target := names[r.IntN(2)]
	others := r.IntN(3)
	maxVal := 3
	if big {
		maxVal = maxValueToken
	}
	for i := 0; i < others; i++ {
		n := names[2+r.IntN(2)]
		sc.Pre = append(sc.Pre, mk("put", n, 0, 1+r.IntN(maxVal)))
	}
	val := 1 + r.IntN(maxVal)
	switch kind {
	case "firstput":
		sc.Op = mk("put", target, 0, val)
	case "newversion":
		nv := 1 + r.IntN(2)
		for i := 0; i < nv; i++ {
			sc.Pre = append(sc.Pre, mk("put", target, 0, (val+i)%maxVal+1))
		}
		sc.Op = mk("put", target, 0, (val+nv)%maxVal+1)
		if big && r.IntN(3) == 0 {
			sc.Op.Val = 4 // a value of several hundred bytes
			if sc.Pre[len(sc.Pre)-1].Val == 4 {
				sc.Op.Val = 9 // (the latest version must differ, or the put is a no-op without a save)
			}
		}
	case "activate", "delver":
		nv := 2 + r.IntN(2)
		for i := 0; i < nv; i++ {
			sc.Pre = append(sc.Pre, mk("put", target, 0, (val+i)%3+1))
		}
		v := uint32(2 + r.IntN(nv-1)) // versions 1..nv exist, 1 is active
		if kind == "delver" && r.IntN(2) == 0 {
			// make a later version active and delete version 1
			sc.Pre = append(sc.Pre, mk("activate", target, v, 0))
			v = 1
		}
		sc.Op = mk(kind, target, v, 0)
	case "del":
		nv := 1 + r.IntN(2)
		for i := 0; i < nv; i++ {
			sc.Pre = append(sc.Pre, mk("put", target, 0, (val+i)%3+1))
		}
		sc.Op = mk("del", target, 0, 0)
	}
	return sc
}

// scenarioEnv: a prepared pre-call state directory (template) and its key file.
type scenarioEnv struct {
	sc      c04Scenario
	root    string
	kekFile string
	tmpl    string // template state directory
	pre     []secDump
	preOK   bool
	oldFile []byte
	n       int
	mu      sync.Mutex
}

func prepareScenario(root string, sc c04Scenario) (*scenarioEnv, error) {
	os.RemoveAll(root)
	tmpl := filepath.Join(root, "tmpl")
	if err := os.MkdirAll(tmpl, 0700); err != nil {
		return nil, err
	}
	se := &scenarioEnv{sc: sc, root: root, kekFile: filepath.Join(root, "kek.json"), tmpl: tmpl}
	kek := writeCleartextKEK(se.kekFile)
	if sc.Kind == "create" {
		se.preOK = true
		return se, nil
	}
	path := filepath.Join(tmpl, "db.json")
	d, err := db.Open(path, kek, audit.New(io.Discard))
	if err != nil {
		return nil, err
	}
	super := mkCaller(DBCaller{ID: 0, Rules: superRules()})
	for i, st := range sc.Pre {
		var r resObs
		if !bounded(func() { r = applyOp(d, super, st) }) {
			return nil, fmt.Errorf("pre-history step %d (%s) never returned: the database handle is deadlocked", i, st.Kind)
		}
		if r.Class != "ok" && r.Class != "ver" {
			return nil, fmt.Errorf("pre-history step %s failed: %s", st.Kind, r.Err)
		}
	}
	var fo fileObs
	if !bounded(func() { fo = observeFile(path, kek) }) {
		return nil, fmt.Errorf("opening and listing the prepared database never returned")
	}
	if fo.Kind != "state" {
		return nil, fmt.Errorf("pre-state does not open: %s", fo.Note)
	}
	se.pre, se.preOK = fo.Dump, fo.Note == ""
	se.oldFile, _ = os.ReadFile(path)
	return se, nil
}

// fresh copies the template into a new run directory.
func (se *scenarioEnv) fresh() (dir string, spec c04Spec) {
	se.mu.Lock()
	se.n++
	dir = filepath.Join(se.root, fmt.Sprintf("run%d", se.n))
	se.mu.Unlock()
	state := filepath.Join(dir, "state")
	os.MkdirAll(state, 0700)
	if se.sc.Kind != "create" {
		os.WriteFile(filepath.Join(state, "db.json"), se.oldFile, 0600)
	}
	return dir, c04Spec{State: state, KEK: se.kekFile, Create: se.sc.Kind == "create", Op: se.sc.Op}
}

func (se *scenarioEnv) coqOpk() string {
	if se.sc.Kind == "create" {
		return "XCreate"
	}
	return "(XCall (" + coqOp(se.sc.Op) + "))"
}

func coqServed(d []secDump, ok bool) string {
	if !ok {
		return "None"
	}
	return "(Some " + coqLive(d) + ")"
}

func dirSummary(names []string) (live bool, others int) {
	for _, n := range names {
		if n == "db.json" {
			live = true
		} else {
			others++
		}
	}
	return
}

func c04Key(run c04Run) string {
	b, _ := json.Marshal(run)
	return string(b)
}

// runC04Scenario performs the baseline, kill and fault runs of one scenario.
// only != nil restricts to one run (replay).
func runC04Scenario(work string, idx int, sc c04Scenario, tier string, only *c04Run) []Record {
	var recs []Record
	root := filepath.Join(work, "c04fs", fmt.Sprintf("s%d", idx))
	direct := func(run string, what string) Record {
		r := c04Run{Sc: sc, Run: run}
		return Record{Kind: "fs-" + run, Input: C04Input{FS: &r}, Key: c04Key(r) + what, Tags: []string{"fs:" + run, "kind:" + sc.Kind},
			Direct: &DirectVerdict{OK: false, What: what}}
	}
	se, err := prepareScenario(root, sc)
	if err != nil {
		return []Record{direct("prepare", "cannot prepare the pre-call state: "+err.Error())}
	}
	defer os.RemoveAll(root)
	kek := loadCleartextKEK(se.kekFile)
	// ---- baseline
	dir, spec := se.fresh()
	base, err := runChild(dir, spec, "")
	if err != nil {
		fatal("C04: %v", err) // the tracer is unavailable: the correspondence cannot run
	}
	if base.TimedOut {
		c04Hung.Add(1)
		return []Record{direct("trace", "the child did not finish: "+base.hungCall()+" never returned within "+childTimeout.String()+" (no fault injected) - the database handle is deadlocked")}
	}
	if base.Result == nil || !base.Trace.Begin || !base.Trace.End {
		return []Record{direct("trace", "the traced child did not complete the operation: "+base.Exit)}
	}
	newFile, _ := os.ReadFile(filepath.Join(spec.State, "db.json"))
	oldCoq := "None"
	if sc.Kind != "create" {
		oldCoq = "(Some " + coqBytes(se.oldFile) + ")"
	}
	brun := c04Run{Sc: sc, Run: "trace"}
	tags := []string{"fs:trace", "kind:" + sc.Kind}
	if only == nil || only.Run == "trace" {
		recs = append(recs, Record{Kind: "fs-trace", Input: C04Input{FS: &brun}, Key: c04Key(brun),
			Obs:        map[string]any{"calls": base.Trace.classes(), "result": base.Result.Res, "old_len": len(se.oldFile), "new_len": len(newFile)},
			Nontrivial: len(base.Trace.Ops) >= 3, Tags: tags,
			Coq: fmt.Sprintf("Trace %s %s %s", oldCoq, coqBytes(newFile), base.Trace.effective(true))})
		if base.Result.Res.Class != "ok" && base.Result.Res.Class != "ver" {
			recs[len(recs)-1].Direct = &DirectVerdict{OK: false, What: "the un-faulted call failed: " + base.Result.Res.Err}
		}
	}
	atr := base.Trace.effective(false)
	ops := base.Trace.Ops
	type job struct {
		run    c04Run
		inject string
		want   string // class of the call that must have been hit
	}
	var jobs []job
	for i, o := range ops {
		jobs = append(jobs, job{c04Run{Sc: sc, Run: "kill", Index: i, Sys: o.Sys}, fmt.Sprintf("%s:signal=KILL:when=%d", o.Sys, o.Nth), o.Class})
	}
	jobs = append(jobs, job{c04Run{Sc: sc, Run: "kill", Index: len(ops), Sys: "end-marker"}, fmt.Sprintf("newfstatat:signal=KILL:when=%d", base.Trace.EndNth), "end"})
	errnos := []string{"EIO"}
	for i, o := range ops {
		es := errnos
		if o.Sys == "write" || o.Sys == "openat" || o.Sys == "fsync" || o.Sys == "renameat" || tier == "thorough" {
			es = []string{"EIO", "ENOSPC"}
		}
		if tier == "thorough" {
			es = append(es, "EACCES", "EINTR")
		}
		for _, e := range es {
			jobs = append(jobs, job{c04Run{Sc: sc, Run: "fault", Index: i, Errno: e, Sys: o.Sys}, fmt.Sprintf("%s:error=%s:when=%d", o.Sys, e, o.Nth), o.Class})
		}
	}
	out := make([][]Record, len(jobs))
	var wg sync.WaitGroup
	sem := make(chan struct{}, 6)
	for ji, j := range jobs {
		if only != nil && (only.Run != j.run.Run || only.Index != j.run.Index || only.Errno != j.run.Errno) {
			continue
		}
		wg.Add(1)
		go func(ji int, j job) {
			defer wg.Done()
			sem <- struct{}{}
			defer func() { <-sem }()
			if j.run.Run == "fault" && only == nil && c04Hung.Load() >= c04HungCap {
				c04Skipped.Add(1) // enough deadlocked handles seen in this run
				return
			}
			for attempt := 0; attempt < 3; attempt++ {
				rec, landed := runC04Job(se, kek, j.run, j.inject, j.want, atr)
				if landed {
					out[ji] = []Record{rec}
					return
				}
			}
			r := j.run
			out[ji] = []Record{{Kind: "fs-" + r.Run, Input: C04Input{FS: &r}, Key: c04Key(r), Tags: []string{"fs:mislanded"},
				Obs: "the injection did not land on the intended call in three attempts; discarded, not counted"}}
		}(ji, j)
	}
	wg.Wait()
	ran, missed := 0, 0
	for _, rs := range out {
		for _, r := range rs {
			ran++
			if len(r.Tags) == 1 && r.Tags[0] == "fs:mislanded" {
				missed++
			}
		}
		recs = append(recs, rs...)
	}
	if ran > 0 && missed*4 > ran {
		// kill/error injection is not reaching the intended calls: the crash and fault clauses are not being exercised
		recs = append(recs, direct("inject", sprintf("%d of %d injected runs did not land on the intended system call: the tracer's injection is not usable, the property is not shown", missed, ran)))
	}
	return recs
}

func runC04Job(se *scenarioEnv, kek tink.AEAD, run c04Run, inject, want, atr string) (Record, bool) {
	dir, spec := se.fresh()
	defer os.RemoveAll(dir)
	cr, err := runChild(dir, spec, inject)
	if err != nil {
		fatal("C04: %v", err)
	}
	path := filepath.Join(spec.State, "db.json")
	r := run
	rec := Record{Kind: "fs-" + run.Run, Input: C04Input{FS: &r}, Key: c04Key(r),
		Tags: []string{"fs:" + run.Run, "kind:" + se.sc.Kind, "at:" + run.Sys}}
	if run.Errno != "" {
		rec.Tags = append(rec.Tags, "errno:"+run.Errno)
	}
	switch run.Run {
	case "kill":
		if cr.Result != nil || cr.Trace.KilledAt != want {
			return rec, false
		}
		fo := observeFile(path, kek)
		rec.Obs = map[string]any{"completed": cr.Trace.classes(), "killed_at": cr.Trace.KilledAt, "file": fo, "dir": listDir(spec.State)}
		rec.Nontrivial = true
		rec.Coq = fmt.Sprintf("Kill %s %s %s %s %s", se.coqOpk(), coqDisk(se.pre), atr, cr.Trace.effective(false), coqFileObs(fo))
		return rec, true
	case "fault":
		hit := false
		for _, o := range cr.Trace.Ops {
			if o.Injected && o.Class == want {
				hit = true
			}
		}
		if !hit {
			return rec, false
		}
		if cr.TimedOut {
			// a call on the handle never returned: the child was ended after childTimeout; the trace
			// tells which call it had announced, its notes what the operation itself had reported
			c04Hung.Add(1)
			said := "had not returned"
			if p := cr.Partial; p != nil && p.Res.Class != "" {
				said = "reported " + p.Res.Class
				if p.Res.Err != "" {
					said += " (" + p.Res.Err + ")"
				}
			}
			rec.Direct = &DirectVerdict{OK: false, What: sprintf("%s of %s: with %s injected in %s (system call #%d of the save) the call %s; then the child did not finish: %s never returned within %s - the database handle is deadlocked (a lock was kept), later calls do not succeed",
				se.sc.Kind, se.sc.Op.NameQ, run.Errno, run.Sys, run.Index, said, cr.hungCall(), childTimeout)}
			rec.Obs = map[string]any{"calls": cr.Trace.classes(), "child_notes": cr.Partial, "last_call_announced": cr.Trace.LastCall}
			rec.Tags = append(rec.Tags, "fs:hung")
			return rec, true
		}
		if cr.Result == nil {
			rec.Direct = &DirectVerdict{OK: false, What: "the process did not survive an I/O error in " + run.Sys + ": " + cr.Exit}
			rec.Obs = map[string]any{"calls": cr.Trace.classes()}
			return rec, true
		}
		res := cr.Result
		final := observeFile(path, kek)
		dl, dn := dirSummary(res.Dir)
		rec.Obs = map[string]any{"calls": cr.Trace.classes(), "child": res, "final": final}
		rec.Nontrivial = res.Retried
		rec.Coq = fmt.Sprintf("Fault %s %s %s %s %s %s %d %d %s %d %s %s %s %d %s",
			se.coqOpk(), coqDisk(se.pre), cr.Trace.effective(false),
			coqRes(res.Res), coqServed(res.Served, res.ServedOK && !(spec.Create && res.Res.Class != "ok")), coqFileObs(res.Disk1), res.Gen0, res.Gen1,
			coqBool(dl), dn, coqBool(res.Retried), coqRes(res.Res2), coqServed(res.Served2, res.Retried), res.Gen2, coqFileObs(final))
		return rec, true
	}
	return rec, false
}

func runC04(o Opts) {
	out := NewOut(o.Out)
	defer out.Close()
	work := o.Work
	if work == "" {
		work = "."
	}
	if o.Replay != "" {
		for i, in := range readInputs[C04Input](o.Replay) {
			if in.FS != nil {
				for _, rec := range runC04Scenario(work, i, in.FS.Sc, o.Tier, in.FS) {
					out.Emit(rec)
				}
			} else {
				rec := runDBHistory(work, i, profC04, in.DBInput, nil, 0)
				rec.Coq = "DBc (" + rec.Coq + ")"
				out.Emit(rec)
			}
		}
		return
	}
	idx := 0
	for _, in := range readCorpus[C04Input](o.Corpus) {
		if in.FS != nil {
			for _, rec := range runC04Scenario(work, 9000+idx, in.FS.Sc, o.Tier, nil) {
				rec.Corpus = "corpus"
				out.Emit(rec)
			}
		} else {
			rec := runDBHistory(work, idx, profC04, in.DBInput, nil, 0)
			rec.Coq = "DBc (" + rec.Coq + ")"
			rec.Corpus = "corpus"
			out.Emit(rec)
		}
		idx++
	}
	// ---- (2)-(4) file-system runs
	scs := c04Scenarios(o.Seed, o.Tier)
	all := make([][]Record, len(scs))
	var wg sync.WaitGroup
	sem := make(chan struct{}, 3)
	for i, sc := range scs {
		wg.Add(1)
		go func(i int, sc c04Scenario) {
			defer wg.Done()
			sem <- struct{}{}
			defer func() { <-sem }()
			all[i] = runC04Scenario(work, i, sc, o.Tier, nil)
		}(i, sc)
	}
	wg.Wait()
	if n := c04Skipped.Load(); n > 0 {
		out.Emit(Record{Kind: "fs-fault", Key: "skipped-after-hangs", Tags: []string{"fs:skipped-after-hangs"},
			Obs: sprintf("%d fault runs were not made: %d child runs of this run had already ended in a deadlocked handle (each reported on its own)", n, c04Hung.Load())})
	}
	var selfSrc []Record
	seen := map[string]bool{}
	for _, rs := range all {
		for _, rec := range rs {
			rec.ID = out.n
			out.Emit(rec)
			if rec.Coq != "" && rec.Direct == nil && !seen[rec.Kind] {
				seen[rec.Kind] = true
				selfSrc = append(selfSrc, rec)
			}
		}
	}
	// ---- (1) rollback histories
	n := map[string]int{"quick": 300, "thorough": 10000}[o.Tier]
	if o.N > 0 {
		n = o.N
	}
	var dbSelf []Record
	for i := 0; i < n; i++ {
		if hungHistories >= 2 {
			break // every further history would cost its time-outs and say the same (the fault runs above report the same deadlock with the system call that failed)
		}
		r := NewRand(o.Seed, uint64(1000+i))
		length := profC04.MinLen + r.IntN(profC04.MaxLen-profC04.MinLen+1)
		in := DBInput{Profile: "C04", Callers: profC04.Callers(r)}
		rec := runDBHistory(work, idx, profC04, in, r, length)
		idx++
		raw := rec
		rec.Coq = "DBc (" + rec.Coq + ")"
		rec.ID = out.n
		out.Emit(rec)
		if len(dbSelf) < 2 && i%7 >= 3 && rec.Direct == nil {
			raw.ID = rec.ID
			dbSelf = append(dbSelf, raw)
		}
	}
	// ---- self-tests: one observable altered; the kernel must flag each
	for _, rec := range dbSelf {
		in := rec.Input.(DBInput)
		obs := append([]stepObs(nil), rec.Obs.([]stepObs)...)
		if !alterForSelfTest("C04", in, obs) {
			continue
		}
		rec.Coq = "DBc (" + coqCase(in, obs) + ")"
		rec.SelfTest, rec.SelfOf, rec.Obs = true, rec.ID, nil
		out.Emit(rec)
	}
	for _, rec := range selfSrc {
		alt := rec
		switch rec.Kind {
		case "fs-trace": // drop the flush
			if !strings.Contains(rec.Coq, "Fsync 0;") {
				continue
			}
			alt.Coq = strings.ReplaceAll(rec.Coq, "Fsync 0;", "")
		case "fs-kill": // claim the file did not open
			i := strings.LastIndex(rec.Coq, "] ")
			if i < 0 {
				continue
			}
			alt.Coq = rec.Coq[:i+2] + "FBroken"
		case "fs-fault": // claim the temporary was left behind
			alt.Coq = strings.Replace(rec.Coq, " true 0 ", " true 1 ", 1)
			if alt.Coq == rec.Coq {
				alt.Coq = strings.Replace(rec.Coq, " false 0 ", " false 1 ", 1)
			}
			if alt.Coq == rec.Coq {
				continue
			}
		default:
			continue
		}
		alt.SelfTest, alt.SelfOf, alt.Obs = true, rec.ID, nil
		out.Emit(alt)
	}
}
