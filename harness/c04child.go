package main

// The child process of property C04 (and the creation-mode observation of C05):
// it opens the database of a prepared state directory with a clear-text test key,
// performs ONE real db operation between two marker system calls, and reports what
// the still-running process serves afterwards.  The parent runs it under
// `strace -f` and injects kills and errors from outside.
//
//   harness c04child -replay <spec.json> -out <result.json>

import (
	"bytes"
	"encoding/json"
	"io"
	"os"
	"path/filepath"
	"runtime"
	"sort"

	"github.com/tailscale/setec/audit"
	"github.com/tailscale/setec/db"
	"github.com/tailscale/setec/types/api"
	"github.com/tink-crypto/tink-go/v2/aead"
	"github.com/tink-crypto/tink-go/v2/insecurecleartextkeyset"
	"github.com/tink-crypto/tink-go/v2/keyset"
	"github.com/tink-crypto/tink-go/v2/tink"
)

type c04Spec struct {
	State  string `json:"state"`  // state directory (holds db.json)
	KEK    string `json:"kek"`    // clear-text keyset file (outside the state directory)
	Create bool   `json:"create"` // the operation is the creation of the database by db.Open
	Op     DBStep `json:"op"`
}

type c04Result struct {
	OpenErr  string    `json:"open_err,omitempty"` // db.Open of the existing file failed (before the operation)
	Res      resObs    `json:"res"`                // outcome of the operation
	Served   []secDump `json:"served"`             // state served by this process after the operation
	ServedOK bool      `json:"served_ok"`
	Gen0     uint64    `json:"gen0"` // WriteGen before / after the operation
	Gen1     uint64    `json:"gen1"`
	Dir      []string  `json:"dir"`   // names in the state directory after the operation
	Disk1    fileObs   `json:"disk1"` // the file as a second db.Open (same key) sees it after the operation
	Retried  bool      `json:"retried"`
	Res2     resObs    `json:"res2"` // the same call once more, if the first one reported an error
	Served2  []secDump `json:"served2"`
	Gen2     uint64    `json:"gen2"`
	Dir2     []string  `json:"dir2"`
	KEKCalls []int     `json:"kek_calls"` // key uses: at open, during the operation, during dump+retry
	Done     bool      `json:"done"`
	Hung     string    `json:"hung,omitempty"` // filled in by the PARENT: the call on the handle that never returned
}

func init() {
	commands["c04child"] = c04Child
}

func loadCleartextKEK(path string) tink.AEAD {
	kb, err := os.ReadFile(path)
	if err != nil {
		fatal("kek file: %v", err)
	}
	h, err := insecurecleartextkeyset.Read(keyset.NewJSONReader(bytes.NewReader(kb)))
	if err != nil {
		fatal("kek: %v", err)
	}
	a, err := aead.New(h)
	if err != nil {
		fatal("kek: %v", err)
	}
	return a
}

func writeCleartextKEK(path string) tink.AEAD {
	h, err := keyset.NewHandle(aead.AES256GCMKeyTemplate())
	if err != nil {
		fatal("%v", err)
	}
	var kbuf bytes.Buffer
	if err := insecurecleartextkeyset.Write(h, keyset.NewJSONWriter(&kbuf)); err != nil {
		fatal("%v", err)
	}
	if err := os.WriteFile(path, kbuf.Bytes(), 0600); err != nil {
		fatal("%v", err)
	}
	a, _ := aead.New(h)
	return a
}

// fileObs: what is found at the live path (absent / does not open / contents incl. counters)
type fileObs struct {
	Kind string    `json:"kind"` // absent | broken | state
	Dump []secDump `json:"dump,omitempty"`
	Note string    `json:"note,omitempty"`
}

// observeFile opens the database file with db.Open under the given key (never creating
// it) and dumps it through the API; counters come from the documented layout.
func observeFile(path string, kek tink.AEAD) fileObs {
	if _, err := os.Lstat(path); err != nil {
		return fileObs{Kind: "absent"}
	}
	d2, err := db.Open(path, kek, audit.New(io.Discard))
	if err != nil {
		return fileObs{Kind: "broken", Note: "db.Open: " + err.Error()}
	}
	super := mkCaller(DBCaller{ID: 0, Rules: superRules()})
	via, err := dumpVia(d2, super)
	if err != nil {
		return fileObs{Kind: "broken", Note: "dump: " + err.Error()}
	}
	dec, err := decodeFile(path, kek)
	if err != nil || !sameDump(dec, via, false) {
		return fileObs{Kind: "state", Dump: via, Note: "layout decode disagrees with db.Open"}
	}
	return fileObs{Kind: "state", Dump: dec}
}

func coqFileObs(f fileObs) string {
	switch f.Kind {
	case "absent":
		return "FAbsent"
	case "state":
		return "(FState " + coqDisk(f.Dump) + ")"
	}
	return "FBroken"
}

func listDir(dir string) []string {
	ents, _ := os.ReadDir(dir)
	out := []string{}
	for _, e := range ents {
		out = append(out, e.Name())
	}
	sort.Strings(out)
	return out
}

// applyOp performs one call on d as the superuser and classifies the outcome.
func applyOp(d *db.DB, super db.Caller, st DBStep) (o resObs) {
	defer func() {
		if p := recover(); p != nil {
			o = resObs{Class: "other", Err: sprintf("PANIC: %v", p)}
		}
	}()
	name := string(st.Name)
	var err error
	switch st.Kind {
	case "put":
		var v api.SecretVersion
		v, err = d.Put(super, name, valueBytes(st.Val))
		if err == nil {
			return resObs{Class: "ver", Ver: uint64(v)}
		}
	case "activate":
		err = d.Activate(super, name, api.SecretVersion(st.Ver))
	case "delver":
		err = d.DeleteVersion(super, name, api.SecretVersion(st.Ver))
	case "del":
		err = d.Delete(super, name)
	default:
		fatal("c04child: op kind %q", st.Kind)
	}
	if err != nil {
		return resObs{Class: classify(err), Err: err.Error()}
	}
	return resObs{Class: "ok"}
}

func c04Child(o Opts) {
	runtime.LockOSThread() // keep the operation on the main thread: strace counts injections per thread
	sb, err := os.ReadFile(o.Replay)
	if err != nil {
		fatal("spec: %v", err)
	}
	var spec c04Spec
	if err := json.Unmarshal(sb, &spec); err != nil {
		fatal("spec: %v", err)
	}
	kek := &countingAEAD{inner: loadCleartextKEK(spec.KEK)}
	path := filepath.Join(spec.State, "db.json")
	super := mkCaller(DBCaller{ID: 0, Rules: superRules()})
	var res c04Result
	write := func() {
		bs, _ := json.Marshal(res)
		// (strace's injection counts per thread: when the watchdog's thread writes the result, ITS
		// n-th openat/write/close may be the injected one - try again, the injection strikes once)
		for i := 0; i < 5; i++ {
			if os.WriteFile(o.Out, bs, 0600) == nil {
				return
			}
		}
	}
	// No watchdog in here: a second goroutine would bring timers and wake-ups, i.e. write system
	// calls on other threads, and strace injects into EVERY thread's n-th call.  Instead, this
	// thread announces each call on the handle by a marker stat (.c04-call-<k>, visible in the
	// trace); if the call never returns the parent ends the child after childTimeout and reads
	// from the trace which call that was.
	stage := func(k int) {
		if k > 0 {
			os.Stat(filepath.Join(spec.State, sprintf(".c04-call-%d", k)))
		}
	}
	var d *db.DB
	k0 := 0
	if spec.Create {
		stage(1)
		os.Stat(filepath.Join(spec.State, ".c04-begin"))
		d, err = db.Open(path, kek, audit.New(io.Discard))
		os.Stat(filepath.Join(spec.State, ".c04-end"))
		if err != nil {
			res.Res = resObs{Class: "other", Err: err.Error()}
		} else {
			res.Res = resObs{Class: "ok"}
			stage(2)
			res.Gen1 = d.WriteGen()
			}
		k0 = kek.count()
		res.KEKCalls = append(res.KEKCalls, 0, k0)
	} else {
		d, err = db.Open(path, kek, audit.New(io.Discard))
		if err != nil {
			res.OpenErr = err.Error()
			res.Done = true
			write()
			return
		}
		res.Gen0 = d.WriteGen()
		k0 = kek.count()
		stage(1)
		os.Stat(filepath.Join(spec.State, ".c04-begin"))
		res.Res = applyOp(d, super, spec.Op)
		os.Stat(filepath.Join(spec.State, ".c04-end"))
		write() // what the operation reported, in case nothing after it returns
		stage(2)
		res.Gen1 = d.WriteGen()
		res.KEKCalls = append(res.KEKCalls, k0, kek.count()-k0)
	}
	k1 := kek.count()
	res.Dir = listDir(spec.State)
	res.Disk1 = observeFile(path, kek.inner)
	if d != nil {
		stage(3)
		dump, derr := dumpVia(d, super)
		res.Served, res.ServedOK = dump, derr == nil
	}
	if res.Res.Class == "other" {
		// the call reported an error: later calls must succeed normally
		res.Retried = true
		if spec.Create {
			d, err = db.Open(path, kek, audit.New(io.Discard))
			if err != nil {
				res.Res2 = resObs{Class: "other", Err: err.Error()}
			} else {
				res.Res2 = resObs{Class: "ok"}
			}
		} else {
			stage(4)
			res.Res2 = applyOp(d, super, spec.Op)
			}
		if d != nil {
			stage(5)
			res.Gen2 = d.WriteGen()
			res.Served2, _ = dumpVia(d, super)
			}
		res.Dir2 = listDir(spec.State)
	}
	if !spec.Create {
		res.KEKCalls = append(res.KEKCalls, kek.count()-k1)
	}
	res.Done = true
	write()
}
