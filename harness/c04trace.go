package main

// strace plumbing shared by C04 (and the creation-mode check of C05): run the child
// process under `strace -f`, optionally with one injected kill or error, parse the
// recorded system calls, restrict them to the window between the child's two marker
// calls and to the state directory, and abstract them to the operations of Server/FS.v.

import (
	"bufio"
	"bytes"
	"encoding/json"
	"fmt"
	"os"
	"os/exec"
	"path/filepath"
	"regexp"
	"strconv"
	"strings"
	"syscall"
	"time"
)

// the system calls recorded: everything that takes a path, plus the descriptor calls
// that can change a file
const c04TraceSet = "%file,write,pwrite64,writev,pwritev,pwritev2,fchmod,fchown,fsync,fdatasync,sync_file_range,close,ftruncate,fallocate,copy_file_range,sendfile,dup,dup2,dup3"

type sysLine struct {
	PID      int
	Name     string
	Args     []string
	Ret      string // "0", "5", "-1", "?"
	Injected bool
	Raw      string
}

var reLineHead = regexp.MustCompile(`^(\d+)\s+(.*)$`)
var reCall = regexp.MustCompile(`^([a-z_0-9]+)\((.*)$`)
var reResult = regexp.MustCompile(`\)\s+= `)
var reResumed = regexp.MustCompile(`^<\.\.\. ([a-z_0-9]+) resumed>(.*)$`)

// splitArgs splits the argument text of a call at top-level commas.
func splitArgs(s string) []string {
	var out []string
	depth, inq, start := 0, false, 0
	for i := 0; i < len(s); i++ {
		c := s[i]
		switch {
		case inq:
			if c == '\\' {
				i++
			} else if c == '"' {
				inq = false
			}
		case c == '"':
			inq = true
		case c == '{' || c == '[' || c == '(':
			depth++
		case c == '}' || c == ']' || c == ')':
			depth--
		case c == ',' && depth == 0:
			out = append(out, strings.TrimSpace(s[start:i]))
			start = i + 1
		}
	}
	if strings.TrimSpace(s[start:]) != "" {
		out = append(out, strings.TrimSpace(s[start:]))
	}
	return out
}

// straceString decodes a "\x2f\x74..." literal (strace -xx); ok=false if it is not one.
func straceString(a string) ([]byte, bool) {
	a = strings.TrimSuffix(a, "...")
	if len(a) < 2 || a[0] != '"' || a[len(a)-1] != '"' {
		return nil, false
	}
	a = a[1 : len(a)-1]
	out := make([]byte, 0, len(a)/4)
	for i := 0; i < len(a); {
		if i+3 < len(a) && a[i] == '\\' && a[i+1] == 'x' {
			v, err := strconv.ParseUint(a[i+2:i+4], 16, 8)
			if err != nil {
				return nil, false
			}
			out = append(out, byte(v))
			i += 4
		} else {
			out = append(out, a[i])
			i++
		}
	}
	return out, true
}

// parseStrace reads an `strace -f -o` file, joining unfinished/resumed pairs.
func parseStrace(path string) ([]sysLine, error) {
	f, err := os.Open(path)
	if err != nil {
		return nil, err
	}
	defer f.Close()
	var out []sysLine
	pending := map[int]int{} // pid -> index in out of its unfinished call
	sc := bufio.NewScanner(f)
	sc.Buffer(make([]byte, 1<<20), 1<<28)
	finish := func(l *sysLine, rest string) {
		// rest = "args...) = ret ..." ; the result follows the LAST ") = "
		locs := reResult.FindAllStringIndex(rest, -1)
		if len(locs) == 0 {
			l.Args = splitArgs(strings.TrimSuffix(strings.TrimSpace(rest), ")"))
			l.Ret = "?"
			return
		}
		loc := locs[len(locs)-1]
		l.Args = append(l.Args, splitArgs(rest[:loc[0]])...)
		r := strings.TrimSpace(rest[loc[1]:])
		l.Injected = strings.Contains(r, "(INJECTED)")
		if j := strings.IndexByte(r, ' '); j >= 0 {
			r = r[:j]
		}
		l.Ret = r
	}
	for sc.Scan() {
		m := reLineHead.FindStringSubmatch(sc.Text())
		if m == nil {
			continue
		}
		pid, _ := strconv.Atoi(m[1])
		body := m[2]
		if strings.HasPrefix(body, "+++") || strings.HasPrefix(body, "---") {
			continue
		}
		if r := reResumed.FindStringSubmatch(body); r != nil {
			if idx, ok := pending[pid]; ok {
				delete(pending, pid)
				finish(&out[idx], r[2])
				out[idx].Raw += " ~ " + body
			}
			continue
		}
		c := reCall.FindStringSubmatch(body)
		if c == nil {
			continue
		}
		l := sysLine{PID: pid, Name: c[1], Raw: body}
		rest := c[2]
		if strings.HasSuffix(rest, "<unfinished ...>") {
			l.Args = splitArgs(strings.TrimSuffix(rest, "<unfinished ...>"))
			l.Ret = "?"
			out = append(out, l)
			pending[pid] = len(out) - 1
			continue
		}
		finish(&l, rest)
		out = append(out, l)
	}
	return out, sc.Err()
}

// ---- abstraction to Server/FS.v operations ----

type absOp struct {
	Coq       string // Gallina term with content tokens
	CoqReal   string // the same with the real bytes written
	Effective bool   // the call returned success (it is part of the effective trace)
	Sys       string // system call name
	Nth       int    // it is the Nth call of that name by its thread since the start of the process
	PID       int
	Class     string // short description used to recognise the same call in another run
	Injected  bool
	Killed    bool // no result: the thread was killed at/inside this call
	Mode      uint64
	Creates   bool
}

type windowTrace struct {
	Ops      []absOp
	Begin    bool // the begin marker was seen
	End      bool // the end marker was reached
	EndNth   int  // the end marker's call (newfstatat) count on its thread
	EndPID   int
	LastCall int    // the last call on the database handle the child announced (.c04-call-<k>)
	KilledAt string // class of the call the main thread was in when it was killed ("" if none, "end" for the marker)
}

type pathAbs struct {
	live  string // base name of the live file inside the state directory ("" = db.json)
	state string
	idx   map[string]int
	other map[string]int
}

func (pa *pathAbs) abs(cwd, p string) (coq string, inState bool, isLive bool) {
	if !filepath.IsAbs(p) {
		p = filepath.Join(cwd, p)
	}
	p = filepath.Clean(p)
	liveName := pa.live
	if liveName == "" {
		liveName = "db.json"
	}
	if p == filepath.Join(pa.state, liveName) {
		return "Live", true, true
	}
	if filepath.Dir(p) == pa.state {
		i, ok := pa.idx[p]
		if !ok {
			i = len(pa.idx)
			pa.idx[p] = i
		}
		return fmt.Sprintf("(Tmp %d)", i), true, false
	}
	i, ok := pa.other[p]
	if !ok {
		i = len(pa.other)
		pa.other[p] = i
	}
	return fmt.Sprintf("(Other %d)", i), false, false
}

func parseOctal(s string) uint64 {
	v, _ := strconv.ParseUint(strings.TrimSpace(s), 8, 32)
	return v
}

// abstractWindow restricts the parsed trace to the marker window and the state directory.
func abstractWindow(lines []sysLine, state, cwd string) windowTrace {
	return abstractWindowLive(lines, state, cwd, "db.json")
}

// abstractWindowLive: the same for another live file name in the state directory (the client's cache file).
func abstractWindowLive(lines []sysLine, state, cwd, liveName string) windowTrace {
	var w windowTrace
	pa := &pathAbs{live: liveName, state: filepath.Clean(state), idx: map[string]int{}, other: map[string]int{}}
	counts := map[string]int{} // "pid/name" -> calls so far
	fdIdx := map[string]int{}  // real fd -> canonical index (descriptors opened on state-directory paths)
	fdOpen := map[string]bool{}
	dirFd := map[string]bool{} // descriptors opened on the state directory itself
	nextFd := 0
	chunk := 0
	in := false
	mainPID := 0
	if len(lines) > 0 {
		mainPID = lines[0].PID
	}
	strArg := func(l sysLine, i int) (string, bool) {
		if i >= len(l.Args) {
			return "", false
		}
		b, ok := straceString(l.Args[i])
		return string(b), ok
	}
	for _, l := range lines {
		key := fmt.Sprintf("%d/%s", l.PID, l.Name)
		counts[key]++
		nth := counts[key]
		ok := l.Ret != "?" && !strings.HasPrefix(l.Ret, "-")
		// markers
		if l.Name == "newfstatat" || l.Name == "stat" || l.Name == "statx" {
			pi := 1
			if l.Name == "stat" {
				pi = 0
			}
			if p, okp := strArg(l, pi); okp {
				if i := strings.LastIndex(p, "/.c04-call-"); i >= 0 {
					// the child announces call k on the database handle
					fmt.Sscan(p[i+len("/.c04-call-"):], &w.LastCall)
					continue
				}
				if strings.HasSuffix(p, "/.c04-begin") {
					in, w.Begin = true, true
					continue
				}
				if strings.HasSuffix(p, "/.c04-end") {
					if in {
						w.EndNth, w.EndPID = nth, l.PID
						if l.Ret == "?" {
							w.KilledAt = "end"
						} else {
							w.End = true
						}
					}
					in = false
					continue
				}
			}
		}
		if !in {
			continue
		}
		op := absOp{Sys: l.Name, Nth: nth, PID: l.PID, Effective: ok, Injected: l.Injected, Killed: l.Ret == "?"}
		touches := false
		emit := func(class, coq, coqReal string) {
			op.Class, op.Coq, op.CoqReal = class, coq, coqReal
			if coqReal == "" {
				op.CoqReal = coq
			}
			touches = true
		}
		fdOf := func(a string) (int, bool) {
			a = strings.TrimSpace(a)
			if !fdOpen[a] {
				return 0, false
			}
			return fdIdx[a], true
		}
		switch l.Name {
		case "openat", "open", "creat", "openat2":
			pi, fi := 1, 2
			if l.Name != "openat" && l.Name != "openat2" {
				pi, fi = 0, 1
			}
			p, okp := strArg(l, pi)
			if !okp {
				break
			}
			pc, inState, _ := pa.abs(cwd, p)
			if !inState && filepath.Clean(filepath.Join(cwd, p)) != pa.state && filepath.Clean(p) != pa.state {
				break
			}
			flags := ""
			if fi < len(l.Args) {
				flags = l.Args[fi]
			}
			if l.Name == "creat" {
				flags = "O_WRONLY|O_CREAT|O_TRUNC"
			}
			if !inState { // the state directory itself (listing, directory fsync): no effect in the model, but
				// a step of the save like any other - it is recorded (and fault-injected) as a passive call
				if ok {
					fdIdx[l.Ret], fdOpen[l.Ret] = -1, false
					dirFd[l.Ret] = true
				}
				emit("opendir", "Stat (Other 999)", "")
				break
			}
			writable := strings.Contains(flags, "O_WRONLY") || strings.Contains(flags, "O_RDWR") || strings.Contains(flags, "O_TRUNC") || strings.Contains(flags, "O_CREAT") || strings.Contains(flags, "O_APPEND")
			if !writable {
				emit("openr "+pc, "Stat "+pc, "")
				break
			}
			fd := nextFd
			if ok {
				fdIdx[l.Ret], fdOpen[l.Ret] = fd, true
				nextFd++
			}
			if strings.Contains(flags, "O_CREAT") && strings.Contains(flags, "O_EXCL") {
				mode := uint64(0)
				if fi+1 < len(l.Args) {
					mode = parseOctal(l.Args[fi+1])
				}
				op.Mode, op.Creates = mode, true
				emit("create "+pc, fmt.Sprintf("CreateExcl %d %s %d", fd, pc, mode), "")
			} else {
				if strings.Contains(flags, "O_CREAT") && fi+1 < len(l.Args) {
					op.Mode, op.Creates = parseOctal(l.Args[fi+1]), true
				}
				emit("openw "+pc, fmt.Sprintf("OpenW %d %s %s", fd, pc, coqBool(strings.Contains(flags, "O_TRUNC"))), "")
			}
		case "newfstatat", "stat", "lstat", "statx", "access", "faccessat", "faccessat2", "readlinkat", "readlink":
			pi := 1
			if l.Name == "stat" || l.Name == "lstat" || l.Name == "access" || l.Name == "readlink" {
				pi = 0
			}
			if p, okp := strArg(l, pi); okp && p != "" {
				if pc, inState, _ := pa.abs(cwd, p); inState {
					emit("stat "+pc, "Stat "+pc, "")
				}
			}
		case "write":
			if fd, okf := fdOf(l.Args[0]); okf {
				data, _ := straceString(l.Args[1])
				n, _ := strconv.Atoi(l.Ret)
				if ok && n < len(data) {
					data = data[:n]
				}
				chunk++
				emit(fmt.Sprintf("write %d", fd), fmt.Sprintf("Write %d [%d]", fd, chunk), fmt.Sprintf("Write %d %s", fd, coqBytes(data)))
			}
		case "fchmod":
			if fd, okf := fdOf(l.Args[0]); okf {
				op.Mode = parseOctal(l.Args[1])
				emit(fmt.Sprintf("chmod %d", fd), fmt.Sprintf("Chmod %d %d", fd, op.Mode), "")
			}
		case "fsync", "fdatasync":
			if fd, okf := fdOf(l.Args[0]); okf {
				emit(fmt.Sprintf("fsync %d", fd), fmt.Sprintf("Fsync %d", fd), "")
			} else if dirFd[strings.TrimSpace(l.Args[0])] {
				emit("fsyncdir", "Stat (Other 999)", "")
			}
		case "ftruncate":
			if fd, okf := fdOf(l.Args[0]); okf {
				if len(l.Args) > 1 && strings.TrimSpace(l.Args[1]) == "0" {
					emit(fmt.Sprintf("trunc %d", fd), fmt.Sprintf("Trunc %d", fd), "")
				} else {
					emit(fmt.Sprintf("unknown fd %d", fd), "Unknown Live", "")
				}
			}
		case "close":
			a := strings.TrimSpace(l.Args[0])
			if dirFd[a] {
				emit("closedir", "Stat (Other 999)", "")
				if ok {
					dirFd[a] = false
				}
			}
			if fd, okf := fdOf(a); okf {
				emit(fmt.Sprintf("close %d", fd), fmt.Sprintf("Close %d", fd), "")
				if ok {
					fdOpen[a] = false
				}
			}
		case "rename", "renameat", "renameat2":
			ai, bi := 1, 3
			if l.Name == "rename" {
				ai, bi = 0, 1
			}
			a, ok1 := strArg(l, ai)
			b, ok2 := strArg(l, bi)
			if ok1 && ok2 {
				ac, as, _ := pa.abs(cwd, a)
				bc, bs, _ := pa.abs(cwd, b)
				if as || bs {
					emit("rename "+ac+" "+bc, "Rename "+ac+" "+bc, "")
				}
			}
		case "unlink", "unlinkat", "rmdir":
			pi := 1
			if l.Name != "unlinkat" {
				pi = 0
			}
			if p, okp := strArg(l, pi); okp {
				if pc, inState, _ := pa.abs(cwd, p); inState {
					emit("unlink "+pc, "Unlink "+pc, "")
				}
			}
		default:
			// any other traced call that names a state-directory path or one of our descriptors
			hit := ""
			for i, a := range l.Args {
				if b, okb := straceString(a); okb && len(b) > 0 {
					if pc, inState, _ := pa.abs(cwd, string(b)); inState {
						hit = pc
					}
				} else if i == 0 || (l.Name == "copy_file_range" && i == 2) || (l.Name == "sendfile" && i == 0) {
					if _, okf := fdOf(a); okf {
						hit = "Live" // conservatively: a call the model does not know, on a descriptor of ours
					}
				}
			}
			if hit != "" {
				emit("unknown "+l.Name, "Unknown "+hit, "")
			}
		}
		if !touches {
			continue
		}
		if op.Killed && l.PID == mainPID {
			w.KilledAt = op.Class
		}
		w.Ops = append(w.Ops, op)
	}
	return w
}

func (w windowTrace) effective(real bool) string {
	var parts []string
	for _, o := range w.Ops {
		if !o.Effective {
			continue
		}
		if real {
			parts = append(parts, o.CoqReal)
		} else {
			parts = append(parts, o.Coq)
		}
	}
	return coqList(parts)
}

func (w windowTrace) classes() []string {
	var out []string
	for _, o := range w.Ops {
		s := o.Sys + ":" + o.Class
		if !o.Effective {
			s += "!"
		}
		out = append(out, s)
	}
	return out
}

// ---- running the child ----

type childRun struct {
	Dir      string // scratch directory of this run (state directory is Dir/state)
	Trace    windowTrace
	Result   *c04Result // nil if the child did not finish
	Exit     string
	Partial  *c04Result // TimedOut: the child's notes so far (the operation's own outcome), if any
	TimedOut bool // the outer bound struck: the child (and strace) were killed
}

// a child run takes about 60 ms; one whose handle is deadlocked is ended after this
const childTimeout = 8 * time.Second

var c04CallNames = map[int]string{
	1: "call 1 (the operation itself)",
	2: "call 2 (WriteGen after the operation)",
	3: "call 3 (listing what the handle serves after the operation)",
	4: "call 4 (the same operation once more, after the reported error)",
	5: "call 5 (WriteGen and listing after the retried operation)",
}

// hungCall names the call on the database handle a timed-out child was in.
func (cr childRun) hungCall() string {
	if n, ok := c04CallNames[cr.Trace.LastCall]; ok {
		return n
	}
	return "an unannounced call (before the operation)"
}

// runChild executes `self c04child` under strace with an optional injection expression.
func runChild(dir string, spec c04Spec, inject string) (childRun, error) {
	cr := childRun{Dir: dir}
	self, err := os.Executable()
	if err != nil {
		return cr, err
	}
	sb, _ := json.Marshal(spec)
	specFile := filepath.Join(dir, "spec.json")
	resFile := filepath.Join(dir, "res.json")
	traceFile := filepath.Join(dir, "trace.txt")
	os.Remove(resFile)
	if err := os.WriteFile(specFile, sb, 0600); err != nil {
		return cr, err
	}
	args := []string{"-f", "-o", traceFile, "-s", "4000000", "-xx", "-e", "trace=" + c04TraceSet}
	if inject != "" {
		args = append(args, "-e", "inject="+inject)
	}
	args = append(args, self, "c04child", "-replay", specFile, "-out", resFile)
	cmd := exec.Command("strace", args...)
	cmd.Dir = dir
	cmd.SysProcAttr = &syscall.SysProcAttr{Setpgid: true} // strace and its tracee: one process group, so that both can be ended
	var stderr bytes.Buffer
	cmd.Stderr = &stderr
	done := make(chan error, 1)
	if err := cmd.Start(); err != nil {
		return cr, fmt.Errorf("strace cannot be started: %w", err)
	}
	go func() { done <- cmd.Wait() }()
	select {
	case err = <-done:
	case <-time.After(childTimeout):
		// strace is asked to end first (it then completes its output file); that leaves the tracee
		// running, so the whole process group is killed afterwards.
		syscall.Kill(cmd.Process.Pid, syscall.SIGTERM)
		select {
		case <-done:
		case <-time.After(3 * time.Second):
		}
		syscall.Kill(-cmd.Process.Pid, syscall.SIGKILL)
		select {
		case <-done:
		default:
			<-done
		}
		cr.TimedOut = true
		cr.Exit = "the child did not finish within " + childTimeout.String() + " and was killed"
	}
	if err != nil && !cr.TimedOut {
		cr.Exit = err.Error()
	}
	lines, perr := parseStrace(traceFile)
	if perr != nil {
		return cr, fmt.Errorf("strace produced no trace (%v; %s)", perr, strings.TrimSpace(stderr.String()))
	}
	cr.Trace = abstractWindow(lines, spec.State, dir)
	if rb, rerr := os.ReadFile(resFile); rerr == nil {
		var r c04Result
		if json.Unmarshal(rb, &r) == nil && r.Done {
			cr.Result = &r
		} else if cr.TimedOut && json.Unmarshal(rb, &r) == nil {
			cr.Partial = &r // what the child had noted before the call that never returned
		}
	}
	return cr, nil
}
