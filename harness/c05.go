package main

// Property C05: secrets are confidential and tamper-evident at rest.
// Real AES-256-GCM key-encryption key behind a counting proxy, audit log in a real file,
// high-entropy marker names and values; structure probes, marker scan, mode bits and KEK
// use after every call; db.Open on tampered copies of saved files.

import (
	"bytes"
	"encoding/base64"
	"encoding/hex"
	"encoding/json"
	"fmt"
	"io"
	"math/rand/v2"
	"os"
	"path/filepath"
	"sort"
	"strconv"
	"strings"
	"time"

	"github.com/tailscale/setec/audit"
	setec "github.com/tailscale/setec/client/setec"
	"github.com/tailscale/setec/db"
	"github.com/tailscale/setec/types/api"
	"github.com/tink-crypto/tink-go/v2/aead"
	"github.com/tink-crypto/tink-go/v2/keyset"
	"github.com/tink-crypto/tink-go/v2/testutil"
	"github.com/tink-crypto/tink-go/v2/tink"
)

type C05Input struct {
	Mode   string   `json:"mode"`  // hist | tamper | keys | mode
	MSeed  uint64   `json:"mseed"` // seed of the marker table
	Ops    []DBStep `json:"ops,omitempty"`
	DevKey bool     `json:"dev_key,omitempty"` // the database is created with the PUBLIC dev placeholder key (setec server --dev)
	Outage bool     `json:"outage,omitempty"` // the key service is DOWN between opens: any KEK call after open fails
	Class  string   `json:"class,omitempty"`  // tamper class
	Detail string   `json:"detail,omitempty"`
}

func init() {
	commands["C05"] = runC05
}

// ---- markers ----

type c05Markers struct {
	names  [][]byte
	values [][]byte // token i+1 = values[i]
}

const alnum = "abcdefghijklmnopqrstuvwxyzABCDEFGHIJKLMNOPQRSTUVWXYZ0123456789"

func genMarkers(seed uint64) *c05Markers {
	r := NewRand(seed, 50505)
	m := &c05Markers{}
	rs := func(n int) []byte {
		b := make([]byte, n)
		for i := range b {
			b[i] = alnum[r.IntN(len(alnum))]
		}
		return b
	}
	m.names = [][]byte{
		append([]byte("mk/"), rs(22)...),
		append([]byte("prod/db-"), rs(20)...),
		append(append([]byte("q\"t\\<&>/"), rs(18)...), []byte("\n\xc3\xa9")...), // needs JSON escaping; valid UTF-8
		rs(16),
	}
	for i := 0; i < 8; i++ {
		n := 18 + r.IntN(40)
		b := make([]byte, n)
		for j := range b {
			b[j] = byte(r.IntN(256))
		}
		switch i % 4 {
		case 1: // printable text (would survive in a log line)
			b = rs(n)
		case 2: // text with characters that JSON escapes
			b = append(append(rs(10), []byte("\"\\\n\t<>&\x00\x7f")...), rs(n)...)
		}
		m.values = append(m.values, b)
	}
	return m
}

func (m *c05Markers) token(b []byte) uint64 {
	for i, v := range m.values {
		if bytes.Equal(v, b) {
			return uint64(i + 1)
		}
	}
	return corruptToken
}

// encodings of a marker under which it would be "trivially" readable
func markerForms(mk []byte) map[string][]byte {
	out := map[string][]byte{"plain": mk}
	for _, e := range []struct {
		n   string
		enc *base64.Encoding
	}{{"base64", base64.RawStdEncoding}, {"base64url", base64.RawURLEncoding}} {
		for k := 0; k < 3; k++ {
			s := e.enc.EncodeToString(append(make([]byte, k), mk...))
			drop := []int{0, 2, 3}[k]
			end := (8 * (k + len(mk))) / 6
			if end > len(s) {
				end = len(s)
			}
			if end-drop >= 12 {
				out[fmt.Sprintf("%s@%d", e.n, k)] = []byte(s[drop:end])
			}
		}
	}
	out["hex"] = []byte(hex.EncodeToString(mk))
	out["HEX"] = []byte(strings.ToUpper(hex.EncodeToString(mk)))
	if js, err := json.Marshal(string(mk)); err == nil && len(js) > 2 {
		if esc := js[1 : len(js)-1]; !bytes.Equal(esc, mk) {
			out["json"] = esc
		}
	}
	var buf bytes.Buffer
	enc := json.NewEncoder(&buf)
	enc.SetEscapeHTML(false)
	if enc.Encode(string(mk)) == nil {
		if esc := bytes.TrimSpace(buf.Bytes()); len(esc) > 2 && !bytes.Equal(esc[1:len(esc)-1], mk) {
			out["json-nohtml"] = esc[1 : len(esc)-1]
		}
	}
	return out
}

type scanHit struct {
	File   string `json:"file"`
	Marker string `json:"marker"`
	Form   string `json:"form"`
	Offset int    `json:"offset"`
}

// scanDir looks for every marker in every regular file of dir.  Names are only looked for
// outside the audit log (which records them by design).
func (m *c05Markers) scanDir(dir string) (valHits, nameHits []scanHit) {
	ents, _ := os.ReadDir(dir)
	for _, e := range ents {
		if !e.Type().IsRegular() {
			continue
		}
		bs, err := os.ReadFile(filepath.Join(dir, e.Name()))
		if err != nil {
			continue
		}
		for i, v := range m.values {
			for form, pat := range markerForms(v) {
				if off := bytes.Index(bs, pat); off >= 0 {
					valHits = append(valHits, scanHit{e.Name(), fmt.Sprintf("value#%d", i+1), form, off})
				}
			}
		}
		if e.Name() == "audit.log" {
			continue
		}
		for i, n := range m.names {
			for form, pat := range markerForms(n) {
				if off := bytes.Index(bs, pat); off >= 0 {
					nameHits = append(nameHits, scanHit{e.Name(), fmt.Sprintf("name#%d", i), form, off})
				}
			}
		}
	}
	sort.Slice(valHits, func(i, j int) bool { return fmt.Sprint(valHits[i]) < fmt.Sprint(valHits[j]) })
	sort.Slice(nameHits, func(i, j int) bool { return fmt.Sprint(nameHits[i]) < fmt.Sprint(nameHits[j]) })
	return
}

// ---- structure probes ----

type c05Struct struct {
	Keys     []uint64  `json:"keys"`
	Ver      uint64    `json:"ver"`
	DEKv1    bool      `json:"dek_v1"`
	DEKother bool      `json:"dek_other"`
	DBv1     bool      `json:"db_v1"`
	DBother  bool      `json:"db_other"`
	Doc      []secDump `json:"doc"`
	Note     string    `json:"note,omitempty"`
}

func decodeDoc(clear []byte, tok func([]byte) uint64) ([]secDump, error) {
	var p struct {
		Secrets map[string]struct {
			Versions      map[string][]byte
			ActiveVersion json.Number
			LatestVersion json.Number
		}
	}
	if err := json.Unmarshal(clear, &p); err != nil {
		return nil, err
	}
	var out []secDump
	for name, s := range p.Secrets {
		a, _ := strconv.ParseUint(s.ActiveVersion.String(), 10, 64)
		l, _ := strconv.ParseUint(s.LatestVersion.String(), 10, 64)
		sd := secDump{Name: []byte(name), Active: a, Latest: l}
		for k, v := range s.Versions {
			n, err := strconv.ParseUint(k, 10, 64)
			if err != nil {
				return nil, fmt.Errorf("version key %q", k)
			}
			sd.Vers = append(sd.Vers, verVal{Ver: n, Val: tok(v)})
		}
		sort.Slice(sd.Vers, func(i, j int) bool { return sd.Vers[i].Ver < sd.Vers[j].Ver })
		out = append(out, sd)
	}
	sort.Slice(out, func(i, j int) bool { return bytes.Compare(out[i].Name, out[j].Name) < 0 })
	return out, nil
}

func probeFile(bs []byte, kek tink.AEAD, tok func([]byte) uint64) c05Struct {
	var st c05Struct
	var raw map[string]json.RawMessage
	if err := json.Unmarshal(bs, &raw); err != nil {
		st.Note = "wrapper is not a JSON object: " + err.Error()
		return st
	}
	for _, k := range sortedKeys(raw) {
		switch k {
		case "Version":
			st.Keys = append(st.Keys, 10)
		case "DEK":
			st.Keys = append(st.Keys, 11)
		case "DB":
			st.Keys = append(st.Keys, 12)
		default:
			st.Keys = append(st.Keys, 99)
		}
	}
	sort.Slice(st.Keys, func(i, j int) bool { return st.Keys[i] < st.Keys[j] })
	var w struct {
		Version json.Number
		DEK     []byte
		DB      []byte
	}
	if err := json.Unmarshal(bs, &w); err != nil {
		st.Note = "wrapper fields: " + err.Error()
		return st
	}
	st.Ver, _ = strconv.ParseUint(w.Version.String(), 10, 64)
	unwrap := func(ctx string) *keyset.Handle {
		h, err := keyset.ReadWithAssociatedData(keyset.NewBinaryReader(bytes.NewReader(w.DEK)), kek, []byte(ctx))
		if err != nil {
			return nil
		}
		return h
	}
	h := unwrap("setec DEK v1")
	st.DEKv1 = h != nil
	for _, ctx := range []string{"", "setec DEK v2", "setec database v1", "setec DEK v0"} {
		if unwrap(ctx) != nil {
			st.DEKother = true
		}
	}
	if h == nil {
		return st
	}
	c, err := aead.New(h)
	if err != nil {
		st.Note = "cipher from DEK: " + err.Error()
		return st
	}
	clear, err := c.Decrypt(w.DB, []byte("setec database v1"))
	st.DBv1 = err == nil
	for _, ctx := range []string{"", "setec database v2", "setec DEK v1", "setec database v0"} {
		if _, e2 := c.Decrypt(w.DB, []byte(ctx)); e2 == nil {
			st.DBother = true
		}
	}
	if err == nil {
		doc, derr := decodeDoc(clear, tok)
		if derr != nil {
			st.Note = "document: " + derr.Error()
			doc = []secDump{{Name: []byte("<<undecodable>>")}}
		}
		st.Doc = doc
	}
	return st
}

// ---- one history ----

// downAEAD simulates the key service: while down, every call fails (after having been counted
// by the proxy in front of it).
type downAEAD struct {
	inner tink.AEAD
	down  bool
}

func (a *downAEAD) Encrypt(pt, ad []byte) ([]byte, error) {
	if a.down {
		return nil, fmt.Errorf("key service unavailable")
	}
	return a.inner.Encrypt(pt, ad)
}
func (a *downAEAD) Decrypt(ct, ad []byte) ([]byte, error) {
	if a.down {
		return nil, fmt.Errorf("key service unavailable")
	}
	return a.inner.Decrypt(ct, ad)
}

type c05Env struct {
	dir, state, path string
	kek              *countingAEAD // what db.Open is given: counts, then passes to [down]
	down             *downAEAD     // fails every call while the key service is "down"
	real             tink.AEAD     // the key itself (for the harness's own probes)
	outage           bool          // keep the key service down between opens
	hung             string        // a call on the handle never returned (which one): nothing more can be asked of it
	d                *db.DB
	aw               *audit.Writer
	super            db.Caller
	nobody           db.Caller // a caller without any grant
	devKey           bool      // created with the public dev placeholder key
	createUses       int
}

func newC05Env(dir string, kek tink.AEAD) (*c05Env, error) {
	os.RemoveAll(dir)
	state := filepath.Join(dir, "state")
	if err := os.MkdirAll(state, 0700); err != nil {
		return nil, err
	}
	e := &c05Env{dir: dir, state: state, path: filepath.Join(state, "db.json"), real: kek, down: &downAEAD{inner: kek}}
	e.kek = &countingAEAD{inner: e.down}
	aw, err := audit.NewFile(filepath.Join(state, "audit.log"))
	if err != nil {
		return nil, err
	}
	e.aw = aw
	d, err := db.Open(e.path, e.kek, aw)
	if err != nil {
		return nil, err
	}
	e.d = d
	e.createUses = e.kek.count()
	e.super = mkCaller(DBCaller{ID: 1, Rules: superRules()})
	e.nobody = mkCaller(DBCaller{ID: 9})
	return e, nil
}

// reopen drops the handle (and its audit writer) and opens the file on disk again with the
// same key; returns the uses of the key during the open.
func (e *c05Env) reopen() (int, error) {
	e.aw.Close()
	aw, err := audit.NewFile(filepath.Join(e.state, "audit.log"))
	if err != nil {
		return 0, err
	}
	e.aw = aw
	k0 := e.kek.count()
	e.down.down = false // the key service is up while the server starts
	d, err := db.Open(e.path, e.kek, aw)
	e.down.down = e.outage
	if err != nil {
		return e.kek.count() - k0, err
	}
	e.d = d
	return e.kek.count() - k0, nil
}

func (e *c05Env) close() {
	e.aw.Close()
	os.RemoveAll(e.dir)
}

type c05StepObs struct {
	Res      string    `json:"res"`
	S        c05Struct `json:"structure"`
	ValHits  []scanHit `json:"value_hits,omitempty"`
	NameHits []scanHit `json:"name_hits,omitempty"`
	ModeDB   uint64    `json:"mode_db"`
	ModeAud  uint64    `json:"mode_audit"`
	KEK      int       `json:"kek_uses"`
	ResClass uint64    `json:"res_class"` // 0 success, 1 not found, 2 other error
	Live     []secDump `json:"served"`    // the state the handle serves afterwards
	Files    []string  `json:"files"`     // names in the state directory
	Hung     string    `json:"hung,omitempty"`
}

func fileMode(path string) uint64 {
	fi, err := os.Lstat(path)
	if err != nil {
		return 0o7777
	}
	return uint64(fi.Mode().Perm())
}

func (e *c05Env) step(m *c05Markers, st DBStep) c05StepObs {
	var o c05StepObs
	k0 := e.kek.count()
	name := string(st.Name)
	var err error
	who := e.super
	if st.Caller == 1 {
		who = e.nobody
	}
	hidden := e.state + ".hidden"
	if st.SaveFail { // the file system refuses the save: the state directory is unreachable during the call
		if rerr := os.Rename(e.state, hidden); rerr != nil {
			fatal("hide state dir: %v", rerr)
		}
	}
	returned := bounded(func() {
		defer func() {
			if p := recover(); p != nil {
				err = fmt.Errorf("PANIC: %v", p)
			}
		}()
		switch st.Kind {
		case "reopen":
			_, err = e.reopen()
		case "put":
			_, err = e.d.Put(who, name, m.values[(st.Val-1)%len(m.values)])
		case "activate":
			err = e.d.Activate(who, name, api.SecretVersion(st.Ver))
		case "delver":
			err = e.d.DeleteVersion(who, name, api.SecretVersion(st.Ver))
		case "del":
			err = e.d.Delete(who, name)
		case "get":
			_, err = e.d.Get(who, name)
		case "getver":
			_, err = e.d.GetVersion(who, name, api.SecretVersion(st.Ver))
		case "info":
			_, err = e.d.Info(who, name)
		case "list":
			_, err = e.d.List(who)
		}
	})
	if st.SaveFail {
		if rerr := os.Rename(hidden, e.state); rerr != nil {
			fatal("restore state dir: %v", rerr)
		}
	}
	if !returned {
		e.hung = sprintf("the call (%s %s) did not return within %s", st.Kind, st.NameQ, dbCallTimeout)
		o.Hung, o.Res, o.ResClass = e.hung, "other", 2
		return o
	}
	o.Res = classify(err)
	switch o.Res {
	case "":
		o.ResClass = 0
	case "notfound":
		o.ResClass = 1
	default:
		o.ResClass = 2
	}
	o.KEK = e.kek.count() - k0
	if !bounded(func() { o.Live = dumpTok(e.d, e.super, m.token) }) {
		e.hung = sprintf("after the call (%s %s, result class %d) returned, listing what the handle serves did not return within %s - a lock was kept", st.Kind, st.NameQ, o.ResClass, dbCallTimeout)
		o.Hung = e.hung
		o.Live = []secDump{{Name: []byte("<<no answer>>")}}
		return o
	}
	o.Files = listDir(e.state)
	bs, _ := os.ReadFile(e.path)
	o.S = probeFile(bs, e.real, m.token)
	o.ValHits, o.NameHits = m.scanDir(e.state)
	o.ModeDB, o.ModeAud = fileMode(e.path), fileMode(filepath.Join(e.state, "audit.log"))
	return o
}

// dumpTok lists everything the handle serves, values as this history's tokens.
func dumpTok(d *db.DB, super db.Caller, tok func([]byte) uint64) []secDump {
	infos, err := d.List(super)
	if err != nil {
		return []secDump{{Name: []byte("<<list failed>>")}}
	}
	out := []secDump{}
	for _, in := range infos {
		sd := secDump{Name: []byte(in.Name), Active: uint64(in.ActiveVersion)}
		for _, v := range in.Versions {
			sv, err := d.GetVersion(super, in.Name, v)
			if err != nil {
				return []secDump{{Name: []byte("<<get failed>>")}}
			}
			sd.Vers = append(sd.Vers, verVal{Ver: uint64(v), Val: tok(sv.Value)})
		}
		sort.Slice(sd.Vers, func(i, j int) bool { return sd.Vers[i].Ver < sd.Vers[j].Ver })
		out = append(out, sd)
	}
	sort.Slice(out, func(i, j int) bool { return bytes.Compare(out[i].Name, out[j].Name) < 0 })
	return out
}

func c05CoqOp(m *c05Markers, st DBStep) string {
	if st.Kind == "put" {
		st.Val = (st.Val-1)%len(m.values) + 1
	}
	return coqOp(st)
}

func fileCodes(names []string) []uint64 {
	out := []uint64{}
	for _, n := range names {
		switch n {
		case "db.json":
			out = append(out, 1)
		case "audit.log":
			out = append(out, 2)
		default:
			out = append(out, 99)
		}
	}
	sort.Slice(out, func(i, j int) bool { return out[i] < out[j] })
	return out
}

func coqSobs(o c05StepObs) string {
	return fmt.Sprintf("So %s %d %s %s %s %s %s %d %d %d %d %d %d %s %s", coqNList(o.S.Keys), o.S.Ver,
		coqBool(o.S.DEKv1), coqBool(o.S.DEKother), coqBool(o.S.DBv1), coqBool(o.S.DBother), coqDisk(o.S.Doc),
		len(o.ValHits), len(o.NameHits), o.ModeDB, o.ModeAud, o.KEK, o.ResClass, coqLive(o.Live), coqNList(fileCodes(o.Files)))
}

func coqHist(m *c05Markers, ops []DBStep, obs []c05StepObs) string {
	parts := make([]string, len(ops))
	for i := range ops {
		if ops[i].Kind == "reopen" {
			parts[i] = fmt.Sprintf("HRe (%s)", coqSobs(obs[i]))
		} else {
			if ops[i].Caller == 1 {
				parts[i] = fmt.Sprintf("HOpD (%s) (%s)", c05CoqOp(m, ops[i]), coqSobs(obs[i]))
				continue
			}
			parts[i] = fmt.Sprintf("HOp %s (%s) (%s)", coqBool(!ops[i].SaveFail), c05CoqOp(m, ops[i]), coqSobs(obs[i]))
		}
	}
	return "Hist " + coqList(parts)
}

// genC05Step: prev is the previous step's kind; long histories are mutation-heavy with rare
// reopens (many saves on one handle), the others reopen often.
func genC05Step(r *rand.Rand, m *c05Markers, last []secDump, prev string, long bool) DBStep {
	kinds := []string{"put", "put", "put", "put", "put", "activate", "activate", "delver", "delver", "del", "get", "getver", "info", "list"}
	if long {
		kinds = []string{"put", "put", "put", "put", "put", "put", "activate", "activate", "delver", "get"}
	}
	st := DBStep{Kind: kinds[r.IntN(len(kinds))]}
	pre := 6
	if long {
		pre = 40
	}
	if prev != "reopen" && r.IntN(pre) == 0 {
		return DBStep{Kind: "reopen"}
	}
	if prev == "reopen" && r.IntN(4) > 0 {
		st.Kind = "put" // the first write after a reopen
	}
	st.Name = m.names[r.IntN(len(m.names))]
	if r.IntN(3) > 0 {
		st.Name = m.names[r.IntN(2)]
	}
	switch r.IntN(12) {
	case 0: // a put under the reserved prefix: refused as unknown config value - after its audit record
		st.Kind = "put"
		st.Name = append([]byte("_internal/"), m.names[r.IntN(len(m.names))]...)
	case 1: // ... attempted by a caller without any grant
		st.Kind = "put"
		st.Name = append([]byte("_internal/"), m.names[r.IntN(len(m.names))]...)
		st.Caller = 1
	case 2: // a mutating call on an ordinary name by a caller without any grant
		st.Caller = 1
	}
	var cur *secDump
	for i := range last {
		if bytes.Equal(last[i].Name, st.Name) {
			cur = &last[i]
		}
	}
	if cur != nil && len(cur.Vers) > 0 && r.IntN(5) > 0 {
		st.Ver = uint32(cur.Vers[r.IntN(len(cur.Vers))].Ver)
	} else {
		st.Ver = uint32(r.IntN(4))
	}
	st.Val = 1 + r.IntN(len(m.values))
	st.NameQ = fmt.Sprintf("%q", st.Name)
	if isMut(st.Kind) && st.Caller == 0 && r.IntN(7) == 0 {
		st.SaveFail = true // the file system refuses this call's save: the rollback path
	}
	return st
}

// runC05History executes fixed (r == nil) or generated ops; returns the record and the
// environment still open (for the tamper runs), which the caller closes.
func runC05History(work string, idx int, mseed uint64, outage, devKey bool, ops []DBStep, r *rand.Rand, length int) (Record, *c05Env, []secDump) {
	m := genMarkers(mseed)
	in := C05Input{Mode: "hist", MSeed: mseed, Ops: ops, Outage: outage, DevKey: devKey}
	kek := newKEK()
	if devKey {
		kek = devKEK()
	}
	env, err := newC05Env(filepath.Join(work, fmt.Sprintf("c05db%d", idx%32)), kek)
	if env != nil {
		env.devKey = devKey
	}
	if err != nil {
		return Record{Kind: "hist", Input: in, Key: fmt.Sprintf("create-failed-%d", idx),
			Direct: &DirectVerdict{OK: false, What: "cannot create a database: " + err.Error()}}, nil, nil
	}
	env.outage, env.down.down = outage, outage // from here on the key service answers only while the file is (re)opened
	var obs []c05StepObs
	var last []secDump
	do := func(st DBStep) {
		o := env.step(m, st)
		obs = append(obs, o)
		last = o.S.Doc
	}
	if r == nil {
		for i, st := range in.Ops {
			do(st)
			if env.hung != "" {
				in.Ops = in.Ops[:i+1] // nothing more can be asked of this handle
				break
			}
		}
	} else {
		long := length > 24
		prev := ""
		for len(in.Ops) < length && env.hung == "" {
			st := genC05Step(r, m, last, prev, long)
			if len(in.Ops) == length-2 && !long {
				st = DBStep{Kind: "reopen"} // the final file is written by a reopened handle
			}
			if prev == "reopen" && len(in.Ops) == length-1 {
				st = DBStep{Kind: "put", Name: m.names[r.IntN(2)], Val: 1 + r.IntN(len(m.values))}
				st.NameQ = fmt.Sprintf("%q", st.Name)
			}
			in.Ops = append(in.Ops, st)
			do(st)
			prev = st.Kind
		}
	}
	kb, _ := json.Marshal(in.Ops)
	saves := 0
	tags := map[string]bool{}
	for i, st := range in.Ops {
		tags["op:"+st.Kind] = true
		if isMut(st.Kind) && obs[i].Res == "" {
			saves++
		}
		if st.Kind == "reopen" && i+1 < len(in.Ops) && isMut(in.Ops[i+1].Kind) {
			tags["write-after-reopen"] = true
		}
		if st.SaveFail && obs[i].Res == "other" {
			tags["refused-save"] = true
		}
		if bytes.HasPrefix(st.Name, []byte("_internal/")) {
			tags["put-reserved-name"] = true
		}
		if st.Caller == 1 {
			tags["caller-without-grant"] = true
		}
		if devKey {
			tags["dev-key-database"] = true
		}
		if outage {
			tags["key-service-down"] = true
		}
	}
	rec := Record{Kind: "hist", Input: in, Obs: obs, Key: fmt.Sprintf("%d:%v:%v:%s", mseed, outage, devKey, kb), Coq: coqHist(m, in.Ops, obs),
		Nontrivial: saves >= 3, Tags: append(sortedKeys(tags), "hist")}
	if env.hung != "" {
		// a deadlocked handle: a runtime fact, reported by itself with the history as replay
		rec.Coq = ""
		rec.Tags = append(rec.Tags, "hist:hung")
		rec.Direct = &DirectVerdict{OK: false, What: sprintf("step %d: %s - the database handle is deadlocked, later calls do not succeed", len(in.Ops)-1, env.hung)}
	}
	return rec, env, last
}

// ---- tampering ----

type tamperCase struct {
	class, detail string
	bytes         []byte
	key           int // index into the session's keys: 0 = the key the database was created with
}

// openSession: db.Open attempts made in THIS process on ONE path.  Every attempt is preceded
// and followed by a successful open of the original bytes with the right key, so that
// anything a successful open may leave behind in the process is in place when the altered
// file or the foreign key is tried.  Every key is behind its own counting proxy.
type openSession struct {
	path   string
	keys   []*countingAEAD
	orig   []byte
	tok    func([]byte) uint64
	dumps  []string // table of distinct dumps (Gallina), referenced by index
	dumpIx map[string]int
	devIdx int               // index of the dev placeholder key among the foreign keys (0: the database itself uses it)
	dir    string            // the live state directory
	snap   map[string]string // every other file of it as the server left it: name -> mode+hash
}

// snapshot of the directory without the database file itself
func dirSnapshot(dir, except string) map[string]string {
	out := map[string]string{}
	ents, _ := os.ReadDir(dir)
	for _, e := range ents {
		if e.Name() == except {
			continue
		}
		p := filepath.Join(dir, e.Name())
		fi, err := os.Lstat(p)
		if err != nil {
			continue
		}
		// mode, size, modification time and inode: cheap, and any write, truncation or replacement shows
		out[e.Name()] = fmt.Sprintf("%v:%d:%d:%d", fi.Mode(), fi.Size(), fi.ModTime().UnixNano(), statIno(fi))
	}
	return out
}

// sideEffects: what an open attempt did to the directory (it must do nothing)
func (s *openSession) sideEffects(written []byte) []string {
	var out []string
	now := dirSnapshot(s.dir, filepath.Base(s.path))
	for n, v := range now {
		if old, ok := s.snap[n]; !ok {
			out = append(out, "created "+n)
		} else if old != v {
			out = append(out, "modified "+n)
		}
	}
	for n := range s.snap {
		if _, ok := now[n]; !ok {
			out = append(out, "removed "+n)
		}
	}
	if bs, err := os.ReadFile(s.path); err != nil || !bytes.Equal(bs, written) {
		out = append(out, "modified the database file")
	}
	sort.Strings(out)
	s.snap = now // report each effect once
	return out
}

type attempt struct {
	Kind   string    `json:"kind"` // AR | AF | AT
	Class  string    `json:"class"`
	Detail string    `json:"detail"`
	Opened bool      `json:"opened"`
	Dump   []secDump `json:"contents,omitempty"`
	Given  int       `json:"uses_of_given_key"`
	Others int       `json:"uses_of_other_keys"`
	Side   []string  `json:"side_effects,omitempty"` // files of the directory the attempt created / removed / modified
	Err    string    `json:"error,omitempty"`
	Panic  bool      `json:"panic,omitempty"`
}

func (s *openSession) try(kind string, t tamperCase) attempt {
	a := attempt{Kind: kind, Class: t.class, Detail: t.detail}
	os.WriteFile(s.path, t.bytes, 0600)
	before := make([]int, len(s.keys))
	for i, k := range s.keys {
		before[i] = k.count()
	}
	var d *db.DB
	var err error
	func() {
		defer func() {
			if p := recover(); p != nil {
				err = fmt.Errorf("PANIC: %v", p)
				a.Panic = true
			}
		}()
		d, err = db.Open(s.path, s.keys[t.key], audit.New(io.Discard))
	}()
	for i, k := range s.keys {
		if i == t.key {
			a.Given = k.count() - before[i]
		} else {
			a.Others += k.count() - before[i]
		}
	}
	a.Side = s.sideEffects(t.bytes)
	if err != nil {
		a.Err = err.Error()
		return a
	}
	super := mkCaller(DBCaller{ID: 0, Rules: superRules()})
	infos, err := d.List(super)
	if err != nil {
		a.Err = "list: " + err.Error()
		return a
	}
	dump := []secDump{}
	for _, in := range infos {
		sd := secDump{Name: []byte(in.Name), Active: uint64(in.ActiveVersion)}
		for _, v := range in.Versions {
			sv, err := d.GetVersion(super, in.Name, v)
			if err != nil {
				a.Err = "get: " + err.Error()
				return a
			}
			sd.Vers = append(sd.Vers, verVal{Ver: uint64(v), Val: s.tok(sv.Value)})
		}
		sort.Slice(sd.Vers, func(i, j int) bool { return sd.Vers[i].Ver < sd.Vers[j].Ver })
		dump = append(dump, sd)
	}
	sort.Slice(dump, func(i, j int) bool { return bytes.Compare(dump[i].Name, dump[j].Name) < 0 })
	a.Opened, a.Dump = true, dump
	return a
}

func (s *openSession) right() attempt {
	return s.try("AR", tamperCase{"right-key", "original bytes, the key the database was created with", s.orig, 0})
}

// coq prints one attempt; the dump goes into the session's table
func (s *openSession) coq(a attempt) string {
	out := "None"
	if a.Opened {
		c := coqDisk(a.Dump)
		i, ok := s.dumpIx[c]
		if !ok {
			i = len(s.dumps)
			s.dumps = append(s.dumps, c)
			s.dumpIx[c] = i
		}
		out = fmt.Sprintf("(Some %d)", i)
	}
	return fmt.Sprintf("At %s %s %d %d %d", a.Kind, out, a.Given, a.Others, len(a.Side))
}

// suspicious: routing only (such attempts get a report of their own; the kernel judges all)
func suspicious(a attempt, orig []secDump) bool {
	if a.Panic || a.Others != 0 || a.Given > 1 || len(a.Side) > 0 {
		return true
	}
	switch a.Kind {
	case "AR":
		return !a.Opened || a.Given != 1 || !sameDump(a.Dump, orig, false)
	case "AF":
		return a.Opened || a.Given != 1
	}
	return a.Opened && (a.Given != 1 || !sameDump(a.Dump, orig, false))
}

type wrappedFile struct {
	Version uint32
	DEK     []byte
	DB      []byte
}

func rebuild(w wrappedFile) []byte {
	bs, _ := json.Marshal(w)
	return bs
}

// otherDB writes a small valid database under kek and returns its file bytes.
func otherDB(dir string, kek tink.AEAD, m *c05Markers, n int) []byte {
	os.RemoveAll(dir)
	os.MkdirAll(dir, 0700)
	p := filepath.Join(dir, "db.json")
	d, err := db.Open(p, kek, audit.New(io.Discard))
	if err != nil {
		fatal("otherDB: %v", err)
	}
	super := mkCaller(DBCaller{ID: 0, Rules: superRules()})
	for i := 0; i < n; i++ {
		d.Put(super, string(m.names[i%len(m.names)]), m.values[(i+3)%len(m.values)])
	}
	bs, _ := os.ReadFile(p)
	os.RemoveAll(dir)
	return bs
}

func goldenFiles() (files [][]byte, keks []tink.AEAD) {
	root := os.Getenv("VERIF_ROOT")
	if root == "" {
		root = "/verif"
	}
	for _, base := range []string{"g1", "g3"} {
		bs, err := os.ReadFile(filepath.Join(root, "golden", base+".db"))
		if err != nil {
			continue
		}
		files = append(files, bs)
		keks = append(keks, loadCleartextKEK(filepath.Join(root, "golden", base+".kek.json")))
	}
	return
}

// genTampers: alterations of the file (tried with the right key, kind AT) and foreign keys on
// the original bytes (kind AF).  keys[0] is the right key, keys[1], keys[2] fresh ones, the
// rest golden ones.
func genTampers(r *rand.Rand, env *c05Env, keys []*countingAEAD, m *c05Markers, work string, thorough bool) []tamperCase {
	orig, _ := os.ReadFile(env.path)
	const kek = 0
	var out []tamperCase
	var w wrappedFile
	if json.Unmarshal(orig, &w) != nil {
		return nil
	}
	// payload ranges (the two base64 strings)
	inPayload := make([]bool, len(orig))
	for _, f := range [][]byte{w.DEK, w.DB} {
		b64 := []byte(base64.StdEncoding.EncodeToString(f))
		if i := bytes.Index(orig, b64); i >= 0 {
			for j := i; j < i+len(b64); j++ {
				inPayload[j] = true
			}
		}
	}
	flip := func(bit int) {
		b := append([]byte(nil), orig...)
		b[bit/8] ^= 1 << (bit % 8)
		cl := "flip-skeleton"
		if inPayload[bit/8] {
			cl = "flip-payload"
		}
		out = append(out, tamperCase{cl, fmt.Sprintf("bit %d of byte %d (%q)", bit%8, bit/8, orig[bit/8]), b, kek})
	}
	for bit := 0; bit < 8*len(orig); bit++ {
		if thorough || !inPayload[bit/8] {
			flip(bit)
		}
	}
	if !thorough {
		for i := 0; i < 512; i++ {
			for {
				bit := r.IntN(8 * len(orig))
				if inPayload[bit/8] {
					flip(bit)
					break
				}
			}
		}
	}
	for n := 0; n < len(orig); n++ {
		out = append(out, tamperCase{"truncate", fmt.Sprintf("to %d of %d bytes", n, len(orig)), orig[:n], kek})
	}
	out = append(out, tamperCase{"append", "garbage after the object", append(append([]byte(nil), orig...), []byte("{}")...), kek})
	// foreign keys
	for rep := 0; rep < 2; rep++ { // twice: also right after a refused attempt with the same key
		out = append(out, tamperCase{"foreign-kek", "fresh AES-256-GCM key", orig, 1})
		out = append(out, tamperCase{"foreign-kek", "second fresh AES-256-GCM key", orig, 2})
		for i := 3; i < len(keys); i++ {
			out = append(out, tamperCase{"foreign-kek", fmt.Sprintf("further key #%d (golden test keys; last: the public dev placeholder key, unless the database was created with it)", i-3), orig, i})
		}
	}
	// the whole file replaced by a valid database written under ANOTHER key (a fresh one; the
	// public dev placeholder key, or - for a dev-key database - nothing more public than that):
	// opening with this database's key must fail, not serve the forged contents
	out = append(out, tamperCase{"replace-file", "a database written under a fresh foreign key copied over this one", otherDB(filepath.Join(work, "c05other"), keys[1].inner, m, 3), kek})
	if !env.devKey {
		out = append(out, tamperCase{"replace-file", "a database written under the public dev placeholder key copied over this one", otherDB(filepath.Join(work, "c05other"), devKEK(), m, 3), kek})
		out = append(out, tamperCase{"replace-file", "an EMPTY database written under the public dev placeholder key copied over this one", otherDB(filepath.Join(work, "c05other"), devKEK(), m, 0), kek})
	}
	gfiles, _ := goldenFiles()
	// fields of other valid databases
	type src struct {
		name string
		bs   []byte
	}
	srcs := []src{{"another database under the same KEK", otherDB(filepath.Join(work, "c05other"), keys[0].inner, m, 3)},
		{"an empty database under the same KEK", otherDB(filepath.Join(work, "c05other"), keys[0].inner, m, 0)},
		{"a database under a different KEK", otherDB(filepath.Join(work, "c05other"), keys[1].inner, m, 2)}}
	for i, g := range gfiles {
		srcs = append(srcs, src{fmt.Sprintf("golden database %d", i), g})
	}
	for _, s := range srcs {
		var x wrappedFile
		if json.Unmarshal(s.bs, &x) != nil {
			continue
		}
		out = append(out, tamperCase{"swap", "DEK field from " + s.name, rebuild(wrappedFile{1, x.DEK, w.DB}), kek})
		out = append(out, tamperCase{"swap", "DB field from " + s.name, rebuild(wrappedFile{1, w.DEK, x.DB}), kek})
		// duplicate member: encoding/json keeps the last one
		dup := bytes.Replace(orig, []byte(`"}`), []byte(`","DB":"`+base64.StdEncoding.EncodeToString(x.DB)+`"}`), 1)
		out = append(out, tamperCase{"swap", "duplicate DB member from " + s.name, dup, kek})
	}
	// DEK and DB exchanged, fields emptied
	out = append(out, tamperCase{"swap", "DEK and DB exchanged", rebuild(wrappedFile{1, w.DB, w.DEK}), kek})
	out = append(out, tamperCase{"swap", "empty DB", rebuild(wrappedFile{1, w.DEK, nil}), kek})
	out = append(out, tamperCase{"swap", "empty DEK", rebuild(wrappedFile{1, nil, w.DB}), kek})
	// version edits
	for _, v := range []string{"0", "2", "3", "10", "11", "-1", "1.5", "\"1\"", "null", "4294967297", "4294967296", "true", "1e0", "01", "[1]", "{}"} {
		b := bytes.Replace(orig, []byte(`"Version":1`), []byte(`"Version":`+v), 1)
		out = append(out, tamperCase{"version", "Version := " + v, b, kek})
	}
	out = append(out, tamperCase{"version", "Version member removed", bytes.Replace(orig, []byte(`"Version":1,`), nil, 1), kek})
	return out
}

// the API dump has no counters: compare with the counters dropped
func dropLatest(d []secDump) []secDump {
	out := make([]secDump, len(d))
	for i, s := range d {
		s.Latest = 0
		out[i] = s
	}
	return out
}

// newSession: the attempts are made on the database file ITSELF, in the live state directory,
// everything else in it left as the server left it (sidecar files included, if the code under
// test keeps any); the original bytes are restored after every attempt.
// severalSaves: the database the open attempts are made on has several saves behind it, the
// last ones being: a secret created, given a second version and DELETED again, then two more
// versions of another one (so that any older copy of the file has visibly different contents).
func severalSaves(env *c05Env, mseed uint64, last []secDump) []secDump {
	mk := genMarkers(mseed)
	ghost := string(mk.names[3]) + "-gone"
	env.down.down = false
	env.d.Put(env.super, ghost, mk.values[0])
	env.d.Put(env.super, ghost, mk.values[1])
	env.d.Delete(env.super, ghost)
	env.d.Put(env.super, string(mk.names[0]), mk.values[2])
	env.d.Put(env.super, string(mk.names[0]), mk.values[3])
	if bs, err := os.ReadFile(env.path); err == nil {
		return probeFile(bs, env.real, mk.token).Doc
	}
	return last
}

func newSession(work string, env *c05Env, m *c05Markers) *openSession {
	orig, _ := os.ReadFile(env.path)
	s := &openSession{path: env.path, dir: env.state, orig: orig, tok: m.token, dumpIx: map[string]int{}}
	s.keys = []*countingAEAD{{inner: env.real}, {inner: newKEK()}, {inner: newKEK()}}
	_, gkeks := goldenFiles()
	for _, gk := range gkeks {
		s.keys = append(s.keys, &countingAEAD{inner: gk})
	}
	if !env.devKey {
		// the public dev placeholder key is one of the foreign keys tried on a real-key database
		// (on a database created with it, the fresh keys above are the foreign ones)
		s.keys = append(s.keys, &countingAEAD{inner: devKEK()})
		s.devIdx = len(s.keys) - 1
	}
	s.snap = dirSnapshot(s.dir, filepath.Base(s.path))
	return s
}

func (s *openSession) record(in C05Input, class, detail string, orig []secDump, atts []attempt, nAlt int) Record {
	ti := in
	ti.Mode, ti.Class, ti.Detail = "tamper", class, detail
	s.dumps, s.dumpIx = nil, map[string]int{}
	parts := make([]string, len(atts))
	opened := 0
	for i, a := range atts {
		parts[i] = s.coq(a)
		if a.Kind != "AR" && a.Opened {
			opened++
		}
	}
	rec := Record{Kind: "opens", Input: ti, Nontrivial: true, Tags: []string{"opens:" + class},
		Coq: fmt.Sprintf("Opens %s %s %s", coqDisk(orig), coqList(s.dumps), coqList(parts))}
	if detail != "" {
		rec.Key = fmt.Sprintf("%d:%s:%s", in.MSeed, class, detail)
		rec.Obs = map[string]any{"original": orig, "attempts": atts}
	} else {
		rec.Key = fmt.Sprintf("%d:%s:batch:%d", in.MSeed, class, len(in.Ops))
		rec.Obs = map[string]any{"alterations": nAlt, "opened_to_original": opened, "open_attempts": len(atts)}
	}
	return rec
}

// runOpens: the open attempts on the final file of a history.
func runOpens(work string, r *rand.Rand, env *c05Env, m *c05Markers, in C05Input, origDoc []secDump, thorough bool, only *C05Input) []Record {
	orig := dropLatest(origDoc)
	s := newSession(work, env, m)
	defer os.WriteFile(s.path, s.orig, 0600)
	var recs []Record
	byClass := map[string][]attempt{}
	nAlt := map[string]int{}
	prev := s.right() // the process has just opened the original successfully
	first := prev
	tampers := genTampers(r, env, s.keys, m, work, thorough)
	// foreign keys first (so that they are also the first to be reported), then the alterations
	sort.SliceStable(tampers, func(i, j int) bool { return tampers[i].class == "foreign-kek" && tampers[j].class != "foreign-kek" })
	// ... and before them one plain damage of the file in place (cut in half), so that it is among the first reports
	for i, t := range tampers {
		if t.class == "truncate" && len(t.bytes) == len(s.orig)/2 {
			tampers[0], tampers[i] = tampers[i], tampers[0]
			break
		}
	}
	for _, t := range tampers {
		if only != nil && (only.Class != t.class || only.Detail != t.detail) {
			continue
		}
		kind := "AT"
		if t.class == "foreign-kek" {
			kind = "AF"
		}
		a := s.try(kind, t)
		after := s.right() // the right key still opens the original
		nAlt[t.class]++
		if suspicious(a, orig) || suspicious(after, orig) || only != nil {
			rec := s.record(in, t.class, t.detail, orig, []attempt{prev, a, after}, 1)
			if a.Panic {
				rec.Direct = &DirectVerdict{OK: false, What: "db.Open panicked on the altered file: " + t.class + " " + t.detail}
			}
			recs = append(recs, rec)
		} else {
			byClass[t.class] = append(byClass[t.class], a, after)
		}
		prev = after
	}
	if only != nil {
		return recs
	}
	// a run of attempts with no successful open in between
	var seq []attempt
	seq = append(seq, s.right())
	for i := 0; i < 24; i++ {
		k := r.IntN(len(s.keys) + 1)
		if k >= len(s.keys) {
			k = 0
		}
		if k == 0 {
			seq = append(seq, s.right())
		} else {
			seq = append(seq, s.try("AF", tamperCase{"key-sequence", fmt.Sprintf("key #%d on the original bytes", k), s.orig, k}))
		}
	}
	byClass["key-sequence"] = seq
	nAlt["key-sequence"] = len(seq)
	for _, cl := range sortedKeys(byClass) {
		// at most 2000 attempts per case: very long list literals overflow coqc's stack
		all := byClass[cl]
		for part := 0; len(all) > 0; part++ {
			n := min(len(all), 2000)
			atts := append([]attempt{first}, all[:n]...)
			rec := s.record(in, cl, "", orig, atts, n/2)
			rec.Key += fmt.Sprintf(":part%d", part)
			recs = append(recs, rec)
			all = all[n:]
		}
	}
	return recs
}

// ---- KEK uses at creation / opening; modes at creation ----

func keysRecord(work string) Record {
	env, err := newC05Env(filepath.Join(work, "c05keys"), newKEK())
	if err != nil {
		return Record{Kind: "keys", Key: "keys", Direct: &DirectVerdict{OK: false, What: err.Error()}}
	}
	defer env.close()
	m := genMarkers(1)
	var reopens []uint64
	var rerr error
	for i := 0; i < 4; i++ {
		env.d.Put(env.super, string(m.names[i%2]), m.values[i])
		n, err := env.reopen() // each reopen follows earlier successful opens in this process
		reopens = append(reopens, uint64(n))
		if err != nil {
			rerr = err
		}
	}
	rec := Record{Kind: "keys", Input: C05Input{Mode: "keys"}, Key: "keys", Nontrivial: true, Tags: []string{"keys"},
		Obs: map[string]any{"at_create": env.createUses, "at_reopens": reopens},
		Coq: fmt.Sprintf("Keys %d %s", env.createUses, coqNList(reopens))}
	if rerr != nil {
		rec.Direct = &DirectVerdict{OK: false, What: "reopening failed: " + rerr.Error()}
	}
	return rec
}

func modeRecords(work string) []Record {
	var recs []Record
	// temporaries of the database, at creation, from the system-call trace
	for i, sc := range []c04Scenario{{Kind: "create"}, {Kind: "firstput", Op: DBStep{Kind: "put", Name: []byte("a"), Val: 1}}} {
		se, err := prepareScenario(filepath.Join(work, fmt.Sprintf("c05mode%d", i)), sc)
		if err != nil {
			fatal("C05: %v", err)
		}
		dir, spec := se.fresh()
		cr, err := runChild(dir, spec, "")
		if err != nil {
			fatal("C05: %v", err)
		}
		n := 0
		for _, o := range cr.Trace.Ops {
			if o.Creates && o.Effective {
				n++
				recs = append(recs, Record{Kind: "mode", Input: C05Input{Mode: "mode", Class: "tmp-create"}, Key: fmt.Sprintf("tmp-create-%d-%d", i, n), Nontrivial: true,
					Tags: []string{"mode:tmp-create"}, Obs: map[string]any{"call": o.Class, "mode": fmt.Sprintf("%#o", o.Mode)},
					Coq: fmt.Sprintf("Mode FTmpCreate %d", o.Mode)})
			}
		}
		if n == 0 {
			recs = append(recs, Record{Kind: "mode", Input: C05Input{Mode: "mode", Class: "tmp-create"}, Key: fmt.Sprintf("tmp-create-none-%d", i),
				Tags: []string{"mode:tmp-create"}, Obs: cr.Trace.classes(),
				Direct: &DirectVerdict{OK: false, What: "no file creation observed in the traced save (cannot check the mode of the temporary)"}})
		}
		os.RemoveAll(se.root)
	}
	// the client's cache file
	cdir := filepath.Join(work, "c05cache", "sub")
	os.RemoveAll(filepath.Join(work, "c05cache"))
	fc, err := setec.NewFileCache(filepath.Join(cdir, "cache.json"))
	if err == nil {
		err = fc.Write([]byte(`{"x":{"secret":{"Value":"c2VjcmV0","Version":1},"lastAccess":1}}`))
	}
	if err != nil {
		recs = append(recs, Record{Kind: "mode", Key: "cache", Direct: &DirectVerdict{OK: false, What: "file cache: " + err.Error()}})
	} else {
		recs = append(recs, Record{Kind: "mode", Input: C05Input{Mode: "mode", Class: "cache-file"}, Key: "cache-file", Nontrivial: true, Tags: []string{"mode:cache"},
			Obs: fmt.Sprintf("%#o", fileMode(filepath.Join(cdir, "cache.json"))), Coq: fmt.Sprintf("Mode FCacheFile %d", fileMode(filepath.Join(cdir, "cache.json")))})
		recs = append(recs, Record{Kind: "mode", Input: C05Input{Mode: "mode", Class: "cache-dir"}, Key: "cache-dir", Nontrivial: true, Tags: []string{"mode:cache"},
			Obs: fmt.Sprintf("%#o", fileMode(cdir)), Coq: fmt.Sprintf("Mode FCacheDir %d", fileMode(cdir))})
	}
	os.RemoveAll(filepath.Join(work, "c05cache"))
	// the cache file written over a PRE-EXISTING file with lax bits (placeholder, or left by an older version)
	doc := []byte(`{"x":{"secret":{"Value":"c2VjcmV0","Version":1},"lastAccess":1}}`)
	for i, pre := range []struct {
		mode    os.FileMode
		content string
	}{{0644, ""}, {0666, ""}, {0640, ""}, {0644, `{"old":{"secret":{"Value":"b2xk","Version":3},"lastAccess":2}}`}, {0666, "garbage"}, {0604, ""}} {
		dir := filepath.Join(work, "c05cache2")
		os.RemoveAll(dir)
		os.MkdirAll(dir, 0700)
		p := filepath.Join(dir, "cache.json")
		os.WriteFile(p, []byte(pre.content), pre.mode)
		os.Chmod(p, pre.mode) // (the umask does not apply to chmod)
		in := C05Input{Mode: "mode", Class: "cache-over", Detail: fmt.Sprintf("existing %#o file of %d bytes", pre.mode, len(pre.content))}
		fc, err := setec.NewFileCache(p)
		if err == nil {
			err = fc.Write(doc)
		}
		if err != nil {
			recs = append(recs, Record{Kind: "mode", Input: in, Key: fmt.Sprintf("cache-over-%d", i), Direct: &DirectVerdict{OK: false, What: "file cache over an existing file: " + err.Error()}})
		} else {
			recs = append(recs, Record{Kind: "mode", Input: in, Key: fmt.Sprintf("cache-over-%d", i), Nontrivial: true, Tags: []string{"mode:cache-over"},
				Obs: map[string]any{"before": fmt.Sprintf("%#o", pre.mode), "after": fmt.Sprintf("%#o", fileMode(p))}, Coq: fmt.Sprintf("Mode FCacheOver %d", fileMode(p))})
		}
		os.RemoveAll(dir)
	}
	// the database file: a valid file made lax before the next save is 0600 again after it
	for i, mode := range []os.FileMode{0644, 0666, 0640} {
		for j, reopened := range []bool{false, true} {
			in := C05Input{Mode: "mode", Class: "db-over", Detail: fmt.Sprintf("database file chmod %#o before a save (reopened handle: %v)", mode, reopened)}
			key := fmt.Sprintf("db-over-%d-%d", i, j)
			env, err := newC05Env(filepath.Join(work, "c05dbmode"), newKEK())
			if err != nil {
				recs = append(recs, Record{Kind: "mode", Input: in, Key: key, Direct: &DirectVerdict{OK: false, What: err.Error()}})
				continue
			}
			m := genMarkers(7)
			env.d.Put(env.super, string(m.names[0]), m.values[0])
			os.Chmod(env.path, mode)
			if reopened {
				env.reopen()
			}
			_, perr := env.d.Put(env.super, string(m.names[1]), m.values[1])
			rec := Record{Kind: "mode", Input: in, Key: key, Nontrivial: true, Tags: []string{"mode:db-over"},
				Obs: map[string]any{"before": fmt.Sprintf("%#o", mode), "after": fmt.Sprintf("%#o", fileMode(env.path))}, Coq: fmt.Sprintf("Mode FDbOver %d", fileMode(env.path))}
			if perr != nil {
				rec.Direct = &DirectVerdict{OK: false, What: "put failed: " + perr.Error()}
			}
			recs = append(recs, rec)
			env.close()
		}
	}
	return recs
}

// devKEK: the well-known placeholder key of `setec server --dev` (cmd/setec/setec.go) - public knowledge.
func devKEK() tink.AEAD { return &testutil.DummyAEAD{Name: "SetecDevOnlyDummyEncryption"} }

var c05Hung int // histories of this run that ended in a deadlocked handle

// scenarioBounded runs a whole scenario that calls into database handles; if it has not
// returned after d (they take a second or two) it is given up - a call never returned - and a
// direct verdict is reported in its place (the goroutine is left behind).
func scenarioBounded(name string, in C05Input, d time.Duration, f func() []Record) []Record {
	var recs []Record
	done := make(chan struct{})
	go func() {
		defer close(done)
		recs = f()
	}()
	select {
	case <-done:
		return recs
	case <-time.After(d):
		return []Record{{Kind: name, Input: in, Key: name + ":did-not-finish", Tags: []string{name + ":hung"},
			Direct: &DirectVerdict{OK: false, What: sprintf("the %s scenario did not finish within %s: a call on a database handle never returned", name, d)}}}
	}
}

func runC05(o Opts) {
	out := NewOut(o.Out)
	defer out.Close()
	work := o.Work
	if work == "" {
		work = "."
	}
	thorough := o.Tier == "thorough"
	if o.Replay != "" {
		for i, in := range readInputs[C05Input](o.Replay) {
			switch in.Mode {
			case "keys":
				out.Emit(keysRecord(work))
			case "backup":
				out.Emit(backupRecord(work, in.MSeed))
			case "long":
				out.Emit(longRecord(work, int(in.MSeed)))
			case "mode":
				for _, r := range modeRecords(work) {
					out.Emit(r)
				}
			case "tamper":
				rec, env, last := runC05History(work, i, in.MSeed, in.Outage, in.DevKey, in.Ops, nil, 0)
				if env != nil && env.hung != "" {
					out.Emit(rec)
					env.close()
				} else if env != nil {
					hin := rec.Input.(C05Input)
					last = severalSaves(env, in.MSeed, last)
					only := in
					if in.Detail == "" {
						for _, r := range runOpens(work, NewRand(o.Seed, 7), env, genMarkers(in.MSeed), hin, last, thorough, nil) {
							if r.Input.(C05Input).Class == in.Class {
								out.Emit(r)
							}
						}
					} else {
						for _, r := range runOpens(work, NewRand(o.Seed, 7), env, genMarkers(in.MSeed), hin, last, true, &only) {
							out.Emit(r)
						}
					}
					env.close()
				}
			default:
				rec, env, _ := runC05History(work, i, in.MSeed, in.Outage, in.DevKey, in.Ops, nil, 0)
				if env != nil {
					env.close()
				}
				out.Emit(rec)
			}
		}
		return
	}
	idx := 0
	for _, in := range readCorpus[C05Input](o.Corpus) {
		rec, env, _ := runC05History(work, idx, in.MSeed, in.Outage, in.DevKey, in.Ops, nil, 0)
		if env != nil {
			env.close()
		}
		rec.Corpus = "corpus"
		out.Emit(rec)
		idx++
	}
	for _, kr := range scenarioBounded("keys", C05Input{Mode: "keys"}, 20*time.Second, func() []Record { return []Record{keysRecord(work)} }) {
		out.Emit(kr)
	}
	// the backup task (two schedules) and the long session
	var bgSelf []Record
	for k := uint64(0); k < 2; k++ {
		br := backupRecord(work, o.Seed*10+k)
		br.ID = out.n
		out.Emit(br)
		if k == 0 && br.Coq != "" {
			bgSelf = append(bgSelf, br)
		}
	}
	{
		cycles := 700 // 2101 saves
		if thorough {
			cycles = 3000
		}
		for _, lr := range scenarioBounded("long", C05Input{Mode: "long", MSeed: uint64(cycles)}, 90*time.Second, func() []Record { return []Record{longRecord(work, cycles)} }) {
			lr.ID = out.n
			out.Emit(lr)
			if lr.Coq != "" {
				bgSelf = append(bgSelf, lr)
			}
		}
	}
	var selfSrc []Record
	for _, r := range scenarioBounded("mode", C05Input{Mode: "mode"}, 60*time.Second, func() []Record { return modeRecords(work) }) {
		r.ID = out.n
		out.Emit(r)
		if r.Coq != "" && strings.Contains(r.Coq, "FCacheFile") {
			selfSrc = append(selfSrc, r)
		}
	}
	n := map[string]int{"quick": 150, "thorough": 3000}[o.Tier]
	nt := map[string]int{"quick": 10, "thorough": 40}[o.Tier]
	if o.N > 0 {
		n = o.N
	}
	var histSelf, tampSelf, keySelf *Record
	for i := 0; i < n; i++ {
		r := NewRand(o.Seed, uint64(5000+i))
		length := 5 + r.IntN(14)
		if i%5 == 4 {
			length = 30 + r.IntN(16) // long, mutation-heavy, rare reopens: many saves on one handle
		}
		mseed := o.Seed*1000 + uint64(i)
		rec, env, last := runC05History(work, idx, mseed, i%3 == 1, i%5 == 2, nil, r, length)
		idx++
		rec.ID = out.n
		out.Emit(rec)
		if env == nil {
			continue
		}
		if env.hung != "" {
			env.close()
			c05Hung++
			if c05Hung >= 4 {
				break // every further history would cost its time-outs and say the same
			}
			continue
		}
		if histSelf == nil && i >= 2 && rec.Coq != "" && strings.Contains(rec.Coq, "HRe") && strings.Contains(rec.Coq, "OPut") {
			c := rec
			histSelf = &c
		}
		if i < nt {
			oin := rec.Input.(C05Input)
			oin.Mode = "tamper"
			opens := scenarioBounded("opens", oin, 5*time.Minute, func() []Record {
				last = severalSaves(env, mseed, last)
				return runOpens(work, r, env, genMarkers(mseed), rec.Input.(C05Input), last, thorough, nil)
			})
			for _, tr := range opens {
				tr.ID = out.n
				out.Emit(tr)
				if tampSelf == nil && len(last) > 0 && strings.Contains(tr.Coq, "At AT None") {
					c := tr
					tampSelf = &c
				}
				if keySelf == nil && strings.Contains(tr.Coq, "At AF None 1 0 0") {
					c := tr
					keySelf = &c
				}
			}
		}
		env.close()
	}
	// ---- self-tests
	if histSelf != nil {
		in := histSelf.Input.(C05Input)
		mk := genMarkers(in.MSeed)
		emitAlt := func(f func(o *c05StepObs), pick func(st DBStep) bool) {
			obs := append([]c05StepObs(nil), histSelf.Obs.([]c05StepObs)...)
			for i := len(obs) - 1; i >= 0; i-- {
				before := fmt.Sprintf("%+v", obs[i])
				probe := obs[i]
				f(&probe)
				if pick(in.Ops[i]) && fmt.Sprintf("%+v", probe) != before { // the alteration must alter something

					o := obs[i]
					f(&o)
					obs[i] = o
					alt := *histSelf
					alt.Coq, alt.SelfTest, alt.SelfOf, alt.Obs = coqHist(mk, in.Ops, obs), true, histSelf.ID, nil
					out.Emit(alt)
					return
				}
			}
		}
		any := func(DBStep) bool { return true }
		emitAlt(func(o *c05StepObs) { o.ValHits = []scanHit{{File: "self-test", Marker: "value#1", Form: "plain"}} }, any)
		emitAlt(func(o *c05StepObs) { o.S.DEKother = true }, any)
		emitAlt(func(o *c05StepObs) { o.KEK = 0 }, func(st DBStep) bool { return st.Kind == "reopen" })                 // a reopen that did not consult the key
		emitAlt(func(o *c05StepObs) { o.KEK = 1 }, func(st DBStep) bool { return st.Kind == "put" })                    // a write that did
		emitAlt(func(o *c05StepObs) { o.ResClass = 0 }, func(st DBStep) bool { return st.SaveFail })                    // a refused save reported as success (when it reached the save)
		emitAlt(func(o *c05StepObs) { o.Live = append([]secDump{{Name: []byte("ghost"), Active: 1}}, o.Live...) }, any) // a served state with something extra
	}
	if tampSelf != nil {
		alt := *tampSelf
		alt.Coq = strings.Replace(tampSelf.Coq, "At AT None", "At AT (Some 99)", 1)
		alt.SelfTest, alt.SelfOf, alt.Obs = true, tampSelf.ID, nil
		out.Emit(alt)
	}
	if keySelf != nil {
		alt3 := *keySelf
		alt3.Coq = strings.Replace(keySelf.Coq, "At AF None 1 0 0", "At AF None 1 0 1", 1) // an attempt that left something behind in the directory
		alt3.SelfTest, alt3.SelfOf, alt3.Obs = true, keySelf.ID, nil
		out.Emit(alt3)
		alt := *keySelf
		alt.Coq = strings.Replace(keySelf.Coq, "At AF None 1 0 0", "At AF None 0 0 0", 1) // a foreign key refused without being consulted
		alt.SelfTest, alt.SelfOf, alt.Obs = true, keySelf.ID, nil
		out.Emit(alt)
		alt2 := *keySelf
		alt2.Coq = strings.Replace(keySelf.Coq, "At AF None 1 0 0", "At AF (Some 0) 0 0 0", 1) // a foreign key let through
		alt2.SelfTest, alt2.SelfOf, alt2.Obs = true, keySelf.ID, nil
		out.Emit(alt2)
	}
	for _, r := range bgSelf {
		alt := r
		switch r.Kind {
		case "backup": // a round in which the key service was asked once
			alt.Coq = strings.Replace(r.Coq, " 0 1 true", " 1 1 true", 1)
		case "long": // one key use somewhere along the 2101 saves
			f := strings.Fields(r.Coq)
			if len(f) > 3 {
				f[3] = f[3] + "1"
				alt.Coq = strings.Join(f, " ")
			}
		}
		if alt.Coq != r.Coq {
			alt.SelfTest, alt.SelfOf, alt.Obs = true, r.ID, nil
			out.Emit(alt)
		}
	}
	for _, r := range selfSrc {
		alt := r
		alt.Coq, alt.SelfTest, alt.SelfOf, alt.Obs = "Mode FCacheFile 420", true, r.ID, nil
		out.Emit(alt)
	}
}
