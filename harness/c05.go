package main

// Property C05: secrets are confidential and tamper-evident at rest.
// Real AES-256-GCM key-encryption key behind a counting proxy, audit log in a real file,
// high-entropy marker names and values; structure probes, marker scan, mode bits and KEK
// use after every call; db.Open on tampered copies of saved files.

import (
	"bytes"
	"encoding/base64"
	"encoding/hex"
	"encoding/json"
	"fmt"
	"io"
	"math/rand/v2"
	"os"
	"path/filepath"
	"sort"
	"strconv"
	"strings"

	"github.com/tailscale/setec/audit"
	setec "github.com/tailscale/setec/client/setec"
	"github.com/tailscale/setec/db"
	"github.com/tailscale/setec/types/api"
	"github.com/tink-crypto/tink-go/v2/aead"
	"github.com/tink-crypto/tink-go/v2/keyset"
	"github.com/tink-crypto/tink-go/v2/tink"
)

type C05Input struct {
	Mode   string   `json:"mode"`  // hist | tamper | keys | mode
	MSeed  uint64   `json:"mseed"` // seed of the marker table
	Ops    []DBStep `json:"ops,omitempty"`
	Class  string   `json:"class,omitempty"` // tamper class
	Detail string   `json:"detail,omitempty"`
}

func init() {
	commands["C05"] = runC05
}

// ---- markers ----

type c05Markers struct {
	names  [][]byte
	values [][]byte // token i+1 = values[i]
}

const alnum = "abcdefghijklmnopqrstuvwxyzABCDEFGHIJKLMNOPQRSTUVWXYZ0123456789"

func genMarkers(seed uint64) *c05Markers {
	r := NewRand(seed, 50505)
	m := &c05Markers{}
	rs := func(n int) []byte {
		b := make([]byte, n)
		for i := range b {
			b[i] = alnum[r.IntN(len(alnum))]
		}
		return b
	}
	m.names = [][]byte{
		append([]byte("mk/"), rs(22)...),
		append([]byte("prod/db-"), rs(20)...),
		append(append([]byte("q\"t\\<&>/"), rs(18)...), []byte("\n\xc3\xa9")...), // needs JSON escaping; valid UTF-8
		rs(16),
	}
	for i := 0; i < 8; i++ {
		n := 18 + r.IntN(40)
		b := make([]byte, n)
		for j := range b {
			b[j] = byte(r.IntN(256))
		}
		switch i % 4 {
		case 1: // printable text (would survive in a log line)
			b = rs(n)
		case 2: // text with characters that JSON escapes
			b = append(append(rs(10), []byte("\"\\\n\t<>&\x00\x7f")...), rs(n)...)
		}
		m.values = append(m.values, b)
	}
	return m
}

func (m *c05Markers) token(b []byte) uint64 {
	for i, v := range m.values {
		if bytes.Equal(v, b) {
			return uint64(i + 1)
		}
	}
	return corruptToken
}

// encodings of a marker under which it would be "trivially" readable
func markerForms(mk []byte) map[string][]byte {
	out := map[string][]byte{"plain": mk}
	for _, e := range []struct {
		n   string
		enc *base64.Encoding
	}{{"base64", base64.RawStdEncoding}, {"base64url", base64.RawURLEncoding}} {
		for k := 0; k < 3; k++ {
			s := e.enc.EncodeToString(append(make([]byte, k), mk...))
			drop := []int{0, 2, 3}[k]
			end := (8 * (k + len(mk))) / 6
			if end > len(s) {
				end = len(s)
			}
			if end-drop >= 12 {
				out[fmt.Sprintf("%s@%d", e.n, k)] = []byte(s[drop:end])
			}
		}
	}
	out["hex"] = []byte(hex.EncodeToString(mk))
	out["HEX"] = []byte(strings.ToUpper(hex.EncodeToString(mk)))
	if js, err := json.Marshal(string(mk)); err == nil && len(js) > 2 {
		if esc := js[1 : len(js)-1]; !bytes.Equal(esc, mk) {
			out["json"] = esc
		}
	}
	var buf bytes.Buffer
	enc := json.NewEncoder(&buf)
	enc.SetEscapeHTML(false)
	if enc.Encode(string(mk)) == nil {
		if esc := bytes.TrimSpace(buf.Bytes()); len(esc) > 2 && !bytes.Equal(esc[1:len(esc)-1], mk) {
			out["json-nohtml"] = esc[1 : len(esc)-1]
		}
	}
	return out
}

type scanHit struct {
	File   string `json:"file"`
	Marker string `json:"marker"`
	Form   string `json:"form"`
	Offset int    `json:"offset"`
}

// scanDir looks for every marker in every regular file of dir.  Names are only looked for
// outside the audit log (which records them by design).
func (m *c05Markers) scanDir(dir string) (valHits, nameHits []scanHit) {
	ents, _ := os.ReadDir(dir)
	for _, e := range ents {
		if !e.Type().IsRegular() {
			continue
		}
		bs, err := os.ReadFile(filepath.Join(dir, e.Name()))
		if err != nil {
			continue
		}
		for i, v := range m.values {
			for form, pat := range markerForms(v) {
				if off := bytes.Index(bs, pat); off >= 0 {
					valHits = append(valHits, scanHit{e.Name(), fmt.Sprintf("value#%d", i+1), form, off})
				}
			}
		}
		if e.Name() == "audit.log" {
			continue
		}
		for i, n := range m.names {
			for form, pat := range markerForms(n) {
				if off := bytes.Index(bs, pat); off >= 0 {
					nameHits = append(nameHits, scanHit{e.Name(), fmt.Sprintf("name#%d", i), form, off})
				}
			}
		}
	}
	sort.Slice(valHits, func(i, j int) bool { return fmt.Sprint(valHits[i]) < fmt.Sprint(valHits[j]) })
	sort.Slice(nameHits, func(i, j int) bool { return fmt.Sprint(nameHits[i]) < fmt.Sprint(nameHits[j]) })
	return
}

// ---- structure probes ----

type c05Struct struct {
	Keys     []uint64  `json:"keys"`
	Ver      uint64    `json:"ver"`
	DEKv1    bool      `json:"dek_v1"`
	DEKother bool      `json:"dek_other"`
	DBv1     bool      `json:"db_v1"`
	DBother  bool      `json:"db_other"`
	Doc      []secDump `json:"doc"`
	Note     string    `json:"note,omitempty"`
}

func decodeDoc(clear []byte, tok func([]byte) uint64) ([]secDump, error) {
	var p struct {
		Secrets map[string]struct {
			Versions      map[string][]byte
			ActiveVersion json.Number
			LatestVersion json.Number
		}
	}
	if err := json.Unmarshal(clear, &p); err != nil {
		return nil, err
	}
	var out []secDump
	for name, s := range p.Secrets {
		a, _ := strconv.ParseUint(s.ActiveVersion.String(), 10, 64)
		l, _ := strconv.ParseUint(s.LatestVersion.String(), 10, 64)
		sd := secDump{Name: []byte(name), Active: a, Latest: l}
		for k, v := range s.Versions {
			n, err := strconv.ParseUint(k, 10, 64)
			if err != nil {
				return nil, fmt.Errorf("version key %q", k)
			}
			sd.Vers = append(sd.Vers, verVal{Ver: n, Val: tok(v)})
		}
		sort.Slice(sd.Vers, func(i, j int) bool { return sd.Vers[i].Ver < sd.Vers[j].Ver })
		out = append(out, sd)
	}
	sort.Slice(out, func(i, j int) bool { return bytes.Compare(out[i].Name, out[j].Name) < 0 })
	return out, nil
}

func probeFile(bs []byte, kek tink.AEAD, tok func([]byte) uint64) c05Struct {
	var st c05Struct
	var raw map[string]json.RawMessage
	if err := json.Unmarshal(bs, &raw); err != nil {
		st.Note = "wrapper is not a JSON object: " + err.Error()
		return st
	}
	for _, k := range sortedKeys(raw) {
		switch k {
		case "Version":
			st.Keys = append(st.Keys, 10)
		case "DEK":
			st.Keys = append(st.Keys, 11)
		case "DB":
			st.Keys = append(st.Keys, 12)
		default:
			st.Keys = append(st.Keys, 99)
		}
	}
	sort.Slice(st.Keys, func(i, j int) bool { return st.Keys[i] < st.Keys[j] })
	var w struct {
		Version json.Number
		DEK     []byte
		DB      []byte
	}
	if err := json.Unmarshal(bs, &w); err != nil {
		st.Note = "wrapper fields: " + err.Error()
		return st
	}
	st.Ver, _ = strconv.ParseUint(w.Version.String(), 10, 64)
	unwrap := func(ctx string) *keyset.Handle {
		h, err := keyset.ReadWithAssociatedData(keyset.NewBinaryReader(bytes.NewReader(w.DEK)), kek, []byte(ctx))
		if err != nil {
			return nil
		}
		return h
	}
	h := unwrap("setec DEK v1")
	st.DEKv1 = h != nil
	for _, ctx := range []string{"", "setec DEK v2", "setec database v1", "setec DEK v0"} {
		if unwrap(ctx) != nil {
			st.DEKother = true
		}
	}
	if h == nil {
		return st
	}
	c, err := aead.New(h)
	if err != nil {
		st.Note = "cipher from DEK: " + err.Error()
		return st
	}
	clear, err := c.Decrypt(w.DB, []byte("setec database v1"))
	st.DBv1 = err == nil
	for _, ctx := range []string{"", "setec database v2", "setec DEK v1", "setec database v0"} {
		if _, e2 := c.Decrypt(w.DB, []byte(ctx)); e2 == nil {
			st.DBother = true
		}
	}
	if err == nil {
		doc, derr := decodeDoc(clear, tok)
		if derr != nil {
			st.Note = "document: " + derr.Error()
			doc = []secDump{{Name: []byte("<<undecodable>>")}}
		}
		st.Doc = doc
	}
	return st
}

// ---- one history ----

type c05Env struct {
	dir, state, path string
	kek              *countingAEAD
	d                *db.DB
	aw               *audit.Writer
	super            db.Caller
	createUses       int
}

func newC05Env(dir string, kek tink.AEAD) (*c05Env, error) {
	os.RemoveAll(dir)
	state := filepath.Join(dir, "state")
	if err := os.MkdirAll(state, 0700); err != nil {
		return nil, err
	}
	e := &c05Env{dir: dir, state: state, path: filepath.Join(state, "db.json"), kek: &countingAEAD{inner: kek}}
	aw, err := audit.NewFile(filepath.Join(state, "audit.log"))
	if err != nil {
		return nil, err
	}
	e.aw = aw
	d, err := db.Open(e.path, e.kek, aw)
	if err != nil {
		return nil, err
	}
	e.d = d
	e.createUses = e.kek.count()
	e.super = mkCaller(DBCaller{ID: 1, Rules: superRules()})
	return e, nil
}

func (e *c05Env) close() {
	e.aw.Close()
	os.RemoveAll(e.dir)
}

type c05StepObs struct {
	Res      string    `json:"res"`
	S        c05Struct `json:"structure"`
	ValHits  []scanHit `json:"value_hits,omitempty"`
	NameHits []scanHit `json:"name_hits,omitempty"`
	ModeDB   uint64    `json:"mode_db"`
	ModeAud  uint64    `json:"mode_audit"`
	KEK      int       `json:"kek_uses"`
}

func fileMode(path string) uint64 {
	fi, err := os.Lstat(path)
	if err != nil {
		return 0o7777
	}
	return uint64(fi.Mode().Perm())
}

func (e *c05Env) step(m *c05Markers, st DBStep) c05StepObs {
	var o c05StepObs
	k0 := e.kek.count()
	name := string(st.Name)
	var err error
	func() {
		defer func() {
			if p := recover(); p != nil {
				err = fmt.Errorf("PANIC: %v", p)
			}
		}()
		switch st.Kind {
		case "put":
			_, err = e.d.Put(e.super, name, m.values[(st.Val-1)%len(m.values)])
		case "activate":
			err = e.d.Activate(e.super, name, api.SecretVersion(st.Ver))
		case "delver":
			err = e.d.DeleteVersion(e.super, name, api.SecretVersion(st.Ver))
		case "del":
			err = e.d.Delete(e.super, name)
		case "get":
			_, err = e.d.Get(e.super, name)
		case "getver":
			_, err = e.d.GetVersion(e.super, name, api.SecretVersion(st.Ver))
		case "info":
			_, err = e.d.Info(e.super, name)
		case "list":
			_, err = e.d.List(e.super)
		}
	}()
	o.Res = classify(err)
	o.KEK = e.kek.count() - k0
	bs, _ := os.ReadFile(e.path)
	o.S = probeFile(bs, e.kek.inner, m.token)
	o.ValHits, o.NameHits = m.scanDir(e.state)
	o.ModeDB, o.ModeAud = fileMode(e.path), fileMode(filepath.Join(e.state, "audit.log"))
	return o
}

func c05CoqOp(m *c05Markers, st DBStep) string {
	if st.Kind == "put" {
		st.Val = (st.Val-1)%len(m.values) + 1
	}
	return coqOp(st)
}

func coqSobs(o c05StepObs) string {
	return fmt.Sprintf("So %s %d %s %s %s %s %s %d %d %d %d %d", coqNList(o.S.Keys), o.S.Ver,
		coqBool(o.S.DEKv1), coqBool(o.S.DEKother), coqBool(o.S.DBv1), coqBool(o.S.DBother), coqDisk(o.S.Doc),
		len(o.ValHits), len(o.NameHits), o.ModeDB, o.ModeAud, o.KEK)
}

func coqHist(m *c05Markers, ops []DBStep, obs []c05StepObs) string {
	parts := make([]string, len(ops))
	for i := range ops {
		parts[i] = fmt.Sprintf("(%s, %s)", c05CoqOp(m, ops[i]), coqSobs(obs[i]))
	}
	return "Hist " + coqList(parts)
}

func genC05Step(r *rand.Rand, m *c05Markers, last []secDump) DBStep {
	kinds := []string{"put", "put", "put", "put", "put", "activate", "activate", "delver", "delver", "del", "get", "getver", "info", "list"}
	st := DBStep{Kind: kinds[r.IntN(len(kinds))]}
	st.Name = m.names[r.IntN(len(m.names))]
	if r.IntN(3) > 0 {
		st.Name = m.names[r.IntN(2)]
	}
	var cur *secDump
	for i := range last {
		if bytes.Equal(last[i].Name, st.Name) {
			cur = &last[i]
		}
	}
	if cur != nil && len(cur.Vers) > 0 && r.IntN(5) > 0 {
		st.Ver = uint32(cur.Vers[r.IntN(len(cur.Vers))].Ver)
	} else {
		st.Ver = uint32(r.IntN(4))
	}
	st.Val = 1 + r.IntN(len(m.values))
	st.NameQ = fmt.Sprintf("%q", st.Name)
	return st
}

// runC05History executes fixed (r == nil) or generated ops; returns the record and the
// environment still open (for the tamper runs), which the caller closes.
func runC05History(work string, idx int, mseed uint64, ops []DBStep, r *rand.Rand, length int) (Record, *c05Env, []secDump) {
	m := genMarkers(mseed)
	in := C05Input{Mode: "hist", MSeed: mseed, Ops: ops}
	env, err := newC05Env(filepath.Join(work, fmt.Sprintf("c05db%d", idx%32)), newKEK())
	if err != nil {
		return Record{Kind: "hist", Input: in, Key: fmt.Sprintf("create-failed-%d", idx),
			Direct: &DirectVerdict{OK: false, What: "cannot create a database: " + err.Error()}}, nil, nil
	}
	var obs []c05StepObs
	var last []secDump
	do := func(st DBStep) {
		o := env.step(m, st)
		obs = append(obs, o)
		last = o.S.Doc
	}
	if r == nil {
		for _, st := range in.Ops {
			do(st)
		}
	} else {
		for len(in.Ops) < length {
			st := genC05Step(r, m, last)
			in.Ops = append(in.Ops, st)
			do(st)
		}
	}
	kb, _ := json.Marshal(in.Ops)
	saves := 0
	tags := map[string]bool{}
	for i, st := range in.Ops {
		tags["op:"+st.Kind] = true
		if isMut(st.Kind) && obs[i].Res == "" {
			saves++
		}
	}
	rec := Record{Kind: "hist", Input: in, Obs: obs, Key: fmt.Sprintf("%d:%s", mseed, kb), Coq: coqHist(m, in.Ops, obs),
		Nontrivial: saves >= 3, Tags: append(sortedKeys(tags), "hist")}
	return rec, env, last
}

// ---- tampering ----

type tamperCase struct {
	class, detail string
	bytes         []byte
	kek           tink.AEAD
}

func openOutcome(scratch string, t tamperCase, tok func([]byte) uint64) (opened bool, dump []secDump, note string) {
	os.WriteFile(scratch, t.bytes, 0600)
	defer os.Remove(scratch)
	var d *db.DB
	var err error
	func() {
		defer func() {
			if p := recover(); p != nil {
				err = fmt.Errorf("PANIC: %v", p)
				note = "panic"
			}
		}()
		d, err = db.Open(scratch, t.kek, audit.New(io.Discard))
	}()
	if err != nil {
		return false, nil, err.Error()
	}
	// dump through the API with this history's token table
	super := mkCaller(DBCaller{ID: 0, Rules: superRules()})
	infos, err := d.List(super)
	if err != nil {
		return false, nil, "list: " + err.Error()
	}
	for _, in := range infos {
		sd := secDump{Name: []byte(in.Name), Active: uint64(in.ActiveVersion)}
		for _, v := range in.Versions {
			sv, err := d.GetVersion(super, in.Name, v)
			if err != nil {
				return false, nil, "get: " + err.Error()
			}
			sd.Vers = append(sd.Vers, verVal{Ver: uint64(v), Val: tok(sv.Value)})
		}
		sort.Slice(sd.Vers, func(i, j int) bool { return sd.Vers[i].Ver < sd.Vers[j].Ver })
		dump = append(dump, sd)
	}
	sort.Slice(dump, func(i, j int) bool { return bytes.Compare(dump[i].Name, dump[j].Name) < 0 })
	return true, dump, ""
}

type wrappedFile struct {
	Version uint32
	DEK     []byte
	DB      []byte
}

func rebuild(w wrappedFile) []byte {
	bs, _ := json.Marshal(w)
	return bs
}

// otherDB writes a small valid database under kek and returns its file bytes.
func otherDB(dir string, kek tink.AEAD, m *c05Markers, n int) []byte {
	os.RemoveAll(dir)
	os.MkdirAll(dir, 0700)
	p := filepath.Join(dir, "db.json")
	d, err := db.Open(p, kek, audit.New(io.Discard))
	if err != nil {
		fatal("otherDB: %v", err)
	}
	super := mkCaller(DBCaller{ID: 0, Rules: superRules()})
	for i := 0; i < n; i++ {
		d.Put(super, string(m.names[i%len(m.names)]), m.values[(i+3)%len(m.values)])
	}
	bs, _ := os.ReadFile(p)
	os.RemoveAll(dir)
	return bs
}

func goldenFiles() (files [][]byte, keks []tink.AEAD) {
	root := os.Getenv("VERIF_ROOT")
	if root == "" {
		root = "/verif"
	}
	for _, base := range []string{"g1", "g3"} {
		bs, err := os.ReadFile(filepath.Join(root, "golden", base+".db"))
		if err != nil {
			continue
		}
		files = append(files, bs)
		keks = append(keks, loadCleartextKEK(filepath.Join(root, "golden", base+".kek.json")))
	}
	return
}

func genTampers(r *rand.Rand, env *c05Env, m *c05Markers, work string, thorough bool) []tamperCase {
	orig, _ := os.ReadFile(env.path)
	kek := env.kek.inner
	var out []tamperCase
	var w wrappedFile
	if json.Unmarshal(orig, &w) != nil {
		return nil
	}
	// payload ranges (the two base64 strings)
	inPayload := make([]bool, len(orig))
	for _, f := range [][]byte{w.DEK, w.DB} {
		b64 := []byte(base64.StdEncoding.EncodeToString(f))
		if i := bytes.Index(orig, b64); i >= 0 {
			for j := i; j < i+len(b64); j++ {
				inPayload[j] = true
			}
		}
	}
	flip := func(bit int) {
		b := append([]byte(nil), orig...)
		b[bit/8] ^= 1 << (bit % 8)
		cl := "flip-skeleton"
		if inPayload[bit/8] {
			cl = "flip-payload"
		}
		out = append(out, tamperCase{cl, fmt.Sprintf("bit %d of byte %d (%q)", bit%8, bit/8, orig[bit/8]), b, kek})
	}
	for bit := 0; bit < 8*len(orig); bit++ {
		if thorough || !inPayload[bit/8] {
			flip(bit)
		}
	}
	if !thorough {
		for i := 0; i < 512; i++ {
			for {
				bit := r.IntN(8 * len(orig))
				if inPayload[bit/8] {
					flip(bit)
					break
				}
			}
		}
	}
	for n := 0; n < len(orig); n++ {
		out = append(out, tamperCase{"truncate", fmt.Sprintf("to %d of %d bytes", n, len(orig)), orig[:n], kek})
	}
	out = append(out, tamperCase{"append", "garbage after the object", append(append([]byte(nil), orig...), []byte("{}")...), kek})
	// foreign keys
	other := newKEK()
	out = append(out, tamperCase{"foreign-kek", "fresh AES-256-GCM key", orig, other})
	gfiles, gkeks := goldenFiles()
	for i, gk := range gkeks {
		out = append(out, tamperCase{"foreign-kek", fmt.Sprintf("golden key %d", i), orig, gk})
	}
	// fields of other valid databases
	type src struct {
		name string
		bs   []byte
	}
	srcs := []src{{"another database under the same KEK", otherDB(filepath.Join(work, "c05other"), kek, m, 3)},
		{"an empty database under the same KEK", otherDB(filepath.Join(work, "c05other"), kek, m, 0)},
		{"a database under a different KEK", otherDB(filepath.Join(work, "c05other"), other, m, 2)}}
	for i, g := range gfiles {
		srcs = append(srcs, src{fmt.Sprintf("golden database %d", i), g})
	}
	for _, s := range srcs {
		var x wrappedFile
		if json.Unmarshal(s.bs, &x) != nil {
			continue
		}
		out = append(out, tamperCase{"swap", "DEK field from " + s.name, rebuild(wrappedFile{1, x.DEK, w.DB}), kek})
		out = append(out, tamperCase{"swap", "DB field from " + s.name, rebuild(wrappedFile{1, w.DEK, x.DB}), kek})
		// duplicate member: encoding/json keeps the last one
		dup := bytes.Replace(orig, []byte(`"}`), []byte(`","DB":"`+base64.StdEncoding.EncodeToString(x.DB)+`"}`), 1)
		out = append(out, tamperCase{"swap", "duplicate DB member from " + s.name, dup, kek})
	}
	// DEK and DB exchanged, fields emptied
	out = append(out, tamperCase{"swap", "DEK and DB exchanged", rebuild(wrappedFile{1, w.DB, w.DEK}), kek})
	out = append(out, tamperCase{"swap", "empty DB", rebuild(wrappedFile{1, w.DEK, nil}), kek})
	out = append(out, tamperCase{"swap", "empty DEK", rebuild(wrappedFile{1, nil, w.DB}), kek})
	// version edits
	for _, v := range []string{"0", "2", "3", "10", "11", "-1", "1.5", "\"1\"", "null", "4294967297", "4294967296", "true", "1e0", "01", "[1]", "{}"} {
		b := bytes.Replace(orig, []byte(`"Version":1`), []byte(`"Version":`+v), 1)
		out = append(out, tamperCase{"version", "Version := " + v, b, kek})
	}
	out = append(out, tamperCase{"version", "Version member removed", bytes.Replace(orig, []byte(`"Version":1,`), nil, 1), kek})
	return out
}

func coqOutcome(opened bool, dump []secDump) string {
	if !opened {
		return "OErr"
	}
	return "(OOpened " + coqDisk(dump) + ")"
}

// the API dump has no counters: compare with the counters dropped
func dropLatest(d []secDump) []secDump {
	out := make([]secDump, len(d))
	for i, s := range d {
		s.Latest = 0
		out[i] = s
	}
	return out
}

func runTampers(work string, r *rand.Rand, env *c05Env, m *c05Markers, in C05Input, origDoc []secDump, thorough bool, only *C05Input) []Record {
	orig := dropLatest(origDoc)
	scratch := filepath.Join(work, "c05tamper.json")
	byClass := map[string][]string{}
	counts := map[string][2]int{}
	var recs []Record
	for _, t := range genTampers(r, env, m, work, thorough) {
		if only != nil && (only.Class != t.class || only.Detail != t.detail) {
			continue
		}
		opened, dump, note := openOutcome(scratch, t, m.token)
		c := counts[t.class]
		c[0]++
		if opened {
			c[1]++
		}
		counts[t.class] = c
		if opened && !sameDump(dump, orig, false) || only != nil || note == "panic" {
			// a report of its own, with the exact alteration
			ti := in
			ti.Mode, ti.Class, ti.Detail = "tamper", t.class, t.detail
			rec := Record{Kind: "tamper", Input: ti, Key: fmt.Sprintf("%d:%s:%s", in.MSeed, t.class, t.detail), Nontrivial: true,
				Tags: []string{"tamper:" + t.class}, Obs: map[string]any{"opened": opened, "contents": dump, "original": orig, "error": note},
				Coq: fmt.Sprintf("Tamper %s [%s]", coqDisk(orig), coqOutcome(opened, dump))}
			if note == "panic" {
				rec.Direct = &DirectVerdict{OK: false, What: "db.Open panicked on the altered file: " + t.class + " " + t.detail}
			}
			recs = append(recs, rec)
			continue
		}
		byClass[t.class] = append(byClass[t.class], coqOutcome(opened, dump))
	}
	if only != nil {
		return recs
	}
	for _, cl := range sortedKeys(byClass) {
		ti := in
		ti.Mode, ti.Class = "tamper", cl
		recs = append(recs, Record{Kind: "tamper", Input: ti, Key: fmt.Sprintf("%d:%s:batch:%d", in.MSeed, cl, len(in.Ops)), Nontrivial: true,
			Tags: []string{"tamper:" + cl}, Obs: map[string]any{"alterations": counts[cl][0], "opened_to_original": counts[cl][1]},
			Coq: fmt.Sprintf("Tamper %s %s", coqDisk(orig), coqList(byClass[cl]))})
	}
	return recs
}

// ---- KEK uses at creation / opening; modes at creation ----

func keysRecord(work string) Record {
	env, err := newC05Env(filepath.Join(work, "c05keys"), newKEK())
	if err != nil {
		return Record{Kind: "keys", Key: "keys", Direct: &DirectVerdict{OK: false, What: err.Error()}}
	}
	defer env.close()
	m := genMarkers(1)
	env.d.Put(env.super, string(m.names[0]), m.values[0])
	k0 := env.kek.count()
	_, err = db.Open(env.path, env.kek, audit.New(io.Discard))
	atOpen := env.kek.count() - k0
	rec := Record{Kind: "keys", Input: C05Input{Mode: "keys"}, Key: "keys", Nontrivial: true, Tags: []string{"keys"},
		Obs: map[string]any{"at_create": env.createUses, "at_open": atOpen},
		Coq: fmt.Sprintf("Keys %d %d", env.createUses, atOpen)}
	if err != nil {
		rec.Direct = &DirectVerdict{OK: false, What: "reopening failed: " + err.Error()}
	}
	return rec
}

func modeRecords(work string) []Record {
	var recs []Record
	// temporaries of the database, at creation, from the system-call trace
	for i, sc := range []c04Scenario{{Kind: "create"}, {Kind: "firstput", Op: DBStep{Kind: "put", Name: []byte("a"), Val: 1}}} {
		se, err := prepareScenario(filepath.Join(work, fmt.Sprintf("c05mode%d", i)), sc)
		if err != nil {
			fatal("C05: %v", err)
		}
		dir, spec := se.fresh()
		cr, err := runChild(dir, spec, "")
		if err != nil {
			fatal("C05: %v", err)
		}
		n := 0
		for _, o := range cr.Trace.Ops {
			if o.Creates && o.Effective {
				n++
				recs = append(recs, Record{Kind: "mode", Input: C05Input{Mode: "mode", Class: "tmp-create"}, Key: fmt.Sprintf("tmp-create-%d-%d", i, n), Nontrivial: true,
					Tags: []string{"mode:tmp-create"}, Obs: map[string]any{"call": o.Class, "mode": fmt.Sprintf("%#o", o.Mode)},
					Coq: fmt.Sprintf("Mode FTmpCreate %d", o.Mode)})
			}
		}
		if n == 0 {
			recs = append(recs, Record{Kind: "mode", Input: C05Input{Mode: "mode", Class: "tmp-create"}, Key: fmt.Sprintf("tmp-create-none-%d", i),
				Tags: []string{"mode:tmp-create"}, Obs: cr.Trace.classes(),
				Direct: &DirectVerdict{OK: false, What: "no file creation observed in the traced save (cannot check the mode of the temporary)"}})
		}
		os.RemoveAll(se.root)
	}
	// the client's cache file
	cdir := filepath.Join(work, "c05cache", "sub")
	os.RemoveAll(filepath.Join(work, "c05cache"))
	fc, err := setec.NewFileCache(filepath.Join(cdir, "cache.json"))
	if err == nil {
		err = fc.Write([]byte(`{"x":{"secret":{"Value":"c2VjcmV0","Version":1},"lastAccess":1}}`))
	}
	if err != nil {
		recs = append(recs, Record{Kind: "mode", Key: "cache", Direct: &DirectVerdict{OK: false, What: "file cache: " + err.Error()}})
	} else {
		recs = append(recs, Record{Kind: "mode", Input: C05Input{Mode: "mode", Class: "cache-file"}, Key: "cache-file", Nontrivial: true, Tags: []string{"mode:cache"},
			Obs: fmt.Sprintf("%#o", fileMode(filepath.Join(cdir, "cache.json"))), Coq: fmt.Sprintf("Mode FCacheFile %d", fileMode(filepath.Join(cdir, "cache.json")))})
		recs = append(recs, Record{Kind: "mode", Input: C05Input{Mode: "mode", Class: "cache-dir"}, Key: "cache-dir", Nontrivial: true, Tags: []string{"mode:cache"},
			Obs: fmt.Sprintf("%#o", fileMode(cdir)), Coq: fmt.Sprintf("Mode FCacheDir %d", fileMode(cdir))})
	}
	os.RemoveAll(filepath.Join(work, "c05cache"))
	return recs
}

func runC05(o Opts) {
	out := NewOut(o.Out)
	defer out.Close()
	work := o.Work
	if work == "" {
		work = "."
	}
	thorough := o.Tier == "thorough"
	if o.Replay != "" {
		for i, in := range readInputs[C05Input](o.Replay) {
			switch in.Mode {
			case "keys":
				out.Emit(keysRecord(work))
			case "mode":
				for _, r := range modeRecords(work) {
					out.Emit(r)
				}
			case "tamper":
				rec, env, last := runC05History(work, i, in.MSeed, in.Ops, nil, 0)
				if env != nil {
					hin := rec.Input.(C05Input)
					only := in
					if in.Detail == "" {
						for _, r := range runTampers(work, NewRand(o.Seed, 7), env, genMarkers(in.MSeed), hin, last, thorough, nil) {
							if r.Input.(C05Input).Class == in.Class {
								out.Emit(r)
							}
						}
					} else {
						for _, r := range runTampers(work, NewRand(o.Seed, 7), env, genMarkers(in.MSeed), hin, last, true, &only) {
							out.Emit(r)
						}
					}
					env.close()
				}
			default:
				rec, env, _ := runC05History(work, i, in.MSeed, in.Ops, nil, 0)
				if env != nil {
					env.close()
				}
				out.Emit(rec)
			}
		}
		return
	}
	idx := 0
	for _, in := range readCorpus[C05Input](o.Corpus) {
		rec, env, _ := runC05History(work, idx, in.MSeed, in.Ops, nil, 0)
		if env != nil {
			env.close()
		}
		rec.Corpus = "corpus"
		out.Emit(rec)
		idx++
	}
	out.Emit(keysRecord(work))
	var selfSrc []Record
	for _, r := range modeRecords(work) {
		r.ID = out.n
		out.Emit(r)
		if r.Coq != "" && strings.Contains(r.Coq, "FCacheFile") {
			selfSrc = append(selfSrc, r)
		}
	}
	n := map[string]int{"quick": 150, "thorough": 3000}[o.Tier]
	nt := map[string]int{"quick": 10, "thorough": 40}[o.Tier]
	if o.N > 0 {
		n = o.N
	}
	var histSelf, tampSelf *Record
	for i := 0; i < n; i++ {
		r := NewRand(o.Seed, uint64(5000+i))
		length := 4 + r.IntN(14)
		mseed := o.Seed*1000 + uint64(i)
		rec, env, last := runC05History(work, idx, mseed, nil, r, length)
		idx++
		rec.ID = out.n
		out.Emit(rec)
		if env == nil {
			continue
		}
		if histSelf == nil && i >= 2 && rec.Coq != "" {
			c := rec
			histSelf = &c
		}
		if i < nt {
			for _, tr := range runTampers(work, r, env, genMarkers(mseed), rec.Input.(C05Input), last, thorough, nil) {
				tr.ID = out.n
				out.Emit(tr)
				if tampSelf == nil && len(last) > 0 && strings.Contains(tr.Coq, "OErr") {
					c := tr
					tampSelf = &c
				}
			}
		}
		env.close()
	}
	// ---- self-tests
	if histSelf != nil {
		in := histSelf.Input.(C05Input)
		obs := append([]c05StepObs(nil), histSelf.Obs.([]c05StepObs)...)
		last := obs[len(obs)-1]
		last.ValHits = []scanHit{{File: "self-test", Marker: "value#1", Form: "plain"}}
		obs[len(obs)-1] = last
		alt := *histSelf
		alt.Coq, alt.SelfTest, alt.SelfOf, alt.Obs = coqHist(genMarkers(in.MSeed), in.Ops, obs), true, histSelf.ID, nil
		out.Emit(alt)
		obs2 := append([]c05StepObs(nil), histSelf.Obs.([]c05StepObs)...)
		l2 := obs2[len(obs2)-1]
		l2.S.DEKother = true
		obs2[len(obs2)-1] = l2
		alt2 := *histSelf
		alt2.Coq, alt2.SelfTest, alt2.SelfOf, alt2.Obs = coqHist(genMarkers(in.MSeed), in.Ops, obs2), true, histSelf.ID, nil
		out.Emit(alt2)
	}
	if tampSelf != nil {
		alt := *tampSelf
		alt.Coq = strings.Replace(tampSelf.Coq, "OErr", "(OOpened [])", 1)
		alt.SelfTest, alt.SelfOf, alt.Obs = true, tampSelf.ID, nil
		out.Emit(alt)
	}
	for _, r := range selfSrc {
		alt := r
		alt.Coq, alt.SelfTest, alt.SelfOf, alt.Obs = "Mode FCacheFile 420", true, r.ID, nil
		out.Emit(alt)
	}
}
