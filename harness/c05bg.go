package main

// Property C05, two scenarios for "the key-encryption key is consulted only when the
// database is opened or created" that no history of db calls reaches:
//
//   Backup - the server's periodic backup task (server.VerifRunPeriodicBackup, build tag verif)
//            runs for several minutes of virtual time (testing/synctest) against an in-memory
//            object store, on a database opened with the counting key; in the later rounds the
//            key service is DOWN.  Per round: key uses, uploads, and whether what went out is
//            the database file.  Runs in a child process (the synctest entry point never returns).
//   Long   - one process performs about 2100 successful saves (tiny values, the file stays small),
//            the key service failing during the middle third; key uses at the end, failures,
//            final state, and a right-key / foreign-key open of the final file.

import (
	"bytes"
	"context"
	"encoding/json"
	"fmt"
	"io"
	"net/http"
	"os"
	"os/exec"
	"path/filepath"
	"strings"
	"sync"
	"testing"
	"time"

	"github.com/aws/aws-sdk-go-v2/aws"
	"github.com/aws/aws-sdk-go-v2/credentials"
	"github.com/aws/aws-sdk-go-v2/service/s3"
	"github.com/tailscale/setec/server"
	"github.com/tailscale/setec/types/api"
)

func init() {
	commands["c05backup"] = c05BackupChild
}

type c05BackupSpec struct {
	Dir    string `json:"dir"`
	Rounds []struct {
		Down  bool `json:"down"`  // the key service is down during this minute
		Write bool `json:"write"` // a put precedes the round
	} `json:"rounds"`
}

type c05Round struct {
	Down     bool `json:"key_down"`
	Wrote    bool `json:"wrote"`
	Uses     int  `json:"kek_uses"`
	Uploads  int  `json:"uploads"`
	BodyFile bool `json:"body_is_file"`
	PutOK    bool `json:"put_ok"`
}

type c05BackupResult struct {
	CreateUses int        `json:"create_uses"`
	Rounds     []c05Round `json:"rounds"`
	Exited     bool       `json:"exited"`
	Note       string     `json:"note,omitempty"`
}

// the object store: accepts every PUT, remembers whether the body was the database file
type c05ObjStore struct {
	mu     sync.Mutex
	path   string
	puts   int
	same   int
	others []string
}

func (s *c05ObjStore) Do(req *http.Request) (*http.Response, error) {
	var body []byte
	if req.Body != nil {
		body, _ = io.ReadAll(req.Body)
		req.Body.Close()
	}
	s.mu.Lock()
	if req.Method != "PUT" {
		s.others = append(s.others, req.Method+" "+req.URL.Path)
	} else {
		s.puts++
		if bs, err := os.ReadFile(s.path); err == nil && bytes.Equal(bs, body) {
			s.same++
		}
	}
	s.mu.Unlock()
	return &http.Response{StatusCode: 200, Status: "200 OK", Header: http.Header{"Etag": []string{`"0123456789abcdef0123456789abcdef"`}},
		Body: io.NopCloser(strings.NewReader("")), Request: req}, nil
}

func c05BackupChild(o Opts) {
	sb, err := os.ReadFile(o.Replay)
	if err != nil {
		fatal("spec: %v", err)
	}
	var spec c05BackupSpec
	if err := json.Unmarshal(sb, &spec); err != nil {
		fatal("spec: %v", err)
	}
	var res c05BackupResult
	inTest(func(t *testing.T) {
		bubble(t, func(t *testing.T) {
			env, err := newC05Env(spec.Dir, newKEK())
			if err != nil {
				res.Note = "cannot create the database: " + err.Error()
				return
			}
			defer env.close()
			res.CreateUses = env.createUses
			st := &c05ObjStore{path: env.path}
			client := s3.New(s3.Options{
				HTTPClient:       st,
				Region:           "us-east-1",
				Credentials:      credentials.NewStaticCredentialsProvider("AKIDEXAMPLE", "secret", ""),
				RetryMaxAttempts: 1,
				Retryer:          aws.NopRetryer{},
			})
			ctx, cancel := context.WithCancel(context.Background())
			done := make(chan struct{})
			start := time.Now()
			go func() {
				defer close(done)
				server.VerifRunPeriodicBackup(ctx, env.d, client, "backups")
			}()
			m := genMarkers(1)
			at := func(d time.Duration) {
				if w := d - time.Since(start); w > 0 {
					time.Sleep(w)
				}
			}
			snap := func() (int, int, int) {
				st.mu.Lock()
				defer st.mu.Unlock()
				return env.kek.count(), st.puts, st.same
			}
			// round 0: the task starts and sees a database it has never uploaded
			at(30 * time.Second)
			u, p, s := snap()
			res.Rounds = append(res.Rounds, c05Round{Wrote: true, Uses: u - res.CreateUses, Uploads: p, BodyFile: s == p, PutOK: true})
			for i, r := range spec.Rounds {
				u0, p0, s0 := snap()
				env.down.down = r.Down
				putOK := true
				if r.Write {
					_, perr := env.d.Put(env.super, string(m.names[i%2]), m.values[i%len(m.values)])
					putOK = perr == nil
				}
				at(time.Duration(i+1)*time.Minute + 30*time.Second) // the task's next round is at (i+1) minutes
				u1, p1, s1 := snap()
				res.Rounds = append(res.Rounds, c05Round{Down: r.Down, Wrote: r.Write, Uses: u1 - u0, Uploads: p1 - p0, BodyFile: s1-s0 == p1-p0, PutOK: putOK})
			}
			env.down.down = false
			cancel()
			select {
			case <-done:
				res.Exited = true
			case <-time.After(20 * time.Minute):
				res.Note += "the backup task did not return after cancellation; "
			}
			st.mu.Lock()
			if len(st.others) > 0 {
				res.Note += "unexpected requests: " + strings.Join(st.others, ", ") + "; "
			}
			st.mu.Unlock()
		})
		bs, _ := json.Marshal(res)
		os.WriteFile(o.Out, bs, 0600)
		if !res.Exited {
			os.Exit(78) // the task's goroutine cannot be removed from the bubble
		}
	})
}

// backupRecord runs the scenario in a child process and builds the case.
func backupRecord(work string, seed uint64) Record {
	in := C05Input{Mode: "backup", MSeed: seed}
	rec := Record{Kind: "backup", Input: in, Key: fmt.Sprintf("backup:%d", seed), Tags: []string{"backup"}}
	r := NewRand(seed, 60606)
	var spec c05BackupSpec
	spec.Dir = filepath.Join(work, "c05backup")
	// 4-6 rounds with the key service up, then 4-6 with it down; most rounds preceded by a write
	nUp, nDown := 4+r.IntN(3), 4+r.IntN(3)
	for i := 0; i < nUp+nDown; i++ {
		w := r.IntN(4) > 0
		if i == nUp || i == nUp+1 { // the first rounds after the key service went down always have something to upload
			w = true
		}
		spec.Rounds = append(spec.Rounds, struct {
			Down  bool `json:"down"`
			Write bool `json:"write"`
		}{Down: i >= nUp, Write: w})
	}
	specFile := filepath.Join(work, "c05backup_spec.json")
	resFile := filepath.Join(work, "c05backup_res.json")
	sb, _ := json.Marshal(spec)
	os.WriteFile(specFile, sb, 0600)
	os.Remove(resFile)
	self, _ := os.Executable()
	cmd := exec.Command(self, "c05backup", "-replay", specFile, "-out", resFile)
	var stderr bytes.Buffer
	cmd.Stderr = &stderr
	done := make(chan error, 1)
	if err := cmd.Start(); err != nil {
		rec.Direct = &DirectVerdict{OK: false, What: "cannot start the backup scenario: " + err.Error()}
		return rec
	}
	go func() { done <- cmd.Wait() }()
	var werr error
	select {
	case werr = <-done:
	case <-time.After(60 * time.Second): // real time; the scenario takes well under a second
		cmd.Process.Kill()
		<-done
		rec.Direct = &DirectVerdict{OK: false, What: "the backup scenario made no progress for 60 s of real time (the task is spinning or blocked)"}
		return rec
	}
	var res c05BackupResult
	rb, rerr := os.ReadFile(resFile)
	if rerr != nil || json.Unmarshal(rb, &res) != nil {
		rec.Direct = &DirectVerdict{OK: false, What: fmt.Sprintf("the backup scenario produced no result (%v): %s", werr, lastLines(stderr.String(), 3))}
		return rec
	}
	parts := make([]string, len(res.Rounds))
	down, upl, uplDown, uses := 0, 0, 0, 0
	for i, b := range res.Rounds {
		parts[i] = fmt.Sprintf("BR %s %s %s %d %d %s", coqBool(b.Down), coqBool(b.Wrote), coqBool(!b.PutOK), b.Uses, b.Uploads, coqBool(b.BodyFile))
		uses += b.Uses
		upl += b.Uploads
		if b.Down {
			down++
			uplDown += b.Uploads
		}
	}
	rec.Obs = res
	rec.Nontrivial = uplDown > 0 || down > 0
	rec.Tags = append(rec.Tags, fmt.Sprintf("backup:rounds=%d", len(res.Rounds)), fmt.Sprintf("backup:rounds-key-down=%d", down),
		fmt.Sprintf("backup:uploads=%d", upl), fmt.Sprintf("backup:uploads-key-down=%d", uplDown), fmt.Sprintf("backup:kek-uses-after-open=%d", uses))
	rec.Coq = fmt.Sprintf("Backup %d %s", res.CreateUses, coqList(parts))
	if res.Note != "" || !res.Exited {
		rec.Direct = &DirectVerdict{OK: false, What: "backup scenario: " + res.Note}
	}
	return rec
}

func lastLines(s string, n int) string {
	ls := strings.Split(strings.TrimSpace(s), "\n")
	if len(ls) > n {
		ls = ls[len(ls)-n:]
	}
	return strings.Join(ls, " | ")
}

// longRecord: about 3*cycles+1 successful saves in this one process.
func longRecord(work string, cycles int) Record {
	in := C05Input{Mode: "long", MSeed: uint64(cycles)}
	rec := Record{Kind: "long", Input: in, Key: fmt.Sprintf("long:%d", cycles), Tags: []string{"long"}}
	env, err := newC05Env(filepath.Join(work, "c05long"), newKEK())
	if err != nil {
		rec.Direct = &DirectVerdict{OK: false, What: "cannot create a database: " + err.Error()}
		return rec
	}
	defer env.close()
	m := &c05Markers{values: [][]byte{[]byte("x"), []byte("y")}} // tokens 1, 2: tiny values, the file stays small
	val := func(tok uint64) []byte { return m.values[tok-1] }
	name := "a"
	failedDown, failedUp, saves := 0, 0, 0
	note := ""
	do := func(err error) {
		switch {
		case err == nil:
			saves++
		case env.down.down:
			failedDown++
			if note == "" {
				note = fmt.Sprintf("first failure after %d saves, key service down: %v", saves, err)
			}
		default:
			failedUp++
			if note == "" {
				note = fmt.Sprintf("first failure after %d saves: %v", saves, err)
			}
		}
	}
	start := time.Now()
	_, err = env.d.Put(env.super, name, val(2))
	do(err)
	downFrom, downTo := cycles/3, 2*cycles/3
	for v := 0; v < cycles; v++ {
		env.down.down = v >= downFrom && v < downTo
		_, err = env.d.Put(env.super, name, val(uint64(1+v%2)))
		do(err)
		do(env.d.Activate(env.super, name, api.SecretVersion(v+2)))
		do(env.d.DeleteVersion(env.super, name, api.SecretVersion(v+1)))
	}
	env.down.down = false
	usesEnd := env.kek.count()
	gen := env.d.WriteGen()
	took := time.Since(start)
	bs, _ := os.ReadFile(env.path)
	final := probeFile(bs, env.real, m.token).Doc
	s := newSession(work, env, m)
	right := s.right()
	foreign := s.try("AF", tamperCase{"foreign-kek", "fresh AES-256-GCM key on the file after the long session", s.orig, 1})
	s.dumps, s.dumpIx = nil, map[string]int{}
	rc, fc := s.coq(right), s.coq(foreign)
	rec.Obs = map[string]any{"cycles": cycles, "successful_saves": saves, "failed_key_down": failedDown, "failed_key_up": failedUp,
		"kek_uses_at_create": env.createUses, "kek_uses_at_end": usesEnd, "write_gen": gen, "final": final, "right_key": right, "foreign_key": foreign,
		"ms": took.Milliseconds(), "note": note}
	rec.Nontrivial = saves >= 1100
	rec.Tags = append(rec.Tags, fmt.Sprintf("long:successful-saves=%d", saves), fmt.Sprintf("long:saves-key-down=%d", 3*(downTo-downFrom)),
		fmt.Sprintf("long:kek-uses-after-open=%d", usesEnd-env.createUses))
	rec.Coq = fmt.Sprintf("Long %d %d %d %d %d %d %s %s (%s) (%s)", cycles, env.createUses, usesEnd, failedDown, failedUp, gen,
		coqDisk(final), coqList(s.dumps), rc, fc)
	return rec
}
