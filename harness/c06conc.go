package main

// C06, concurrency clause: many goroutines call a real db.DB whose audit log is a real
// file (audit.NewFile); afterwards the file must consist of exactly one complete JSON
// line per audited call, equal as a multiset to the records the model prescribes.

import (
	"bufio"
	"encoding/json"
	"fmt"
	"os"
	"path/filepath"
	"strconv"
	"strings"
	"sync"

	"github.com/tailscale/setec/audit"
	"github.com/tailscale/setec/db"
	"github.com/tailscale/setec/types/api"
)

type concInput struct {
	Kind    string     `json:"kind"` // "conc"
	Callers []DBCaller `json:"callers"`
	Threads [][]DBStep `json:"threads"`
}

func runConcAudit(work string, idx int, in concInput) Record {
	dir := filepath.Join(work, fmt.Sprintf("conc%d", idx%16))
	os.RemoveAll(dir)
	os.MkdirAll(dir, 0700)
	defer os.RemoveAll(dir)
	logPath := filepath.Join(dir, "audit.log")
	aw, err := audit.NewFile(logPath)
	rec := Record{Kind: "conc", Input: in, Key: fmt.Sprintf("conc:%d", idx), Tags: []string{"concurrent-audit"}}
	if err != nil {
		rec.Direct = &DirectVerdict{OK: false, What: "audit.NewFile: " + err.Error()}
		return rec
	}
	d, err := db.Open(filepath.Join(dir, "db.json"), newKEK(), aw)
	if err != nil {
		rec.Direct = &DirectVerdict{OK: false, What: "db.Open: " + err.Error()}
		return rec
	}
	var wg sync.WaitGroup
	start := make(chan struct{})
	for _, th := range in.Threads {
		wg.Add(1)
		go func(ops []DBStep) {
			defer wg.Done()
			<-start
			for _, st := range ops {
				c := mkCaller(in.Callers[st.Caller])
				name := string(st.Name)
				switch st.Kind {
				case "list":
					d.List(c)
				case "info":
					d.Info(c, name)
				case "get":
					d.Get(c, name)
				case "getver":
					d.GetVersion(c, name, api.SecretVersion(st.Ver))
				case "put":
					d.Put(c, name, valueBytes(st.Val))
				case "activate":
					d.Activate(c, name, api.SecretVersion(st.Ver))
				case "delver":
					d.DeleteVersion(c, name, api.SecretVersion(st.Ver))
				case "del":
					d.Delete(c, name)
				}
			}
		}(th)
	}
	close(start)
	wg.Wait()
	aw.Close()
	// the file: owner-only, and every line one complete record
	if fi, err := os.Stat(logPath); err != nil || fi.Mode().Perm() != 0600 {
		rec.Direct = &DirectVerdict{OK: false, What: fmt.Sprintf("audit log mode is %v, want 0600", fi.Mode().Perm())}
		return rec
	}
	f, _ := os.Open(logPath)
	defer f.Close()
	sc := bufio.NewScanner(f)
	sc.Buffer(make([]byte, 1<<20), 1<<24)
	var entries []string
	nlines := 0
	for sc.Scan() {
		nlines++
		var e struct {
			ID        *uint64 `json:"id"`
			Time      *string `json:"time"`
			Principal *struct {
				Hostname string   `json:"hostname"`
				IP       string   `json:"ip"`
				User     string   `json:"user"`
				Tags     []string `json:"tags"`
			} `json:"principal"`
			Action        *string `json:"action"`
			Authorized    *bool   `json:"authorized"`
			Secret        string  `json:"secret"`
			SecretVersion uint64  `json:"secretVersion"`
		}
		dec := json.NewDecoder(strings.NewReader(sc.Text()))
		if err := dec.Decode(&e); err != nil || dec.More() || e.ID == nil || e.Time == nil || e.Principal == nil || e.Action == nil || e.Authorized == nil {
			rec.Direct = &DirectVerdict{OK: false, What: fmt.Sprintf("audit log line %d is not one complete record: %.200q", nlines, sc.Text())}
			return rec
		}
		id, _ := strconv.Atoi(strings.TrimPrefix(e.Principal.User, "user"))
		if len(e.Principal.Tags) > 0 { // a tagged node (same numbering as the sequential sink)
			id, _ = strconv.Atoi(strings.TrimPrefix(e.Principal.Tags[0], "tag:t"))
			id += 1000
		}
		entries = append(entries, fmt.Sprintf("{| e_principal := %d; e_action := %s; e_secret := %s; e_version := %d; e_authorized := %s |}",
			id, coqAction(*e.Action), coqBytes([]byte(e.Secret)), e.SecretVersion, coqBool(*e.Authorized)))
	}
	var calls []string
	total := 0
	for _, th := range in.Threads {
		for _, st := range th {
			if (st.Kind == "put" || st.Kind == "activate") && len(st.Name) == 0 {
				continue // refused before any record
			}
			calls = append(calls, fmt.Sprintf("(%d%%nat, %s)", st.Caller, coqOp(st)))
			total++
		}
	}
	cs := make([]string, len(in.Callers))
	for i, c := range in.Callers {
		cs[i] = coqCaller(c)
	}
	rec.Obs = map[string]any{"lines": nlines, "calls": total}
	rec.Nontrivial = len(in.Threads) >= 2 && total >= 8
	rec.Coq = fmt.Sprintf("Conc %s %s %s", coqList(cs), coqList(calls), coqList(entries))
	return rec
}

func genConc(seed uint64, i int) concInput {
	r := NewRand(seed, uint64(660000+i))
	in := concInput{Kind: "conc", Callers: mixedCallers(r)}
	kinds := []string{"list", "info", "get", "getver", "put", "put", "activate", "delver", "del"}
	for t := 2 + r.IntN(5); t > 0; t-- {
		var ops []DBStep
		for k := 3 + r.IntN(10); k > 0; k-- {
			st := DBStep{Caller: r.IntN(len(in.Callers)), Kind: kinds[r.IntN(len(kinds))], Name: dbNames[r.IntN(4)], Ver: uint32(r.IntN(4)), Val: r.IntN(4)}
			ops = append(ops, st)
		}
		in.Threads = append(in.Threads, ops)
	}
	return in
}
