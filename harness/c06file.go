package main

// C06, "appended and synced ... fail-closed" on a REAL audit file: a child process opens a database with
// audit.NewFile and performs a few audited calls under strace restricted to the audit log (-P). Run 1: the
// system calls on the log are abstracted and judged by the kernel (Run_DB.audit_file_ok). Run 2: every fsync
// of the log fails (EIO injected): every audited call must fail closed - no value returned, nothing stored.

import (
	"bytes"
	"encoding/json"
	"fmt"
	"io"
	"os"
	"os/exec"
	"path/filepath"
	"strings"
	"time"

	"github.com/tailscale/setec/audit"
	"github.com/tailscale/setec/db"
)

func init() { commands["c06child"] = c06Child }

type c06ChildRes struct {
	Ops  []string `json:"ops"`  // what was called
	Err  []bool   `json:"err"`  // it returned an error
	Data []bool   `json:"data"` // it returned a value / a version / metadata
	Done bool     `json:"done"`
}

// c06Child: -work = directory holding kek.json; the database is created in work/state, the log is work/audit.log.
func c06Child(o Opts) {
	kek := loadCleartextKEK(filepath.Join(o.Work, "kek.json"))
	aw, err := audit.NewFile(filepath.Join(o.Work, "audit.log"))
	if err != nil {
		fatal("audit.NewFile: %v", err)
	}
	os.MkdirAll(filepath.Join(o.Work, "state"), 0700)
	d, err := db.Open(filepath.Join(o.Work, "state", "db.json"), kek, aw)
	if err != nil {
		fatal("db.Open: %v", err)
	}
	super := mkCaller(DBCaller{ID: 1, Rules: superRules()})
	nobody := mkCaller(DBCaller{ID: 2})
	var res c06ChildRes
	note := func(op string, data bool, err error) {
		res.Ops, res.Err, res.Data = append(res.Ops, op), append(res.Err, err != nil), append(res.Data, data && err == nil)
	}
	v, err := d.Put(super, "a", []byte("one"))
	note("put", v != 0, err)
	sv, err := d.Get(super, "a")
	note("get", sv != nil, err)
	sv, err = d.Get(nobody, "a")
	note("denied-get", sv != nil, err)
	l, err := d.List(super)
	note("list", len(l) > 0, err)
	v, err = d.Put(super, "a", []byte("two"))
	note("put2", v != 0, err)
	in, err := d.Info(super, "a")
	note("info", in != nil, err)
	aw.Close()
	res.Done = true
	bs, _ := json.Marshal(res)
	os.WriteFile(o.Out, bs, 0600)
}

func c06RunChild(dir, inject string) (calls []c13Sys, res c06ChildRes, err error) {
	os.RemoveAll(dir)
	os.MkdirAll(dir, 0700)
	writeCleartextKEK(filepath.Join(dir, "kek.json"))
	self, _ := os.Executable()
	logPath := filepath.Join(dir, "audit.log")
	traceFile := filepath.Join(dir, "trace.txt")
	args := []string{"-f", "-o", traceFile, "-s", "100000", "-P", logPath, "-e", "trace=openat,open,write,pwrite64,writev,fsync,fdatasync,close,ftruncate,rename,renameat,renameat2,unlink,unlinkat,fchmod,fchmodat"}
	if inject != "" {
		args = append(args, "-e", "inject="+inject)
	}
	args = append(args, self, "c06child", "-work", dir, "-out", filepath.Join(dir, "res.json"))
	cmd := exec.Command("strace", args...)
	var stderr bytes.Buffer
	cmd.Stderr = &stderr
	done := make(chan error, 1)
	if serr := cmd.Start(); serr != nil {
		return nil, res, fmt.Errorf("strace cannot be started: %w", serr)
	}
	go func() { done <- cmd.Wait() }()
	select {
	case <-done:
	case <-time.After(60 * time.Second):
		cmd.Process.Kill()
		<-done
		return nil, res, fmt.Errorf("child timed out under strace")
	}
	tb, _ := os.ReadFile(traceFile)
	calls = c13ParseStrace(string(tb))
	if rb, rerr := os.ReadFile(filepath.Join(dir, "res.json")); rerr == nil {
		json.Unmarshal(rb, &res)
	}
	if !res.Done {
		return calls, res, fmt.Errorf("the child did not finish: %s", strings.TrimSpace(stderr.String()))
	}
	return calls, res, nil
}

// c06AuditFile produces the two records (clean trace, failing fsync).
func c06AuditFile(work string) []Record {
	var out []Record
	dir := filepath.Join(work, "c06file")
	defer os.RemoveAll(dir)
	// ---- run 1: what the process does to its log
	calls, res, err := c06RunChild(dir, "")
	in := map[string]any{"kind": "audit-file-trace"}
	if err != nil {
		return []Record{{Kind: "auditfile", Input: in, Key: "auditfile-trace", Direct: &DirectVerdict{OK: false, What: err.Error()}}}
	}
	var codes []uint64
	var text []string
	for _, c := range calls {
		ok := !strings.HasPrefix(strings.TrimSpace(c.Ret), "-") && c.Ret != "?"
		code := uint64(0)
		switch c.Name {
		case "openat", "open":
			if !ok {
				continue
			}
			code = 7
			if strings.Contains(c.Args, "O_WRONLY") && strings.Contains(c.Args, "O_APPEND") && strings.Contains(c.Args, "O_CREAT") &&
				!strings.Contains(c.Args, "O_TRUNC") && strings.HasSuffix(strings.TrimSpace(c.Args), "0600") {
				code = 1
			}
		case "write", "pwrite64", "writev":
			code = 8
			if i := strings.Index(c.Args, "\""); i >= 0 && ok {
				if j := strings.LastIndex(c.Args, "\""); j > i {
					payload := c.Args[i+1 : j]
					if strings.HasSuffix(payload, "\\n") && strings.Count(payload, "\\n") == 1 && strings.HasPrefix(payload, "{") && c.Name == "write" {
						code = 2
					}
				}
			}
		case "fsync", "fdatasync":
			if !ok {
				code = 9
			} else {
				code = 3
			}
		case "close":
			code = 4
		default:
			code = 9
		}
		codes = append(codes, code)
		text = append(text, fmt.Sprintf("%s->%d", c.Name, code))
	}
	rec := Record{Kind: "auditfile", Input: in, Obs: map[string]any{"calls": text, "results": res}, Key: "auditfile-trace", Nontrivial: len(codes) > 4,
		Tags: []string{"audit-file-trace"}, Coq: "AuditFile " + coqNList(codes)}
	out = append(out, rec)
	// self-test: the same trace with the fsyncs removed must be rejected
	var nosync []uint64
	for _, c := range codes {
		if c != 3 {
			nosync = append(nosync, c)
		}
	}
	out = append(out, Record{Kind: "auditfile", Key: "auditfile-self", SelfTest: true, SelfOf: -1, Coq: "AuditFile " + coqNList(nosync)})
	// ---- run 2: the log cannot be synced
	calls2, res2, err := c06RunChild(dir, "fsync:error=EIO")
	in2 := map[string]any{"kind": "audit-file-fsync-fails"}
	rec2 := Record{Kind: "auditfile", Input: in2, Key: "auditfile-fsync-fails", Nontrivial: true, Tags: []string{"audit-file-fsync-fails"}}
	if err != nil {
		rec2.Direct = &DirectVerdict{OK: false, What: err.Error()}
		return append(out, rec2)
	}
	injected := 0
	for _, c := range calls2 {
		if strings.Contains(c.Extra, "INJECTED") {
			injected++
		}
	}
	rec2.Obs = map[string]any{"injected_fsyncs": injected, "results": res2}
	var bad []string
	for i, op := range res2.Ops {
		if !res2.Err[i] || res2.Data[i] {
			bad = append(bad, fmt.Sprintf("%s (error=%v, data=%v)", op, res2.Err[i], res2.Data[i]))
		}
	}
	// nothing may have been stored either
	stored := "?"
	kek := loadCleartextKEK(filepath.Join(dir, "kek.json"))
	if d2, oerr := db.Open(filepath.Join(dir, "state", "db.json"), kek, audit.New(io.Discard)); oerr == nil {
		l, _ := d2.List(mkCaller(DBCaller{ID: 1, Rules: superRules()}))
		stored = fmt.Sprint(len(l))
		if len(l) != 0 {
			bad = append(bad, fmt.Sprintf("%d secret(s) stored although no record could be synced", len(l)))
		}
	}
	rec2.Obs.(map[string]any)["secrets_stored"] = stored
	switch {
	case injected == 0:
		rec2.Direct = &DirectVerdict{OK: false, What: "the audit log was never fsynced (no fsync call on it to fail): records are not flushed to stable storage"}
	case len(bad) > 0:
		rec2.Direct = &DirectVerdict{OK: false, What: "with every fsync of the audit log failing, these calls did not fail closed: " + strings.Join(bad, "; ")}
	default:
		rec2.Direct = &DirectVerdict{OK: true, What: "every audited call failed closed"}
	}
	return append(out, rec2)
}
