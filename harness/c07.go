package main

import (
	"bufio"
	"encoding/json"
	"fmt"
	"math/rand/v2"
	"os"
	"strings"

	"github.com/tailscale/setec/acl"
)

func init() { commands["C07"] = runC07 }

type c07Input struct {
	Kind  string    `json:"kind"` // row | pair | rules
	Alpha []byte    `json:"alpha,omitempty"`
	NLen  int       `json:"nlen,omitempty"`
	Pat   []byte    `json:"pat,omitempty"`
	Name  []byte    `json:"name,omitempty"`
	PatQ  string    `json:"pat_q,omitempty"`
	NameQ string    `json:"name_q,omitempty"`
	Rules []c07Rule `json:"rules,omitempty"`
	Act   string    `json:"action,omitempty"`
	Warm  bool      `json:"warm,omitempty"` // the Rules value was used with other contents before and edited in place
}

type c07Rule struct {
	Actions []string `json:"action"`
	Secrets [][]byte `json:"secret"`
	Sparse  bool     `json:"sparse,omitempty"` // C08: the grant's JSON leaves empty lists out
}

func safeMatch(pat, name string) (res uint64) {
	defer func() {
		if recover() != nil {
			res = 2
		}
	}()
	if acl.Secret(pat).Match(name) {
		return 1
	}
	return 0
}

func safeAllow(rs acl.Rules, a acl.Action, name string) (res uint64) {
	defer func() {
		if recover() != nil {
			res = 2
		}
	}()
	if rs.Allow(a, name) {
		return 1
	}
	return 0
}

func enumLevel(alpha []byte, k int) [][]byte {
	if k == 0 {
		return [][]byte{{}}
	}
	prev := enumLevel(alpha, k-1)
	var out [][]byte
	for _, a := range alpha {
		for _, p := range prev {
			s := append([]byte{a}, p...)
			out = append(out, s)
		}
	}
	return out
}

func enumUpto(alpha []byte, n int) [][]byte {
	var out [][]byte
	for k := 0; k <= n; k++ {
		out = append(out, enumLevel(alpha, k)...)
	}
	return out
}

func coqAction(a string) string {
	switch a {
	case "get":
		return "AGet"
	case "info":
		return "AInfo"
	case "put":
		return "APut"
	case "activate":
		return "AActivate"
	case "delete":
		return "ADelete"
	}
	// any other action string: an opaque token
	var h uint64 = 1469598103934665603
	for _, c := range []byte(a) {
		h = (h ^ uint64(c)) * 1099511628211
	}
	return fmt.Sprintf("(AOther %d)", h%1000003)
}

func coqRule(r c07Rule) string {
	acts := make([]string, len(r.Actions))
	for i, a := range r.Actions {
		acts[i] = coqAction(a)
	}
	secs := make([]string, len(r.Secrets))
	for i, s := range r.Secrets {
		secs[i] = coqBytes(s)
	}
	return fmt.Sprintf("{| r_actions := %s; r_secrets := %s |}", coqList(acts), coqList(secs))
}

func coqRules(rs []c07Rule) string {
	parts := make([]string, len(rs))
	for i, r := range rs {
		parts[i] = coqRule(r)
	}
	return coqList(parts)
}

func toACL(rs []c07Rule) acl.Rules {
	var out acl.Rules
	for _, r := range rs {
		var rr acl.Rule
		for _, a := range r.Actions {
			rr.Action = append(rr.Action, acl.Action(a))
		}
		for _, s := range r.Secrets {
			rr.Secret = append(rr.Secret, acl.Secret(s))
		}
		out = append(out, rr)
	}
	return out
}

func c07Run(in c07Input) Record {
	switch in.Kind {
	case "row":
		names := enumUpto(in.Alpha, in.NLen)
		var hits []uint64
		panicked := false
		nl := false
		diag := "" // diagnostics only (never decides): first name on which a plain Go glob differs
		for i, n := range names {
			r := safeMatch(string(in.Pat), string(n))
			if r == 2 {
				panicked = true
			}
			if r == 1 {
				hits = append(hits, uint64(i))
			}
			if diag == "" && (r == 1) != refGlob(in.Pat, n) {
				diag = fmt.Sprintf("pattern %q name %q: Match=%d", in.Pat, n, r)
			}
		}
		alpha := make([]uint64, len(in.Alpha))
		for i, a := range in.Alpha {
			alpha[i] = uint64(a)
			if a == '\n' {
				nl = true
			}
		}
		_ = nl
		in.PatQ = fmt.Sprintf("%q", in.Pat)
		rec := Record{Kind: "row", Input: in, Obs: map[string]any{"hits": len(hits), "names": len(names), "panic": panicked, "first_suspect": diag},
			Key: "row:" + string(in.Pat), Nontrivial: len(hits) > 0 && len(hits) < len(names),
			Coq: fmt.Sprintf("CRow %s %d %s %s", coqBytes(in.Alpha), in.NLen, coqBytes(in.Pat), coqNList(hits))}
		if panicked {
			rec.Direct = &DirectVerdict{OK: false, What: fmt.Sprintf("Match panicked for pattern %q", in.Pat)}
		}
		if strings.Contains(string(in.Pat), "*") {
			rec.Tags = append(rec.Tags, "star")
		} else {
			rec.Tags = append(rec.Tags, "literal")
		}
		return rec
	case "pair":
		r := safeMatch(string(in.Pat), string(in.Name))
		in.PatQ = fmt.Sprintf("%q", in.Pat)
		in.NameQ = fmt.Sprintf("%q", in.Name)
		rec := Record{Kind: "pair", Input: in, Obs: r, Key: "pair:" + string(in.Pat) + "\x00" + string(in.Name),
			Nontrivial: strings.Contains(string(in.Pat), "*"),
			Coq:        fmt.Sprintf("CPair %s %s %d", coqBytes(in.Pat), coqBytes(in.Name), r)}
		rec.Tags = []string{fmt.Sprintf("pair-res%d", r)}
		if r == 2 {
			rec.Direct = &DirectVerdict{OK: false, What: fmt.Sprintf("Match panicked for pattern %q name %q", in.Pat, in.Name)}
		}
		return rec
	case "rules":
		rs := toACL(in.Rules)
		if in.Warm {
			// the same Rules value was used before with OTHER patterns and actions and is then edited in
			// place (grants change over the life of a process): the answer is a function of the rules as they
			// are now, whatever was asked of this value earlier
			for i := range rs {
				keepS, keepA := rs[i].Secret, rs[i].Action
				rs[i].Secret = []acl.Secret{"warm-up/*", acl.Secret(in.Name), "*"}
				rs[i].Action = []acl.Action{acl.Action(in.Act), "get", "put"}
				safeAllow(rs, acl.Action(in.Act), string(in.Name))
				safeAllow(rs[i:i+1], "get", "warm-up/x")
				rs[i].Secret, rs[i].Action = keepS, keepA
			}
			cp := append(acl.Rules(nil), rs...) // and a copy of the slice shares nothing that matters
			safeAllow(cp, acl.Action(in.Act), string(in.Name))
		}
		r := safeAllow(rs, acl.Action(in.Act), string(in.Name))
		in.NameQ = fmt.Sprintf("%q", in.Name)
		kb, _ := json.Marshal(in)
		rec := Record{Kind: "rules", Input: in, Obs: r, Key: "rules:" + string(kb), Nontrivial: len(in.Rules) > 0,
			Coq: fmt.Sprintf("CRules %s %s %s %d", coqRules(in.Rules), coqAction(in.Act), coqBytes(in.Name), r)}
		rec.Tags = []string{fmt.Sprintf("rules%d-res%d", min(len(in.Rules), 3), r)}
		if r == 2 {
			rec.Direct = &DirectVerdict{OK: false, What: "Allow panicked"}
		}
		return rec
	}
	fatal("C07: unknown kind %q", in.Kind)
	return Record{}
}

// refGlob is used for diagnostics in replay files only.
func refGlob(p, s []byte) bool {
	if len(p) == 0 {
		return len(s) == 0
	}
	if p[0] == '*' {
		for i := 0; i <= len(s); i++ {
			if refGlob(p[1:], s[i:]) {
				return true
			}
		}
		return false
	}
	return len(s) > 0 && s[0] == p[0] && refGlob(p[1:], s[1:])
}

var c07Alpha = []byte{'a', 'b', '*', '/', '.', '\n', '\\', '(', '[', '+', '|', '%'} // '%': a pattern spliced into a format string

// random valid-UTF-8 string of up to maxRunes runes
func randUTF8(r *rand.Rand, maxRunes int) []byte {
	n := r.IntN(maxRunes + 1)
	pool := []rune{'a', 'b', 'c', '/', '.', '\n', '\\', '(', ')', '[', ']', '+', '?', '^', '$', '|', '{', '}', ' ', '\t', '\r', '%', '%', 's', 'd', 'v', '!',
		0x00, 0x7f, 0x80, 0xe9, 0x3b1, 0x7ff, 0x800, 0x20ac, 0x2028, 0xfffd, 0xffff, 0x10000, 0x1f600, 0x10ffff}
	var sb strings.Builder
	for i := 0; i < n; i++ {
		if r.IntN(8) == 0 {
			c := rune(r.IntN(0x110000))
			if c >= 0xd800 && c <= 0xdfff {
				c = 'x'
			}
			sb.WriteRune(c)
		} else {
			sb.WriteRune(pool[r.IntN(len(pool))])
		}
	}
	return []byte(sb.String())
}

// derive a pattern from a name so that matches are frequent: replace random
// rune-aligned segments by '*', sometimes perturb.
func patFromName(r *rand.Rand, name []byte) []byte {
	rs := []rune(string(name))
	var out []rune
	i := 0
	for i < len(rs) {
		switch r.IntN(6) {
		case 0:
			out = append(out, '*')
			i += r.IntN(4)
		case 1:
			out = append(out, '*')
			out = append(out, rs[i])
			i++
		default:
			out = append(out, rs[i])
			i++
		}
	}
	if r.IntN(4) == 0 {
		out = append(out, '*')
	}
	if r.IntN(10) == 0 && len(out) > 0 {
		out[r.IntN(len(out))] = 'z' // perturb: mostly a non-match
	}
	return []byte(string(out))
}

func c07Generate(o Opts, emit func(c07Input)) {
	plen, nlen := 3, 3
	npairs, nrules := 1500, 1500
	if o.Tier == "thorough" {
		plen, nlen = 4, 4
		npairs, nrules = 20000, 20000
	}
	for _, p := range enumUpto(c07Alpha, plen) {
		emit(c07Input{Kind: "row", Alpha: c07Alpha, NLen: nlen, Pat: p})
	}
	r := NewRand(o.Seed, 7)
	for i := 0; i < npairs; i++ {
		max := 12
		if i%10 == 0 {
			max = 100 // up to ~300 bytes
		}
		name := randUTF8(r, max)
		var pat []byte
		if r.IntN(5) == 0 {
			pat = randUTF8(r, 6)
		} else {
			pat = patFromName(r, name)
		}
		emit(c07Input{Kind: "pair", Pat: pat, Name: name})
	}
	// split pairs: (p, x+c+y) and (p+c+x, y) share every concatenation pattern+c+name; an answer that
	// depends on anything but the two arguments separately (a memo keyed by a joined string, say)
	// shows on one of the two, whichever is asked first
	seps := []byte{'|', ':', ',', ' ', 0, '#', '=', '\t', '/', '\n', ';', '-', '_', '.'}
	for i := 0; i < npairs/5; i++ {
		c := seps[r.IntN(len(seps))]
		x, y := randUTF8(r, 4), randUTF8(r, 4)
		base := [][]byte{[]byte("*"), []byte("a*"), []byte("*a"), randUTF8(r, 3)}[r.IntN(4)]
		n1 := append(append(append([]byte{}, x...), c), y...)
		p2 := append(append(append([]byte{}, base...), c), x...)
		if r.IntN(2) == 0 {
			emit(c07Input{Kind: "pair", Pat: base, Name: n1})
			emit(c07Input{Kind: "pair", Pat: p2, Name: y})
		} else {
			emit(c07Input{Kind: "pair", Pat: p2, Name: y})
			emit(c07Input{Kind: "pair", Pat: base, Name: n1})
		}
	}
	actions := []string{"get", "info", "put", "activate", "delete", "list", ""}
	names := [][]byte{[]byte("a"), []byte("a/b"), []byte("prod/db/key"), []byte("dev/x"), []byte(""), []byte("_internal/x"), []byte("a\nb")}
	pats := [][]byte{[]byte("*"), []byte("a"), []byte("a/*"), []byte("prod/*"), []byte("*/key"), []byte("dev/*"), []byte(""), []byte("a*b"), []byte("p*/d*/k*"), []byte("zzz")}
	for i := 0; i < nrules; i++ {
		nr := r.IntN(5)
		if i%20 == 0 {
			nr = 0
		}
		var rs []c07Rule
		for j := 0; j < nr; j++ {
			var rule c07Rule
			for k := r.IntN(4); k > 0; k-- {
				rule.Actions = append(rule.Actions, actions[r.IntN(len(actions))])
			}
			for k := r.IntN(4); k > 0; k-- {
				rule.Secrets = append(rule.Secrets, pats[r.IntN(len(pats))])
			}
			rs = append(rs, rule)
		}
		// the action asked about: usually one of the five setec knows, sometimes another string (a verb a
		// later version might add, a typo, the empty string) - it is allowed only if a rule lists exactly it
		act := actions[r.IntN(5)]
		if r.IntN(5) == 0 {
			act = []string{"list", "", "Get", "rotate", "get ", "GET"}[r.IntN(6)]
		}
		emit(c07Input{Kind: "rules", Rules: rs, Act: act, Name: names[r.IntN(len(names))], Warm: r.IntN(4) == 0})
	}
}

func runC07(o Opts) {
	out := NewOut(o.Out)
	defer out.Close()
	var selfSrc []Record
	emit := func(in c07Input) {
		rec := c07Run(in)
		rec.ID = out.n
		out.Emit(rec)
		if len(selfSrc) < 6 && (rec.Kind == "pair" || rec.Kind == "rules") && out.n%97 == 0 {
			selfSrc = append(selfSrc, rec)
		}
	}
	if o.Replay != "" {
		for _, in := range readInputs[c07Input](o.Replay) {
			emit(in)
		}
		return
	}
	for _, in := range readCorpus[c07Input](o.Corpus) {
		rec := c07Run(in)
		rec.Corpus = "corpus"
		out.Emit(rec)
	}
	c07Generate(o, emit)
	// self-test: the same cases with the observed result flipped must be flagged by the kernel
	for _, rec := range selfSrc {
		in := rec.Input.(c07Input)
		res := rec.Obs.(uint64)
		flipped := 1 - res
		switch rec.Kind {
		case "pair":
			rec.Coq = fmt.Sprintf("CPair %s %s %d", coqBytes(in.Pat), coqBytes(in.Name), flipped)
		case "rules":
			rec.Coq = fmt.Sprintf("CRules %s %s %s %d", coqRules(in.Rules), coqAction(in.Act), coqBytes(in.Name), flipped)
		}
		rec.SelfTest = true
		rec.SelfOf = rec.ID
		out.Emit(rec)
	}
}

// readInputs reads a JSON-lines file of records (or bare inputs) and returns their inputs.
func readInputs[T any](path string) []T {
	f, err := os.Open(path)
	if err != nil {
		fatal("open %s: %v", path, err)
	}
	defer f.Close()
	var out []T
	sc := bufio.NewScanner(f)
	sc.Buffer(make([]byte, 1<<20), 1<<28)
	for sc.Scan() {
		line := sc.Bytes()
		if len(strings.TrimSpace(string(line))) == 0 {
			continue
		}
		var wrap struct {
			Input *T `json:"input"`
		}
		if err := json.Unmarshal(line, &wrap); err == nil && wrap.Input != nil {
			out = append(out, *wrap.Input)
			continue
		}
		var in T
		if err := json.Unmarshal(line, &in); err != nil {
			fatal("parse %s: %v", path, err)
		}
		out = append(out, in)
	}
	return out
}

func readCorpus[T any](dir string) []T {
	if dir == "" {
		return nil
	}
	ents, err := os.ReadDir(dir)
	if err != nil {
		return nil
	}
	var out []T
	for _, e := range ents {
		if strings.HasSuffix(e.Name(), ".jsonl") || strings.HasSuffix(e.Name(), ".json") {
			out = append(out, readInputs[T](dir+"/"+e.Name())...)
		}
	}
	return out
}
