package main

// C08: the HTTP front door, driven in-process through the registered mux.

import (
	"bufio"
	"bytes"
	"context"
	"encoding/base64"
	"encoding/hex"
	"encoding/json"
	"errors"
	"fmt"
	"html"
	"math/rand/v2"
	"net/http"
	"net/http/httptest"
	"net/netip"
	"os"
	"os/exec"
	"path/filepath"
	"regexp"
	"strconv"
	"strings"
	"testing"
	"time"

	"github.com/tailscale/setec/server"
	"github.com/tailscale/setec/types/api"
	"tailscale.com/client/tailscale/apitype"
	"tailscale.com/tailcfg"
)

func init() {
	commands["C08"] = runC08
	commands["c08slow"] = c08SlowChild
}

type capSpec struct {
	Kind  string    `json:"kind"` // absent | rules | malformed
	Rules []c07Rule `json:"rules,omitempty"`
}

type whoisSpec struct {
	Fail  bool    `json:"fail,omitempty"`
	Tags  int     `json:"tags,omitempty"`  // 0 = untagged, k = tag set k
	Login int     `json:"login,omitempty"` // 0 = empty login name, k = user k
	Bare  capSpec `json:"bare"`
	HTTPS capSpec `json:"https"`
	Decoy bool    `json:"decoy,omitempty"` // the answer also carries fully permissive grants under similar-looking capability names
}

type reqSpec struct {
	Endpoint string    `json:"endpoint"`       // list get info put activate delete delete-version | html (the listing page)
	Path     string    `json:"path,omitempty"` // html: the path asked for ("/" and every path no API route matches)
	Method   string    `json:"method"`
	CType    string    `json:"ctype"` // "" = absent
	Hdr      string    `json:"hdr"`   // "" = absent
	Addr     string    `json:"addr"`
	WhoIs    whoisSpec `json:"whois"`
	BodyKind string    `json:"body_kind"` // valid extra null truncated wrongtype range empty nonjson number
	Name     []byte    `json:"name,omitempty"`
	Ver      uint32    `json:"ver,omitempty"`
	Upd      bool      `json:"upd,omitempty"`
	Val      int       `json:"val,omitempty"`
	Audit    string    `json:"audit,omitempty"` // "" | "sync"
	// BreakPrev: before this request, the previous request (if it was a read) is sent once more by its own
	// caller over a connection that breaks after a few bytes of the reply; nothing of that reply may show up
	// in this request's reply
	BreakPrev bool `json:"break_prev,omitempty"`
}

type httpInput struct {
	Setup []DBStep  `json:"setup"` // direct superuser calls before the session
	Ops   []reqSpec `json:"ops"`
	// SlowAuditMs > 0: the audit log device stalls this long (virtual time: the session runs in a synctest
	// bubble in a child process) before it accepts a record; every request must still get its real answer,
	// however long it takes - an answer sent while the call is still running misreports it
	SlowAuditMs int `json:"slow_audit_ms,omitempty"`
}

type httpObs struct {
	Status  int       `json:"status"`
	Body    string    `json:"body_kind"` // empty result text
	Res     *resObs   `json:"res,omitempty"`
	Leak    bool      `json:"leak"`
	CTJSON  bool      `json:"ctype_json"`
	Fx      []fxObs   `json:"fx"`
	Disk    []secDump `json:"disk"`
	Gen     uint64    `json:"gen"`
	RawBody string    `json:"raw,omitempty"`
}

const capBare = "tailscale.com/cap/secrets"
const capHTTPS = "https://tailscale.com/cap/secrets"

func capRaw(c capSpec) ([]tailcfg.RawMessage, bool) {
	switch c.Kind {
	case "absent":
		return nil, false
	case "malformed":
		out := []tailcfg.RawMessage{}
		for _, r := range c.Rules {
			out = append(out, ruleJSON(r))
		}
		out = append(out, tailcfg.RawMessage(`{"action":"get","secret":5}`))
		return out, true
	}
	out := []tailcfg.RawMessage{}
	for _, r := range c.Rules {
		out = append(out, ruleJSON(r))
	}
	return out, true
}

func ruleJSON(r c07Rule) tailcfg.RawMessage {
	secs := make([]string, len(r.Secrets))
	for i, s := range r.Secrets {
		secs[i] = string(s)
	}
	acts := r.Actions
	if acts == nil {
		acts = []string{}
	}
	obj := map[string]any{"action": acts, "secret": secs}
	if r.Sparse { // a grant that leaves an empty list out altogether (it must still mean "none")
		if len(acts) == 0 {
			delete(obj, "action")
		}
		if len(secs) == 0 {
			delete(obj, "secret")
		}
	}
	bs, _ := json.Marshal(obj)
	return tailcfg.RawMessage(bs)
}

// whoisNodeName is the name the tailnet reports for the node of a whoisSpec (recorded as the principal's hostname).
func whoisNodeName(w whoisSpec) string {
	return fmt.Sprintf("node-l%d-t%d.example.ts.net.", w.Login, w.Tags)
}

// mkWhoIsFor answers a WhoIs question about addr: the scripted answer belongs to the request's own source
// address (ip:port) only; asked about anything else (the bare IP, another port) the tailnet knows a different
// node there - fully authorized, so that a request attributed to it is visibly served under the wrong identity.
func mkWhoIsFor(w whoisSpec, want, addr string) (*apitype.WhoIsResponse, error) {
	if want != "" && addr != want {
		decoy := whoisSpec{Login: 99, Bare: capSpec{Kind: "rules", Rules: superRules()}, HTTPS: capSpec{Kind: "absent"}}
		return mkWhoIs(decoy)
	}
	return mkWhoIs(w)
}

func mkWhoIs(w whoisSpec) (*apitype.WhoIsResponse, error) {
	if w.Fail {
		return nil, errors.New("whois failed")
	}
	node := &tailcfg.Node{Name: whoisNodeName(w), ID: tailcfg.NodeID(1 + w.Login*16 + w.Tags), StableID: tailcfg.StableNodeID(fmt.Sprintf("n-l%d-t%d", w.Login, w.Tags))}
	if w.Tags > 0 {
		node.Tags = []string{fmt.Sprintf("tag:t%d", w.Tags)}
	}
	up := &tailcfg.UserProfile{}
	if w.Login > 0 {
		up.LoginName = fmt.Sprintf("user%d", w.Login)
	}
	cm := tailcfg.PeerCapMap{}
	if raw, ok := capRaw(w.Bare); ok {
		cm[capBare] = raw
	}
	if raw, ok := capRaw(w.HTTPS); ok {
		cm[capHTTPS] = raw
	}
	if w.Decoy {
		// grants of OTHER applications whose capability names merely end like setec's: they grant nothing here
		full := tailcfg.RawMessage(`{"action":["get","info","put","activate","delete"],"secret":["*"]}`)
		cm["staging.tailscale.com/cap/secrets"] = []tailcfg.RawMessage{full}
		cm["https://example.com/tailscale.com/cap/secrets"] = []tailcfg.RawMessage{full}
		cm["tailscale.com/cap/secrets-admin"] = []tailcfg.RawMessage{full}
	}
	return &apitype.WhoIsResponse{Node: node, UserProfile: up, CapMap: cm}, nil
}

func endpointPath(e string) string { return "/api/" + e }

var htmlRow = regexp.MustCompile(`(?s)<tr>\s*<td>(.*?)</td>\s*<td>(.*?)</td>\s*</tr>`)

// parseHTMLList reads the listing page back into a list result: one row per secret, the versions in
// order, the active one in bold.
func parseHTMLList(body []byte) (*resObs, bool) {
	if !bytes.Contains(body, []byte("<h1>Secrets List</h1>")) {
		return nil, false
	}
	r := &resObs{Class: "list"}
	for _, m := range htmlRow.FindAllSubmatch(body, -1) {
		d := secDump{Name: []byte(html.UnescapeString(string(m[1])))}
		for _, tok := range strings.Split(string(m[2]), ",") {
			tok = strings.TrimSpace(tok)
			if tok == "" {
				continue
			}
			bold := strings.HasPrefix(tok, "<b>") && strings.HasSuffix(tok, "</b>")
			tok = strings.TrimSuffix(strings.TrimPrefix(tok, "<b>"), "</b>")
			v, err := strconv.ParseUint(strings.TrimSpace(tok), 10, 64)
			if err != nil {
				return nil, false
			}
			d.Vers = append(d.Vers, verVal{Ver: v})
			if bold {
				d.Active = v
			}
		}
		r.List = append(r.List, d)
	}
	return r, true
}

func reqBody(r reqSpec) []byte {
	var obj map[string]any
	name := string(r.Name)
	switch r.Endpoint {
	case "list", "html":
		obj = map[string]any{}
	case "get":
		obj = map[string]any{"Name": name, "Version": r.Ver, "UpdateIfChanged": r.Upd}
	case "info", "delete":
		obj = map[string]any{"Name": name}
	case "put":
		obj = map[string]any{"Name": name, "Value": valueBytes(r.Val)}
	case "activate", "delete-version":
		obj = map[string]any{"Name": name, "Version": r.Ver}
	}
	switch r.BodyKind {
	case "valid":
		bs, _ := json.Marshal(obj)
		return bs
	case "sparse": // zero-valued fields left out: the decoded request is the same
		for k, v := range obj {
			switch x := v.(type) {
			case uint32:
				if x == 0 {
					delete(obj, k)
				}
			case bool:
				if !x {
					delete(obj, k)
				}
			case string:
				if x == "" {
					delete(obj, k)
				}
			}
		}
		bs, _ := json.Marshal(obj)
		return bs
	case "extra":
		obj["Unknown"] = []int{1, 2}
		obj["zzz"] = map[string]any{"a": "b"}
		bs, _ := json.Marshal(obj)
		return bs
	case "null":
		return []byte("null")
	case "truncated":
		bs, _ := json.Marshal(obj)
		if len(bs) <= 2 {
			return []byte("{")
		}
		return bs[:len(bs)-1]
	case "wrongtype":
		if r.Endpoint == "list" {
			return []byte(`"a string"`)
		}
		return []byte(`{"Name": 17}`)
	case "range":
		if r.Endpoint == "get" || r.Endpoint == "activate" || r.Endpoint == "delete-version" {
			return []byte(fmt.Sprintf(`{"Name": %q, "Version": 4294967296}`, "a"))
		}
		return []byte(`[1,2`)
	case "empty":
		return []byte{}
	case "number":
		return []byte("5")
	}
	return []byte("hello, this is not json")
}

func coqCap(c capSpec) string {
	switch c.Kind {
	case "absent":
		return "CapAbsent"
	case "malformed":
		return "CapMalformed"
	}
	rs := make([]string, len(c.Rules))
	for i, r := range c.Rules {
		acts := make([]string, len(r.Actions))
		for j, a := range r.Actions {
			acts[j] = coqAction(a)
		}
		secs := make([]string, len(r.Secrets))
		for j, x := range r.Secrets {
			secs[j] = coqBytes(x)
		}
		rs[i] = fmt.Sprintf("Rl %s %s", coqList(acts), coqList(secs))
	}
	return "(CapRules " + coqList(rs) + ")"
}

func coqOptN(k int, off int) string {
	if k == 0 {
		return "None"
	}
	return fmt.Sprintf("(Some %d)", k+off)
}

func coqReq(r reqSpec) string {
	ep := map[string]string{"html": "EHtml", "list": "EList", "get": "EGet", "info": "EInfo", "put": "EPut", "activate": "EActivate", "delete": "EDelete", "delete-version": "EDeleteVersion"}[r.Endpoint]
	m := map[string]string{"POST": "MPost", "GET": "MGet", "PUT": "MPut", "DELETE": "MDelete", "HEAD": "MHead"}[r.Method]
	if m == "" {
		m = "MOtherMeth"
	}
	ct := "CTOther"
	if r.CType == "application/json" {
		ct = "CTJson"
	}
	h := "HOther"
	if r.Hdr == "setec" {
		h = "HSetec"
	}
	addrOK := r.Addr == "100.64.0.7:4242" || r.Addr == "[fd7a:115c:a1e0::1]:80" || r.Addr == "100.64.0.7:4243"
	w := fmt.Sprintf("(Wh %s %s %s %s %s)", coqBool(r.WhoIs.Fail), coqOptN(r.WhoIs.Tags, 1000), coqOptN(r.WhoIs.Login, 0), coqCap(r.WhoIs.Bare), coqCap(r.WhoIs.HTTPS))
	var body string
	switch r.BodyKind {
	case "valid", "extra", "sparse":
		n := coqBytes(r.Name)
		var q string
		switch r.Endpoint {
		case "list", "html":
			q = "QList"
		case "get":
			q = fmt.Sprintf("(QGet %s %d %s)", n, r.Ver, coqBool(r.Upd))
		case "info":
			q = "(QInfo " + n + ")"
		case "put":
			q = fmt.Sprintf("(QPut %s %d)", n, r.Val)
		case "activate":
			q = fmt.Sprintf("(QActivate %s %d)", n, r.Ver)
		case "delete":
			q = "(QDelete " + n + ")"
		case "delete-version":
			q = fmt.Sprintf("(QDeleteVersion %s %d)", n, r.Ver)
		}
		body = "(BObj " + q + ")"
	case "null":
		body = "BNull"
	default:
		body = "BInvalid"
	}
	return fmt.Sprintf("(Rq %s %s %s %s %s %s %s)", ep, m, ct, h, coqBool(addrOK), w, body)
}

// leakScan: does a non-200 body contain a stored secret value in plain, base64 or hex form?
func leakScan(body []byte, disk []secDump) bool {
	seen := map[uint64]bool{}
	for _, s := range disk {
		for _, v := range s.Vers {
			seen[v.Val] = true
		}
	}
	for id := range seen {
		if id == 0 || id == corruptToken {
			continue
		}
		val := valueBytes(int(id))
		forms := [][]byte{val, []byte(base64.StdEncoding.EncodeToString(val)), []byte(base64.URLEncoding.EncodeToString(val)), []byte(hex.EncodeToString(val))}
		for _, f := range forms {
			if len(f) >= 6 && bytes.Contains(body, f) {
				return true
			}
		}
	}
	return false
}

func decodeResult(endpoint string, body []byte) (*resObs, bool) {
	dec := func(v any) bool {
		d := json.NewDecoder(bytes.NewReader(body))
		return d.Decode(v) == nil
	}
	switch endpoint {
	case "html":
		return parseHTMLList(body)
	case "list":
		var infos []*api.SecretInfo
		if !dec(&infos) {
			return nil, false
		}
		r := &resObs{Class: "list"}
		for _, in := range infos {
			if in == nil {
				return nil, false
			}
			r.List = append(r.List, infoToDump(in))
		}
		return r, true
	case "info":
		var in api.SecretInfo
		if !dec(&in) {
			return nil, false
		}
		r := &resObs{Class: "info", Act: uint64(in.ActiveVersion)}
		for _, v := range in.Versions {
			r.Vers = append(r.Vers, uint64(v))
		}
		return r, true
	case "get":
		var sv api.SecretValue
		if !dec(&sv) {
			return nil, false
		}
		return &resObs{Class: "val", Ver: uint64(sv.Version), Val: valueToken(sv.Value, maxValueToken)}, true
	case "put":
		var v api.SecretVersion
		if !dec(&v) {
			return nil, false
		}
		return &resObs{Class: "ver", Ver: uint64(v)}, true
	}
	var x struct{}
	if !dec(&x) {
		return nil, false
	}
	return &resObs{Class: "ok"}, true
}

type httpSession struct {
	env   *dbEnv
	mux   *http.ServeMux
	whois whoisSpec
	addr  string   // the source address of the request being served
	prev  *reqSpec // the previous request of the session
}

func newHTTPSession(dir string) (*httpSession, error) {
	env, err := newDBEnv(dir)
	if err != nil {
		return nil, err
	}
	hs := &httpSession{env: env, mux: http.NewServeMux()}
	_, err = server.New(context.Background(), server.Config{
		DB:  env.d,
		Mux: hs.mux,
		WhoIs: func(ctx context.Context, addr string) (*apitype.WhoIsResponse, error) {
			return mkWhoIsFor(hs.whois, hs.addr, addr)
		},
	})
	if err != nil {
		return nil, err
	}
	return hs, nil
}

// brokenWriter is a connection that accepts a few bytes of the reply and then fails every write.
type brokenWriter struct {
	h     http.Header
	left  int
	wrote int
}

func (b *brokenWriter) Header() http.Header { return b.h }
func (b *brokenWriter) WriteHeader(int)     {}
func (b *brokenWriter) Write(p []byte) (int, error) {
	if b.left <= 0 {
		return 0, errors.New("write: connection reset by peer")
	}
	n := min(len(p), b.left)
	b.left -= n
	b.wrote += n
	if n < len(p) {
		return n, errors.New("write: connection reset by peer")
	}
	return n, nil
}

func (hs *httpSession) do(r reqSpec) httpObs {
	env := hs.env
	if r.BreakPrev && hs.prev != nil && (hs.prev.Endpoint == "get" || hs.prev.Endpoint == "info" || hs.prev.Endpoint == "list") && hs.prev.Audit == "" {
		// the previous read once more, over a connection that breaks mid-reply (not judged: only what it may
		// leave behind for THIS request matters)
		p := *hs.prev
		hs.whois, hs.addr = p.WhoIs, p.Addr
		req := httptest.NewRequest(p.Method, endpointPath(p.Endpoint), bytes.NewReader(reqBody(p)))
		if p.CType != "" {
			req.Header.Set("Content-Type", p.CType)
		}
		if p.Hdr != "" {
			req.Header.Set("Sec-X-Tailscale-No-Browsers", p.Hdr)
		}
		req.RemoteAddr = p.Addr
		func() {
			defer func() { recover() }()
			hs.mux.ServeHTTP(&brokenWriter{h: http.Header{}, left: 7}, req)
		}()
	}
	cp := r
	hs.prev = &cp
	hs.whois = r.WhoIs
	hs.addr = r.Addr
	env.sink.mu.Lock()
	env.sink.fx = nil
	// every record of this request must name the machine and the address it came from
	env.sink.wantHost, env.sink.wantIP = whoisNodeName(r.WhoIs), ""
	if ap, perr := netip.ParseAddrPort(r.Addr); perr == nil {
		env.sink.wantIP = ap.Addr().String()
	}
	env.sink.failNext = r.Audit
	env.sink.lastHash = fileHash(env.path)
	env.sink.mu.Unlock()
	target := endpointPath(r.Endpoint)
	if r.Endpoint == "html" {
		target = r.Path
	}
	req := httptest.NewRequest(r.Method, target, bytes.NewReader(reqBody(r)))
	if r.CType != "" {
		req.Header.Set("Content-Type", r.CType)
	}
	if r.Hdr != "" {
		req.Header.Set("Sec-X-Tailscale-No-Browsers", r.Hdr)
	}
	req.RemoteAddr = r.Addr
	rec := httptest.NewRecorder()
	var o httpObs
	func() {
		defer func() {
			if p := recover(); p != nil {
				o.Status = 1 // a panic is not a reply
				o.RawBody = fmt.Sprintf("PANIC: %v", p)
			}
		}()
		hs.mux.ServeHTTP(rec, req)
		o.Status = rec.Code
	}()
	env.sink.mu.Lock()
	slow := env.sink.slow
	env.sink.mu.Unlock()
	if slow > 0 {
		// (virtual time) whatever the handler may have left running behind its answer finishes now, so that
		// the state observed next is the state this request produced
		time.Sleep(3 * slow)
	}
	body := rec.Body.Bytes()
	env.sink.mu.Lock()
	env.sink.noteSave()
	o.Fx = append([]fxObs(nil), env.sink.fx...)
	env.sink.failNext = ""
	env.sink.wantHost, env.sink.wantIP = "", ""
	env.sink.mu.Unlock()
	var so stepObs
	env.observeState(&so)
	o.Disk, o.Gen = so.Disk, so.Gen
	o.CTJSON = rec.Header().Get("Content-Type") == "application/json"
	switch {
	case len(bytes.TrimSpace(body)) == 0:
		o.Body = "empty"
	case o.Status == 200:
		if res, ok := decodeResult(r.Endpoint, body); ok {
			o.Body = "result"
			o.Res = res
		} else {
			o.Body = "text"
		}
	default:
		o.Body = "text"
	}
	if o.Status != 200 {
		o.Leak = leakScan(body, so.Disk)
		if len(body) < 200 {
			o.RawBody = string(body)
		}
	}
	return o
}

func coqHObs(o httpObs) string {
	b := "OBText"
	switch o.Body {
	case "empty":
		b = "OBEmpty"
	case "result":
		b = "(OBResult " + coqRes(*o.Res) + ")"
	}
	return fmt.Sprintf("(Ho %d %s %s %s %s %s %d)", o.Status, b, coqBool(o.Leak), coqBool(o.CTJSON), coqFx(o.Fx), coqDisk(o.Disk), o.Gen)
}

var c08Names = [][]byte{[]byte("a"), []byte("b"), []byte("a/b"), []byte(""), []byte("_internal/x"), []byte("zz")}

func genCap(r *rand.Rand) capSpec {
	pats := [][]byte{[]byte("*"), []byte("a"), []byte("b"), []byte("a*"), []byte("zz")}
	switch r.IntN(7) {
	case 0, 1:
		return capSpec{Kind: "absent"}
	case 2:
		return capSpec{Kind: "malformed", Rules: []c07Rule{{Actions: []string{"get"}, Secrets: [][]byte{[]byte("*")}}}}
	case 3:
		return capSpec{Kind: "rules"} // present but empty
	case 4:
		return capSpec{Kind: "rules", Rules: superRules()}
	}
	var rs []c07Rule
	for k := 1 + r.IntN(2); k > 0; k-- {
		rs = append(rs, c07Rule{Actions: randSubset(r, allActions), Secrets: [][]byte{pats[r.IntN(len(pats))]}})
	}
	return capSpec{Kind: "rules", Rules: rs}
}

// genState is what a generated session remembers between requests.
type genState struct {
	personas []whoisSpec // nodes with a fixed identity whose grants the tailnet policy rewrites now and then
	prev     *reqSpec    // the previous request
	prev304  bool        // ... and whether it was answered "not changed"
}

var c08LongName = bytes.Repeat([]byte("long-hierarchical-name/"), 50) // 1150 bytes: longer than any plausible small request limit

// genGrants draws the grants of a persona: one to three rules of different shapes (several actions and
// patterns, lists of different lengths, empty lists left out of the JSON) delivered under the current or the
// legacy capability name.
func genGrants(r *rand.Rand) (bare, https capSpec) {
	pats := [][]byte{[]byte("*"), []byte("a"), []byte("b"), []byte("a*"), []byte("zz"), []byte("a/b"), []byte("_internal/*")}
	var rs []c07Rule
	for k := 1 + r.IntN(3); k > 0; k-- {
		rule := c07Rule{Actions: randSubset(r, allActions), Sparse: r.IntN(3) == 0}
		for j := r.IntN(4); j > 0; j-- {
			rule.Secrets = append(rule.Secrets, pats[r.IntN(len(pats))])
		}
		rs = append(rs, rule)
	}
	c := capSpec{Kind: "rules", Rules: rs}
	switch r.IntN(4) {
	case 0:
		return capSpec{Kind: "absent"}, c // legacy name only
	case 1:
		return capSpec{Kind: "rules"}, c // current name present but empty: the legacy grants apply
	}
	return c, capSpec{Kind: "absent"}
}

func newGenState(r *rand.Rand) *genState {
	g := &genState{}
	for k := 0; k < 3; k++ {
		w := whoisSpec{Login: 4 + k}
		if k == 2 {
			w = whoisSpec{Tags: 3}
		}
		w.Bare, w.HTTPS = genGrants(r)
		w.Decoy = r.IntN(2) == 0
		g.personas = append(g.personas, w)
	}
	return g
}

func genReq(r *rand.Rand, last []secDump, g *genState) reqSpec {
	eps := []string{"list", "get", "info", "put", "activate", "delete", "delete-version"}
	rq := reqSpec{Endpoint: eps[r.IntN(len(eps))], Method: "POST", CType: "application/json", Hdr: "setec", Addr: "100.64.0.7:4242", BodyKind: "valid"}
	rq.WhoIs = whoisSpec{Tags: 0, Login: 1 + r.IntN(3), Bare: capSpec{Kind: "rules", Rules: superRules()}, HTTPS: capSpec{Kind: "absent"}}
	if r.IntN(9) == 0 { // the listing page: a GET from a browser, on "/" or on any path no API route matches
		rq.Endpoint, rq.Method = "html", "GET"
		rq.Path = []string{"/", "/", "/index.html", "/api/nope", "/api/list/", "/api"}[r.IntN(6)]
		if r.IntN(2) == 0 {
			rq.CType, rq.Hdr = "", ""
		}
	}
	persona := -1
	if r.IntN(3) == 0 { // one of the session's nodes; the policy that grants it rights is edited from time to time
		persona = r.IntN(len(g.personas))
		if r.IntN(5) == 0 {
			g.personas[persona].Bare, g.personas[persona].HTTPS = genGrants(r)
		}
		rq.WhoIs = g.personas[persona]
	}
	// mostly-valid requests with ONE deviation, sometimes several
	for devs := []int{0, 1, 1, 1, 2, 3}[r.IntN(6)]; devs > 0; devs-- {
		switch r.IntN(6) {
		case 0:
			rq.Method = []string{"GET", "PUT", "DELETE", "HEAD", "PATCH", "post", "POST"}[r.IntN(7)]
		case 1:
			rq.CType = []string{"application/json; charset=utf-8", "text/plain", "", "application/JSON", "application/x-www-form-urlencoded"}[r.IntN(5)]
		case 2:
			rq.Hdr = []string{"", "other", "SETEC", "setec "}[r.IntN(4)]
		case 3:
			if persona < 0 {
				rq.WhoIs = whoisSpec{Fail: r.IntN(4) == 0, Tags: r.IntN(3), Login: r.IntN(3), Bare: genCap(r), HTTPS: genCap(r), Decoy: r.IntN(3) == 0}
			}
		case 4:
			rq.BodyKind = []string{"extra", "null", "truncated", "wrongtype", "range", "empty", "nonjson", "number", "sparse", "sparse"}[r.IntN(10)]
		case 5:
			if r.IntN(3) == 0 {
				rq.Addr = []string{"garbage", "100.64.0.7", ""}[r.IntN(3)]
			} else {
				rq.Addr = []string{"[fd7a:115c:a1e0::1]:80", "100.64.0.7:4243"}[r.IntN(2)]
			}
		}
	}
	rq.Name = c08Names[r.IntN(len(c08Names))]
	if r.IntN(50) == 0 && (rq.Endpoint == "get" || rq.Endpoint == "info") {
		rq.Name = c08LongName // never stored: the answer is "not found" (or a denial), whatever the length
	}
	var cur *secDump
	for i := range last {
		if bytes.Equal(last[i].Name, rq.Name) {
			cur = &last[i]
		}
	}
	rq.Ver = uint32(r.IntN(4))
	if cur != nil && r.IntN(2) == 0 {
		rq.Ver = uint32(cur.Active)
	}
	rq.Upd = r.IntN(2) == 0
	rq.Val = r.IntN(5)
	if r.IntN(12) == 0 {
		rq.Audit = "sync"
	}
	if g.prev != nil && (g.prev.Endpoint == "get" || g.prev.Endpoint == "info" || g.prev.Endpoint == "list") && r.IntN(6) == 0 {
		rq.BreakPrev = true
	}
	// the same question again, from somebody else: an answer must not outlive the caller it was given to
	if g.prev != nil && (g.prev304 && r.IntN(2) == 0 || r.IntN(25) == 0) {
		w := rq.WhoIs
		if r.IntN(2) == 0 {
			w = whoisSpec{Login: 7, Bare: capSpec{Kind: "rules", Rules: []c07Rule{{Actions: []string{"put"}, Secrets: [][]byte{[]byte("zz")}}}}, HTTPS: capSpec{Kind: "absent"}}
		}
		rq = *g.prev
		rq.WhoIs, rq.Audit = w, ""
	}
	return rq
}

func runHTTPSession(work string, idx int, in httpInput, r *rand.Rand, length int) Record {
	hs, err := newHTTPSession(filepath.Join(work, fmt.Sprintf("http%d", idx%32)))
	if err != nil {
		return Record{Kind: "session", Input: in, Key: fmt.Sprintf("session-failed-%d", idx), Direct: &DirectVerdict{OK: false, What: "cannot start a server: " + err.Error()}}
	}
	defer hs.env.close()
	super := []DBCaller{{ID: 1, Rules: superRules()}}
	for _, st := range in.Setup {
		hs.env.exec(super, st)
	}
	if in.SlowAuditMs > 0 {
		hs.env.sink.mu.Lock()
		hs.env.sink.slow = time.Duration(in.SlowAuditMs) * time.Millisecond
		hs.env.sink.mu.Unlock()
	}
	var pre stepObs
	hs.env.observeState(&pre)
	var obs []httpObs
	last := pre.Disk
	var g *genState
	if r != nil {
		g = newGenState(r)
	}
	run := func(rq reqSpec) {
		o := hs.do(rq)
		obs = append(obs, o)
		last = o.Disk
		if g != nil {
			cp := rq
			g.prev, g.prev304 = &cp, o.Status == 304
		}
	}
	if r == nil {
		for _, rq := range in.Ops {
			run(rq)
		}
	} else {
		for len(in.Ops) < length {
			rq := genReq(r, last, g)
			in.Ops = append(in.Ops, rq)
			run(rq)
		}
	}
	if in.SlowAuditMs > 0 {
		// let anything the handlers left running behind their answers finish before the bubble ends
		time.Sleep(time.Duration(in.SlowAuditMs)*time.Millisecond*3 + time.Hour)
	}
	steps := make([]string, len(in.Ops))
	tags := map[string]bool{}
	acc, rej := 0, 0
	for i, rq := range in.Ops {
		au := "AOk"
		if rq.Audit == "sync" {
			au = "ASyncFail"
		}
		steps[i] = fmt.Sprintf("Hs %s %s %s", au, coqReq(rq), coqHObs(obs[i]))
		tags[fmt.Sprintf("status:%d", obs[i].Status)] = true
		tags["ep:"+rq.Endpoint] = true
		tags["body:"+rq.BodyKind] = true
		if obs[i].Status >= 400 {
			rej++
		} else {
			acc++
		}
		if obs[i].Status == 1 {
			tags["PANIC"] = true
		}
	}
	kb, _ := json.Marshal(in)
	return Record{Kind: "session", Input: in, Obs: obs, Key: string(kb), Nontrivial: acc >= 1 && rej >= 1, Tags: sortedKeys(tags),
		Coq: fmt.Sprintf("HSession %s %d %s", coqDisk(pre.Disk), pre.Gen, coqList(steps))}
}

func genSetup(r *rand.Rand) []DBStep {
	var out []DBStep
	for k := 2 + r.IntN(5); k > 0; k-- {
		n := c08Names[r.IntN(3)]
		out = append(out, DBStep{Kind: "put", Name: n, Val: 1 + r.IntN(4)})
	}
	if r.IntN(2) == 0 {
		out = append(out, DBStep{Kind: "activate", Name: c08Names[0], Ver: 2})
	}
	return out
}

// c08SlowChild runs sessions with a stalling audit device inside synctest bubbles (virtual time) and writes
// their records; started by c08RunSlow as a child process because the testing entry point never returns.
func c08SlowChild(o Opts) {
	var specs []httpInput
	if o.Replay != "" {
		specs = readInputs[httpInput](o.Replay)
	}
	out := NewOut(o.Out)
	inTest(func(t *testing.T) {
		defer out.Close()
		if len(specs) > 0 {
			for i, in := range specs {
				bubble(t, func(t *testing.T) { out.Emit(runHTTPSession(o.Work, 900+i, in, nil, 0)) })
			}
			return
		}
		for i := 0; i < 6; i++ {
			r := NewRand(o.Seed, uint64(8800+i))
			in := httpInput{Setup: genSetup(r), SlowAuditMs: []int{31000, 45000, 61000, 300000}[r.IntN(4)]}
			bubble(t, func(t *testing.T) { out.Emit(runHTTPSession(o.Work, 900+i, in, r, 8+r.IntN(8))) })
		}
	})
}

// c08RunSlow starts the child and returns its records.
func c08RunSlow(o Opts, specs []httpInput) []Record {
	self, _ := os.Executable()
	resFile := filepath.Join(o.Work, "c08slow_out.jsonl")
	os.Remove(resFile)
	args := []string{"c08slow", "-out", resFile, "-work", o.Work, "-seed", fmt.Sprint(o.Seed)}
	if len(specs) > 0 {
		specFile := filepath.Join(o.Work, "c08slow_spec.jsonl")
		f, _ := os.Create(specFile)
		for _, in := range specs {
			b, _ := json.Marshal(in)
			f.Write(append(b, '\n'))
		}
		f.Close()
		args = append(args, "-replay", specFile)
	}
	ctx, cancel := context.WithTimeout(context.Background(), 90*time.Second)
	defer cancel()
	cmd := exec.CommandContext(ctx, self, args...)
	var stderr bytes.Buffer
	cmd.Stderr = &stderr
	err := cmd.Run()
	var recs []Record
	if f, ferr := os.Open(resFile); ferr == nil {
		sc := bufio.NewScanner(f)
		sc.Buffer(make([]byte, 1<<20), 1<<28)
		for sc.Scan() {
			var rec Record
			if json.Unmarshal(sc.Bytes(), &rec) == nil && rec.Kind != "" {
				recs = append(recs, rec)
			}
		}
		f.Close()
	}
	if err != nil || len(recs) == 0 {
		msg := "the sessions with a stalling audit device did not finish"
		if err != nil {
			msg += ": " + err.Error()
		}
		if t := strings.TrimSpace(stderr.String()); t != "" {
			if len(t) > 600 {
				t = t[len(t)-600:]
			}
			msg += " (" + t + ")"
		}
		recs = append(recs, Record{Kind: "session", Key: "slow-audit-child", Input: httpInput{SlowAuditMs: 1}, Direct: &DirectVerdict{OK: false, What: msg}})
	}
	for i := range recs {
		recs[i].Tags = append(recs[i].Tags, "stalling-audit-device")
	}
	return recs
}

func runC08(o Opts) {
	out := NewOut(o.Out)
	defer out.Close()
	work := o.Work
	idx := 0
	if o.Replay != "" {
		var slow []httpInput
		for _, in := range readInputs[httpInput](o.Replay) {
			if in.SlowAuditMs > 0 {
				slow = append(slow, in)
				continue
			}
			out.Emit(runHTTPSession(work, idx, in, nil, 0))
			idx++
		}
		if len(slow) > 0 {
			for _, rec := range c08RunSlow(o, slow) {
				out.Emit(rec)
			}
		}
		return
	}
	for _, in := range readCorpus[httpInput](o.Corpus) {
		rec := runHTTPSession(work, idx, in, nil, 0)
		rec.Corpus = "corpus"
		out.Emit(rec)
		idx++
	}
	n := 300
	if o.Tier == "thorough" {
		n = 10000
	}
	if o.N > 0 {
		n = o.N
	}
	var self []Record
	for i := 0; i < n; i++ {
		r := NewRand(o.Seed, uint64(8000+i))
		rec := runHTTPSession(work, idx, httpInput{Setup: genSetup(r)}, r, 10+r.IntN(30))
		rec.ID = out.n
		out.Emit(rec)
		idx++
		if len(self) < 4 && i%5 == 2 {
			self = append(self, rec)
		}
	}
	// a stalling audit device (virtual time, child process): every request still gets its real answer
	for _, rec := range c08RunSlow(o, nil) {
		rec.ID = out.n
		out.Emit(rec)
	}
	// self-test: turn one rejected reply into a 200, one accepted 200 into a 404
	for k, rec := range self {
		obs := append([]httpObs(nil), rec.Obs.([]httpObs)...)
		in := rec.Input.(httpInput)
		done := false
		for i := len(obs) - 1; i >= 0 && !done; i-- {
			if k%2 == 0 && obs[i].Status >= 400 {
				obs[i].Status = 200
				done = true
			} else if k%2 == 1 && obs[i].Status == 200 {
				obs[i].Status = 404
				done = true
			}
		}
		if !done {
			continue
		}
		steps := make([]string, len(in.Ops))
		for i, rq := range in.Ops {
			au := "AOk"
			if rq.Audit == "sync" {
				au = "ASyncFail"
			}
			steps[i] = fmt.Sprintf("Hs %s %s %s", au, coqReq(rq), coqHObs(obs[i]))
		}
		pre := strings.SplitN(rec.Coq, " [Hs", 2)[0]
		if len(in.Ops) == 0 {
			continue
		}
		rec.Coq = pre + " " + coqList(steps)
		rec.SelfTest, rec.SelfOf, rec.Obs = true, rec.ID, nil
		out.Emit(rec)
	}
}
