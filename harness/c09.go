package main

// C09: conditional get through the three surfaces: the DB API (histories, judged by
// Run_DB.check_C09 - wrapped), the HTTP handlers + setec.Client, and a FileClient.

import (
	"bytes"
	"context"
	"encoding/json"
	"errors"
	"fmt"
	"math/rand/v2"
	"net/http"
	"net/http/httptest"
	"os"
	"path/filepath"
	"time"

	"github.com/tailscale/setec/client/setec"
	"github.com/tailscale/setec/types/api"
)

func init() { commands["C09"] = runC09 }

type probeSpec struct {
	Kind   string `json:"kind"` // client | file | fileget
	Caller int    `json:"caller,omitempty"`
	Name   []byte `json:"name"`
	Old    uint32 `json:"old"`
}

type c09Input struct {
	Kind  string      `json:"kind"` // hist | probes | race
	Hist  *DBInput    `json:"hist,omitempty"`
	Setup []DBStep    `json:"setup,omitempty"`
	Ops   []probeSpec `json:"ops,omitempty"`
}

type cresObs struct {
	Class string `json:"class"` // val notchanged notfound denied other
	Ver   uint64 `json:"ver,omitempty"`
	Val   uint64 `json:"val,omitempty"`
}

func classifyClient(sv *api.SecretValue, err error) cresObs {
	switch {
	case err == nil && sv != nil:
		return cresObs{Class: "val", Ver: uint64(sv.Version), Val: valueToken(sv.Value, maxValueToken)}
	case errors.Is(err, api.ErrValueNotChanged):
		return cresObs{Class: "notchanged"}
	case errors.Is(err, api.ErrNotFound):
		return cresObs{Class: "notfound"}
	case errors.Is(err, api.ErrAccessDenied):
		return cresObs{Class: "denied"}
	}
	return cresObs{Class: "other"}
}

func coqCres(c cresObs) string {
	switch c.Class {
	case "val":
		return fmt.Sprintf("(CResult (RVal %d %d))", c.Ver, c.Val)
	case "notchanged":
		return "CNotChanged"
	case "notfound":
		return "CNotFound"
	case "denied":
		return "CDenied"
	}
	return "COtherErr"
}

var c09Callers = []DBCaller{
	{ID: 1, Rules: superRules()},
	{ID: 2, Rules: []c07Rule{{Actions: []string{"get"}, Secrets: [][]byte{[]byte("a"), []byte("b")}}}},
	{ID: 3, Rules: []c07Rule{{Actions: []string{"info", "put"}, Secrets: [][]byte{[]byte("*")}}}},
}

// runRace: a conditional get that has to deliver a value (its version argument is an existing,
// non-active version), while - at the moment its audit record reaches the sink, i.e. in the middle
// of the call - another goroutine tries to activate exactly that version.  The pinned code holds the
// database lock at that point, so the activate waits; whatever the code does, the answer must be the
// one the model gives before or after the activate ("at that moment").
func runRace(work string, idx int, in c09Input) Record {
	env, err := newDBEnv(filepath.Join(work, fmt.Sprintf("c09r-%d", idx%32)))
	if err != nil {
		return Record{Kind: "race", Input: in, Key: fmt.Sprintf("failed-%d", idx), Direct: &DirectVerdict{OK: false, What: err.Error()}}
	}
	defer env.close()
	for _, st := range in.Setup {
		env.exec(c09Callers, st)
	}
	var pre stepObs
	env.observeState(&pre)
	p := in.Ops[0]
	done := make(chan struct{})
	env.sink.mu.Lock()
	env.sink.hook = func() {
		go func() {
			env.d.Activate(env.super, string(p.Name), api.SecretVersion(p.Old))
			close(done)
		}()
		select {
		case <-done:
		case <-time.After(40 * time.Millisecond):
		}
	}
	env.sink.mu.Unlock()
	sv, gerr := env.d.GetConditional(env.super, string(p.Name), api.SecretVersion(p.Old))
	env.sink.mu.Lock()
	fired := env.sink.hook == nil
	env.sink.hook = nil
	env.sink.mu.Unlock()
	if fired {
		<-done
	}
	res := classifyClient(sv, gerr)
	kb, _ := json.Marshal(in)
	return Record{Kind: "race", Input: in, Obs: map[string]any{"result": res, "hook_fired": fired}, Key: string(kb),
		Nontrivial: fired, Tags: []string{"race:" + res.Class},
		Coq: fmt.Sprintf("C9Race %s %s %d %s", coqDisk(pre.Disk), coqBytes(p.Name), p.Old, coqRaceRes(res))}
}

func coqRaceRes(c cresObs) string {
	switch c.Class {
	case "val":
		return fmt.Sprintf("(RVal %d %d)", c.Ver, c.Val)
	case "notchanged":
		return "RNotChanged"
	case "notfound":
		return "RNotFound"
	case "denied":
		return "RDenied"
	}
	return "ROther"
}

func genRace(r *rand.Rand) c09Input {
	in := c09Input{Kind: "race"}
	name := [][]byte{[]byte("a"), []byte("b")}[r.IntN(2)]
	nv := 2 + r.IntN(3)
	for v := 1; v <= nv; v++ {
		in.Setup = append(in.Setup, DBStep{Kind: "put", Name: name, Val: v})
	}
	act := 1 + r.IntN(nv)
	in.Setup = append(in.Setup, DBStep{Kind: "activate", Name: name, Ver: uint32(act)})
	old := 1 + r.IntN(nv)
	for old == act {
		old = 1 + r.IntN(nv)
	}
	in.Ops = []probeSpec{{Kind: "race", Name: name, Old: uint32(old)}}
	return in
}

func runProbes(work string, idx int, in c09Input) Record {
	hs, err := newHTTPSession(filepath.Join(work, fmt.Sprintf("c09-%d", idx%32)))
	if err != nil {
		return Record{Kind: "probes", Input: in, Key: fmt.Sprintf("failed-%d", idx), Direct: &DirectVerdict{OK: false, What: err.Error()}}
	}
	defer hs.env.close()
	super := []DBCaller{{ID: 1, Rules: superRules()}}
	for _, st := range in.Setup {
		hs.env.exec(super, st)
	}
	var so stepObs
	hs.env.observeState(&so)
	// the file a FileClient reads: the active version of every secret, in the documented format
	fcDoc := map[string]any{}
	for _, s := range so.Disk {
		for _, v := range s.Vers {
			if v.Ver == s.Active {
				fcDoc[string(s.Name)] = map[string]any{"secret": map[string]any{"Value": valueBytes(int(v.Val)), "Version": s.Active}}
			}
		}
	}
	// entries a FileClient must ignore (no usable version or no value): they are not secrets, so every
	// probe of these names is answered "not found" - also a conditional one carrying version 0
	fcDoc["z0"] = map[string]any{"secret": map[string]any{"Value": valueBytes(3), "Version": 0}}
	fcDoc["z1"] = map[string]any{"secret": map[string]any{"TextValue": "text without a version"}}
	fcDoc["z2"] = map[string]any{"secret": map[string]any{"Version": 3}}
	fcDoc["z3"] = map[string]any{"secret": nil}
	fcPath := filepath.Join(hs.env.dir, "fileclient.json")
	fb, _ := json.Marshal(fcDoc)
	os.WriteFile(fcPath, fb, 0600)
	fc, ferr := setec.NewFileClient(fcPath)
	ctx := context.Background()
	parts := make([]string, 0, len(in.Ops))
	var obs []cresObs
	tags := map[string]bool{}
	for _, p := range in.Ops {
		var c cresObs
		name := string(p.Name)
		switch p.Kind {
		case "client":
			caller := c09Callers[p.Caller%len(c09Callers)]
			hs.whois = whoisSpec{Login: caller.ID, Bare: capSpec{Kind: "rules", Rules: caller.Rules}, HTTPS: capSpec{Kind: "absent"}}
			cli := setec.Client{Server: "http://setec.invalid", DoHTTP: func(req *http.Request) (*http.Response, error) {
				req.RemoteAddr = "100.64.0.7:4242"
				req.RequestURI = req.URL.RequestURI()
				rec := httptest.NewRecorder()
				hs.mux.ServeHTTP(rec, req)
				return rec.Result(), nil
			}}
			sv, err := cli.GetIfChanged(ctx, name, api.SecretVersion(p.Old))
			c = classifyClient(sv, err)
			parts = append(parts, fmt.Sprintf("PClient (%s) %s %d %s", coqCaller(caller), coqBytes(p.Name), p.Old, coqCres(c)))
		case "file":
			if ferr != nil {
				c = cresObs{Class: "other"}
			} else {
				sv, err := fc.GetIfChanged(ctx, name, api.SecretVersion(p.Old))
				c = classifyClient(sv, err)
			}
			parts = append(parts, fmt.Sprintf("PFile %s %d %s", coqBytes(p.Name), p.Old, coqCres(c)))
		default:
			if ferr != nil {
				c = cresObs{Class: "other"}
			} else {
				sv, err := fc.Get(ctx, name)
				c = classifyClient(sv, err)
			}
			parts = append(parts, fmt.Sprintf("PFileGet %s %s", coqBytes(p.Name), coqCres(c)))
		}
		obs = append(obs, c)
		tags[p.Kind+":"+c.Class] = true
	}
	kb, _ := json.Marshal(in)
	return Record{Kind: "probes", Input: in, Obs: obs, Key: string(kb), Tags: sortedKeys(tags),
		Nontrivial: tags["client:notchanged"] && tags["client:val"],
		Coq:        fmt.Sprintf("C9Probes (HProbes %s %s)", coqDisk(so.Disk), coqList(parts))}
}

func genProbes(r *rand.Rand) c09Input {
	in := c09Input{Kind: "probes"}
	names := [][]byte{[]byte("a"), []byte("b"), []byte("c")}
	if r.IntN(8) == 0 { // a name longer than any small request limit: conditional gets of it behave like any other
		names[1] = c08LongName
	}
	nver := map[string]int{}
	for k := 3 + r.IntN(8); k > 0; k-- {
		n := names[r.IntN(2)]
		switch r.IntN(5) {
		case 0, 1, 2:
			in.Setup = append(in.Setup, DBStep{Kind: "put", Name: n, Val: []int{1, 2, 3, 4, 5, 6, 13, 14, 15}[r.IntN(9)]})
			nver[string(n)]++
		case 3:
			in.Setup = append(in.Setup, DBStep{Kind: "activate", Name: n, Ver: uint32(1 + r.IntN(nver[string(n)]+1))})
		case 4:
			in.Setup = append(in.Setup, DBStep{Kind: "delver", Name: n, Ver: uint32(1 + r.IntN(nver[string(n)]+1))})
		}
	}
	for k := 12; k > 0; k-- {
		n := names[r.IntN(3)]
		p := probeSpec{Kind: []string{"client", "client", "file", "fileget"}[r.IntN(4)], Caller: r.IntN(5) / 2, Name: n}
		p.Old = uint32(r.IntN(nver[string(n)] + 3)) // current, older, newer, never-existing, 0
		in.Ops = append(in.Ops, p)
	}
	for k := 2; k > 0; k-- { // the unusable file entries
		z := []byte(fmt.Sprintf("z%d", r.IntN(4)))
		in.Ops = append(in.Ops, probeSpec{Kind: []string{"file", "fileget"}[r.IntN(2)], Name: z, Old: uint32([]int{0, 0, 1, 3}[r.IntN(4)])})
	}
	return in
}

func runC09(o Opts) {
	out := NewOut(o.Out)
	defer out.Close()
	work := o.Work
	idx := 0
	wrapHist := func(rec Record) Record {
		if rec.Coq != "" {
			rec.Coq = "C9Hist (" + rec.Coq + ")"
		}
		in := rec.Input.(DBInput)
		rec.Input = c09Input{Kind: "hist", Hist: &in, Ops: nil}
		return rec
	}
	if o.Replay != "" {
		for _, in := range readInputs[c09Input](o.Replay) {
			if in.Kind == "hist" {
				out.Emit(wrapHist(runDBHistory(work, idx, profC09, *in.Hist, nil, 0)))
			} else if in.Kind == "race" {
				out.Emit(runRace(work, idx, in))
			} else {
				out.Emit(runProbes(work, idx, in))
			}
			idx++
		}
		return
	}
	for _, in := range readCorpus[c09Input](o.Corpus) {
		var rec Record
		if in.Kind == "hist" {
			rec = wrapHist(runDBHistory(work, idx, profC09, *in.Hist, nil, 0))
		} else if in.Kind == "race" {
			rec = runRace(work, idx, in)
		} else {
			rec = runProbes(work, idx, in)
		}
		rec.Corpus = "corpus"
		out.Emit(rec)
		idx++
	}
	nh, np := 250, 250
	if o.Tier == "thorough" {
		nh, np = 10000, 10000
	}
	var selfH, selfP *Record
	for i := 0; i < nh; i++ {
		r := NewRand(o.Seed, uint64(9000+i))
		in := DBInput{Profile: "C09", Callers: profC09.Callers(r)}
		rec := runDBHistory(work, idx, profC09, in, r, profC09.MinLen+r.IntN(profC09.MaxLen-profC09.MinLen+1))
		hin := rec.Input.(DBInput)
		hobs, _ := rec.Obs.([]stepObs)
		rec = wrapHist(rec)
		rec.ID = out.n
		out.Emit(rec)
		idx++
		if selfH == nil && i > 3 && hobs != nil {
			o2 := append([]stepObs(nil), hobs...)
			if alterForSelfTest("C09", hin, o2) {
				c := rec
				c.Coq = "C9Hist (" + coqCase(hin, o2) + ")"
				c.SelfTest, c.SelfOf, c.Obs = true, rec.ID, nil
				selfH = &c
			}
		}
	}
	for i := 0; i < np; i++ {
		r := NewRand(o.Seed, uint64(9500000+i))
		in := genProbes(r)
		rec := runProbes(work, idx, in)
		rec.ID = out.n
		out.Emit(rec)
		idx++
		if selfP == nil && i > 3 && bytes.Contains([]byte(rec.Coq), []byte("CNotChanged")) {
			c := rec
			c.Coq = string(bytes.Replace([]byte(rec.Coq), []byte("CNotChanged"), []byte("CNotFound"), 1))
			c.SelfTest, c.SelfOf, c.Obs = true, rec.ID, nil
			selfP = &c
		}
	}
	nr := 25
	if o.Tier == "thorough" {
		nr = 400
	}
	for i := 0; i < nr; i++ {
		rec := runRace(work, idx, genRace(NewRand(o.Seed, uint64(9900000+i))))
		rec.ID = out.n
		out.Emit(rec)
		idx++
		if i == 3 { // self-test: an answer carrying the very version the caller already has
			c := rec
			in := rec.Input.(c09Input)
			c.Coq = string(bytes.Replace([]byte(rec.Coq), []byte(fmt.Sprintf(" %d (RVal ", in.Ops[0].Old)), []byte(fmt.Sprintf(" %d (RVal 9", in.Ops[0].Old)), 1))
			c.SelfTest, c.SelfOf, c.Obs = true, rec.ID, nil
			out.Emit(c)
		}
	}
	if selfH != nil {
		out.Emit(*selfH)
	}
	if selfP != nil {
		out.Emit(*selfP)
	}
}
