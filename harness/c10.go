package main

// C10: setec.NewStore under testing/synctest virtual time with a scripted StoreClient (or a real
// FileClient), crafted cache documents and context deadlines.  Observed: outcome class, every
// Get with its virtual start/end instants and outcome, the instant of return, Cache.Write payloads,
// then a probe poll (GetIfChanged calls, result, payloads) and the value served for every declared
// name.  The kernel re-runs Client/Init.new_store on the same inputs (Corr/Run_C10.v).

import (
	"bytes"
	"context"
	"crypto/sha256"
	"encoding/base64"
	"encoding/json"
	"errors"
	"fmt"
	"io"
	"math/rand/v2"
	"net/http"
	"os"
	"path"
	"path/filepath"
	"sort"
	"strconv"
	"strings"
	"sync"
	"testing"
	"time"

	"github.com/tailscale/setec/client/setec"
	"github.com/tailscale/setec/types/api"
)

func init() { commands["C10"] = runC10 }

// ---- values as tokens (shared by C10 and C19) ----

const c10MaxTok = 60

// the token of the EMPTY value (the server accepts empty-valued secrets; the store caches and serves them faithfully)
const c10EmptyTok = 200

func c10Val(id int) []byte {
	if id == c10EmptyTok {
		return []byte{}
	}
	h := sha256.Sum256([]byte(fmt.Sprintf("c10-value-%d", id)))
	n := 1 + (id*5)%23
	out := append([]byte(nil), h[:n]...)
	if id%4 == 1 {
		out[0] = 0
	}
	return out
}

func c10Tok(b []byte) uint64 {
	if len(b) == 0 {
		return c10EmptyTok
	}
	for id := 1; id <= c10MaxTok; id++ {
		if string(b) == string(c10Val(id)) {
			return uint64(id)
		}
	}
	for id := 1; id <= c10MaxTok; id++ {
		if string(b) == c10Text(id) {
			return uint64(c10TextBase + id)
		}
	}
	return 999999
}

// text values (a FileClient's "TextValue" is a JSON string): token c10TextBase+id; id 1 is two blanks
const c10TextBase = 100

func c10Text(id int) string {
	if id == 1 {
		return "  "
	}
	return fmt.Sprintf(" text value #%d\n\tzwölf ", id)
}

// ---- the file behind a FileClient ----

// one member of the file's JSON object.  Usable kinds: value, text, both (the text wins).  Kinds that are NOT a
// usable secret (the name is absent for the store): ver0 (a value, version 0), noversion (a text, no version),
// novalue (a version, neither Value nor TextValue), blanktext (TextValue ""), emptyvalue (Value ""), nullvalue
// (Value null), mistyped (the value under misspelled keys), nullsecret ("secret": null), nosecret ({}), nullentry
// (null).  vernegative: a negative version does not decode at all - NewFileClient must refuse the file.
type c10FileEnt struct {
	Name string `json:"name"`
	Kind string `json:"kind"`
	Ver  uint32 `json:"ver,omitempty"`
	Val  int    `json:"val,omitempty"`  // token of Value
	TVal int    `json:"tval,omitempty"` // id of TextValue
}

var c10FileUnusable = []string{"ver0", "noversion", "novalue", "blanktext", "emptyvalue", "nullvalue", "mistyped", "nullsecret", "nosecret", "nullentry"}

func c10FileJSON(ents []c10FileEnt) []byte {
	var sb strings.Builder
	sb.WriteByte('{')
	for i, e := range ents {
		if i > 0 {
			sb.WriteByte(',')
		}
		k, _ := json.Marshal(e.Name)
		sb.Write(k)
		sb.WriteByte(':')
		b64 := base64.StdEncoding.EncodeToString(c10Val(e.Val))
		txt, _ := json.Marshal(c10Text(e.TVal))
		switch e.Kind {
		case "value":
			fmt.Fprintf(&sb, `{"secret":{"Value":"%s","Version":%d}}`, b64, e.Ver)
		case "text":
			fmt.Fprintf(&sb, `{"secret":{"TextValue":%s,"Version":%d}}`, txt, e.Ver)
		case "both":
			fmt.Fprintf(&sb, `{"secret":{"Value":"%s","TextValue":%s,"Version":%d}}`, b64, txt, e.Ver)
		case "ver0":
			fmt.Fprintf(&sb, `{"secret":{"Value":"%s","Version":0}}`, b64)
		case "noversion":
			fmt.Fprintf(&sb, `{"secret":{"TextValue":%s}}`, txt)
		case "novalue":
			fmt.Fprintf(&sb, `{"secret":{"Version":%d}}`, e.Ver)
		case "blanktext":
			fmt.Fprintf(&sb, `{"secret":{"TextValue":"","Version":%d}}`, e.Ver)
		case "emptyvalue":
			fmt.Fprintf(&sb, `{"secret":{"Value":"","Version":%d}}`, e.Ver)
		case "nullvalue":
			fmt.Fprintf(&sb, `{"secret":{"Value":null,"TextValue":null,"Version":%d}}`, e.Ver)
		case "mistyped":
			fmt.Fprintf(&sb, `{"secret":{"Valu":"%s","Text":%s,"Version":%d}}`, b64, txt, e.Ver)
		case "nullsecret":
			sb.WriteString(`{"secret":null}`)
		case "nosecret":
			sb.WriteString(`{}`)
		case "vernegative":
			fmt.Fprintf(&sb, `{"secret":{"Value":"%s","Version":-%d}}`, b64, e.Ver)
		default: // nullentry
			sb.WriteString("null")
		}
	}
	sb.WriteByte('}')
	return []byte(sb.String())
}

// the member as NewFileClient decodes it, for the model: Fe secret version value text
func c10CoqFileEnt(e c10FileEnt) string {
	val, txt := fmt.Sprintf("(Some %d)", e.Val), fmt.Sprintf("(Some %d)", c10TextBase+e.TVal)
	fe := "Fe false 0 None None"
	switch e.Kind {
	case "value":
		fe = fmt.Sprintf("Fe true %d %s None", e.Ver, val)
	case "text":
		fe = fmt.Sprintf("Fe true %d None %s", e.Ver, txt)
	case "both":
		fe = fmt.Sprintf("Fe true %d %s %s", e.Ver, val, txt)
	case "ver0":
		fe = fmt.Sprintf("Fe true 0 %s None", val)
	case "noversion":
		fe = fmt.Sprintf("Fe true 0 None %s", txt)
	case "novalue", "blanktext", "emptyvalue", "nullvalue", "mistyped":
		fe = fmt.Sprintf("Fe true %d None None", e.Ver)
	}
	return fmt.Sprintf("(%s,%s)", coqBytes([]byte(e.Name)), fe)
}

// c10File: the file of a client=file scenario (older inputs gave it as scripts: a tail with a version = a usable value)
func c10File(in c10Input) []c10FileEnt {
	if len(in.File) > 0 || in.Client != "file" {
		return in.File
	}
	var out []c10FileEnt
	for _, s := range in.Scripts {
		if s.Tail.Ver != 0 {
			out = append(out, c10FileEnt{Name: s.Name, Kind: "value", Ver: s.Tail.Ver, Val: s.Tail.Val})
		}
	}
	return out
}

// ---- inputs ----

type c10Ans struct {
	LatMs int64  `json:"lat,omitempty"` // service time of the request (ms)
	Ver   uint32 `json:"ver,omitempty"` // 0 = the request fails
	Val   int    `json:"val,omitempty"`
	Err   string `json:"err,omitempty"` // notfound | denied | other
	// client=http: what the scripted HTTP transport does with the request: "200" (JSON api.SecretValue of Ver/Val),
	// "404", "403", "500", "304", "garbage" (200 with an undecodable body), "hang" (accepts the request and never
	// answers: the call lasts until the REQUEST's context ends)
	HTTP string `json:"http,omitempty"`
}

type c10Script struct {
	Name string `json:"name"`
	// an outage: the first Down requests get DownAns (compact form of a long failure script)
	Down    int      `json:"down,omitempty"`
	DownAns c10Ans   `json:"down_ans,omitempty"`
	Seq     []c10Ans `json:"seq,omitempty"`
	Tail    c10Ans   `json:"tail"`
}

type c10CacheEnt struct {
	Name string `json:"name"`
	Kind string `json:"kind"` // ok | null | nosecret | a type-error kind (see c10BadKinds): well-formed JSON that does not decode into the cache type
	Ver  uint32 `json:"ver,omitempty"`
	Val  int    `json:"val,omitempty"`
	Last int64  `json:"last,omitempty"`
}

type c10ProbeEnt struct {
	Name   string `json:"name"`
	Absent bool   `json:"absent,omitempty"`
	Ver    uint32 `json:"ver,omitempty"`
	Val    int    `json:"val,omitempty"`
}

type c10Input struct {
	Client      string          `json:"client"` // none | script | file
	Names       []string        `json:"names"`
	PrefixKind  int             `json:"prefix_kind,omitempty"` // index into c10Prefixes: how the struct's prefix is spelled
	Struct      bool            `json:"struct,omitempty"`      // two more names declared through a tagged struct
	Structs     []c10StructSpec `json:"structs,omitempty"`     // further entries of StoreConfig.Structs
	Allow       bool            `json:"allow,omitempty"`
	Cache       string          `json:"cache"` // none | empty | garbage | doc
	CacheDoc    []c10CacheEnt   `json:"cache_doc,omitempty"`
	AgeS        int64           `json:"age_s,omitempty"`
	Scripts     []c10Script     `json:"scripts,omitempty"`
	File        []c10FileEnt    `json:"file,omitempty"` // client=file: the members of the file's JSON object, in document order
	Strict      bool            `json:"strict,omitempty"`
	DeadlineUs  int64           `json:"deadline_us"` // relative to the call; <0 none; 0 = cancelled before the call
	StartMs     int64           `json:"start_ms,omitempty"`
	OutageMs    int64           `json:"outage_ms,omitempty"`    // (statistics) a name is down this long under a deadline-free context
	Many        int             `json:"many,omitempty"`         // (statistics) this many declared names, absent from the cache
	EmptyCached bool            `json:"empty_cached,omitempty"` // (statistics) complete cache with an empty value, service unreachable
	ProbeDtS    int64           `json:"probe_dt_s,omitempty"`
	Probe       []c10ProbeEnt   `json:"probe,omitempty"`
}

type c10Tagged struct {
	A []byte `setec:"ta"`
	B string `setec:"tb"`
}

// further struct types for configurations with several entries in StoreConfig.Structs: c10Tagged2 shares the
// tag "ta" with c10Tagged (overlapping name sets under equal prefixes), c10Tagged3 is disjoint from both
type c10Tagged2 struct {
	C []byte `setec:"tc"`
	A string `setec:"ta"`
}

type c10Tagged3 struct {
	D string `setec:"td"`
}

// one entry of StoreConfig.Structs: which struct type (0 c10Tagged, 1 c10Tagged2, 2 c10Tagged3) and how its prefix is spelled
type c10StructSpec struct {
	Type   int `json:"type,omitempty"`
	Prefix int `json:"prefix,omitempty"` // index into c10Prefixes
}

var c10StructTags = [][]string{{"ta", "tb"}, {"tc", "ta"}, {"td"}}

// c10Structs: the Structs of the configuration (the older single-struct form included)
func c10Structs(in c10Input) []c10StructSpec {
	if in.Struct {
		return append([]c10StructSpec{{Type: 0, Prefix: in.PrefixKind}}, in.Structs...)
	}
	return in.Structs
}

func c10SpecNames(sp c10StructSpec) []string {
	var out []string
	for _, tag := range c10StructTags[sp.Type%len(c10StructTags)] {
		out = append(out, path.Join(c10Prefixes[sp.Prefix%len(c10Prefixes)], tag))
	}
	return out
}

// a struct value of the spec's type, and a reader of its fields (tokens, in field order)
func c10NewStruct(sp c10StructSpec) (any, func() []int64) {
	switch sp.Type % len(c10StructTags) {
	case 1:
		v := &c10Tagged2{}
		return v, func() []int64 { return []int64{int64(c10Tok(v.C)), int64(c10Tok([]byte(v.A)))} }
	case 2:
		v := &c10Tagged3{}
		return v, func() []int64 { return []int64{int64(c10Tok([]byte(v.D)))} }
	}
	v := &c10Tagged{}
	return v, func() []int64 { return []int64{int64(c10Tok(v.A)), int64(c10Tok([]byte(v.B)))} }
}

// spellings of the struct prefix: the declared names are the slash-joined, cleaned names (path.Join), the same
// ones Fields.Apply looks up - "p/ta", "p/tb" for all spellings but the empty prefix
var c10Prefixes = []string{"p", "p/", "./p", "p//", "", "q", "q/r"}

// c10StructNames: the names Fields.Apply looks up, struct by struct, field by field (with repetitions)
func c10StructNames(in c10Input) []string {
	var out []string
	for _, sp := range c10Structs(in) {
		out = append(out, c10SpecNames(sp)...)
	}
	return out
}

// ---- scripted client ----

type c10Req struct {
	Name string `json:"n"`
	Ts   int64  `json:"ts"`
	Te   int64  `json:"te"`
	Ver  uint32 `json:"ver,omitempty"`
	Val  uint64 `json:"val,omitempty"`
}

type c10PReq struct {
	Name string `json:"n"`
	Old  uint32 `json:"old"`
}

type c10Client struct {
	mu      sync.Mutex
	epoch   time.Time
	strict  bool
	scripts map[string]c10Script
	count   map[string]int
	log     []c10Req
	probe   map[string]c10ProbeEnt
	plog    []c10PReq
}

func c10Err(kind string) error {
	switch kind {
	case "notfound":
		return api.ErrNotFound
	case "denied":
		return api.ErrAccessDenied
	}
	return errors.New("service unavailable")
}

func (c *c10Client) Get(ctx context.Context, name string) (*api.SecretValue, error) {
	a, err := c.serve(ctx, name)
	if err != nil {
		return nil, err
	}
	if a.Ver == 0 {
		return nil, c10Err(a.Err)
	}
	return &api.SecretValue{Value: c10Val(a.Val), Version: api.SecretVersion(a.Ver)}, nil
}

// a hanging request is given up after this much virtual time even if its context never ends, so that a
// request context detached from the caller's shows as a (very) late return instead of a dead bubble
const c10HangHorizon = 2 * time.Hour

// serve plays the script for the next request for name under ctx (the caller's context for the scripted
// client, the HTTP request's context for the transport): waits, logs, and returns the scripted answer or
// the context's error.
func (c *c10Client) serve(ctx context.Context, name string) (c10Ans, error) {
	start := time.Since(c.epoch)
	c.mu.Lock()
	if len(c.log) > c10ReqCap {
		c.mu.Unlock()
		panic("c10: request cap exceeded")
	}
	j := c.count[name]
	c.count[name]++
	sc, ok := c.scripts[name]
	c.mu.Unlock()
	a := c10Ans{Err: "notfound"}
	if ok {
		if j < sc.Down {
			a = sc.DownAns
		} else if j-sc.Down < len(sc.Seq) {
			a = sc.Seq[j-sc.Down]
		} else {
			a = sc.Tail
		}
	}
	var err error
	if c.strict && ctx.Err() != nil {
		err = ctx.Err()
	} else if a.HTTP == "hang" {
		select {
		case <-ctx.Done():
			err = ctx.Err()
		case <-time.After(c10HangHorizon):
			err = errors.New("connection reset (the harness gave up on a hanging request)")
		}
	} else if a.LatMs > 0 {
		select {
		case <-ctx.Done():
			err = ctx.Err()
		case <-time.After(time.Duration(a.LatMs) * time.Millisecond):
		}
	}
	r := c10Req{Name: name, Ts: int64(start), Te: int64(time.Since(c.epoch))}
	if err == nil && a.Ver != 0 {
		r.Ver, r.Val = a.Ver, uint64(a.Val)
	}
	c.mu.Lock()
	c.log = append(c.log, r)
	c.mu.Unlock()
	return a, err
}

// transport is the scripted HTTP transport under the REAL network client (client/setec/client.go):
// it answers /api/get at the HTTP level; a request whose context ends gets what net/http reports then.
func (c *c10Client) transport(req *http.Request) (*http.Response, error) {
	reply := func(code int, body string) (*http.Response, error) {
		return &http.Response{StatusCode: code, Status: fmt.Sprintf("%d %s", code, http.StatusText(code)), Header: http.Header{},
			Body: io.NopCloser(bytes.NewReader([]byte(body)))}, nil
	}
	var gr api.GetRequest
	if req.Body == nil || json.NewDecoder(req.Body).Decode(&gr) != nil || req.URL.Path != "/api/get" || req.Method != "POST" {
		return reply(400, "bad request")
	}
	if gr.UpdateIfChanged { // the probe poll
		sv, err := c.GetIfChanged(req.Context(), gr.Name, gr.Version)
		switch {
		case err == nil:
			bs, _ := json.Marshal(sv)
			return reply(200, string(bs))
		case errors.Is(err, api.ErrValueNotChanged):
			return reply(304, "")
		}
		return reply(404, "not found")
	}
	a, err := c.serve(req.Context(), gr.Name)
	if err != nil {
		return nil, err
	}
	switch a.HTTP {
	case "200":
		bs, _ := json.Marshal(&api.SecretValue{Value: c10Val(a.Val), Version: api.SecretVersion(a.Ver)})
		return reply(200, string(bs))
	case "404":
		return reply(404, "not found")
	case "403":
		return reply(403, "access denied")
	case "304":
		return reply(304, "")
	case "garbage":
		return reply(200, "{{{ this is not JSON")
	}
	return reply(500, "internal error")
}

func (c *c10Client) GetIfChanged(ctx context.Context, name string, old api.SecretVersion) (*api.SecretValue, error) {
	c.mu.Lock()
	c.plog = append(c.plog, c10PReq{Name: name, Old: uint32(old)})
	p, ok := c.probe[name]
	c.mu.Unlock()
	if !ok {
		return nil, api.ErrValueNotChanged
	}
	if p.Absent {
		return nil, api.ErrNotFound
	}
	if api.SecretVersion(p.Ver) == old {
		return nil, api.ErrValueNotChanged
	}
	return &api.SecretValue{Value: c10Val(p.Val), Version: api.SecretVersion(p.Ver)}, nil
}

// ---- cache ----

type c10Cache struct {
	data   []byte
	writes [][]byte
}

func (c *c10Cache) Write(data []byte) error {
	cp := append([]byte(nil), data...)
	c.data = cp
	c.writes = append(c.writes, cp)
	return nil
}
func (c *c10Cache) Read() ([]byte, error) { return c.data, nil }

// kinds of cache entries that are well-formed JSON but make the decoding of the whole document fail
var c10BadKinds = []string{"stamp-number", "stamp-text", "value-number", "value-not-base64", "value-object", "version-string",
	"version-too-big", "version-negative", "version-fraction", "secret-number", "secret-array", "entry-number", "entry-string",
	"entry-array", "entry-bool"}

func c10CacheJSON(ents []c10CacheEnt) []byte {
	var sb strings.Builder
	sb.WriteByte('{')
	for i, e := range ents {
		if i > 0 {
			sb.WriteByte(',')
		}
		k, _ := json.Marshal(e.Name)
		sb.Write(k)
		sb.WriteByte(':')
		b64 := base64.StdEncoding.EncodeToString(c10Val(e.Val))
		switch e.Kind {
		case "null":
			sb.WriteString("null")
		case "nosecret":
			fmt.Fprintf(&sb, `{"secret":null,"lastAccess":"%d"}`, e.Last)
		case "ok":
			fmt.Fprintf(&sb, `{"secret":{"Value":"%s","Version":%d},"lastAccess":"%d"}`,
				base64.StdEncoding.EncodeToString(c10Val(e.Val)), e.Ver, e.Last)
		// ---- well-formed JSON, wrong type somewhere: json.Unmarshal reports an error (and leaves
		// whatever it could decode in the map)
		case "stamp-number":
			fmt.Fprintf(&sb, `{"secret":{"Value":"%s","Version":%d},"lastAccess":%d}`, b64, e.Ver, e.Last)
		case "stamp-text":
			fmt.Fprintf(&sb, `{"secret":{"Value":"%s","Version":%d},"lastAccess":"yesterday"}`, b64, e.Ver)
		case "value-number":
			fmt.Fprintf(&sb, `{"secret":{"Value":12345,"Version":%d},"lastAccess":"%d"}`, e.Ver, e.Last)
		case "value-not-base64":
			fmt.Fprintf(&sb, `{"secret":{"Value":"***not base64***","Version":%d},"lastAccess":"%d"}`, e.Ver, e.Last)
		case "value-object":
			fmt.Fprintf(&sb, `{"secret":{"Value":{"x":1},"Version":%d},"lastAccess":"%d"}`, e.Ver, e.Last)
		case "version-string":
			fmt.Fprintf(&sb, `{"secret":{"Value":"%s","Version":"%d"},"lastAccess":"%d"}`, b64, e.Ver, e.Last)
		case "version-too-big":
			fmt.Fprintf(&sb, `{"secret":{"Value":"%s","Version":4294967296},"lastAccess":"%d"}`, b64, e.Last)
		case "version-negative":
			fmt.Fprintf(&sb, `{"secret":{"Value":"%s","Version":-1},"lastAccess":"%d"}`, b64, e.Last)
		case "version-fraction":
			fmt.Fprintf(&sb, `{"secret":{"Value":"%s","Version":1.5},"lastAccess":"%d"}`, b64, e.Last)
		case "secret-number":
			fmt.Fprintf(&sb, `{"secret":7,"lastAccess":"%d"}`, e.Last)
		case "secret-array":
			fmt.Fprintf(&sb, `{"secret":[],"lastAccess":"%d"}`, e.Last)
		case "entry-number":
			sb.WriteString("7")
		case "entry-string":
			sb.WriteString(`"gone"`)
		case "entry-array":
			sb.WriteString("[1,2]")
		case "entry-bool":
			sb.WriteString("true")
		default:
			fmt.Fprintf(&sb, `{"secret":{"Value":"%s","Version":%d},"lastAccess":"%d"}`,
				base64.StdEncoding.EncodeToString(c10Val(e.Val)), e.Ver, e.Last)
		}
	}
	sb.WriteByte('}')
	return []byte(sb.String())
}

// a document written by the store, decoded generically
type c10DocEnt struct {
	Name string `json:"n"`
	Null bool   `json:"null,omitempty"`
	Ver  uint32 `json:"ver,omitempty"`
	Val  uint64 `json:"val,omitempty"`
	Last int64  `json:"last"`
}

func c10ParseDoc(data []byte) ([]c10DocEnt, bool) {
	var raw map[string]*struct {
		Secret *struct {
			Value   []byte
			Version uint32
		} `json:"secret"`
		LastAccess string `json:"lastAccess"`
	}
	if err := json.Unmarshal(data, &raw); err != nil {
		return nil, false
	}
	var out []c10DocEnt
	for _, k := range sortedKeys(raw) {
		e := raw[k]
		if e == nil || e.Secret == nil {
			out = append(out, c10DocEnt{Name: k, Null: true})
			continue
		}
		la, err := strconv.ParseInt(e.LastAccess, 10, 64)
		if err != nil {
			return nil, false
		}
		out = append(out, c10DocEnt{Name: k, Ver: e.Secret.Version, Val: c10Tok(e.Secret.Value), Last: la})
	}
	return out, true
}

func coqZ(z int64) string { return fmt.Sprintf("(%d)%%Z", z) }

func c10CoqDoc(d []c10DocEnt) string {
	parts := make([]string, len(d))
	for i, e := range d {
		if e.Null {
			parts[i] = "ONull " + coqBytes([]byte(e.Name))
		} else {
			parts[i] = fmt.Sprintf("OD %s %d %d %s", coqBytes([]byte(e.Name)), e.Ver, e.Val, coqZ(e.Last))
		}
	}
	return coqList(parts)
}

func c10CoqDocs(ws [][]byte) (string, [][]c10DocEnt) {
	parts := make([]string, len(ws))
	var docs [][]c10DocEnt
	for i, w := range ws {
		d, ok := c10ParseDoc(w)
		if !ok {
			d = []c10DocEnt{{Name: "<undecodable>", Null: true}}
		}
		docs = append(docs, d)
		parts[i] = c10CoqDoc(d)
	}
	return coqList(parts), docs
}

// ---- observation ----

type c10Obs struct {
	Class     string           `json:"class"` // ok | err | panic
	T         int64            `json:"t"`
	T0        int64            `json:"t0"`
	Reqs      []c10Req         `json:"reqs,omitempty"`
	Writes    [][]c10DocEnt    `json:"writes,omitempty"`
	PReqs     []c10PReq        `json:"preqs,omitempty"`
	POK       bool             `json:"pok,omitempty"`
	PWrites   [][]c10DocEnt    `json:"pwrites,omitempty"`
	Vals      map[string]int64 `json:"vals,omitempty"`       // -1 = nil handle
	Fields    []int64          `json:"fields,omitempty"`     // the tagged struct fields (tokens), struct by struct, field by field
	Sent      int              `json:"sent,omitempty"`       // which api sentinel the returned error is: 1 not found, 2 access denied, 3 not changed
	BadHandle string           `json:"bad_handle,omitempty"` // sanity pass: a known name whose handle panics
}

func c10Declared(in c10Input) []string {
	return append(append([]string(nil), in.Names...), c10StructNames(in)...)
}

func c10Distinct(names []string) []string {
	m := map[string]bool{}
	for _, n := range names {
		m[n] = true
	}
	return sortedKeys(m)
}

// c10Rounds splits the request log into rounds: a round ends when a name comes again.
func c10Rounds(log []c10Req) [][]string {
	var out [][]string
	var cur []string
	seen := map[string]bool{}
	for _, r := range log {
		if seen[r.Name] {
			out = append(out, cur)
			cur, seen = nil, map[string]bool{}
		}
		seen[r.Name] = true
		cur = append(cur, r.Name)
	}
	if cur != nil {
		out = append(out, cur)
	}
	return out
}

// a NewStore that issues more requests than this in one call is treated as not returning
const c10ReqCap = 3000

const c10Epoch = 946684800 // the bubble's clock starts at 2000-01-01T00:00:00Z

// c10Scenario runs one NewStore.  With probe=false the declared values are read right after
// construction (sanity: every handle must work); with probe=true a poll is run first.
func c10Scenario(t *testing.T, in c10Input, work string, idx int, probe bool) (obs c10Obs, direct *DirectVerdict) {
	epoch := time.Now()
	if epoch.Unix() != c10Epoch {
		return obs, &DirectVerdict{OK: false, What: "unexpected bubble epoch"}
	}
	if in.StartMs > 0 {
		time.Sleep(time.Duration(in.StartMs) * time.Millisecond)
	}
	cli := &c10Client{epoch: epoch, strict: in.Strict, scripts: map[string]c10Script{}, count: map[string]int{}, probe: map[string]c10ProbeEnt{}}
	for _, s := range in.Scripts {
		cli.scripts[s.Name] = s
	}
	for _, p := range in.Probe {
		cli.probe[p.Name] = p
	}
	cfg := setec.StoreConfig{
		Secrets: append([]string(nil), in.Names...), AllowLookup: in.Allow, PollInterval: -1,
		ExpiryAge: time.Duration(in.AgeS) * time.Second,
		Logf:      func(string, ...any) {},
	}
	var readers []func() []int64
	for _, sp := range c10Structs(in) {
		v, rd := c10NewStruct(sp)
		cfg.Structs = append(cfg.Structs, setec.Struct{Value: v, Prefix: c10Prefixes[sp.Prefix%len(c10Prefixes)]})
		readers = append(readers, rd)
	}
	switch in.Client {
	case "script":
		cfg.Client = cli
	case "http":
		cfg.Client = setec.Client{Server: "http://setec.invalid", DoHTTP: cli.transport}
	case "file":
		bs := c10FileJSON(c10File(in))
		path := filepath.Join(work, fmt.Sprintf("c10-file-%d.json", idx%8))
		if err := os.WriteFile(path, bs, 0600); err != nil {
			return obs, &DirectVerdict{OK: false, What: "write file: " + err.Error()}
		}
		fc, err := setec.NewFileClient(path)
		for _, e := range c10File(in) {
			if e.Kind == "vernegative" {
				// a negative version is not a version at all: the file must be refused, there is no client to build a store on
				obs.Class = "nofileclient"
				if err == nil {
					return obs, &DirectVerdict{OK: false, What: "NewFileClient accepted a file with a negative version"}
				}
				return obs, &DirectVerdict{OK: true, What: "NewFileClient refused the file"}
			}
		}
		if err != nil {
			return obs, &DirectVerdict{OK: false, What: "NewFileClient: " + err.Error()}
		}
		cfg.Client = fc
	}
	var cache *c10Cache
	switch in.Cache {
	case "empty":
		cache = &c10Cache{}
	case "garbage":
		cache = &c10Cache{data: []byte(`{"a":{"secret":{"Value":"AAAA","Version":1},"lastAccess":"7"`)}
	case "doc", "typeerr":
		cache = &c10Cache{data: c10CacheJSON(in.CacheDoc)}
	}
	if cache != nil {
		cfg.Cache = cache
	}
	var ctx context.Context
	var cancel context.CancelFunc
	switch {
	case in.DeadlineUs < 0:
		// a context WITHOUT a deadline (ctx.Deadline() reports none), cancelled only by the scenario: a watchdog
		// (not told to the model) cancels it after 3 h of virtual time; a correct store returns long before
		var c0 context.CancelFunc
		ctx, c0 = context.WithCancel(context.Background())
		wd := time.AfterFunc(3*time.Hour, c0)
		cancel = func() { wd.Stop(); c0() }
	case in.DeadlineUs == 0:
		ctx, cancel = context.WithCancel(context.Background())
		cancel()
	default:
		ctx, cancel = context.WithTimeout(context.Background(), time.Duration(in.DeadlineUs)*time.Microsecond)
	}
	defer cancel()

	obs.T0 = int64(time.Since(epoch))
	var st *setec.Store
	var err error
	panicked := func() (p bool) {
		defer func() {
			if r := recover(); r != nil {
				p = true
			}
		}()
		st, err = newStoreReleased(ctx, cfg)
		return false
	}()
	obs.T = int64(time.Since(epoch))
	obs.Reqs = append([]c10Req(nil), cli.log...)
	if panicked {
		obs.Class = "panic"
		return obs, &DirectVerdict{OK: false, What: "NewStore panicked, or kept requesting without end (request cap)"}
	}
	if in.DeadlineUs >= 0 {
		// every client used here reacts to the end of its context at once, so the call must be back by then
		if limit := obs.T0 + in.DeadlineUs*1000; obs.T > limit && obs.T > obs.T0 {
			obs.Class = "late"
			if st != nil {
				st.Close()
			}
			return obs, &DirectVerdict{OK: false, What: fmt.Sprintf("NewStore returned %v after its context had ended (context end at +%v, return at +%v)",
				time.Duration(obs.T-limit), time.Duration(limit-obs.T0), time.Duration(obs.T-obs.T0))}
		}
	}
	if err != nil {
		obs.Class = "err"
		switch {
		case errors.Is(err, api.ErrNotFound):
			obs.Sent = 1
		case errors.Is(err, api.ErrAccessDenied):
			obs.Sent = 2
		case errors.Is(err, api.ErrValueNotChanged):
			obs.Sent = 3
		}
		if st != nil {
			return obs, &DirectVerdict{OK: false, What: "NewStore returned both a store and an error"}
		}
		return obs, nil
	}
	obs.Class = "ok"
	defer st.Close()
	if cache != nil {
		_, obs.Writes = c10CoqDocs(cache.writes)
		cache.writes = nil
	}
	if probe && in.Client != "file" {
		// (the order in which the store visits its map differs from run to run, so the sanity pass may have met a
		// complete store where this one is not) a declared name that was neither fetched successfully nor offered by
		// the cache cannot have a value: say so instead of letting the poll below dereference the stub in a goroutine
		// nobody can recover from
		got := map[string]bool{}
		for _, rq := range obs.Reqs {
			if rq.Ver != 0 {
				got[rq.Name] = true
			}
		}
		if in.Cache == "doc" {
			for _, e := range in.CacheDoc {
				if e.Kind == "ok" {
					got[e.Name] = true
				}
			}
		}
		for _, n := range c10Distinct(c10Declared(in)) {
			if !got[n] {
				return obs, &DirectVerdict{OK: false, What: fmt.Sprintf("NewStore succeeded although the declared secret %q was neither in the cache nor ever fetched successfully", n)}
			}
		}
	}
	if probe {
		// probe poll
		time.Sleep(time.Duration(in.ProbeDtS) * time.Second)
		obs.POK = st.Refresh(context.Background()) == nil
		obs.PReqs = append([]c10PReq(nil), cli.plog...)
		if cache != nil {
			_, obs.PWrites = c10CoqDocs(cache.writes)
		}
	}
	// values served
	obs.Vals = map[string]int64{}
	for _, n := range c10Distinct(c10Declared(in)) {
		func() {
			obs.Vals[n] = -2 // stays if Secret or the handle panics
			defer func() { recover() }()
			sec := st.Secret(n)
			if sec == nil {
				obs.Vals[n] = -1
				return
			}
			obs.Vals[n] = int64(c10Tok(sec.Get()))
		}()
	}
	if !probe {
		// sanity pass only: every name the cache document mentioned, if the store knows it, must have a
		// working handle too (an entry without a secret would make the next poll panic in a goroutine
		// nobody can recover from)
		for _, e := range in.CacheDoc {
			n := e.Name
			if _, done := obs.Vals[n]; done {
				continue
			}
			var sec setec.Secret
			func() {
				defer func() { recover() }() // unknown name with lookups disabled
				sec = st.Secret(n)
			}()
			if sec == nil {
				continue
			}
			func() {
				defer func() {
					if r := recover(); r != nil {
						obs.BadHandle = n
					}
				}()
				sec.Get()
			}()
		}
	}
	// the struct fields were populated at construction
	for _, rd := range readers {
		obs.Fields = append(obs.Fields, rd()...)
	}
	return obs, nil
}

// ---- Gallina ----

func c10CoqNames(ns []string) string {
	parts := make([]string, len(ns))
	for i, n := range ns {
		parts[i] = coqBytes([]byte(n))
	}
	return coqList(parts)
}

func c10CoqAns(a c10Ans) string {
	if a.HTTP != "" {
		body := "None"
		status := a.HTTP
		switch a.HTTP {
		case "hang":
			return "AHang"
		case "200":
			body = fmt.Sprintf("(Some (%d,%d))", a.Ver, a.Val)
		case "garbage":
			status = "200"
		}
		return fmt.Sprintf("AH %d %s %s", a.LatMs*1000000, status, body)
	}
	if a.Ver == 0 {
		kind := 0
		switch a.Err {
		case "notfound":
			kind = 1
		case "denied":
			kind = 2
		}
		return fmt.Sprintf("AF %d %d", a.LatMs*1000000, kind)
	}
	return fmt.Sprintf("A %d %d %d", a.LatMs*1000000, a.Ver, a.Val)
}

func c10CoqReqs(rs []c10Req) string {
	parts := make([]string, len(rs))
	for i, r := range rs {
		out := "None"
		if r.Ver != 0 {
			out = fmt.Sprintf("(Some (%d,%d))", r.Ver, r.Val)
		}
		parts[i] = fmt.Sprintf("OR %s %d %d %s", coqBytes([]byte(r.Name)), r.Ts, r.Te, out)
	}
	return coqList(parts)
}

func c10Coq(in c10Input, obs c10Obs) string {
	if in.Client == "file" {
		fe := c10File(in)
		parts := make([]string, len(fe))
		for i, e := range fe {
			parts[i] = c10CoqFileEnt(e)
		}
		return "FileCase " + coqList(parts) + " (" + c10CoqCase(in, obs) + ")"
	}
	return c10CoqCase(in, obs)
}

func c10CoqCase(in c10Input, obs c10Obs) string {
	var sb strings.Builder
	hasCache := in.Cache != "none"
	fmt.Fprintf(&sb, "Case (Cf %s %s %s %s %s %s) ", coqBool(in.Client != "none"), coqBool(in.Client == "file"),
		c10CoqNames(c10Declared(in)), coqBool(in.Allow), coqBool(hasCache), coqZ(in.AgeS*1000000000))
	if in.Cache == "doc" {
		parts := make([]string, len(in.CacheDoc))
		for i, e := range in.CacheDoc {
			switch e.Kind {
			case "null":
				parts[i] = "CNull " + coqBytes([]byte(e.Name))
			case "nosecret":
				parts[i] = fmt.Sprintf("CNoSecret %s %s", coqBytes([]byte(e.Name)), coqZ(e.Last))
			default:
				parts[i] = fmt.Sprintf("CV %s %d %d %s", coqBytes([]byte(e.Name)), e.Ver, e.Val, coqZ(e.Last))
			}
		}
		sb.WriteString("(Some " + coqList(parts) + ") ")
	} else {
		sb.WriteString("None ")
	}
	parts := make([]string, len(in.Scripts))
	for i, s := range in.Scripts {
		seq := make([]string, len(s.Seq))
		for j, a := range s.Seq {
			seq[j] = c10CoqAns(a)
		}
		sq := coqList(seq)
		if s.Down > 0 {
			sq = fmt.Sprintf("(Rep %d (%s) %s)", s.Down, c10CoqAns(s.DownAns), sq)
		}
		parts[i] = fmt.Sprintf("(%s,(%s,%s))", coqBytes([]byte(s.Name)), sq, c10CoqAns(s.Tail))
	}
	sb.WriteString(coqList(parts) + " ")
	sb.WriteString(coqBool(in.Strict) + " ")
	switch {
	case in.DeadlineUs < 0:
		sb.WriteString("None ")
	default:
		fmt.Fprintf(&sb, "(Some %d) ", obs.T0+in.DeadlineUs*1000)
	}
	fmt.Fprintf(&sb, "%d %s ", obs.T0, coqZ(c10Epoch))
	rounds := c10Rounds(obs.Reqs)
	rp := make([]string, len(rounds))
	for i, r := range rounds {
		rp[i] = c10CoqNames(r)
	}
	sb.WriteString(coqList(rp) + " ")
	sb.WriteString(c10CoqNames(c10StructNames(in)) + " ")
	fmt.Fprintf(&sb, "%d ", in.ProbeDtS*1000000000)
	pp := make([]string, len(in.Probe))
	for i, p := range in.Probe {
		if p.Absent {
			pp[i] = fmt.Sprintf("(%s,None)", coqBytes([]byte(p.Name)))
		} else {
			pp[i] = fmt.Sprintf("(%s,Some (%d,%d))", coqBytes([]byte(p.Name)), p.Ver, p.Val)
		}
	}
	sb.WriteString(coqList(pp) + " ")
	if obs.Class != "ok" {
		fmt.Fprintf(&sb, "(ObsErr %d %s %d)", obs.T, c10CoqReqs(obs.Reqs), obs.Sent)
		return sb.String()
	}
	docs := func(ds [][]c10DocEnt) string {
		p := make([]string, len(ds))
		for i, d := range ds {
			p[i] = c10CoqDoc(d)
		}
		return coqList(p)
	}
	pr := make([]string, len(obs.PReqs))
	for i, p := range obs.PReqs {
		pr[i] = fmt.Sprintf("(%s,%d)", coqBytes([]byte(p.Name)), p.Old)
	}
	var vals, fields []string
	for _, k := range sortedKeys(obs.Vals) {
		v := obs.Vals[k]
		o := "None"
		if v >= 0 {
			o = fmt.Sprintf("(Some %d)", v)
		}
		vals = append(vals, fmt.Sprintf("(%s,%s)", coqBytes([]byte(k)), o))
	}
	for _, v := range obs.Fields {
		fields = append(fields, fmt.Sprintf("(Some %d)", v))
	}
	fmt.Fprintf(&sb, "(ObsOk %d %s %s %s %s %s %s %s)", obs.T, c10CoqReqs(obs.Reqs), docs(obs.Writes),
		coqList(pr), coqBool(obs.POK), docs(obs.PWrites), coqList(vals), coqList(fields))
	return sb.String()
}

// ---- generator ----

var c10Pool = []string{"a", "b", "c", "db/pw", "k1", "x/y/z", "tok", "p/ta", "p/tb", "zz"}

func c10Pick(r *rand.Rand, xs []int64) int64 { return xs[r.IntN(len(xs))] }

func c10GenAns(r *rand.Rand, ok bool) c10Ans {
	a := c10Ans{}
	switch r.IntN(10) {
	case 0, 1:
		a.LatMs = 1 + int64(r.IntN(3))
	case 2:
		a.LatMs = c10Pick(r, []int64{40, 500, 1300})
	}
	if ok {
		a.Ver = 1 + uint32(r.IntN(9))
		a.Val = 1 + r.IntN(c10MaxTok)
	} else {
		a.Err = []string{"notfound", "denied", "other"}[r.IntN(3)]
	}
	return a
}

// c10GenMany: MANY declared names (17, 33, 41, 64), none of them cached, a healthy service (or one transient
// failure): every name must be requested in the first round, NewStore succeeds only with all values, and the
// handle of every name is read afterwards
func c10GenMany(r *rand.Rand) c10Input {
	in := c10Input{Client: []string{"script", "script", "http"}[r.IntN(3)], Cache: []string{"none", "empty", "doc"}[r.IntN(3)], DeadlineUs: -1}
	n := int(c10Pick(r, []int64{17, 17, 33, 33, 41, 64}))
	in.Many = n
	for i := 0; i < n; i++ {
		in.Names = append(in.Names, fmt.Sprintf("m/%02d", i))
	}
	r.Shuffle(n, func(i, j int) { in.Names[i], in.Names[j] = in.Names[j], in.Names[i] })
	if in.Cache == "doc" { // a few of them cached, most not
		for i := 0; i < 3; i++ {
			in.CacheDoc = append(in.CacheDoc, c10CacheEnt{Name: fmt.Sprintf("m/%02d", r.IntN(n)/3*3+i%3), Kind: "ok", Ver: 1 + uint32(r.IntN(9)), Val: 1 + r.IntN(c10MaxTok), Last: c10Epoch})
		}
		seen := map[string]bool{}
		var cd []c10CacheEnt
		for _, e := range in.CacheDoc {
			if !seen[e.Name] {
				seen[e.Name] = true
				cd = append(cd, e)
			}
		}
		in.CacheDoc = cd
	}
	flaky := -1
	if r.IntN(2) == 0 {
		flaky = r.IntN(n)
	}
	for i := 0; i < n; i++ {
		sc := c10Script{Name: fmt.Sprintf("m/%02d", i), Tail: c10Ans{Ver: 1 + uint32(r.IntN(9)), Val: 1 + r.IntN(c10MaxTok)}}
		if in.Client == "http" {
			sc.Tail.HTTP = "200"
		}
		if i == flaky {
			f := c10Ans{Err: "other"}
			if in.Client == "http" {
				f = c10Ans{HTTP: "500"}
			}
			sc.Seq = []c10Ans{f}
		}
		in.Scripts = append(in.Scripts, sc)
	}
	in.ProbeDtS = c10Pick(r, []int64{0, 2})
	return in
}

// c10GenEmptyCached: a COMPLETE cache in which one secret legitimately has the EMPTY value (version > 0, Value ""),
// and a service that is unreachable: NewStore must return at once, with no request, and serve the empty bytes
func c10GenEmptyCached(r *rand.Rand) c10Input {
	in := c10Input{Client: []string{"script", "http"}[r.IntN(2)], Cache: "doc", EmptyCached: true}
	in.DeadlineUs = c10Pick(r, []int64{-1, 5000500, 20000500})
	n := 1 + r.IntN(4)
	perm := r.Perm(len(c10Pool))
	empty := r.IntN(n)
	for i := 0; i < n; i++ {
		nm := c10Pool[perm[i]]
		in.Names = append(in.Names, nm)
		e := c10CacheEnt{Name: nm, Kind: "ok", Ver: 1 + uint32(r.IntN(9)), Val: 1 + r.IntN(c10MaxTok), Last: c10Pick(r, []int64{0, c10Epoch - 20, c10Epoch})}
		if i == empty {
			e.Val = c10EmptyTok
		}
		in.CacheDoc = append(in.CacheDoc, e)
		down := c10Ans{Err: "other"}
		if in.Client == "http" {
			down = c10Ans{HTTP: []string{"500", "hang"}[r.IntN(2)]}
			if in.DeadlineUs < 0 {
				down.HTTP = "500"
			}
		}
		in.Scripts = append(in.Scripts, c10Script{Name: nm, Tail: down})
	}
	if r.IntN(3) == 0 { // an undeclared cached secret with an empty value as well
		in.CacheDoc = append(in.CacheDoc, c10CacheEnt{Name: c10Pool[perm[n]], Kind: "ok", Ver: 2, Val: c10EmptyTok, Last: c10Epoch})
	}
	in.Allow = r.IntN(2) == 0
	in.ProbeDtS = c10Pick(r, []int64{0, 2})
	return in
}

func c10Gen(r *rand.Rand) c10Input {
	switch r.IntN(40) {
	case 0, 1:
		return c10GenMany(r)
	case 2:
		return c10GenEmptyCached(r)
	}
	in := c10Input{Client: "script", Cache: "none", DeadlineUs: -1}
	// names
	n := 1 + r.IntN(5)
	perm := r.Perm(len(c10Pool))
	for i := 0; i < n; i++ {
		in.Names = append(in.Names, c10Pool[perm[i]])
	}
	if r.IntN(3) == 0 {
		in.Names = append(in.Names, in.Names[r.IntN(len(in.Names))])
		r.Shuffle(len(in.Names), func(i, j int) { in.Names[i], in.Names[j] = in.Names[j], in.Names[i] })
	}
	in.Allow = r.IntN(3) == 0
	// StoreConfig.Structs: 0 (70%), 1, 2 or 3 entries; struct types with overlapping ("ta") and disjoint tags,
	// equal (half of the time) or different prefixes; sometimes no cfg.Secrets next to them
	if k := r.IntN(20); k >= 14 {
		ns := 1
		if k >= 16 {
			ns = 2
		}
		if k >= 19 {
			ns = 3
		}
		for i := 0; i < ns; i++ {
			sp := c10StructSpec{Type: r.IntN(len(c10StructTags)), Prefix: r.IntN(len(c10Prefixes))}
			if i > 0 && r.IntN(2) == 0 {
				sp.Prefix = in.Structs[0].Prefix
			}
			in.Structs = append(in.Structs, sp)
		}
		if r.IntN(3) == 0 {
			in.Names = nil
		}
	}
	switch r.IntN(40) {
	case 0:
		in.Client = "none"
	case 1:
		in.Names = append(in.Names, "")
	case 2:
		in.Names, in.Structs, in.Allow = nil, nil, false
	case 3, 4:
		in.Names, in.Structs, in.Allow = nil, nil, true
	}
	if in.Client != "none" {
		switch r.IntN(5) {
		case 0:
			in.Client = "file"
		case 1:
			in.Client = "http" // the real setec.Client over a scripted HTTP transport
		}
	}
	in.AgeS = c10Pick(r, []int64{0, 0, 1, 30, 100000})
	in.ProbeDtS = c10Pick(r, []int64{0, 2, 40})
	in.StartMs = c10Pick(r, []int64{0, 0, 300, 1700})
	in.Strict = r.IntN(2) == 0 && (in.Client == "script" || in.Client == "http")
	declared := c10Distinct(c10Declared(in))
	// cache
	stamp := func() int64 {
		return c10Pick(r, []int64{0, 0, c10Epoch - 100000, c10Epoch - 20, c10Epoch, c10Epoch + 1, c10Epoch + 5000, -7})
	}
	switch k := r.IntN(20); {
	case k < 4:
	case k < 6:
		in.Cache = "empty"
	case k < 7:
		in.Cache = "garbage"
	case k < 11:
		// well-formed JSON with a type error in one entry, after / between / before valid entries:
		// the decode fails, so the whole cache must be ignored and every declared name fetched
		in.Cache = "typeerr"
		var good []c10CacheEnt
		for _, nm := range declared {
			if nm != "" && r.IntN(4) != 0 {
				good = append(good, c10CacheEnt{Name: nm, Kind: "ok", Ver: 1 + uint32(r.IntN(9)), Val: 1 + r.IntN(c10MaxTok), Last: stamp()})
			}
		}
		for _, nm := range c10Pool {
			if r.IntN(8) == 0 && !contains(declared, nm) {
				good = append(good, c10CacheEnt{Name: nm, Kind: "ok", Ver: 1 + uint32(r.IntN(9)), Val: 1 + r.IntN(c10MaxTok), Last: stamp()})
			}
		}
		r.Shuffle(len(good), func(i, j int) { good[i], good[j] = good[j], good[i] })
		bad := c10CacheEnt{Name: "bad", Kind: c10BadKinds[r.IntN(len(c10BadKinds))], Ver: 1 + uint32(r.IntN(9)), Val: 1 + r.IntN(c10MaxTok), Last: stamp()}
		if len(good) > 0 && r.IntN(2) == 0 { // the damaged entry is one of the declared/cached names themselves
			j := r.IntN(len(good))
			bad.Name = good[j].Name
			good = append(good[:j], good[j+1:]...)
		} else if len(declared) > 0 && declared[0] != "" && r.IntN(3) == 0 && !c10HasEnt(good, declared[0]) {
			bad.Name = declared[0]
		}
		pos := len(good) // last
		switch r.IntN(3) {
		case 0:
			pos = 0
		case 1:
			pos = len(good) / 2
		}
		in.CacheDoc = append(append(append([]c10CacheEnt(nil), good[:pos]...), bad), good[pos:]...)
	default:
		in.Cache = "doc"
		mode := r.IntN(10) // 0-3 partial, 4-7 complete, 8-9 invalid
		for _, nm := range declared {
			if nm == "" {
				continue
			}
			if mode >= 4 || r.IntN(2) == 0 {
				in.CacheDoc = append(in.CacheDoc, c10CacheEnt{Name: nm, Kind: "ok", Ver: 1 + uint32(r.IntN(9)), Val: 1 + r.IntN(c10MaxTok), Last: stamp()})
			}
		}
		if len(in.CacheDoc) > 0 && r.IntN(8) == 0 {
			in.CacheDoc[r.IntN(len(in.CacheDoc))].Val = c10EmptyTok
		}
		for _, nm := range c10Pool { // undeclared extras
			if r.IntN(6) == 0 && !contains(declared, nm) {
				in.CacheDoc = append(in.CacheDoc, c10CacheEnt{Name: nm, Kind: "ok", Ver: 1 + uint32(r.IntN(9)), Val: 1 + r.IntN(c10MaxTok), Last: stamp()})
			}
		}
		if mode >= 8 {
			switch r.IntN(3) {
			case 0:
				in.CacheDoc = append(in.CacheDoc, c10CacheEnt{Name: "nul", Kind: "null"})
			case 1:
				in.CacheDoc = append(in.CacheDoc, c10CacheEnt{Name: "nos", Kind: "nosecret", Last: stamp()})
			default:
				in.CacheDoc = append(in.CacheDoc, c10CacheEnt{Name: "", Kind: "ok", Ver: 3, Val: 5, Last: stamp()})
			}
		}
		r.Shuffle(len(in.CacheDoc), func(i, j int) { in.CacheDoc[i], in.CacheDoc[j] = in.CacheDoc[j], in.CacheDoc[i] })
	}
	// deadline
	if r.IntN(20) < 11 || (in.Client == "http" && r.IntN(2) == 0) {
		in.DeadlineUs = c10Pick(r, []int64{0, 500, 1500, 2500, 6500, 14500, 100500, 1000500, 5000500, 9000500, 20000500})
	}
	// scripts
	forever := false
	fileClean := r.IntN(5) < 2
	for _, nm := range declared {
		s := c10Script{Name: nm}
		if in.Client == "file" {
			// the name's member of the file: usable (binary, text, both), one of the unusable kinds, or absent;
			// in "clean" files (2 of 5) every declared name is usable
			e := c10FileEnt{Name: nm, Ver: 1 + uint32(r.IntN(9)), Val: 1 + r.IntN(c10MaxTok), TVal: 1 + r.IntN(c10MaxTok)}
			switch k := r.IntN(20); {
			case k < 6 || (fileClean && k < 12):
				e.Kind = "value"
			case k < 9 || (fileClean && k < 18):
				e.Kind = "text"
			case k < 10 || fileClean:
				e.Kind = "both"
			case k < 12:
				e.Kind = "" // absent
			default:
				e.Kind = c10FileUnusable[r.IntN(len(c10FileUnusable))]
			}
			if e.Kind != "" && nm != "" {
				in.File = append(in.File, e)
			}
			continue
		}
		nfail := int(c10Pick(r, []int64{0, 0, 0, 0, 1, 1, 2, 3, 5, 8, 14}))
		for i := 0; i < nfail; i++ {
			s.Seq = append(s.Seq, c10GenAns(r, false))
		}
		if in.DeadlineUs >= 0 && r.IntN(6) == 0 {
			s.Tail = c10GenAns(r, false)
			forever = true
		} else {
			s.Tail = c10GenAns(r, true)
			if r.IntN(4) == 0 { // flapping service: succeeds, would fail again later (must never be asked again)
				s.Seq = append(s.Seq, s.Tail)
				s.Tail = c10GenAns(r, false)
			}
		}
		in.Scripts = append(in.Scripts, s)
	}
	if in.Client == "http" {
		// the scripts become HTTP exchanges; with a deadline ahead some request meets a server that never answers
		conv := func(a c10Ans) c10Ans {
			if a.Ver != 0 {
				a.HTTP = "200"
			} else {
				a.HTTP, a.Err = []string{"404", "403", "500", "500", "garbage", "304"}[r.IntN(6)], ""
			}
			if r.IntN(8) == 0 {
				a.LatMs = c10Pick(r, []int64{2, 40, 700, 1300, 3000})
			}
			return a
		}
		for i := range in.Scripts {
			for j := range in.Scripts[i].Seq {
				in.Scripts[i].Seq[j] = conv(in.Scripts[i].Seq[j])
			}
			in.Scripts[i].Tail = conv(in.Scripts[i].Tail)
		}
		if in.DeadlineUs >= 0 && len(in.Scripts) > 0 && r.IntN(3) != 0 {
			sc := &in.Scripts[r.IntN(len(in.Scripts))]
			if k := r.IntN(len(sc.Seq) + 1); k < len(sc.Seq) {
				sc.Seq[k] = c10Ans{HTTP: "hang"}
			} else {
				sc.Tail = c10Ans{HTTP: "hang"}
			}
		}
	}
	if in.Client != "file" && in.Client != "none" && len(in.Scripts) > 0 && r.IntN(20) == 0 {
		// a long outage under a context WITHOUT a deadline: one or two names are down for 4:59, 5:01, 10 or 31 minutes
		// of virtual time (hundreds of rounds at the 4096 ms cap), then the service recovers: NewStore must still be
		// retrying and return nil at the first round after the recovery
		in.DeadlineUs = -1
		in.OutageMs = c10Pick(r, []int64{299000, 301000, 301000, 600000, 1860000})
		fail := func() c10Ans {
			a := c10GenAns(r, false)
			a.LatMs = 0
			if in.Client == "http" {
				a.HTTP, a.Err = []string{"404", "403", "500", "garbage"}[r.IntN(4)], ""
			}
			return a
		}
		for i := range in.Scripts {
			sc := &in.Scripts[i]
			for j := range sc.Seq {
				sc.Seq[j].LatMs = 0
				if sc.Seq[j].HTTP == "hang" {
					sc.Seq[j] = fail()
				}
			}
			sc.Tail.LatMs = 0
			if sc.Tail.Ver == 0 { // every name recovers in the end
				sc.Tail = c10Ans{Ver: 1 + uint32(r.IntN(9)), Val: 1 + r.IntN(c10MaxTok)}
				if in.Client == "http" {
					sc.Tail.HTTP = "200"
				}
			}
			if i == 0 || (i == 1 && r.IntN(2) == 0) {
				sc.Down, sc.DownAns = c10RoundsBefore(in.OutageMs), fail()
				if len(sc.Seq) > 3 {
					sc.Seq = sc.Seq[:3]
				}
			}
		}
	}
	if in.Client == "file" {
		// the file may also hold names that are only cached (polled at the probe), usable or not
		for _, ce := range in.CacheDoc {
			if ce.Name == "" || contains(declared, ce.Name) {
				continue
			}
			switch r.IntN(5) {
			case 0, 1:
				in.File = append(in.File, c10FileEnt{Name: ce.Name, Kind: "value", Ver: 1 + uint32(r.IntN(9)), Val: 1 + r.IntN(c10MaxTok)})
			case 2:
				in.File = append(in.File, c10FileEnt{Name: ce.Name, Kind: c10FileUnusable[r.IntN(len(c10FileUnusable))], Ver: 1 + uint32(r.IntN(9)), Val: 1 + r.IntN(c10MaxTok), TVal: 2})
			}
		}
		r.Shuffle(len(in.File), func(i, j int) { in.File[i], in.File[j] = in.File[j], in.File[i] })
		if len(in.File) > 0 && r.IntN(25) == 0 {
			in.File[r.IntN(len(in.File))].Kind = "vernegative"
		}
	}
	if in.Client == "file" && in.DeadlineUs < 0 {
		// a file client must fail at once; the deadline only bounds a store that would keep retrying
		in.DeadlineUs = 10000500
	}
	_ = forever
	// probe: what the service holds at the probe poll
	known := append([]string(nil), declared...)
	for _, e := range in.CacheDoc {
		known = append(known, e.Name)
	}
	if in.Client != "file" { // (a file client answers the probe poll from its file)
		for _, nm := range c10Distinct(known) {
			if contains(c10StructNames(in), nm) {
				continue
			}
			switch r.IntN(12) {
			case 0:
				in.Probe = append(in.Probe, c10ProbeEnt{Name: nm, Ver: 1 + uint32(r.IntN(9)), Val: 1 + r.IntN(c10MaxTok)})
			case 1:
				if r.IntN(3) == 0 {
					in.Probe = append(in.Probe, c10ProbeEnt{Name: nm, Absent: true})
				}
			}
		}
	}
	return in
}

// c10RoundsBefore: how many rounds of initializeActive start before ms (rounds start at 0, 1, 3, 7, ..., 8191 ms,
// then every 4096 ms, when requests take no time)
func c10RoundsBefore(ms int64) int {
	n, t, w := 0, int64(0), int64(1)
	for t < ms {
		n++
		t += w
		if w < 4000 {
			w *= 2
		}
	}
	return n
}

func c10HasEnt(es []c10CacheEnt, n string) bool {
	for _, e := range es {
		if e.Name == n {
			return true
		}
	}
	return false
}

func contains(xs []string, x string) bool {
	for _, y := range xs {
		if x == y {
			return true
		}
	}
	return false
}

func c10Tags(in c10Input, obs c10Obs) []string {
	tags := []string{"client=" + in.Client, "cache=" + in.Cache, "outcome=" + obs.Class}
	if in.Client == "file" {
		decl := c10Distinct(c10Declared(in))
		cached := map[string]bool{}
		if in.Cache == "doc" {
			for _, e := range in.CacheDoc {
				cached[e.Name] = true
			}
		}
		inFile := map[string]string{}
		for _, e := range c10File(in) {
			inFile[e.Name] = e.Kind
			tags = append(tags, "file-entry="+e.Kind)
		}
		for _, n := range decl {
			k, ok := inFile[n]
			switch {
			case !ok:
				tags = append(tags, "file:declared-name-absent")
			case contains(c10FileUnusable, k):
				tags = append(tags, "file:declared-name-unusable")
				if cached[n] {
					tags = append(tags, "file:declared-name-unusable-but-cached")
				}
			}
		}
	}
	for _, sc := range in.Scripts {
		for _, x := range append(append([]c10Ans(nil), sc.Seq...), sc.Tail) {
			if x.HTTP == "hang" {
				tags = append(tags, "http-hang-scripted")
			}
		}
	}
	if obs.Class == "err" && in.DeadlineUs > 0 && len(obs.Reqs) > 0 {
		last := obs.Reqs[len(obs.Reqs)-1]
		switch {
		case last.Te == obs.T && last.Ts < last.Te:
			tags = append(tags, in.Client+":deadline-cut-a-request")
		case last.Ts == obs.T:
			tags = append(tags, in.Client+":deadline-in-a-wait")
		}
	}
	if in.Cache == "typeerr" {
		for i, e := range in.CacheDoc {
			if e.Kind != "ok" {
				pos := "middle"
				if i == 0 {
					pos = "first"
				} else if i == len(in.CacheDoc)-1 {
					pos = "last"
				}
				tags = append(tags, "typeerr="+e.Kind, "typeerr-pos="+pos)
				if contains(c10Distinct(c10Declared(in)), e.Name) {
					tags = append(tags, "typeerr-in-declared-name")
				}
			}
		}
	}
	if in.DeadlineUs >= 0 {
		tags = append(tags, "deadline")
	}
	if len(c10Rounds(obs.Reqs)) > 1 {
		tags = append(tags, "retried")
	}
	if len(obs.Reqs) == 0 && obs.Class == "ok" {
		tags = append(tags, "silent")
	}
	if len(obs.Writes) > 0 {
		tags = append(tags, "flushed")
	}
	if len(obs.PWrites) > 0 {
		tags = append(tags, "probe-changed")
	}
	if n := len(c10Structs(in)); n > 0 {
		tags = append(tags, fmt.Sprintf("structs=%d", n))
		if n > 1 {
			tags = append(tags, "multi-struct")
			if len(in.Names) == 0 {
				tags = append(tags, "multi-struct:no-cfg.Secrets")
			}
			if in.Allow {
				tags = append(tags, "multi-struct:lookups-on")
			} else {
				tags = append(tags, "multi-struct:lookups-off")
			}
			sn := c10StructNames(in)
			if len(c10Distinct(sn)) < len(sn) {
				tags = append(tags, "multi-struct:overlapping-names")
			}
			for _, rq := range obs.Reqs {
				if rq.Ver == 0 && contains(sn, rq.Name) {
					tags = append(tags, "multi-struct:tagged-name-retried")
					break
				}
			}
		}
	}
	if in.Many > 0 {
		tags = append(tags, "many-names", fmt.Sprintf("many-names=%d", in.Many))
	}
	if in.EmptyCached {
		tags = append(tags, "empty-value-in-complete-cache")
		if obs.Class == "ok" && len(obs.Reqs) == 0 && obs.T == obs.T0 {
			tags = append(tags, "empty-value-in-complete-cache:silent-success")
		}
	}
	for _, e := range in.CacheDoc {
		if e.Kind == "ok" && e.Val == c10EmptyTok {
			tags = append(tags, "cache-entry-with-empty-value")
			break
		}
	}
	if in.OutageMs > 0 {
		tags = append(tags, "long-outage", fmt.Sprintf("long-outage=%v", time.Duration(in.OutageMs)*time.Millisecond))
		if obs.Class == "ok" && obs.T-obs.T0 > 5*60*1000000000 {
			tags = append(tags, "long-outage:success-after-minute-5")
		}
	}
	return tags
}

// c10Watchdog: a scenario that takes more than c10WatchdogLimit of REAL time (virtual time costs nothing)
// hangs; the run is ended with a verdict that carries the input, so that the replay is concrete.
const c10WatchdogLimit = 40 * time.Second

type c10Watchdog struct {
	mu    sync.Mutex
	since time.Time
	cur   *c10Input
}

func (w *c10Watchdog) begin(in c10Input) {
	w.mu.Lock()
	w.since, w.cur = time.Now(), &in
	w.mu.Unlock()
}

func (w *c10Watchdog) end() {
	w.mu.Lock()
	w.cur = nil
	w.mu.Unlock()
}

func c10StartWatchdog(out *Out) *c10Watchdog {
	w := &c10Watchdog{}
	go func() {
		for {
			time.Sleep(time.Second)
			w.mu.Lock()
			if w.cur != nil && time.Since(w.since) > c10WatchdogLimit {
				key, _ := json.Marshal(*w.cur)
				out.Emit(Record{Kind: "newstore", Input: *w.cur, Key: string(key),
					Direct: &DirectVerdict{OK: false, What: "NewStore (or the probe poll) did not return within 40 s of real time: hang"}})
				out.Close()
				os.Exit(0)
			}
			w.mu.Unlock()
		}
	}()
	return w
}

func runC10(o Opts) {
	n := 1500
	if o.Tier == "thorough" {
		n = 30000
	}
	if o.N > 0 {
		n = o.N
	}
	var inputs []c10Input
	var corpusN int
	if o.Replay != "" {
		inputs = readInputs[c10Input](o.Replay)
	} else {
		inputs = readCorpus[c10Input](o.Corpus)
		corpusN = len(inputs)
		r := NewRand(o.Seed, 10)
		for i := 0; i < n; i++ {
			inputs = append(inputs, c10Gen(r))
		}
	}
	work := o.Work
	if work == "" {
		work = os.TempDir()
	}
	inTest(func(t *testing.T) {
		out := NewOut(o.Out)
		selftests := 0
		wd := c10StartWatchdog(out)
		for i, in := range inputs {
			var obs c10Obs
			var direct *DirectVerdict
			wd.begin(in)
			run := func(probe bool) {
				// a panic raised by the bubble itself (deadlock: every goroutine blocked for good) is a verdict too
				defer func() {
					if r := recover(); r != nil {
						direct = &DirectVerdict{OK: false, What: fmt.Sprintf("scenario aborted: %v", r)}
					}
				}()
				bubble(t, func(t *testing.T) { obs, direct = c10Scenario(t, in, work, i, probe) })
			}
			run(false)
			bad := obs.BadHandle
			for _, k := range sortedKeys(obs.Vals) {
				if obs.Vals[k] == -2 {
					bad = k
				}
			}
			if direct == nil && bad != "" {
				direct = &DirectVerdict{OK: false, What: fmt.Sprintf("NewStore succeeded but Secret(%q) or its handle panics: the store holds an entry without a value", bad)}
			} else if direct == nil && obs.Class == "ok" {
				run(true)
			}
			wd.end()
			key, _ := json.Marshal(in)
			rec := Record{Kind: "newstore", Input: in, Obs: obs, Key: string(key), Tags: c10Tags(in, obs), Direct: direct}
			if direct == nil || obs.Class == "panic" {
				rec.Coq = c10Coq(in, obs)
			}
			rec.Nontrivial = len(obs.Reqs) > 0 || in.Cache == "doc" || in.Cache == "typeerr"
			if i < corpusN {
				rec.Corpus = fmt.Sprintf("corpus-%d", i)
			}
			out.Emit(rec)
			id := out.n - 1
			// self-tests: one observable altered
			if direct == nil && o.Replay == "" && selftests < 12 && i%7 == 3 {
				alt := obs
				what := ""
				switch {
				case obs.Class == "err":
					alt.T++
					what = "return instant"
				case len(obs.Reqs) > 0 && selftests%3 == 0:
					alt.Reqs = append([]c10Req(nil), obs.Reqs...)
					alt.Reqs[len(alt.Reqs)-1].Te++
					what = "request end instant"
				case len(obs.Vals) > 0 && selftests%3 == 1:
					alt.Vals = map[string]int64{}
					for k, v := range obs.Vals {
						alt.Vals[k] = v
					}
					k0 := sortedKeys(obs.Vals)[0]
					alt.Vals[k0] = alt.Vals[k0] + 1
					what = "value served"
				default:
					alt.T++
					what = "return instant"
				}
				selftests++
				out.Emit(Record{Kind: "selftest:" + what, Input: in, Obs: alt, Key: string(key), SelfTest: true, SelfOf: id, Coq: c10Coq(in, alt)})
			}
		}
		out.Close()
	})
}

var _ = sort.Strings
