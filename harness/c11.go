package main

// C11 - a successful poll brings every known secret to the server's active version.
//
// One real setec.Store per case runs inside a testing/synctest bubble against a scripted
// service.  Every request of every poll blocks until the driver releases it, so the driver
// controls (and records) the exact interleaving of: service changes (new versions,
// activation forwards and backwards, deletion, re-creation), failures at given request
// positions, handle creation/reads/lookups while a poll is in flight, and Refresh calls /
// ticker ticks that arrive while a poll is in flight.  The recorded timeline (with the
// OBSERVED request order: Go map iteration is random) is re-run through Client/Poll.v in the
// kernel.  A second case kind measures the cadence of the default ticker under virtual time.

import (
	"context"
	"encoding/json"
	"errors"
	"fmt"
	"math/rand/v2"
	"os"
	"sort"
	"strings"
	"sync"
	"testing"
	"testing/synctest"
	"time"

	"github.com/tailscale/setec/client/setec"
	"github.com/tailscale/setec/types/api"
)

func init() { commands["C11"] = runC11 }

// ---------------------------------------------------------------- inputs

type c11Input struct {
	Kind string `json:"kind"` // scn | cad
	// scn
	Names  []string   `json:"names,omitempty"`  // every name of the scenario
	NDecl  int        `json:"ndecl,omitempty"`  // Names[:NDecl] are declared in the StoreConfig
	Vers   []int      `json:"vers,omitempty"`   // initial number of versions per name
	Active []int      `json:"active,omitempty"` // initially active version per name (1-based)
	Cache  []c11CEnt  `json:"cache,omitempty"`  // start-up cache (nil = none)
	HasC   bool       `json:"has_cache,omitempty"`
	Allow  bool       `json:"allow,omitempty"`
	AgeS   int64      `json:"age_s,omitempty"`
	Ops    []c11Op    `json:"ops,omitempty"`
	// cad
	IntervalNs int64 `json:"interval_ns,omitempty"` // 0 = default (1h)
	Periods    int   `json:"periods,omitempty"`
	// cads (polls that take virtual time): per poll, its duration in permille of the interval
	NSec  int   `json:"nsec,omitempty"`
	Fracs []int `json:"fracs,omitempty"`
	// cw (a Cache.Write held on a gate): what runs while the poll's write is held
	Variant string `json:"variant,omitempty"` // lookup | lookup+refresh | refresh | close
	NChg    int    `json:"nchg,omitempty"`    // how many declared secrets have a pending change
	// two (two stores in one process whose polls overlap)
	NA     int  `json:"na,omitempty"`     // names only store A declares
	NB     int  `json:"nb,omitempty"`     // names only store B declares
	NShare int  `json:"nshare,omitempty"` // names both declare (served by two different services)
	HeldB  bool `json:"held_b,omitempty"` // the poll that is HELD is store B's (else A's)
	OTick  bool `json:"other_tick,omitempty"` // the other store's poll is started by its ticker
	JoinH  bool `json:"join_held,omitempty"`  // a second Refresh joins the held store's poll (must coalesce THERE)
	Rounds int  `json:"rounds,omitempty"`
}

type c11CEnt struct {
	N    int   `json:"n"`    // name index
	V    int   `json:"v"`    // cached version (1-based, <= Vers[n])
	Back int64 `json:"back"` // LastAccess = start - Back seconds; -1 means the stamp 0
}

type c11Op struct {
	K     string    `json:"k"`               // sleep srv secret read lookup refresh tick join jointick
	N     int       `json:"n,omitempty"`     // name index
	D     int64     `json:"d,omitempty"`     // sleep: nanoseconds
	Sub   string    `json:"sub,omitempty"`   // srv: new put act del
	V     int       `json:"v,omitempty"`     // srv act: which version (mod count)
	Fail  bool      `json:"fail,omitempty"`  // lookup: the fetch fails
	Hooks []c11Hook `json:"hooks,omitempty"` // refresh/tick: what happens before the request at each position is answered
}

type c11Hook struct {
	Pre  []c11Op `json:"pre,omitempty"`
	Fail int     `json:"fail,omitempty"` // 0 ok, 1 ErrNotFound, 2 ErrAccessDenied, 3 other error
	Full bool    `json:"full,omitempty"` // answer with the value even if the version is unchanged
	CA   int     `json:"cancel_after,omitempty"` // k+1: caller k's context ends right AFTER this request was answered (before the next is issued)
}

// ---------------------------------------------------------------- scripted service

type c11Sec struct {
	vers   map[uint32][]byte
	active uint32
	next   uint32
}

type c11Pending struct {
	name string
	old  uint32
	ctx  context.Context // the context the request was made on
	late bool            // the answer had arrived before the context ended: deliver it
	rel  chan c11Answer
}

type c11Answer struct {
	sv  *api.SecretValue
	err error
}

type c11Svc struct {
	mu      sync.Mutex
	secs    map[string]*c11Sec
	inc     map[string]int
	tok     map[string]uint64
	pend    []*c11Pending
	failGet bool
	reqT    []int64 // cad: virtual time of every conditional request
	gated   bool
	direct  bool    // cw: answer at once from the service state, log the request
	reqLog  []string // cw: Gallina terms of the requests answered, in order
	lat     func(poll int) time.Duration // cads: latency of each request of the poll-th poll
	nsec    int
	reqEnd  []int64 // cads: virtual time at which each request was answered
}

func c11NewSvc() *c11Svc {
	return &c11Svc{secs: map[string]*c11Sec{}, inc: map[string]int{}, tok: map[string]uint64{}}
}

func (s *c11Svc) put(name string) uint32 {
	sec := s.secs[name]
	if sec == nil {
		s.inc[name]++
		sec = &c11Sec{vers: map[uint32][]byte{}, next: 1}
		s.secs[name] = sec
	}
	v := sec.next
	sec.next++
	val := []byte(fmt.Sprintf("%s#%d.%d/%s", name, v, s.inc[name], strings.Repeat("z", int(v)%5)))
	sec.vers[v] = val
	s.tok[string(val)] = uint64(len(s.tok) + 1)
	if sec.active == 0 {
		sec.active = v
	}
	return v
}

func (s *c11Svc) token(b []byte) uint64 {
	if t, ok := s.tok[string(b)]; ok {
		return t
	}
	return 999999
}

// activeOf returns (version, token, present).
func (s *c11Svc) activeOf(name string) (uint32, uint64, bool) {
	sec := s.secs[name]
	if sec == nil {
		return 0, 0, false
	}
	return sec.active, s.token(sec.vers[sec.active]), true
}

func (s *c11Svc) Get(ctx context.Context, name string) (*api.SecretValue, error) {
	s.mu.Lock()
	defer s.mu.Unlock()
	if s.failGet {
		return nil, errors.New("scripted failure")
	}
	sec := s.secs[name]
	if sec == nil {
		return nil, api.ErrNotFound
	}
	return &api.SecretValue{Version: api.SecretVersion(sec.active), Value: append([]byte(nil), sec.vers[sec.active]...)}, nil
}

func (s *c11Svc) GetIfChanged(ctx context.Context, name string, old api.SecretVersion) (*api.SecretValue, error) {
	s.mu.Lock()
	if s.direct {
		defer s.mu.Unlock()
		v, tok, present := s.activeOf(name)
		respT := "re"
		var sv *api.SecretValue
		var err error = api.ErrNotFound
		if present && v == uint32(old) {
			err, respT = api.ErrValueNotChanged, "rn"
		} else if present {
			sv = &api.SecretValue{Version: api.SecretVersion(v), Value: append([]byte(nil), s.secs[name].vers[v]...)}
			err, respT = nil, fmt.Sprintf("(rv %d %d)", v, tok)
		}
		s.reqLog = append(s.reqLog, fmt.Sprintf("St (Q %s false false) [oq (Some %d) %s]", coqBytes([]byte(name)), old, respT))
		return sv, err
	}
	if !s.gated {
		// cadence cases: record the virtual time; answer at once or after the scripted latency
		idx := len(s.reqT)
		s.reqT = append(s.reqT, time.Now().UnixNano())
		s.reqEnd = append(s.reqEnd, 0)
		var d time.Duration
		if s.lat != nil {
			d = s.lat(idx / s.nsec)
		}
		s.mu.Unlock()
		if d > 0 {
			select {
			case <-time.After(d):
			case <-ctx.Done():
				return nil, ctx.Err()
			}
		}
		s.mu.Lock()
		s.reqEnd[idx] = time.Now().UnixNano()
		s.mu.Unlock()
		return nil, api.ErrValueNotChanged
	}
	p := &c11Pending{name: name, old: uint32(old), ctx: ctx, rel: make(chan c11Answer, 1)}
	s.pend = append(s.pend, p)
	s.mu.Unlock()
	// Every request is held until the driver releases it (the driver always does); a request whose
	// context has ended by then fails with that context's error, whatever the service would say.
	a := <-p.rel
	if err := ctx.Err(); err != nil && !p.late {
		return nil, err
	}
	return a.sv, a.err
}

func (s *c11Svc) takePending() *c11Pending {
	s.mu.Lock()
	defer s.mu.Unlock()
	if len(s.pend) == 0 {
		return nil
	}
	p := s.pend[0]
	s.pend = s.pend[1:]
	return p
}

// ---------------------------------------------------------------- cache and ticker

type c11Cache struct {
	mu     sync.Mutex
	data   []byte
	writes [][]byte
	failed map[int]bool // indices into writes of the documents whose Write was made to fail
	failNext bool       // the next Write fails (nothing reaches the cache)
	lastFailed map[int]bool
	nw       int
	// a write can be held on a gate: the document lands (is recorded) only when released
	armed   bool
	pending chan struct{}
	gate    chan struct{}
}

func (c *c11Cache) Read() ([]byte, error) { return c.data, nil }
func (c *c11Cache) Write(b []byte) error {
	c.mu.Lock()
	armed := c.armed
	c.armed = false
	c.mu.Unlock()
	if armed {
		c.pending <- struct{}{}
		<-c.gate
	}
	c.mu.Lock()
	defer c.mu.Unlock()
	if c.failNext {
		c.failNext = false
		if c.failed == nil {
			c.failed = map[int]bool{}
		}
		c.failed[len(c.writes)] = true
		c.writes = append(c.writes, append([]byte(nil), b...))
		return errors.New("scripted cache failure")
	}
	c.data = append([]byte(nil), b...)
	c.writes = append(c.writes, c.data)
	return nil
}
func (c *c11Cache) take() [][]byte {
	c.mu.Lock()
	defer c.mu.Unlock()
	w := c.writes
	c.writes = nil
	c.lastFailed = c.failed
	c.failed = nil
	return w
}

type c11Ticker struct {
	ch   chan time.Time
	done chan struct{}
}

func (t *c11Ticker) Chan() <-chan time.Time { return t.ch }
func (t *c11Ticker) Stop()                  {}
func (t *c11Ticker) Done() {
	select {
	case t.done <- struct{}{}:
	default:
	}
}

// ---------------------------------------------------------------- scenario

type c11Run struct {
	in      c11Input
	svc     *c11Svc
	cache   *c11Cache
	tick    *c11Ticker
	st      *setec.Store
	handles map[string]setec.Secret
	steps   []string // Gallina: St/Sb terms
	obs     []string // human-readable trace
	direct  string   // runtime violation, if any
	// statistics for the non-triviality rule
	pollsOK, pollsFail, installs, midChanges, joins, failsInj, cancels, wfails int
	// self-test material: index into steps of a step whose observation can be altered
	altIdx int
	altTo  string
}

func c11Name(i int, in c11Input) string { return in.Names[i%len(in.Names)] }

func (r *c11Run) docTerm(b []byte) string {
	var m map[string]*struct {
		Secret     *api.SecretValue `json:"secret"`
		LastAccess int64            `json:"lastAccess,string"`
	}
	if err := json.Unmarshal(b, &m); err != nil {
		return "(ofl [([], None)])" // undecodable document: equals nothing the model writes
	}
	keys := make([]string, 0, len(m))
	for k := range m {
		keys = append(keys, k)
	}
	sort.Strings(keys)
	parts := make([]string, 0, len(keys))
	for _, k := range keys {
		e := m[k]
		if e == nil || e.Secret == nil || e.LastAccess < 0 {
			parts = append(parts, fmt.Sprintf("(%s, None)", coqBytes([]byte(k))))
			continue
		}
		parts = append(parts, fmt.Sprintf("D %s %d %d %d", coqBytes([]byte(k)), e.Secret.Version, r.svc.token(e.Secret.Value), e.LastAccess))
	}
	return "(ofl " + coqList(parts) + ")"
}

func (r *c11Run) writes() []string {
	var out []string
	ws := r.cache.take()
	for i, w := range ws {
		t := r.docTerm(w)
		if r.cache.lastFailed[i] {
			t = "(off" + strings.TrimPrefix(t, "(ofl")
			r.wfails++
		}
		out = append(out, t)
	}
	return out
}

func (r *c11Run) emit(strict bool, ev string, outs []string) {
	c := "St"
	if !strict {
		c = "Sb"
	}
	for _, o := range outs { // a Cache.Write of this step was made to fail
		if strings.HasPrefix(o, "(off") {
			if ev == "E_" {
				ev = "EF"
			} else if strict {
				c = "Sf"
			}
			break
		}
	}
	r.steps = append(r.steps, fmt.Sprintf("%s (%s) %s", c, ev, coqList(outs)))
	r.obs = append(r.obs, ev+" => "+strings.Join(outs, " "))
}

func coqOptBool(present bool, v bool) string {
	if !present {
		return "None"
	}
	return "(Some " + coqBool(v) + ")"
}

// srvOp performs one service change and emits the change of the active (version, bytes), if any.
func (r *c11Run) srvOp(op c11Op, during bool) {
	name := c11Name(op.N, r.in)
	r.svc.mu.Lock()
	v0, t0, p0 := r.svc.activeOf(name)
	sec := r.svc.secs[name]
	switch op.Sub {
	case "new":
		v := r.svc.put(name)
		r.svc.secs[name].active = v
	case "put":
		r.svc.put(name)
	case "act":
		if sec != nil {
			var vs []int
			for v := range sec.vers {
				vs = append(vs, int(v))
			}
			sort.Ints(vs)
			sec.active = uint32(vs[op.V%len(vs)])
		}
	case "del":
		delete(r.svc.secs, name)
	}
	v1, t1, p1 := r.svc.activeOf(name)
	r.svc.mu.Unlock()
	if p0 == p1 && v0 == v1 && t0 == t1 {
		return
	}
	if during {
		r.midChanges++
	}
	if !p1 {
		r.emit(true, fmt.Sprintf("SD %s", coqBytes([]byte(name))), nil)
	} else {
		r.emit(true, fmt.Sprintf("SS %s %d %d", coqBytes([]byte(name)), v1, t1), nil)
	}
}

func (r *c11Run) storeOp(op c11Op) {
	name := c11Name(op.N, r.in)
	nb := coqBytes([]byte(name))
	switch op.K {
	case "secret":
		var h setec.Secret
		panicked := false
		func() {
			defer func() {
				if recover() != nil {
					panicked = true
				}
			}()
			h = r.st.Secret(name)
		}()
		if h != nil {
			r.handles[name] = h
		}
		r.emit(true, "H "+nb, append(r.writes(), "oh "+coqOptBool(!panicked, h != nil)))
	case "read":
		h := r.handles[name]
		if h == nil {
			return
		}
		now := time.Now().Unix()
		val := h.Get()
		r.emit(true, fmt.Sprintf("G %s %d", nb, now), append(r.writes(), fmt.Sprintf("ov (Some %d)", r.svc.token(val))))
	case "lookup":
		r.svc.mu.Lock()
		r.svc.failGet = op.Fail
		r.svc.mu.Unlock()
		now := time.Now().Unix()
		h, err := r.st.LookupSecret(context.Background(), name)
		r.svc.mu.Lock()
		r.svc.failGet = false
		r.svc.mu.Unlock()
		if err == nil && h != nil {
			r.handles[name] = h
		}
		r.emit(true, fmt.Sprintf("L %s %d %s", nb, now, coqBool(op.Fail)), append(r.writes(), "ol "+coqBool(err == nil && h != nil)))
	}
}

// Bounds on everything the driver sends to or awaits from the store.  Inside a bubble the bound is
// virtual time, far beyond anything the model allows; when it is hit the scenario ends with a
// direct verdict that names what did not happen (its input is the replay) instead of a deadlock.
const c11Bound = 1000 * time.Hour

// c11SendTick delivers a tick to the store's poll loop; false: nobody took it.
func c11SendTick(t *c11Ticker) bool {
	tm := time.NewTimer(c11Bound)
	defer tm.Stop()
	select {
	case t.ch <- time.Now():
		return true
	case <-tm.C:
		return false
	}
}

const c11NoTick = "the poller did not take a tick: the poll loop has exited although the store is open"

// c11Close closes the store; false: Close did not return within the bound.
func c11Close(st *setec.Store, bound time.Duration) bool {
	done := make(chan struct{})
	go func() { st.Close(); close(done) }()
	tm := time.NewTimer(bound)
	defer tm.Stop()
	select {
	case <-done:
		return true
	case <-tm.C:
		return false
	}
}

// closeAndFlush ends a scenario: Close (bounded), then the final flush is recorded - unless the
// scenario has already ended with a direct verdict, in which case nothing more is judged.
func (r *c11Run) closeAndFlush(bound time.Duration) {
	ok := c11Close(r.st, bound)
	if r.direct != "" {
		return
	}
	if !ok {
		r.direct = "Close did not return"
		return
	}
	r.emit(true, "X", r.writes())
}

// c11Caller is one caller of Refresh taking part in a poll (callers are numbered in order of
// arrival, 0 = the leader; the ticker loop's own call cannot be cancelled).
type c11Caller struct {
	tick   bool
	ch     chan error
	cancel context.CancelFunc
	done   bool // its result has been observed
}

func (r *c11Run) newCaller() *c11Caller {
	ctx, cancel := context.WithCancel(context.Background())
	c := &c11Caller{ch: make(chan error, 1), cancel: cancel}
	go func() { c.ch <- r.st.Refresh(ctx) }()
	return c
}

// c11Class: what a Refresh caller got: nil, its own context's error, or the poll's error.
func c11Class(err error) string {
	switch {
	case err == nil:
		return "os true"
	case err == context.Canceled || err == context.DeadlineExceeded: // ctx.Err() itself, not wrapped
		return "oc"
	default:
		return "os false"
	}
}

// poll runs one Refresh (explicit, or through the ticker loop) with every request stepped.
func (r *c11Run) poll(op c11Op) {
	bg := op.K == "tick"
	var callers []*c11Caller
	r.emit(true, fmt.Sprintf("R %d", time.Now().UnixNano()), nil)
	if bg {
		if !c11SendTick(r.tick) {
			r.direct = c11NoTick
			return
		}
		callers = append(callers, &c11Caller{tick: true})
	} else {
		callers = append(callers, r.newCaller())
	}
	hasTick := bg
	pos := 0
	for guard := 0; guard < 200; guard++ {
		synctest.Wait()
		p := r.svc.takePending()
		if p == nil {
			break // the flight is over (or stuck, which the collection below turns into a verdict)
		}
		var hook c11Hook
		if pos < len(op.Hooks) {
			hook = op.Hooks[pos]
		}
		pos++
		for _, pre := range hook.Pre {
			switch pre.K {
			case "srv":
				r.srvOp(pre, true)
			case "secret", "read", "lookup":
				r.storeOp(pre)
			case "wfail":
				r.cache.mu.Lock()
				r.cache.failNext = true
				r.cache.mu.Unlock()
			case "join":
				r.emit(true, fmt.Sprintf("R %d", time.Now().UnixNano()), nil)
				callers = append(callers, r.newCaller())
				synctest.Wait()
				r.joins++
			case "jointick":
				if !hasTick {
					hasTick = true
					r.emit(true, fmt.Sprintf("R %d", time.Now().UnixNano()), nil)
					if !c11SendTick(r.tick) { // the loop is idle in its select: received at once
						r.direct = c11NoTick
						return
					}
					callers = append(callers, &c11Caller{tick: true})
					synctest.Wait()
					r.joins++
				}
			case "cancel": // the context of caller N ends now, while this request is held
				if pre.N >= len(callers) || callers[pre.N].tick || callers[pre.N].done {
					continue
				}
				c := callers[pre.N]
				c.cancel()
				synctest.Wait()
				var obs []string
				select {
				case err := <-c.ch:
					c.done = true
					obs = append(obs, c11Class(err))
				default: // still blocked although its context ended
				}
				r.cancels++
				r.emit(true, fmt.Sprintf("C %d", pre.N), append(r.writes(), obs...))
			}
		}
		// the service answers now - unless the context the request was made on has ended: then the
		// client returns that context's error
		dead := p.ctx.Err() != nil
		r.svc.mu.Lock()
		v, tok, present := r.svc.activeOf(p.name)
		var ans c11Answer
		respT := "re"
		switch {
		case dead:
		case hook.Fail == 1:
			ans.err = api.ErrNotFound
		case hook.Fail == 2:
			ans.err = api.ErrAccessDenied
		case hook.Fail == 3:
			ans.err = errors.New("scripted transport failure")
		case hook.Fail == 4: // the transport gave up on this one request (its own timeout), the caller's context is live
			ans.err = fmt.Errorf("Get %q: %w", p.name, context.Canceled)
		case hook.Fail == 5:
			ans.err = fmt.Errorf("Get %q: %w", p.name, context.DeadlineExceeded)
		case !present:
			ans.err = api.ErrNotFound
		case v == p.old && !hook.Full:
			ans.err = api.ErrValueNotChanged
			respT = "rn"
		default:
			ans.sv = &api.SecretValue{Version: api.SecretVersion(v), Value: append([]byte(nil), r.svc.secs[p.name].vers[v]...)}
			respT = fmt.Sprintf("(rv %d %d)", v, tok)
		}
		r.svc.mu.Unlock()
		if hook.Fail != 0 {
			r.failsInj++
		}
		r.emit(true, fmt.Sprintf("Q %s %s %s", coqBytes([]byte(p.name)), coqBool(hook.Fail != 0), coqBool(hook.Full)),
			append(r.writes(), fmt.Sprintf("oq (Some %d) %s", p.old, respT)))
		var late *c11Caller
		if k := hook.CA - 1; k >= 0 && k < len(callers) && !callers[k].tick && !callers[k].done && !dead {
			// the context ends just after the answer arrived: this request still succeeds, the
			// store finds the context ended when it comes back
			late = callers[k]
			p.late = true
			late.cancel()
		}
		p.rel <- ans
		if late != nil {
			synctest.Wait()
			var obs []string
			select {
			case err := <-late.ch:
				late.done = true
				obs = append(obs, c11Class(err))
			default:
			}
			r.cancels++
			// (cache writes are not collected here: if this was the last request the poll has
			// completed meanwhile and its flush belongs to the end-of-poll event)
			r.emit(true, fmt.Sprintf("C %d", hook.CA-1), obs)
		}
	}
	// everything has returned (or is stuck)
	synctest.Wait()
	outs := r.writes()
	ok, known := true, false
	for _, c := range callers {
		if c.tick {
			select {
			case <-r.tick.done:
			default:
				r.direct = "a ticker-driven Refresh did not complete"
			}
			continue
		}
		if c.done {
			continue
		}
		select {
		case err := <-c.ch:
			c.done = true
			outs = append(outs, c11Class(err))
			ok, known = err == nil, true
		default:
			r.direct = "a Refresh call did not return although the poll is over"
		}
	}
	if len(outs) > 0 && (strings.HasPrefix(outs[0], "(ofl") || strings.HasPrefix(outs[0], "(off")) {
		r.installs++
	}
	if known {
		if ok {
			r.pollsOK++
		} else {
			r.pollsFail++
		}
	}
	strict := !hasTick
	r.emit(strict, "E_", outs)
	if strict && known {
		r.altIdx = len(r.steps) - 1
		alt := append([]string(nil), outs...)
		alt[len(alt)-1] = "os " + coqBool(outs[len(outs)-1] != "os true") // flip the last result
		r.altTo = fmt.Sprintf("St (E_) %s", coqList(alt))
	}
	// contexts ending after the poll is over concern nobody
	for _, c := range callers {
		if !c.tick {
			c.cancel()
		}
	}
	if !bg {
		r.emit(true, "C 0", r.writes())
	}
}

const c11Epoch = 946684800 // 2000-01-01T00:00:00Z, where a bubble's clock starts

func c11Scenario(in c11Input) (rec Record) {
	r := &c11Run{in: in, svc: c11NewSvc(), cache: &c11Cache{}, handles: map[string]setec.Secret{}, altIdx: -1}
	r.svc.gated = true
	r.tick = &c11Ticker{ch: make(chan time.Time), done: make(chan struct{}, 1)}
	// initial service state
	var sv0 []string
	for i, n := range in.Names {
		for k := 0; k < in.Vers[i]; k++ {
			r.svc.put(n)
		}
		r.svc.secs[n].active = uint32(in.Active[i])
	}
	for _, n := range sortedKeys(r.svc.secs) {
		v, t, _ := r.svc.activeOf(n)
		sv0 = append(sv0, fmt.Sprintf("(%s,(%d,%d))", coqBytes([]byte(n)), v, t))
	}
	cacheT := "None"
	if in.HasC {
		doc := map[string]any{}
		var ents []string
		for _, ce := range in.Cache {
			n := c11Name(ce.N, in)
			if _, dup := doc[n]; dup {
				continue
			}
			sec := r.svc.secs[n]
			v := uint32((ce.V-1)%len(sec.vers) + 1)
			last := int64(c11Epoch) - ce.Back
			if ce.Back < 0 {
				last = 0
			}
			doc[n] = map[string]any{"secret": map[string]any{"Value": sec.vers[v], "Version": v}, "lastAccess": fmt.Sprint(last)}
			ents = append(ents, fmt.Sprintf("(%s,(%d,%d,%d))", coqBytes([]byte(n)), v, r.svc.token(sec.vers[v]), last))
		}
		r.cache.data, _ = json.Marshal(doc)
		cacheT = "(Some " + coqList(ents) + ")"
	}
	now0 := time.Now().Unix()
	st, err := newStoreReleased(context.Background(), setec.StoreConfig{
		Client: r.svc, Secrets: append([]string(nil), in.Names[:in.NDecl]...), AllowLookup: in.Allow, Cache: r.cache,
		ExpiryAge: time.Duration(in.AgeS) * time.Second, PollTicker: r.tick, Logf: func(string, ...any) {},
	})
	if err != nil {
		return Record{Kind: "scn", Input: in, Direct: &DirectVerdict{OK: false, What: "NewStore failed although every declared secret is served: " + err.Error()}}
	}
	r.st = st
	initOut := r.writes()
	for _, op := range in.Ops {
		if r.direct != "" {
			break
		}
		switch op.K {
		case "sleep":
			time.Sleep(time.Duration(op.D))
		case "srv":
			r.srvOp(op, false)
		case "secret", "read", "lookup":
			r.storeOp(op)
		case "wfail":
			r.cache.mu.Lock()
			r.cache.failNext = true
			r.cache.mu.Unlock()
		case "refresh", "tick":
			r.poll(op)
		}
	}
	r.closeAndFlush(c11Bound)
	var nameT []string
	for _, n := range in.Names[:in.NDecl] {
		nameT = append(nameT, coqBytes([]byte(n)))
	}
	mk := func(steps []string) string {
		return fmt.Sprintf("Scn %s %s %s %d %s %d %s %s", coqList(nameT), cacheT, coqList(sv0), now0, coqBool(in.Allow),
			in.AgeS*1e9, coqList(initOut), coqList(steps))
	}
	rec = Record{Kind: "scn", Input: in, Obs: r.obs, Coq: mk(r.steps)}
	kb, _ := json.Marshal(in)
	rec.Key = string(kb)
	rec.Nontrivial = r.pollsOK >= 1 && r.installs >= 1 && (r.pollsFail >= 1 || r.midChanges >= 1 || r.joins >= 1)
	rec.Tags = []string{fmt.Sprintf("secrets=%d", len(in.Names))}
	if r.pollsFail > 0 {
		rec.Tags = append(rec.Tags, "failed-poll")
	}
	if r.midChanges > 0 {
		rec.Tags = append(rec.Tags, "change-during-poll")
	}
	if r.joins > 0 {
		rec.Tags = append(rec.Tags, "coalesced-refresh")
	}
	if r.cancels > 0 {
		rec.Tags = append(rec.Tags, "context-cancelled")
	}
	if r.wfails > 0 {
		rec.Tags = append(rec.Tags, "cache-write-failed")
	}
	if in.HasC {
		rec.Tags = append(rec.Tags, "startup-cache")
	}
	if in.AgeS > 0 {
		rec.Tags = append(rec.Tags, "expiry")
	}
	if r.direct != "" {
		rec.Direct = &DirectVerdict{OK: false, What: r.direct}
	}
	if r.altIdx >= 0 {
		alt := append([]string(nil), r.steps...)
		alt[r.altIdx] = r.altTo
		c11Alt = mk(alt)
	} else {
		c11Alt = ""
	}
	return rec
}

var c11Alt string // the last scenario's term with one Refresh result flipped (self-test material)

func c11Cadence(in c11Input) Record {
	svc := c11NewSvc()
	svc.put("d0")
	t0 := time.Now().UnixNano()
	st, err := newStoreReleased(context.Background(), setec.StoreConfig{
		Client: svc, Secrets: []string{"d0"}, PollInterval: time.Duration(in.IntervalNs), Logf: func(string, ...any) {},
	})
	if err != nil {
		return Record{Kind: "cad", Input: in, Direct: &DirectVerdict{OK: false, What: "NewStore failed: " + err.Error()}}
	}
	i := in.IntervalNs
	if i == 0 {
		i = int64(time.Hour)
	}
	// long enough for Periods ticks at the longest admissible period, short of one more at the shortest
	time.Sleep(time.Duration(int64(in.Periods)*(i+i/10) + 1))
	if !c11Close(st, c11Bound) {
		return Record{Kind: "cad", Input: in, Direct: &DirectVerdict{OK: false, What: "Close did not return"}}
	}
	svc.mu.Lock()
	ts := append([]int64(nil), svc.reqT...)
	svc.mu.Unlock()
	var tt []string
	for _, t := range ts {
		tt = append(tt, fmt.Sprint(t))
	}
	rec := Record{Kind: "cad", Input: in, Obs: map[string]any{"t0": t0, "ticks": ts},
		Coq: fmt.Sprintf("Cad %d %d %s", i, t0, coqList(tt))}
	rec.Key = fmt.Sprintf("cad %d %d %v", i, t0, ts)
	rec.Nontrivial = len(ts) >= 2
	rec.Tags = []string{"cadence"}
	if len(ts) < in.Periods {
		rec.Direct = &DirectVerdict{OK: false, What: fmt.Sprintf("only %d polls in %d maximal periods", len(ts), in.Periods)}
	}
	if len(ts) >= 2 {
		alt := append([]string(nil), tt...)
		alt[len(alt)-1] = fmt.Sprint(ts[len(ts)-1] + 1)
		c11Alt = fmt.Sprintf("Cad %d %d %s", i, t0, coqList(alt))
	} else {
		c11Alt = ""
	}
	return rec
}

// c11CadenceSlow: the default ticker under virtual time with a service that takes time to answer.
// Observed: start (first request) and end (last answer) of every complete poll.
func c11CadenceSlow(in c11Input) Record {
	i := in.IntervalNs
	if i == 0 {
		i = int64(time.Hour)
	}
	n := max(in.NSec, 1)
	svc := c11NewSvc()
	var names []string
	for k := 0; k < n; k++ {
		names = append(names, fmt.Sprintf("d%d", k))
		svc.put(names[k])
	}
	svc.nsec = n
	svc.lat = func(poll int) time.Duration {
		if poll >= len(in.Fracs) {
			return 0
		}
		return time.Duration(int64(in.Fracs[poll]) * (i / 1000) / int64(n))
	}
	t0 := time.Now().UnixNano()
	st, err := newStoreReleased(context.Background(), setec.StoreConfig{
		Client: svc, Secrets: names, PollInterval: time.Duration(in.IntervalNs), Logf: func(string, ...any) {},
	})
	if err != nil {
		return Record{Kind: "cads", Input: in, Direct: &DirectVerdict{OK: false, What: "NewStore failed: " + err.Error()}}
	}
	total := int64(len(in.Fracs)+1)*(i+i/10) + 1
	for _, f := range in.Fracs {
		if f >= 900 {
			total += int64(f) * (i / 1000)
		}
	}
	time.Sleep(time.Duration(total))
	if !c11Close(st, c11Bound) {
		return Record{Kind: "cads", Input: in, Direct: &DirectVerdict{OK: false, What: "Close did not return"}}
	}
	svc.mu.Lock()
	ts := append([]int64(nil), svc.reqT...)
	te := append([]int64(nil), svc.reqEnd...)
	svc.mu.Unlock()
	var pairs []string
	var obs [][2]int64
	for k := 0; k+n <= len(ts); k += n {
		if te[k+n-1] == 0 {
			break // interrupted by Close
		}
		obs = append(obs, [2]int64{ts[k], te[k+n-1]})
		pairs = append(pairs, fmt.Sprintf("(%d,%d)", ts[k], te[k+n-1]))
	}
	rec := Record{Kind: "cads", Input: in, Obs: map[string]any{"t0": t0, "polls": obs},
		Coq: fmt.Sprintf("Cad2 %d %d %s", i, t0, coqList(pairs))}
	rec.Key = fmt.Sprintf("cads %d %d %v", i, t0, obs)
	rec.Nontrivial = len(obs) >= 3
	rec.Tags = []string{"cadence-slow-polls"}
	for _, f := range in.Fracs {
		if f >= 1000 {
			rec.Tags = append(rec.Tags, "poll-longer-than-interval")
			break
		}
	}
	if len(obs) < 2 {
		rec.Direct = &DirectVerdict{OK: false, What: fmt.Sprintf("only %d complete polls", len(obs))}
	}
	c11Alt = ""
	if len(obs) >= 2 {
		alt := append([]string(nil), pairs...)
		l := obs[len(obs)-1]
		alt[len(alt)-1] = fmt.Sprintf("(%d,%d)", l[0]+1, l[1]+1)
		c11Alt = fmt.Sprintf("Cad2 %d %d %s", i, t0, coqList(alt))
	}
	return rec
}

// c11CacheWrite: a poll with pending changes reaches its Cache.Write, which is HELD; meanwhile a
// LookupSecret of a new name / a second Refresh / Close is started and given a bounded time to
// complete (in the unchanged code they wait for the store lock, which the poll holds while it
// writes); then the write is released.  Every document written, in the order in which the
// writes landed, is compared with the model's (each write = document of the state at that write).
func c11CacheWrite(in c11Input) (rec Record) {
	r := &c11Run{in: in, svc: c11NewSvc(), cache: &c11Cache{pending: make(chan struct{}, 1), gate: make(chan struct{})},
		handles: map[string]setec.Secret{}, altIdx: -1}
	r.svc.direct = true
	r.tick = &c11Ticker{ch: make(chan time.Time), done: make(chan struct{}, 1)}
	var sv0, nameT []string
	for _, n := range in.Names {
		r.svc.put(n)
	}
	for _, n := range sortedKeys(r.svc.secs) {
		v, t, _ := r.svc.activeOf(n)
		sv0 = append(sv0, fmt.Sprintf("(%s,(%d,%d))", coqBytes([]byte(n)), v, t))
	}
	const now0 = int64(1700000000)
	clock := func() time.Time { return time.Unix(now0, 0) }
	st, err := newStoreReleased(context.Background(), setec.StoreConfig{
		Client: r.svc, Secrets: append([]string(nil), in.Names[:in.NDecl]...), AllowLookup: true, Cache: r.cache,
		PollTicker: r.tick, TimeNow: clock, Logf: func(string, ...any) {},
	})
	if err != nil {
		return Record{Kind: "cw", Input: in, Direct: &DirectVerdict{OK: false, What: "NewStore failed: " + err.Error()}}
	}
	r.st = st
	initOut := r.writes()
	r.svc.mu.Lock()
	r.svc.reqLog = nil
	r.svc.mu.Unlock()
	for k := 0; k < max(in.NChg, 1) && k < in.NDecl; k++ {
		r.srvOp(c11Op{K: "srv", N: k, Sub: "new"}, false)
	}
	lname := in.Names[len(in.Names)-1] // the undeclared name
	nowNs := now0 * 1e9
	if in.Variant == "hold-lookup" {
		return c11CacheWriteLookup(r, in, lname, now0, sv0, initOut)
	}
	// the poll; its apply's Cache.Write is held
	r.cache.mu.Lock()
	r.cache.armed = true
	r.cache.mu.Unlock()
	leader := make(chan error, 1)
	go func() { leader <- st.Refresh(context.Background()) }()
	select {
	case <-r.cache.pending:
	case <-time.After(5 * time.Second):
		return Record{Kind: "cw", Input: in, Direct: &DirectVerdict{OK: false, What: "the poll never reached its Cache.Write"}}
	}
	var lk chan error
	var joiner chan error
	var closed chan struct{}
	if strings.Contains(in.Variant, "refresh") {
		joiner = make(chan error, 1)
		go func() { joiner <- st.Refresh(context.Background()) }()
	}
	if strings.Contains(in.Variant, "lookup") {
		lk = make(chan error, 1)
		go func() {
			h, err := st.LookupSecret(context.Background(), lname)
			if err == nil {
				r.handles[lname] = h
			}
			lk <- err
		}()
	}
	if strings.Contains(in.Variant, "close") {
		closed = make(chan struct{})
		go func() { st.Close(); close(closed) }()
	}
	// bounded wait: may the others finish while the write is held?
	early := false
	var lkErr error
	if lk != nil {
		select {
		case lkErr = <-lk:
			early = true
		case <-time.After(25 * time.Millisecond):
		}
	} else {
		time.Sleep(5 * time.Millisecond)
	}
	close(r.cache.gate)
	wait := func(what string, f func()) {
		done := make(chan struct{})
		go func() { f(); close(done) }()
		select {
		case <-done:
		case <-time.After(5 * time.Second):
			r.direct = what + " did not return after the cache write was released"
		}
	}
	var leadErr, joinErr error
	wait("Refresh", func() { leadErr = <-leader })
	if joiner != nil && r.direct == "" {
		wait("the second Refresh", func() { joinErr = <-joiner })
	}
	if lk != nil && !early && r.direct == "" {
		wait("LookupSecret", func() { lkErr = <-lk })
	}
	if closed != nil && r.direct == "" {
		wait("Close", func() { <-closed })
	}
	// the timeline, in the order in which the locked steps took place
	W := r.cache.take()
	nextW := func() []string {
		if len(W) == 0 {
			return nil
		}
		w := W[0]
		W = W[1:]
		return []string{r.docTerm(w)}
	}
	r.emit(true, fmt.Sprintf("R %d", nowNs), nil)
	if joiner != nil {
		r.emit(true, fmt.Sprintf("R %d", nowNs), nil)
	}
	r.svc.mu.Lock()
	r.steps = append(r.steps, r.svc.reqLog...)
	r.obs = append(r.obs, r.svc.reqLog...)
	r.svc.reqLog = nil
	r.svc.mu.Unlock()
	emitEnd := func() {
		outs := append(nextW(), c11Class(leadErr))
		if joiner != nil {
			outs = append(outs, c11Class(joinErr))
		}
		r.emit(true, "E_", outs)
	}
	emitLookup := func() {
		r.emit(true, fmt.Sprintf("L %s %d false", coqBytes([]byte(lname)), now0), append(nextW(), "ol "+coqBool(lkErr == nil)))
	}
	if lk != nil && early {
		emitLookup()
		emitEnd()
	} else {
		emitEnd()
		if lk != nil {
			emitLookup()
		}
	}
	if closed != nil {
		r.emit(true, "X", nextW())
	} else if r.direct == "" {
		// quiescence: a poll that finds nothing to do writes nothing; what the cache holds must be exact
		err := st.Refresh(context.Background())
		r.emit(true, fmt.Sprintf("R %d", nowNs), nil)
		r.svc.mu.Lock()
		r.steps = append(r.steps, r.svc.reqLog...)
		r.obs = append(r.obs, r.svc.reqLog...)
		r.svc.reqLog = nil
		r.svc.mu.Unlock()
		W = append(W, r.cache.take()...)
		outs := []string{}
		for len(W) > 0 {
			outs = append(outs, nextW()...)
		}
		r.emit(true, "E_", append(outs, c11Class(err)))
		if h := r.handles[lname]; h != nil {
			val := h.Get()
			r.emit(true, fmt.Sprintf("G %s %d", coqBytes([]byte(lname)), now0), []string{fmt.Sprintf("ov (Some %d)", r.svc.token(val))})
		}
		r.closeAndFlush(5 * time.Second)
	}
	for len(W) > 0 { // documents nobody accounts for
		r.emit(true, "X", nextW())
	}
	for _, n := range in.Names[:in.NDecl] {
		nameT = append(nameT, coqBytes([]byte(n)))
	}
	rec = Record{Kind: "cw", Input: in, Obs: r.obs,
		Coq: fmt.Sprintf("Scn %s None %s %d true 0 %s %s", coqList(nameT), coqList(sv0), now0, coqList(initOut), coqList(r.steps))}
	kb, _ := json.Marshal(in)
	rec.Key = string(kb)
	rec.Nontrivial = true
	rec.Tags = []string{"cache-write-held", "cw:" + in.Variant}
	if early {
		rec.Tags = append(rec.Tags, "lookup-completed-while-write-held")
	}
	if r.direct != "" {
		rec.Direct = &DirectVerdict{OK: false, What: r.direct}
	}
	c11Alt = ""
	return rec
}

// c11CacheWriteLookup: the mirror image - the LOOKUP's Cache.Write is held while a poll with a
// pending change is started and given a bounded time to complete.
func c11CacheWriteLookup(r *c11Run, in c11Input, lname string, now0 int64, sv0, initOut []string) Record {
	st := r.st
	r.cache.mu.Lock()
	r.cache.armed = true
	r.cache.mu.Unlock()
	lk := make(chan error, 1)
	go func() {
		h, err := st.LookupSecret(context.Background(), lname)
		if err == nil {
			r.handles[lname] = h
		}
		lk <- err
	}()
	select {
	case <-r.cache.pending:
	case <-time.After(5 * time.Second):
		return Record{Kind: "cw", Input: in, Direct: &DirectVerdict{OK: false, What: "the lookup never reached its Cache.Write"}}
	}
	leader := make(chan error, 1)
	go func() { leader <- st.Refresh(context.Background()) }()
	early := false
	var leadErr, lkErr error
	select {
	case leadErr = <-leader:
		early = true
	case <-time.After(25 * time.Millisecond):
	}
	close(r.cache.gate)
	to := time.After(5 * time.Second)
	select {
	case lkErr = <-lk:
	case <-to:
		r.direct = "LookupSecret did not return after its cache write was released"
	}
	if !early && r.direct == "" {
		select {
		case leadErr = <-leader:
		case <-to:
			r.direct = "Refresh did not return after the cache write was released"
		}
	}
	W := r.cache.take()
	nextW := func() []string {
		if len(W) == 0 {
			return nil
		}
		w := W[0]
		W = W[1:]
		return []string{r.docTerm(w)}
	}
	emitPoll := func() {
		r.emit(true, fmt.Sprintf("R %d", now0*1e9), nil)
		r.svc.mu.Lock()
		r.steps = append(r.steps, r.svc.reqLog...)
		r.obs = append(r.obs, r.svc.reqLog...)
		r.svc.reqLog = nil
		r.svc.mu.Unlock()
		r.emit(true, "E_", append(nextW(), c11Class(leadErr)))
	}
	emitLookup := func() {
		r.emit(true, fmt.Sprintf("L %s %d false", coqBytes([]byte(lname)), now0), append(nextW(), "ol "+coqBool(lkErr == nil)))
	}
	if early {
		emitPoll()
		emitLookup()
	} else {
		emitLookup()
		emitPoll()
	}
	if r.direct == "" {
		err := st.Refresh(context.Background())
		r.emit(true, fmt.Sprintf("R %d", now0*1e9), nil)
		r.svc.mu.Lock()
		r.steps = append(r.steps, r.svc.reqLog...)
		r.obs = append(r.obs, r.svc.reqLog...)
		r.svc.reqLog = nil
		r.svc.mu.Unlock()
		r.emit(true, "E_", append(r.writes(), c11Class(err)))
		r.closeAndFlush(5 * time.Second)
	}
	var nameT []string
	for _, n := range in.Names[:in.NDecl] {
		nameT = append(nameT, coqBytes([]byte(n)))
	}
	rec := Record{Kind: "cw", Input: in, Obs: r.obs,
		Coq: fmt.Sprintf("Scn %s None %s %d true 0 %s %s", coqList(nameT), coqList(sv0), now0, coqList(initOut), coqList(r.steps))}
	kb, _ := json.Marshal(in)
	rec.Key = string(kb)
	rec.Nontrivial = true
	rec.Tags = []string{"cache-write-held", "cw:" + in.Variant}
	if early {
		rec.Tags = append(rec.Tags, "poll-completed-while-write-held")
	}
	if r.direct != "" {
		rec.Direct = &DirectVerdict{OK: false, What: r.direct}
	}
	c11Alt = ""
	return rec
}

// ---------------------------------------------------------------- two stores in one process

// answerPlain lets the service answer the held request p now (no scripted failure).
func (r *c11Run) answerPlain(p *c11Pending) {
	r.svc.mu.Lock()
	v, tok, present := r.svc.activeOf(p.name)
	var ans c11Answer
	respT := "re"
	switch {
	case p.ctx.Err() != nil:
	case !present:
		ans.err = api.ErrNotFound
	case v == p.old:
		ans.err = api.ErrValueNotChanged
		respT = "rn"
	default:
		ans.sv = &api.SecretValue{Version: api.SecretVersion(v), Value: append([]byte(nil), r.svc.secs[p.name].vers[v]...)}
		respT = fmt.Sprintf("(rv %d %d)", v, tok)
	}
	r.svc.mu.Unlock()
	r.emit(true, fmt.Sprintf("Q %s false false", coqBytes([]byte(p.name))), append(r.writes(), fmt.Sprintf("oq (Some %d) %s", p.old, respT)))
	p.rel <- ans
}

// c11NewPlainRun builds a store with its own scripted service, cache and ticker.
func c11NewPlainRun(names []string, extraPuts int) (r *c11Run, head func(steps []string) string, err error) {
	in := c11Input{Kind: "scn", Names: names, NDecl: len(names)}
	r = &c11Run{in: in, svc: c11NewSvc(), cache: &c11Cache{}, handles: map[string]setec.Secret{}, altIdx: -1}
	r.svc.gated = true
	r.tick = &c11Ticker{ch: make(chan time.Time), done: make(chan struct{}, 1)}
	var sv0, nameT []string
	for _, n := range names {
		for k := 0; k <= extraPuts; k++ {
			r.svc.put(n)
		}
		r.svc.secs[n].active = uint32(1 + extraPuts)
	}
	for _, n := range sortedKeys(r.svc.secs) {
		v, t, _ := r.svc.activeOf(n)
		sv0 = append(sv0, fmt.Sprintf("(%s,(%d,%d))", coqBytes([]byte(n)), v, t))
	}
	sorted := append([]string(nil), names...)
	sort.Strings(sorted)
	for _, n := range sorted {
		nameT = append(nameT, coqBytes([]byte(n)))
	}
	now0 := time.Now().Unix()
	r.st, err = newStoreReleased(context.Background(), setec.StoreConfig{
		Client: r.svc, Secrets: append([]string(nil), names...), Cache: r.cache, PollTicker: r.tick, Logf: func(string, ...any) {},
	})
	if err != nil {
		return nil, nil, err
	}
	initOut := r.writes()
	head = func(steps []string) string {
		return fmt.Sprintf("Scn %s None %s %d false 0 %s %s", coqList(nameT), coqList(sv0), now0, coqList(initOut), coqList(steps))
	}
	return r, head, nil
}

// c11TwoStores: two Stores with different services; a poll of one is HELD in its service while
// the other store refreshes.  Each store is judged against its own model instance: the other
// store's poll must send its own round of requests, complete without waiting for the held
// request, and leave its own service's active versions in its store.
func c11TwoStores(in c11Input) []Record {
	var namesA, namesB []string
	for i := 0; i < in.NShare; i++ {
		namesA = append(namesA, fmt.Sprintf("s%d", i))
		namesB = append(namesB, fmt.Sprintf("s%d", i))
	}
	for i := 0; i < in.NA; i++ {
		namesA = append(namesA, fmt.Sprintf("a%d", i))
	}
	for i := 0; i < in.NB; i++ {
		namesB = append(namesB, fmt.Sprintf("b%d", i))
	}
	fail := func(what string) []Record {
		return []Record{{Kind: "two", Input: in, Direct: &DirectVerdict{OK: false, What: what}}}
	}
	rA, headA, err := c11NewPlainRun(namesA, 0)
	if err != nil {
		return fail("NewStore (A) failed: " + err.Error())
	}
	rB, headB, err := c11NewPlainRun(namesB, 2) // B's service is at other version numbers than A's
	if err != nil {
		return fail("NewStore (B) failed: " + err.Error())
	}
	held, other := rA, rB
	if in.HeldB {
		held, other = rB, rA
	}
	for round := 0; round < max(in.Rounds, 1); round++ {
		// both services change (every name of the other store; the first name of the held one)
		for i := range other.in.Names {
			other.srvOp(c11Op{K: "srv", N: i, Sub: "new"}, false)
		}
		held.srvOp(c11Op{K: "srv", N: 0, Sub: "new"}, false)
		// the held store's poll: its first request stays in the service
		var hcallers []*c11Caller
		held.emit(true, fmt.Sprintf("R %d", time.Now().UnixNano()), nil)
		hcallers = append(hcallers, held.newCaller())
		synctest.Wait()
		ph := held.svc.takePending()
		if ph == nil {
			held.direct = "the poll sent no request"
			break
		}
		if in.JoinH {
			held.emit(true, fmt.Sprintf("R %d", time.Now().UnixNano()), nil)
			hcallers = append(hcallers, held.newCaller())
			synctest.Wait()
		}
		// meanwhile the other store refreshes
		other.emit(true, fmt.Sprintf("R %d", time.Now().UnixNano()), nil)
		var oc *c11Caller
		if in.OTick {
			if !c11SendTick(other.tick) {
				other.direct = c11NoTick
				break
			}
		} else {
			oc = other.newCaller()
		}
		for guard := 0; guard < 50; guard++ {
			synctest.Wait()
			p := other.svc.takePending()
			if p == nil {
				break
			}
			other.answerPlain(p)
		}
		synctest.Wait()
		otherDone := false
		finishOther := func() {
			outs := other.writes()
			if in.OTick {
				select {
				case <-other.tick.done:
					otherDone = true
				default:
				}
			} else {
				select {
				case err := <-oc.ch:
					otherDone = true
					outs = append(outs, c11Class(err))
				default:
				}
			}
			if otherDone {
				other.emit(!in.OTick, "E_", outs)
				if oc != nil {
					oc.cancel()
				}
			}
		}
		finishOther()
		waited := !otherDone
		// what the other store yields now must be its own service's values
		for i, n := range other.in.Names {
			_ = n
			other.storeOp(c11Op{K: "secret", N: i})
			other.storeOp(c11Op{K: "read", N: i})
		}
		// now the held request is answered and the held poll runs to its end
		held.answerPlain(ph)
		for guard := 0; guard < 50; guard++ {
			synctest.Wait()
			p := held.svc.takePending()
			if p == nil {
				break
			}
			held.answerPlain(p)
		}
		synctest.Wait()
		houts := held.writes()
		for _, c := range hcallers {
			select {
			case err := <-c.ch:
				houts = append(houts, c11Class(err))
			default:
				held.direct = "a Refresh of the held store did not return although its poll is over"
			}
			c.cancel()
		}
		held.emit(true, "E_", houts)
		if waited {
			// the other store's Refresh had not returned while the held request was pending
			for guard := 0; guard < 50; guard++ { // (in case it only starts its own round now)
				synctest.Wait()
				p := other.svc.takePending()
				if p == nil {
					break
				}
				other.answerPlain(p)
			}
			synctest.Wait()
			finishOther()
			other.direct = "a Refresh of one store did not complete while ANOTHER store's poll was held in its service (it sent none of its own requests meanwhile)"
			if !otherDone {
				other.direct = "a Refresh of one store never returned after another store's poll"
			}
		}
		for i := range held.in.Names {
			held.storeOp(c11Op{K: "secret", N: i})
			held.storeOp(c11Op{K: "read", N: i})
		}
	}
	rA.closeAndFlush(c11Bound)
	rB.closeAndFlush(c11Bound)
	kb, _ := json.Marshal(in)
	mk := func(r *c11Run, head func([]string) string, which string) Record {
		rec := Record{Kind: "two", Input: in, Obs: r.obs, Coq: head(r.steps), Key: string(kb) + "/" + which, Nontrivial: true,
			Tags: []string{"two-stores", "two-stores:" + which}}
		if r == held {
			rec.Tags = append(rec.Tags, "two-stores:held")
		}
		if r.direct != "" {
			rec.Direct = &DirectVerdict{OK: false, What: r.direct}
		}
		return rec
	}
	c11Alt = ""
	return []Record{mk(rA, headA, "A"), mk(rB, headB, "B")}
}

// ---------------------------------------------------------------- generation

func c11SrvOp(rng *rand.Rand, nNames int) c11Op {
	subs := []string{"new", "new", "new", "new", "put", "put", "act", "act", "act", "act", "act", "del"}
	return c11Op{K: "srv", N: rng.IntN(nNames), Sub: subs[rng.IntN(len(subs))], V: rng.IntN(6)}
}

func c11Hooks(rng *rand.Rand, nNames int, intensity int) []c11Hook {
	hs := make([]c11Hook, nNames+2)
	for i := range hs {
		if rng.IntN(100) >= intensity {
			continue
		}
		k := rng.IntN(4)
		for j := 0; j < k; j++ {
			switch x := rng.IntN(100); {
			case x < 58:
				hs[i].Pre = append(hs[i].Pre, c11SrvOp(rng, nNames))
			case x < 68:
				hs[i].Pre = append(hs[i].Pre, c11Op{K: "secret", N: rng.IntN(nNames)})
			case x < 78:
				hs[i].Pre = append(hs[i].Pre, c11Op{K: "read", N: rng.IntN(nNames)})
			case x < 86:
				hs[i].Pre = append(hs[i].Pre, c11Op{K: "lookup", N: rng.IntN(nNames), Fail: rng.IntN(5) == 0})
			case x < 90:
				hs[i].Pre = append(hs[i].Pre, c11Op{K: "join"})
			case x < 92:
				hs[i].Pre = append(hs[i].Pre, c11Op{K: "wfail"})
			case x < 97:
				hs[i].Pre = append(hs[i].Pre, c11Op{K: "cancel", N: rng.IntN(3)})
			default:
				hs[i].Pre = append(hs[i].Pre, c11Op{K: "jointick"})
			}
		}
		if rng.IntN(100) < 14 {
			hs[i].Fail = 1 + rng.IntN(5)
		}
		if rng.IntN(100) < 8 {
			hs[i].Full = true
		}
		if rng.IntN(100) < 5 {
			hs[i].CA = 1 + rng.IntN(2)
		}
	}
	return hs
}

func c11Gen(rng *rand.Rand) c11Input {
	in := c11Input{Kind: "scn"}
	in.NDecl = 1 + rng.IntN(6)
	if rng.IntN(3) == 0 {
		in.NDecl = 1 + rng.IntN(2)
	}
	for i := 0; i < in.NDecl; i++ {
		in.Names = append(in.Names, fmt.Sprintf("d%d", i))
	}
	in.Allow = rng.IntN(100) < 70
	nExtra := rng.IntN(3)
	for i := 0; i < nExtra; i++ {
		in.Names = append(in.Names, fmt.Sprintf("x/%d", i))
	}
	for range in.Names {
		nv := 1 + rng.IntN(3)
		in.Vers = append(in.Vers, nv)
		in.Active = append(in.Active, 1+rng.IntN(nv))
	}
	if rng.IntN(4) != 0 {
		in.AgeS = int64(20 + rng.IntN(100))
	}
	if rng.IntN(100) < 40 {
		in.HasC = true
		backs := []int64{-1, 0, 5, 15, 500, 100000}
		for i := range in.Names {
			if rng.IntN(100) < 55 {
				in.Cache = append(in.Cache, c11CEnt{N: i, V: 1 + rng.IntN(in.Vers[i]), Back: backs[rng.IntN(len(backs))]})
			}
		}
	}
	nn := len(in.Names)
	nOps := 8 + rng.IntN(16)
	for i := 0; i < nOps; i++ {
		switch x := rng.IntN(100); {
		case x < 3:
			in.Ops = append(in.Ops, c11Op{K: "wfail"})
		case x < 16:
			d := int64(1+rng.IntN(30)) * 1e9
			switch rng.IntN(5) {
			case 0:
				d = int64(100+rng.IntN(900)) * 1e6
			case 1:
				if in.AgeS > 0 {
					d = (in.AgeS + int64(rng.IntN(int(in.AgeS)+2))) * 1e9
				}
			}
			in.Ops = append(in.Ops, c11Op{K: "sleep", D: d})
		case x < 40:
			in.Ops = append(in.Ops, c11SrvOp(rng, nn))
		case x < 48:
			in.Ops = append(in.Ops, c11Op{K: "secret", N: rng.IntN(nn)})
		case x < 58:
			in.Ops = append(in.Ops, c11Op{K: "read", N: rng.IntN(nn)})
		case x < 65:
			in.Ops = append(in.Ops, c11Op{K: "lookup", N: rng.IntN(nn), Fail: rng.IntN(6) == 0})
		case x < 88:
			in.Ops = append(in.Ops, c11Op{K: "refresh", Hooks: c11Hooks(rng, nn, 45)})
		default:
			in.Ops = append(in.Ops, c11Op{K: "tick", Hooks: c11Hooks(rng, nn, 45)})
		}
	}
	in.Ops = append(in.Ops, c11Op{K: "refresh"})
	return in
}

// c11Systematic: k declared secrets, all changed on the service, a failure exactly at request
// position p of the first poll, then a clean poll (convergence).
func c11Systematic() []c11Input {
	var out []c11Input
	for k := 1; k <= 6; k++ {
		for p := 0; p < k; p++ {
			for kind := 1; kind <= 3; kind += 2 {
				in := c11Input{Kind: "scn", NDecl: k, Allow: false}
				for i := 0; i < k; i++ {
					in.Names = append(in.Names, fmt.Sprintf("d%d", i))
					in.Vers = append(in.Vers, 2)
					in.Active = append(in.Active, 1)
				}
				for i := 0; i < k; i++ {
					in.Ops = append(in.Ops, c11Op{K: "srv", N: i, Sub: "act", V: 1})
				}
				hs := make([]c11Hook, k)
				hs[p].Fail = kind
				in.Ops = append(in.Ops, c11Op{K: "refresh", Hooks: hs})
				for i := 0; i < k; i++ {
					in.Ops = append(in.Ops, c11Op{K: "secret", N: i}, c11Op{K: "read", N: i})
				}
				in.Ops = append(in.Ops, c11Op{K: "refresh"})
				for i := 0; i < k; i++ {
					in.Ops = append(in.Ops, c11Op{K: "read", N: i})
				}
				out = append(out, in)
			}
		}
	}
	return out
}

// c11SystematicCancel: k declared secrets, all changed on the service; the LEADER's context ends
// while the request at position p is held, with j callers having joined before (at position 0);
// variants: a joiner's context ends instead / as well; then a clean poll (convergence).
func c11SystematicCancel() []c11Input {
	var out []c11Input
	for k := 1; k <= 5; k++ {
		for p := 0; p < k; p++ {
			for j := 0; j <= 2; j++ {
				for variant := 0; variant < 4; variant++ {
					if (variant == 1 || variant == 2) && (j == 0 || p%2 == 1) {
						continue
					}
					in := c11Input{Kind: "scn", NDecl: k, Allow: false}
					for i := 0; i < k; i++ {
						in.Names = append(in.Names, fmt.Sprintf("d%d", i))
						in.Vers = append(in.Vers, 2)
						in.Active = append(in.Active, 1)
					}
					for i := 0; i < k; i++ {
						in.Ops = append(in.Ops, c11Op{K: "srv", N: i, Sub: "act", V: 1})
					}
					hs := make([]c11Hook, k)
					for x := 0; x < j; x++ {
						hs[0].Pre = append(hs[0].Pre, c11Op{K: "join"})
					}
					switch variant {
					case 0: // the leader's context ends
						hs[p].Pre = append(hs[p].Pre, c11Op{K: "cancel", N: 0})
					case 1: // a joiner's context ends: the poll must go on and succeed for the others
						hs[p].Pre = append(hs[p].Pre, c11Op{K: "cancel", N: 1})
					case 2: // a joiner's, then the leader's
						hs[p].Pre = append(hs[p].Pre, c11Op{K: "cancel", N: j}, c11Op{K: "cancel", N: 0})
					case 3: // the leader's context ends right after the answer at position p arrived
						hs[p].CA = 1
					}
					in.Ops = append(in.Ops, c11Op{K: "refresh", Hooks: hs})
					for i := 0; i < k; i++ {
						in.Ops = append(in.Ops, c11Op{K: "secret", N: i}, c11Op{K: "read", N: i})
					}
					in.Ops = append(in.Ops, c11Op{K: "refresh"})
					for i := 0; i < k; i++ {
						in.Ops = append(in.Ops, c11Op{K: "read", N: i})
					}
					out = append(out, in)
				}
			}
		}
	}
	return out
}

// c11SystematicWFail: the Cache.Write of a poll's apply (with 0-2 joiners), of a lookup, of the
// shutdown flush is made to fail; afterwards reads and a clean poll.
func c11SystematicWFail() []c11Input {
	var out []c11Input
	for k := 1; k <= 3; k++ {
		for j := 0; j <= 2; j++ {
			for variant := 0; variant < 3; variant++ {
				if variant > 0 && j > 0 {
					continue
				}
				in := c11Input{Kind: "scn", NDecl: k, Allow: true}
				for i := 0; i < k; i++ {
					in.Names = append(in.Names, fmt.Sprintf("d%d", i))
					in.Vers = append(in.Vers, 2)
					in.Active = append(in.Active, 1)
				}
				in.Names = append(in.Names, "x/0")
				in.Vers = append(in.Vers, 1)
				in.Active = append(in.Active, 1)
				for i := 0; i < k; i++ {
					in.Ops = append(in.Ops, c11Op{K: "srv", N: i, Sub: "act", V: 1})
				}
				switch variant {
				case 0: // the poll's write fails
					hs := make([]c11Hook, k)
					for x := 0; x < j; x++ {
						hs[0].Pre = append(hs[0].Pre, c11Op{K: "join"})
					}
					in.Ops = append(in.Ops, c11Op{K: "wfail"}, c11Op{K: "refresh", Hooks: hs})
				case 1: // a lookup's write fails, then a poll
					in.Ops = append(in.Ops, c11Op{K: "wfail"}, c11Op{K: "lookup", N: k}, c11Op{K: "refresh"})
				case 2: // the poll succeeds; the shutdown flush fails (armed last)
					in.Ops = append(in.Ops, c11Op{K: "refresh"})
				}
				for i := 0; i < k; i++ {
					in.Ops = append(in.Ops, c11Op{K: "secret", N: i}, c11Op{K: "read", N: i})
				}
				in.Ops = append(in.Ops, c11Op{K: "srv", N: 0, Sub: "act", V: 0}, c11Op{K: "refresh"}, c11Op{K: "read", N: 0})
				if variant == 2 {
					in.Ops = append(in.Ops, c11Op{K: "wfail"})
				}
				out = append(out, in)
			}
		}
	}
	return out
}

// c11SystematicTransportCancel: a request of a TICKER-driven poll is cancelled by the transport
// (context.Canceled / DeadlineExceeded wrapped in the client's error while the store's own context
// is live): the poll fails; the poll loop must go on: the next ticks are taken and their polls run.
func c11SystematicTransportCancel() []c11Input {
	var out []c11Input
	for k := 1; k <= 3; k++ {
		for p := 0; p < k; p++ {
			for kind := 4; kind <= 5; kind++ {
				in := c11Input{Kind: "scn", NDecl: k}
				for i := 0; i < k; i++ {
					in.Names = append(in.Names, fmt.Sprintf("d%d", i))
					in.Vers = append(in.Vers, 2)
					in.Active = append(in.Active, 1)
				}
				for i := 0; i < k; i++ {
					in.Ops = append(in.Ops, c11Op{K: "srv", N: i, Sub: "act", V: 1})
				}
				hs := make([]c11Hook, k)
				hs[p].Fail = kind
				in.Ops = append(in.Ops, c11Op{K: "tick", Hooks: hs}, c11Op{K: "sleep", D: 5e9}, c11Op{K: "tick"})
				for i := 0; i < k; i++ {
					in.Ops = append(in.Ops, c11Op{K: "secret", N: i}, c11Op{K: "read", N: i})
				}
				in.Ops = append(in.Ops, c11Op{K: "srv", N: 0, Sub: "act", V: 0}, c11Op{K: "tick"}, c11Op{K: "read", N: 0})
				out = append(out, in)
			}
		}
	}
	return out
}

// c11FileClient: the store's client is a REAL setec.FileClient (static answers = the file) and the
// store starts from a persistent cache written when the file held OTHER versions.  Every Refresh /
// ticker poll must ask the client and converge to the file's versions in handles and cache.  The
// client cannot be wrapped (the store recognises *FileClient by type), so the requests are not
// observed: the timeline carries the requests the model expects (one per name, answered by the
// file) and the kernel judges Refresh results, Cache.Write documents and handle values.
// in.Vers = the file's versions, in.Active = the cached versions (0 = not cached).
func c11FileClient(in c11Input) (rec Record) {
	r := &c11Run{in: in, svc: c11NewSvc(), cache: &c11Cache{}, handles: map[string]setec.Secret{}, altIdx: -1}
	r.tick = &c11Ticker{ch: make(chan time.Time), done: make(chan struct{}, 1)}
	const now0 = int64(1700000000)
	clock := func() time.Time { return time.Unix(now0, 0) }
	val := func(n string, v int) []byte {
		b := []byte(fmt.Sprintf("%s@%d/file", n, v))
		if _, ok := r.svc.tok[string(b)]; !ok {
			r.svc.tok[string(b)] = uint64(len(r.svc.tok) + 1)
		}
		return b
	}
	fail := func(what string) Record {
		return Record{Kind: "fc", Input: in, Direct: &DirectVerdict{OK: false, What: what}}
	}
	dir, err := os.MkdirTemp("", "c11fc")
	if err != nil {
		return fail(err.Error())
	}
	defer os.RemoveAll(dir)
	names := append([]string(nil), in.Names...)
	sort.Strings(names)
	idx := map[string]int{}
	for i, n := range in.Names {
		idx[n] = i
	}
	file, cdoc := map[string]any{}, map[string]any{}
	var sv0, cents, nameT []string
	have := map[string]int{}
	for _, n := range names {
		fv, cv := in.Vers[idx[n]], in.Active[idx[n]]
		file[n] = map[string]any{"secret": map[string]any{"Value": val(n, fv), "Version": fv}}
		sv0 = append(sv0, fmt.Sprintf("(%s,(%d,%d))", coqBytes([]byte(n)), fv, r.svc.token(val(n, fv))))
		nameT = append(nameT, coqBytes([]byte(n)))
		have[n] = fv
		if cv > 0 {
			cdoc[n] = map[string]any{"secret": map[string]any{"Value": val(n, cv), "Version": cv}, "lastAccess": fmt.Sprint(now0 - 100)}
			cents = append(cents, fmt.Sprintf("(%s,(%d,%d,%d))", coqBytes([]byte(n)), cv, r.svc.token(val(n, cv)), now0-100))
			have[n] = cv
		}
	}
	fb, _ := json.Marshal(file)
	path := dir + "/secrets.json"
	if err := os.WriteFile(path, fb, 0o600); err != nil {
		return fail(err.Error())
	}
	fc, err := setec.NewFileClient(path)
	if err != nil {
		return fail("NewFileClient: " + err.Error())
	}
	r.cache.data, _ = json.Marshal(cdoc)
	st, err := newStoreReleased(context.Background(), setec.StoreConfig{
		Client: fc, Secrets: append([]string(nil), in.Names...), Cache: r.cache, PollTicker: r.tick, TimeNow: clock, Logf: func(string, ...any) {},
	})
	if err != nil {
		return fail("NewStore failed although the file holds every declared secret: " + err.Error())
	}
	r.st = st
	initOut := r.writes()
	poll := func(tick bool) {
		r.emit(true, fmt.Sprintf("R %d", now0*1e9), nil)
		var outs []string
		if tick {
			select {
			case r.tick.ch <- time.Now():
			case <-time.After(5 * time.Second):
				r.direct = c11NoTick
				return
			}
			select {
			case <-r.tick.done:
			case <-time.After(5 * time.Second):
				r.direct = "a ticker-driven Refresh did not complete"
				return
			}
		} else {
			ch := make(chan error, 1)
			go func() { ch <- st.Refresh(context.Background()) }()
			select {
			case err := <-ch:
				outs = append(outs, c11Class(err))
			case <-time.After(5 * time.Second):
				r.direct = "Refresh did not return"
				return
			}
		}
		for _, n := range names { // the requests this poll must have made, answered by the file
			fv := in.Vers[idx[n]]
			resp := "rn"
			if have[n] != fv {
				resp = fmt.Sprintf("(rv %d %d)", fv, r.svc.token(val(n, fv)))
			}
			r.emit(true, fmt.Sprintf("Q %s false false", coqBytes([]byte(n))), []string{fmt.Sprintf("oq (Some %d) %s", have[n], resp)})
			have[n] = fv
		}
		r.emit(!tick, "E_", append(r.writes(), outs...))
	}
	reads := func() {
		for _, n := range names {
			h := st.Secret(n)
			r.emit(true, "H "+coqBytes([]byte(n)), []string{"oh " + coqOptBool(true, h != nil)})
			if h != nil {
				r.emit(true, fmt.Sprintf("G %s %d", coqBytes([]byte(n)), now0), []string{fmt.Sprintf("ov (Some %d)", r.svc.token(h.Get()))})
			}
		}
	}
	for _, k := range in.Ops {
		if r.direct != "" {
			break
		}
		switch k.K {
		case "refresh":
			poll(false)
		case "tick":
			poll(true)
		case "read":
			reads()
		}
	}
	r.closeAndFlush(5 * time.Second)
	cacheT := "(Some " + coqList(cents) + ")"
	rec = Record{Kind: "fc", Input: in, Obs: r.obs,
		Coq: fmt.Sprintf("Scn %s %s %s %d false 0 %s %s", coqList(nameT), cacheT, coqList(sv0), now0, coqList(initOut), coqList(r.steps))}
	kb, _ := json.Marshal(in)
	rec.Key = string(kb)
	rec.Nontrivial = true
	rec.Tags = []string{"file-client"}
	if r.direct != "" {
		rec.Direct = &DirectVerdict{OK: false, What: r.direct}
	}
	c11Alt = ""
	return rec
}

// c11Bubble runs one scenario in a synctest bubble and turns a synctest deadlock ("all goroutines
// in bubble are blocked" / "main bubble goroutine has exited but blocked goroutines remain") into
// data: the panic is recovered (the bubble's goroutines stay blocked and are abandoned), the text is
// returned, and the run goes on with the next scenario.
func c11Bubble(t *testing.T, scenario func(t *testing.T)) (dead string) {
	defer func() {
		if p := recover(); p != nil {
			dead = fmt.Sprintf("the scenario deadlocked: %v", p)
		}
	}()
	bubble(t, scenario)
	return ""
}

func runC11(o Opts) {
	out := NewOut(o.Out)
	inTest(func(t *testing.T) {
		defer out.Close()
		var selfs []Record
		runOne := func(in c11Input, corpus string) {
			var rec Record
			if in.Kind == "two" {
				var recs []Record
				if dead := c11Bubble(t, func(t *testing.T) { recs = c11TwoStores(in) }); dead != "" {
					if len(recs) == 0 {
						recs = []Record{{Kind: "two", Input: in}}
					}
					for i := range recs {
						if recs[i].Direct == nil {
							recs[i].Direct = &DirectVerdict{OK: false, What: dead}
						}
					}
				}
				for _, r := range recs {
					r.Corpus = corpus
					out.Emit(r)
				}
				return
			}
			if in.Kind == "fc" { // a real FileClient, real time
				rec = c11FileClient(in)
			} else if in.Kind == "cw" { // real goroutines, real time (a goroutine blocked on the store's mutex is not "durably blocked" for synctest)
				rec = c11CacheWrite(in)
			} else {
				dead := c11Bubble(t, func(t *testing.T) {
					switch in.Kind {
					case "cad":
						rec = c11Cadence(in)
					case "cads":
						rec = c11CadenceSlow(in)
					default:
						rec = c11Scenario(in)
					}
				})
				if dead != "" && rec.Direct == nil {
					// the scenario did not get to its end (or left goroutines blocked for ever) and no
					// bounded wait had named the cause: attribute the deadlock to this input
					if rec.Kind == "" {
						rec = Record{Kind: in.Kind, Input: in}
					}
					rec.Direct = &DirectVerdict{OK: false, What: dead}
				}
			}
			rec.Corpus = corpus
			id := out.n
			out.Emit(rec)
			if c11Alt != "" && len(selfs) < 12 && (id%7 == 0 || (in.Kind == "cad" || in.Kind == "cads") && id%5 == 0) && rec.Direct == nil {
				s := rec
				s.Coq = c11Alt
				s.SelfTest = true
				s.SelfOf = id
				selfs = append(selfs, s)
			}
		}
		if o.Replay != "" {
			for _, in := range readInputs[c11Input](o.Replay) {
				runOne(in, "")
			}
			return
		}
		for _, in := range readCorpus[c11Input](o.Corpus) {
			runOne(in, "corpus")
		}
		for _, in := range c11Systematic() {
			runOne(in, "")
		}
		for _, in := range c11SystematicCancel() {
			runOne(in, "")
		}
		for _, in := range c11SystematicWFail() {
			runOne(in, "")
		}
		for _, in := range c11SystematicTransportCancel() {
			runOne(in, "")
		}
		// a FileClient behind a cache written when the file held other versions
		for k := 1; k <= 4; k++ {
			for pat := 0; pat < 4; pat++ {
				in := c11Input{Kind: "fc"}
				for i := 0; i < k; i++ {
					in.Names = append(in.Names, fmt.Sprintf("f%d", i))
					fv := 2 + (i+pat)%3
					cv := fv - 1 // cached: an older version
					switch {
					case pat == 1 && i == k-1:
						cv = fv // one name already current
					case pat == 2 && i == 0:
						cv = 0 // one name not cached at all
					case pat == 3:
						cv = fv + 1 // the file was rolled BACK: the cache holds a newer number
					}
					in.Vers = append(in.Vers, fv)
					in.Active = append(in.Active, cv)
				}
				first := "refresh"
				if pat%2 == 1 {
					first = "tick"
				}
				in.Ops = []c11Op{{K: first}, {K: "read"}, {K: "refresh"}, {K: "tick"}, {K: "read"}}
				runOne(in, "")
			}
		}
		n := 300
		nCad := 48
		if o.Tier == "thorough" {
			n, nCad = 6000, 600
		}
		if o.N > 0 {
			n = o.N
		}
		rng := NewRand(o.Seed, 1101)
		for i := 0; i < n; i++ {
			runOne(c11Gen(rng), "")
		}
		ivs := []int64{0, 10, 15, 99, 1000, 12345678, int64(time.Millisecond), int64(7 * time.Millisecond), int64(time.Second),
			int64(time.Minute), int64(37 * time.Hour), int64(24 * time.Hour * 365)}
		crng := NewRand(o.Seed, 1102)
		for i := 0; i < nCad; i++ {
			iv := ivs[i%len(ivs)]
			if i >= 2*len(ivs) {
				iv = 10 + crng.Int64N(int64(time.Hour))
			}
			per := 3 + crng.IntN(4)
			if iv != 0 && iv < 1000 {
				per = 3
			}
			runOne(c11Input{Kind: "cad", IntervalNs: iv, Periods: per}, "")
		}
		// polls that take virtual time: 1%, 10%, 40% of the interval, now and then longer than it
		slowIvs := []int64{0, int64(time.Second), int64(time.Minute), 12345678901, int64(37 * time.Hour), int64(10 * time.Millisecond)}
		nSlow := 36
		if o.Tier == "thorough" {
			nSlow = 400
		}
		for i := 0; i < nSlow; i++ {
			in := c11Input{Kind: "cads", IntervalNs: slowIvs[i%len(slowIvs)], NSec: 1 + i%4}
			if i >= 2*len(slowIvs) {
				in.IntervalNs = int64(time.Millisecond) + crng.Int64N(int64(time.Hour))
			}
			np := 3 + crng.IntN(4)
			for k := 0; k < np; k++ {
				f := []int{10, 100, 400}[(i+k)%3]
				if i%3 == 2 {
					f = 1 + crng.IntN(850)
				}
				if i%4 == 1 && k == 1 {
					f = []int{1300, 2500, 1000}[(i/4)%3] // longer than one interval
				}
				in.Fracs = append(in.Fracs, f)
			}
			runOne(in, "")
		}
		// two stores in one process, overlapping polls
		nTwo := 0
		for share := 0; share <= 2; share++ {
			for extra := 0; extra <= 2; extra++ {
				if share+extra == 0 {
					continue
				}
				for v := 0; v < 4; v++ {
					in := c11Input{Kind: "two", NShare: share, NA: extra, NB: (extra + v) % 3, HeldB: v%2 == 1, OTick: v == 2,
						JoinH: (share+extra+v)%2 == 0, Rounds: 1 + (share+v)%2}
					if in.NShare+in.NB == 0 {
						in.NB = 1
					}
					runOne(in, "")
					nTwo++
				}
			}
		}
		// a Cache.Write held on a gate
		for nd := 1; nd <= 3; nd++ {
			for _, variant := range []string{"lookup", "lookup+refresh", "refresh", "close", "hold-lookup"} {
				for nchg := 1; nchg <= nd; nchg += 2 {
					in := c11Input{Kind: "cw", NDecl: nd, Variant: variant, NChg: nchg}
					for i := 0; i < nd; i++ {
						in.Names = append(in.Names, fmt.Sprintf("d%d", i))
					}
					in.Names = append(in.Names, "x/new")
					runOne(in, "")
				}
			}
		}
		for _, s := range selfs {
			out.Emit(s)
		}
	})
}
