package main

// C12 - a Secret handle always yields a complete, really-served value, never blocking.
//
// REAL goroutines (no synctest), harness built with -race.  Each scenario runs in a child
// process (this binary re-executed with GORACE=halt_on_error=1 exitcode=66) so that a race
// report, an unrecovered panic, a runtime deadlock or the watchdog become a direct violation of
// that scenario.  Inside the child: reader goroutines spin on handles (declared, looked-up and
// start-up-cache names) while the driver changes the service (new versions only), refreshes,
// ticks the controlled ticker, looks up new names, lets the expiry sweep run with a handle taken
// between snapshot and apply, HOLDS the service with requests in flight (reads must go on), makes
// polls fail, and finally closes the store (reads must keep working).  Every served value is a
// long byte string that encodes (name, version) with a checksum and is verified whole by the
// reader.  The install order (service serve order) and the compressed read logs go to the
// kernel, which evaluates the proved-sound monitor Readers.reads_ok.

import (
	"bufio"
	"bytes"
	"context"
	"encoding/json"
	"errors"
	"fmt"
	"hash/fnv"
	"math/rand/v2"
	"os"
	"os/exec"
	"strconv"
	"strings"
	"sync"
	"sync/atomic"
	"time"

	"github.com/tailscale/setec/client/setec"
	"github.com/tailscale/setec/types/api"
)

func init() { commands["C12"] = runC12 }

type c12Input struct {
	Seed      uint64 `json:"seed"`
	NDecl     int    `json:"ndecl"`
	NLook     int    `json:"nlook"`
	NCache    int    `json:"ncache"`               // undeclared names present only in the start-up cache
	Readers   int    `json:"readers"`              // reader goroutines
	Ops       []int  `json:"ops"`                  // driver actions: 0 change+refresh 1 hold 2 failing 3 expiry 4 lookup 5 burst of changes 6/7 failing cache 8 watch window 9 updater on a looked-up name
	Procs     int    `json:"procs"`                // GOMAXPROCS of the child
	CloseFail bool   `json:"close_fail,omitempty"` // the final cache flush at Close fails
}

// ---------------------------------------------------------------- values

var c12RenderCache sync.Map

// c12Render returns the (immutable, shared for comparison only) value of (name, version).
func c12Render(name string, ver uint32) []byte {
	key := fmt.Sprintf("%s/%d", name, ver)
	if v, ok := c12RenderCache.Load(key); ok {
		return v.([]byte)
	}
	b := c12RenderRaw(name, ver)
	c12RenderCache.Store(key, b)
	return b
}

func c12RenderRaw(name string, ver uint32) []byte {
	h := fnv.New64a()
	fmt.Fprintf(h, "%s/%d", name, ver)
	seed := h.Sum64()
	n := 200 + int(seed%1300)
	var b bytes.Buffer
	fmt.Fprintf(&b, "%s\x00%d\x00", name, ver)
	x := seed
	for b.Len() < n {
		x = x*6364136223846793005 + 1442695040888963407
		b.WriteByte(byte(x >> 33))
	}
	sum := fnv.New64a()
	sum.Write(b.Bytes())
	fmt.Fprintf(&b, "\x00%016x", sum.Sum64())
	return b.Bytes()
}

// c12Verify returns the version encoded in b if b is, whole, the value of (name, version).
func c12Verify(name string, b []byte) (uint32, string) {
	parts := bytes.SplitN(b, []byte{0}, 3)
	if len(parts) < 3 {
		return 0, "torn or foreign value (no header)"
	}
	v, err := strconv.ParseUint(string(parts[1]), 10, 32)
	if err != nil {
		return 0, "torn or foreign value (bad version field)"
	}
	if string(parts[0]) != name {
		if bytes.Equal(b, c12Render(string(parts[0]), uint32(v))) {
			return 0, fmt.Sprintf("another secret's value: handle of %q returned the value of %q", name, parts[0])
		}
		return 0, "torn or foreign value (name field)"
	}
	if !bytes.Equal(b, c12Render(name, uint32(v))) {
		return 0, fmt.Sprintf("torn value for %q version %d", name, v)
	}
	return uint32(v), ""
}

// ---------------------------------------------------------------- scripted service

type c12Inst struct {
	name string
	ver  uint32
}

type c12Svc struct {
	mu        sync.Mutex
	active    map[string]uint32
	installs  []c12Inst         // serve order (deduplicated against the latest entry of the same name)
	latest    map[string]uint32 // latest entry of installs per name
	served    atomic.Int64      // len(installs)
	hold      chan struct{}     // non-nil: requests block until it is closed
	blocked   atomic.Int64      // requests currently blocked on hold
	failing   atomic.Bool
	top       map[string]uint32 // highest version ever created per name
	rollbacks int
}

func (s *c12Svc) logServe(name string, v uint32) {
	if lv, ok := s.latest[name]; ok && lv == v {
		return
	}
	s.installs = append(s.installs, c12Inst{name, v})
	s.latest[name] = v
	s.served.Store(int64(len(s.installs)))
}

func (s *c12Svc) wait(ctx context.Context) error {
	s.mu.Lock()
	h := s.hold
	s.mu.Unlock()
	if h == nil {
		return nil
	}
	s.blocked.Add(1)
	defer s.blocked.Add(-1)
	select {
	case <-h:
		return nil
	case <-ctx.Done():
		return ctx.Err()
	}
}

func (s *c12Svc) Get(ctx context.Context, name string) (*api.SecretValue, error) {
	if err := ctx.Err(); err != nil { // the client honours an already-ended context
		return nil, err
	}
	if err := s.wait(ctx); err != nil {
		return nil, err
	}
	s.mu.Lock()
	defer s.mu.Unlock()
	v, ok := s.active[name]
	if !ok {
		return nil, api.ErrNotFound
	}
	s.logServe(name, v)
	return &api.SecretValue{Version: api.SecretVersion(v), Value: append([]byte(nil), c12Render(name, v)...)}, nil
}

func (s *c12Svc) GetIfChanged(ctx context.Context, name string, old api.SecretVersion) (*api.SecretValue, error) {
	if err := ctx.Err(); err != nil {
		return nil, err
	}
	if err := s.wait(ctx); err != nil {
		return nil, err
	}
	if s.failing.Load() {
		return nil, errors.New("scripted failure")
	}
	s.mu.Lock()
	defer s.mu.Unlock()
	v, ok := s.active[name]
	if !ok {
		return nil, api.ErrNotFound
	}
	if v == uint32(old) {
		return nil, api.ErrValueNotChanged
	}
	s.logServe(name, v)
	return &api.SecretValue{Version: api.SecretVersion(v), Value: append([]byte(nil), c12Render(name, v)...)}, nil
}

// bump changes the active version of name: a brand-new version, or (roll > 0 and older versions
// exist) a RE-ACTIVATION of an older one - for the store a new install of bytes it has seen before.
func (s *c12Svc) bump(name string, roll int) {
	s.mu.Lock()
	defer s.mu.Unlock()
	if s.top == nil {
		s.top = map[string]uint32{}
	}
	if s.top[name] < s.active[name] {
		s.top[name] = s.active[name]
	}
	if roll > 0 && s.top[name] > 1 {
		v := 1 + uint32(roll)%s.top[name]
		if v == s.active[name] {
			v = 1 + v%s.top[name]
		}
		s.active[name] = v
		s.rollbacks++
		return
	}
	s.top[name]++
	s.active[name] = s.top[name]
}

func (s *c12Svc) setHold(on bool) {
	s.mu.Lock()
	defer s.mu.Unlock()
	if on && s.hold == nil {
		s.hold = make(chan struct{})
	} else if !on && s.hold != nil {
		close(s.hold)
		s.hold = nil
	}
}

type c12Cache struct {
	mu       sync.Mutex
	data     []byte
	failNext atomic.Bool // the next Write fails
	failed   atomic.Int64
}

func (c *c12Cache) Read() ([]byte, error) { c.mu.Lock(); defer c.mu.Unlock(); return c.data, nil }
func (c *c12Cache) Write(b []byte) error {
	if c.failNext.CompareAndSwap(true, false) {
		c.failed.Add(1)
		return errors.New("scripted cache failure")
	}
	c.mu.Lock()
	defer c.mu.Unlock()
	c.data = append([]byte(nil), b...)
	return nil
}

type c12Ticker struct {
	ch   chan time.Time
	done chan struct{}
}

func (t *c12Ticker) Chan() <-chan time.Time { return t.ch }
func (t *c12Ticker) Stop()                  {}
func (t *c12Ticker) Done() {
	select {
	case t.done <- struct{}{}:
	default:
	}
}

// ---------------------------------------------------------------- readers

type c12Read struct {
	name  string
	vid   uint32
	floor int64
}

type c12Shared struct {
	mu      sync.Mutex
	names   []string
	handles map[string]setec.Secret
}

func (sh *c12Shared) publish(name string, h setec.Secret) {
	sh.mu.Lock()
	defer sh.mu.Unlock()
	if _, ok := sh.handles[name]; !ok {
		sh.names = append(sh.names, name)
		sh.handles[name] = h
	}
}

func (sh *c12Shared) snapshot() ([]string, map[string]setec.Secret) {
	sh.mu.Lock()
	defer sh.mu.Unlock()
	m := make(map[string]setec.Secret, len(sh.handles))
	for k, v := range sh.handles {
		m[k] = v
	}
	return append([]string(nil), sh.names...), m
}

type c12Reader struct {
	id     int
	log    []c12Read
	count  atomic.Int64
	bad    atomic.Pointer[string]
	lastT  map[string]time.Time
	lastV  map[string]uint32
	lastF  map[string]int64
	logged int
}

const c12MaxLog = 400 // per reader

func (r *c12Reader) run(sh *c12Shared, floor *atomic.Int64, stop *atomic.Bool, rng *rand.Rand) {
	defer func() {
		if p := recover(); p != nil {
			m := fmt.Sprintf("handle panicked: %v", p)
			r.bad.Store(&m)
		}
	}()
	var names []string
	var hs map[string]setec.Secret
	for i := 0; !stop.Load(); i++ {
		if i%64 == 0 {
			names, hs = sh.snapshot()
		}
		if len(names) == 0 {
			time.Sleep(50 * time.Microsecond)
			continue
		}
		name := names[rng.IntN(len(names))]
		f := floor.Load()
		b := hs[name].Get()
		v, why := c12Verify(name, b)
		if why != "" {
			w := why
			r.bad.Store(&w)
			v = 999999
		}
		r.count.Add(1)
		lv, seen := r.lastV[name]
		if !seen || lv != v || (r.lastF[name] != f && len(r.log) < c12MaxLog && time.Since(r.lastT[name]) > 3*time.Millisecond) {
			r.log = append(r.log, c12Read{name, v, f})
			r.lastV[name], r.lastF[name], r.lastT[name] = v, f, time.Now()
		}
		if why != "" {
			return
		}
		if i%16 == 0 {
			time.Sleep(time.Duration(rng.IntN(40)) * time.Microsecond)
		}
	}
}

// ---------------------------------------------------------------- one scenario (child process)

type c12Result struct {
	Installs []c12Inst        `json:"-"`
	Coq      string           `json:"coq"`
	AltCoq   string           `json:"alt_coq"` // the same with one observed Updater take flipped (self-test)
	Direct   string           `json:"direct"`
	Stats    map[string]int64 `json:"stats"`
}

// c12Bound: how long a step that must not block may take in real time before it is reported as blocked.  The
// steps take microseconds; the bound is generous because the check may share the machine with other checks
// (a 3-5 s bound was hit once in about 900 runs, under a load average near 30, with the race detector on).
const c12Bound = 20 * time.Second

func c12Child(in c12Input) c12Result {
	res := c12Result{Stats: map[string]int64{}}
	time.AfterFunc(120*time.Second, func() { // far beyond a scenario's two seconds, also on a loaded machine
		fmt.Fprintln(os.Stderr, "C12-WATCHDOG: scenario did not finish (a step blocked)")
		os.Exit(67)
	})
	rng := rand.New(rand.NewPCG(in.Seed, 1201))
	svc := &c12Svc{active: map[string]uint32{}, latest: map[string]uint32{}}
	var decl, look, cached []string
	for i := 0; i < in.NDecl; i++ {
		decl = append(decl, fmt.Sprintf("d%d", i))
	}
	// secret names are opaque strings: unclean names live next to their path.Clean twins, with
	// different values (the scripted service keys on the exact string, every value encodes its name)
	decl = append(decl, "svc//key", "svc/key", "a/../b", "b")
	look = append(look, "./x", "x", "team/token/", "team/token")
	for i := 0; i < in.NLook; i++ {
		look = append(look, fmt.Sprintf("x/%d", i))
	}
	var deadNames []string // names first looked up with an already-ended context
	for i := 0; i < 3; i++ {
		deadNames = append(deadNames, fmt.Sprintf("late/%d", i))
	}
	nextDead := 0
	for i := 0; i < in.NCache; i++ {
		cached = append(cached, fmt.Sprintf("u%d", i))
	}
	for _, n := range append(append(append(append([]string(nil), decl...), look...), cached...), deadNames...) {
		svc.active[n] = 1 + uint32(rng.IntN(3))
	}
	// fake wall clock for the store (seconds granularity matters for expiry)
	var clock atomic.Int64
	clock.Store(time.Date(2024, 1, 1, 0, 0, 0, 0, time.UTC).UnixNano())
	now := func() time.Time { return time.Unix(0, clock.Load()).UTC() }
	// start-up cache: the cache-only names and possibly the first declared name, at version 1
	cache := &c12Cache{}
	doc := map[string]any{}
	inCache := append([]string(nil), cached...)
	if in.NDecl > 1 && in.Seed%2 == 0 {
		inCache = append(inCache, decl[0])
	}
	for _, n := range inCache {
		doc[n] = map[string]any{"secret": map[string]any{"Value": c12Render(n, 1), "Version": 1}, "lastAccess": fmt.Sprint(now().Unix())}
		svc.logServe(n, 1) // start-up cache values are the first installs
	}
	if len(doc) > 0 {
		cache.data, _ = json.Marshal(doc)
	}
	tick := &c12Ticker{ch: make(chan time.Time), done: make(chan struct{}, 1)}
	st, err := newStoreReleased(context.Background(), setec.StoreConfig{
		Client: svc, Secrets: decl, AllowLookup: true, Cache: cache, ExpiryAge: 10 * time.Second,
		PollTicker: tick, TimeNow: now, Logf: func(string, ...any) {},
	})
	if err != nil {
		res.Direct = "NewStore failed: " + err.Error()
		return res
	}
	var floor atomic.Int64
	floor.Store(svc.served.Load()) // construction has completed: every serve so far is installed
	var stop, stopBg atomic.Bool
	sh := &c12Shared{handles: map[string]setec.Secret{}}
	for _, n := range decl {
		sh.publish(n, st.Secret(n))
	}
	readers := make([]*c12Reader, in.Readers)
	var wgR, wgBg sync.WaitGroup
	for i := range readers {
		readers[i] = &c12Reader{id: i, lastV: map[string]uint32{}, lastF: map[string]int64{}, lastT: map[string]time.Time{}}
		wgR.Add(1)
		go func(r *c12Reader) {
			defer wgR.Done()
			r.run(sh, &floor, &stop, rand.New(rand.NewPCG(in.Seed, uint64(1300+r.id))))
		}(readers[i])
	}
	ctx := context.Background()
	refresh := func() error {
		s0 := svc.served.Load()
		err := st.Refresh(ctx)
		if err == nil {
			for {
				cur := floor.Load()
				if cur >= s0 || floor.CompareAndSwap(cur, s0) {
					break
				}
			}
		}
		return err
	}
	refreshBg := refresh
	refresh = func() error { // the driver's calls are bounded: a poll that never ends is a verdict, not a hang
		ch := make(chan error, 1)
		go func() { ch <- refreshBg() }()
		select {
		case err := <-ch:
			return err
		case <-time.After(c12Bound):
			if res.Direct == "" {
				res.Direct = "Refresh blocked: a poll did not complete within the bound"
			}
			return errors.New("blocked")
		}
	}
	// updaters (watchers): uA on the first declared name is drained only in the watch windows (phase
	// 8); the others - on the second declared name and on looked-up names (phase 9) - NEVER
	type upd struct {
		name  string
		u     *setec.Updater[uint32]
		calls *atomic.Int64
	}
	newUpd := func(name string) (*upd, error) {
		x := &upd{name: name, calls: new(atomic.Int64)}
		type r struct {
			u   *setec.Updater[uint32]
			err error
		}
		ch := make(chan r, 1)
		go func() {
			u, err := setec.NewUpdater(ctx, st, name, func(b []byte) (uint32, error) {
				x.calls.Add(1)
				v, _ := c12Verify(name, b)
				return v, nil
			})
			ch <- r{u, err}
		}()
		select {
		case got := <-ch:
			x.u = got.u
			return x, got.err
		case <-time.After(c12Bound):
			return nil, errors.New("NewUpdater blocked")
		}
	}
	uA, err := newUpd(decl[0])
	if err != nil {
		res.Direct = "NewUpdater failed: " + err.Error()
		return res
	}
	res.Stats["updaters"]++
	if len(decl) > 1 {
		if _, err := newUpd(decl[1]); err != nil {
			res.Direct = "NewUpdater failed: " + err.Error()
			return res
		}
		res.Stats["updaters"]++
		res.Stats["updaters-never-drained"]++
	}
	var watchA []string // WN / WT steps observed in the watch windows of uA
	var nilSecret atomic.Bool
	// background: a second refresher (coalescing), the ticker driver, handle takers
	wgBg.Add(3)
	go func() {
		defer wgBg.Done()
		r1 := rand.New(rand.NewPCG(in.Seed, 1249))
		for !stopBg.Load() {
			refreshBg()
			time.Sleep(time.Duration(100+r1.IntN(400)) * time.Microsecond)
		}
	}()
	go func() {
		defer wgBg.Done()
		for !stopBg.Load() {
			select {
			case tick.ch <- time.Now():
				select {
				case <-tick.done:
				case <-time.After(c12Bound):
				}
			case <-time.After(2 * time.Millisecond):
			}
			time.Sleep(300 * time.Microsecond)
		}
	}()
	go func() {
		defer wgBg.Done()
		r2 := rand.New(rand.NewPCG(in.Seed, 1250))
		for !stopBg.Load() {
			n := decl[r2.IntN(len(decl))]
			if h := st.Secret(n); h == nil {
				nilSecret.Store(true)
			}
			time.Sleep(200 * time.Microsecond)
		}
	}()
	waitReads := func(what string) bool {
		// every reader must complete further reads within the watchdog period
		start := make([]int64, len(readers))
		for i, r := range readers {
			start[i] = r.count.Load()
		}
		deadline := time.Now().Add(c12Bound)
		for _, r := range readers {
			i := r.id
			for r.count.Load() < start[i]+20 && r.bad.Load() == nil {
				if time.Now().After(deadline) {
					res.Direct = "read blocked " + what
					return false
				}
				time.Sleep(100 * time.Microsecond)
			}
		}
		return true
	}
	waitBlocked := func() bool {
		deadline := time.Now().Add(3 * time.Second) // not a failure condition: "no request was made" is an outcome
		for svc.blocked.Load() == 0 {
			if time.Now().After(deadline) {
				return false
			}
			time.Sleep(50 * time.Microsecond)
		}
		return true
	}
	nextLook := 0
	all := append(append([]string(nil), decl...), look...)
	for _, op := range in.Ops {
		if res.Direct != "" {
			break
		}
		switch op {
		case 0: // change some names, refresh
			for k := 0; k <= rng.IntN(3); k++ {
				svc.bump(all[rng.IntN(len(all))], rng.IntN(3)*rng.IntN(7))
			}
			err := refresh()
			for try := 0; err != nil && try < 3; try++ { // may have joined a poll begun in a failing phase
				err = refresh()
			}
			if err != nil {
				res.Direct = "Refresh failed although the service answered every request: " + err.Error()
			}
			res.Stats["refresh"]++
		case 8: // a watch window: the watched name gets new versions in CONSECUTIVE polls, nobody drains
			err := refresh()
			for try := 0; err != nil && try < 3 && res.Direct == ""; try++ {
				err = refresh()
			}
			if err != nil {
				if res.Direct == "" {
					res.Direct = "Refresh failed although the service answered every request: " + err.Error()
				}
				continue
			}
			uA.u.Get() // drain: the store is up to date and the flag is clear from here on
			k := 2 + rng.IntN(2)
			okw := true
			for round := 0; round < k && okw; round++ {
				svc.bump(decl[0], 0)
				err := refresh()
				for try := 0; err != nil && try < 3 && res.Direct == ""; try++ {
					err = refresh()
				}
				if err != nil {
					okw = false
					if res.Direct == "" {
						res.Direct = "Refresh failed although the service answered every request: " + err.Error()
					}
					break
				}
				watchA = append(watchA, "WN")
				res.Stats["undrained-notifications"]++
			}
			if !okw {
				continue
			}
			// handles of watched and unwatched names, Secret and LookupSecret go on
			if !waitReads("after consecutive polls notified an undrained watcher") {
				continue
			}
			for t := 0; t < 2; t++ {
				c0 := uA.calls.Load()
				v := uA.u.Get()
				watchA = append(watchA, "WT "+coqBool(uA.calls.Load() > c0))
				svc.mu.Lock()
				cur := svc.active[decl[0]]
				svc.mu.Unlock()
				if v != cur && res.Direct == "" {
					res.Direct = fmt.Sprintf("Updater.Get returned version %d of %q after a completed poll installed %d", v, decl[0], cur)
				}
			}
			res.Stats["watch-windows"]++
		case 9: // an updater on a looked-up name, never drained
			if nextLook >= len(look) {
				continue
			}
			lname := look[nextLook]
			nextLook++
			if _, err := newUpd(lname); err != nil {
				res.Direct = "NewUpdater (looked-up name) failed: " + err.Error()
				continue
			}
			if h := st.Secret(lname); h != nil {
				sh.publish(lname, h)
			}
			res.Stats["updaters"]++
			res.Stats["updaters-never-drained"]++
		case 6: // the Cache.Write of a poll's apply fails: Refresh reports it, the values are installed, reads go on
			cache.failNext.Store(true)
			svc.bump(decl[rng.IntN(len(decl))], 0)
			refresh() // nil or the cache's error, depending on which poll applied the change
			waitReads("after a poll whose cache write failed")
			cache.failNext.Store(false)
			res.Stats["poll-write-failed"]++
		case 7: // the Cache.Write of a lookup fails: only logged
			var lname string
			if nextLook < len(look) {
				lname = look[nextLook]
				nextLook++
			} else {
				continue
			}
			cache.failNext.Store(true)
			if h, err := st.LookupSecret(ctx, lname); err == nil {
				sh.publish(lname, h)
			} else {
				res.Direct = "LookupSecret failed although the service answered (cache write failing): " + err.Error()
			}
			waitReads("after a lookup whose cache write failed")
			cache.failNext.Store(false)
			res.Stats["lookup-write-failed"]++
		case 5: // changes racing with refreshes
			for k := 0; k < 6; k++ {
				svc.bump(all[rng.IntN(len(all))], rng.IntN(3)*rng.IntN(7))
				if k%2 == 1 {
					refresh()
				}
			}
			res.Stats["burst"]++
		case 1: // hold the service with a poll and a lookup in flight: reads must go on
			svc.bump(decl[rng.IntN(len(decl))], rng.IntN(3)*rng.IntN(7))
			svc.setHold(true)
			done := make(chan struct{}, 2)
			go func() { refresh(); done <- struct{}{} }()
			lname := ""
			if nextLook < len(look) {
				lname = look[nextLook]
				nextLook++
				go func() {
					if h, err := st.LookupSecret(ctx, lname); err == nil {
						sh.publish(lname, h)
					}
					done <- struct{}{}
				}()
			}
			if !waitBlocked() {
				res.Stats["hold-no-request"]++
			} else if waitReads("while requests to the service were held (poll/lookup in flight)") {
				res.Stats["hold"]++
			}
			svc.setHold(false)
			<-done
			if lname != "" {
				<-done
			}
		case 2: // a phase of failing polls: nothing may change, reads go on
			refresh()
			svc.failing.Store(true)
			if err := st.Refresh(ctx); err == nil {
				res.Stats["failing-but-ok"]++
			}
			waitReads("during failing polls")
			svc.failing.Store(false)
			st.Refresh(ctx) // drain a poll that may still carry failures of this phase
			res.Stats["failing"]++
		case 3: // expiry sweep with a handle taken between snapshot and apply
			clock.Add(int64(60 * time.Second))
			svc.bump(decl[0], 0)
			svc.setHold(true)
			done := make(chan struct{}, 1)
			go func() { refresh(); done <- struct{}{} }()
			if waitBlocked() && len(cached) > 0 {
				u := cached[0]
				if h := st.Secret(u); h != nil { // still known: pin it now, after the snapshot flagged it
					sh.publish(u, h)
					res.Stats["pinned-after-snapshot"]++
				}
				waitReads("during an expiry sweep")
			}
			svc.setHold(false)
			<-done
			res.Stats["expiry"]++
		case 10: // LookupSecret of a NEW name with an already-ended context: an error, nothing installed
			if nextDead >= len(deadNames) {
				continue
			}
			lname := deadNames[nextDead]
			nextDead++
			dctx, cancel := context.WithCancel(ctx)
			if nextDead%2 == 0 {
				cancel()
				dctx, cancel = context.WithDeadline(ctx, time.Now().Add(-time.Second))
			}
			cancel()
			type lr struct {
				h   setec.Secret
				err error
			}
			lookup := func(c context.Context) (lr, bool) {
				ch := make(chan lr, 1)
				go func() { h, err := st.LookupSecret(c, lname); ch <- lr{h, err} }()
				select {
				case r := <-ch:
					return r, true
				case <-time.After(c12Bound):
					return lr{}, false
				}
			}
			got, ok := lookup(dctx)
			switch {
			case !ok:
				res.Direct = "LookupSecret with an already-ended context did not return"
			case got.err == nil:
				res.Direct = "LookupSecret of a new name with an already-ended context returned no error"
			case got.h != nil:
				res.Direct = "LookupSecret returned an error AND a handle"
			}
			if res.Direct != "" {
				continue
			}
			func() { // nothing may have been installed
				defer func() {
					if p := recover(); p != nil {
						res.Direct = fmt.Sprintf("Secret(%q) panicked after a failed lookup: %v", lname, p)
					}
				}()
				if h := st.Secret(lname); h != nil {
					res.Direct = fmt.Sprintf("Secret(%q) is not nil after a lookup that failed (dead context)", lname)
					h.Get()
				}
			}()
			if res.Direct != "" {
				continue
			}
			err := refresh() // a poll right after
			for try := 0; err != nil && try < 3 && res.Direct == ""; try++ {
				err = refresh()
			}
			if err != nil && res.Direct == "" {
				res.Direct = "Refresh failed after a dead-context lookup: " + err.Error()
			}
			if res.Direct != "" || !waitReads("after a lookup with an already-ended context") {
				continue
			}
			got, ok = lookup(ctx) // and a live lookup works
			if !ok || got.err != nil || got.h == nil {
				res.Direct = fmt.Sprintf("a live LookupSecret of %q after a dead-context one failed (returned=%v err=%v)", lname, ok, got.err)
				continue
			}
			if _, why := c12Verify(lname, got.h.Get()); why != "" {
				res.Direct = why
				continue
			}
			sh.publish(lname, got.h)
			res.Stats["dead-ctx-lookups"]++
		case 4: // look up a new name (or a dropped cache-only name again)
			var lname string
			if nextLook < len(look) {
				lname = look[nextLook]
				nextLook++
			} else if len(cached) > 1 {
				lname = cached[1]
			} else {
				continue
			}
			if h, err := st.LookupSecret(ctx, lname); err == nil {
				sh.publish(lname, h)
				res.Stats["lookup"]++
			} else {
				res.Direct = "LookupSecret failed although the service answered: " + err.Error()
			}
		}
	}
	if res.Direct != "" {
		return res // something is blocked or broken: do not wait for anybody (the process ends)
	}
	stopBg.Store(true)
	wgBg.Wait()
	if nilSecret.Load() && res.Direct == "" {
		res.Direct = "Secret returned nil for a declared name"
	}
	refresh()
	if in.CloseFail {
		cache.failNext.Store(true) // the poller's final flush fails
	}
	closed := make(chan struct{})
	go func() { st.Close(); close(closed) }()
	select {
	case <-closed:
	case <-time.After(c12Bound):
		if res.Direct == "" {
			res.Direct = "Close blocked"
		}
	}
	if res.Direct == "" {
		what := "after Close"
		if in.CloseFail {
			what = "after Close with a failed final cache flush"
		}
		waitReads(what)
	}
	res.Stats["cache-writes-failed"] = cache.failed.Load()
	svc.mu.Lock()
	res.Stats["rollbacks"] = int64(svc.rollbacks)
	svc.mu.Unlock()
	time.Sleep(2 * time.Millisecond)
	stop.Store(true)
	readersDone := make(chan struct{})
	go func() { wgR.Wait(); close(readersDone) }()
	select {
	case <-readersDone:
	case <-time.After(c12Bound):
		// readers stuck inside a handle: report what is known and do not touch their logs
		if res.Direct == "" {
			res.Direct = "read blocked: a reader did not come back from a handle call"
		}
		return res
	}
	// assemble
	svc.mu.Lock()
	inst := append([]c12Inst(nil), svc.installs...)
	svc.mu.Unlock()
	var it []string
	for _, x := range inst {
		it = append(it, fmt.Sprintf("(%s,%d)", coqBytes([]byte(x.name)), x.ver))
	}
	var lg []string
	total := int64(0)
	for _, r := range readers {
		total += r.count.Load()
		if b := r.bad.Load(); b != nil && res.Direct == "" {
			res.Direct = *b
		}
		for _, e := range r.log {
			lg = append(lg, fmt.Sprintf("RL %d %s %d %d", r.id, coqBytes([]byte(e.name)), e.vid, e.floor))
		}
	}
	res.Stats["reads"] = total
	res.Stats["logged"] = int64(len(lg))
	res.Stats["installs"] = int64(len(inst))
	wt := fmt.Sprintf("[(%s,%s)]", coqBytes([]byte(decl[0])), coqList(watchA))
	res.Coq = fmt.Sprintf("LogW %s %s %s", coqList(it), coqList(lg), wt)
	for i := len(watchA) - 1; i >= 0; i-- { // self-test material: the last observed take flipped
		if strings.HasPrefix(watchA[i], "WT ") {
			alt := append([]string(nil), watchA...)
			alt[i] = "WT " + coqBool(watchA[i] != "WT true")
			res.AltCoq = fmt.Sprintf("LogW %s %s [(%s,%s)]", coqList(it), coqList(lg), coqBytes([]byte(decl[0])), coqList(alt))
			break
		}
	}
	return res
}

// ---------------------------------------------------------------- parent

func c12Gen(rng *rand.Rand, i int) c12Input {
	in := c12Input{Seed: rng.Uint64(), NDecl: 1 + rng.IntN(4), NLook: 1 + rng.IntN(3), NCache: rng.IntN(3),
		Readers: 2 + rng.IntN(4), Procs: []int{2, 4, 8, 16}[i%4]}
	n := 10 + rng.IntN(10)
	for k := 0; k < n; k++ {
		in.Ops = append(in.Ops, []int{0, 0, 0, 1, 2, 3, 4, 4, 4, 5, 6, 7, 8, 8, 9, 10}[rng.IntN(16)])
	}
	in.CloseFail = i%2 == 0
	// every scenario has at least one of each special phase
	in.Ops = append(in.Ops, 4, 10, 1, 3, 0, 6, 8, 4, 10, 2, 0)
	return in
}

func runC12(o Opts) {
	if os.Getenv("C12_CHILD") != "" {
		var in c12Input
		if err := json.Unmarshal([]byte(os.Getenv("C12_CHILD")), &in); err != nil {
			fatal("child input: %v", err)
		}
		res := c12Child(in)
		bs, _ := json.Marshal(res)
		os.WriteFile(o.Out, bs, 0o644)
		return
	}
	out := NewOut(o.Out)
	defer out.Close()
	self, err := os.Executable()
	if err != nil {
		fatal("executable: %v", err)
	}
	var selfs []Record
	directs := 0
	runOne := func(in c12Input, corpus string) {
		if directs >= 3 { // enough evidence; keep the run short
			return
		}
		ib, _ := json.Marshal(in)
		tmp := fmt.Sprintf("%s.child", o.Out)
		os.Remove(tmp)
		cmd := exec.Command(self, "C12", "-out", tmp)
		cmd.Env = append(os.Environ(), "C12_CHILD="+string(ib), "GORACE=halt_on_error=1 exitcode=66",
			fmt.Sprintf("GOMAXPROCS=%d", max(in.Procs, 2)))
		var stderr bytes.Buffer
		cmd.Stderr = &stderr
		runErr := cmd.Run()
		rec := Record{Kind: "run", Input: in, Key: string(ib), Corpus: corpus, Tags: []string{fmt.Sprintf("procs=%d", in.Procs)}}
		var res c12Result
		if bs, err := os.ReadFile(tmp); err == nil {
			json.Unmarshal(bs, &res)
		}
		os.Remove(tmp)
		se := stderr.String()
		switch {
		case strings.Contains(se, "DATA RACE"):
			rec.Direct = &DirectVerdict{OK: false, What: "data race reported by the race detector: " + c12Head(se, 1500)}
		case strings.Contains(se, "C12-WATCHDOG"):
			rec.Direct = &DirectVerdict{OK: false, What: "a step blocked: watchdog fired (deadlock or a read waiting for a request)"}
		case runErr != nil:
			rec.Direct = &DirectVerdict{OK: false, What: "scenario process died (panic / runtime deadlock): " + c12Head(se, 1500)}
		case res.Direct != "":
			rec.Direct = &DirectVerdict{OK: false, What: res.Direct}
		}
		rec.Coq = res.Coq
		rec.Obs = res.Stats
		rec.Nontrivial = res.Stats["hold"] > 0 && res.Stats["installs"] > 5 && res.Stats["logged"] > 10
		if res.Stats["watch-windows"] > 0 {
			rec.Tags = append(rec.Tags, "undrained-watcher")
		}
		if res.Stats["dead-ctx-lookups"] > 0 {
			rec.Tags = append(rec.Tags, "dead-context-lookup")
		}
		rec.Tags = append(rec.Tags, "unclean-names")
		for _, k := range []string{"hold", "expiry", "failing", "lookup", "pinned-after-snapshot"} {
			if res.Stats[k] > 0 {
				rec.Tags = append(rec.Tags, k)
			}
		}
		id := out.n
		out.Emit(rec)
		if rec.Direct != nil {
			directs++
		}
		if rec.Direct == nil && rec.Coq != "" && len(selfs) < 4 {
			// self-test: the same log with one read moved back to an older value / a foreign value
			alt := c12Alter(res.Coq, len(selfs))
			if len(selfs)%2 == 1 && res.AltCoq != "" {
				alt = res.AltCoq // an observed Updater take flipped
			}
			if alt != "" {
				s := rec
				s.Coq = alt
				s.SelfTest = true
				s.SelfOf = id
				selfs = append(selfs, s)
			}
		}
	}
	if o.Replay != "" {
		for _, in := range readInputs[c12Input](o.Replay) {
			runOne(in, "")
		}
		return
	}
	for _, in := range readCorpus[c12Input](o.Corpus) {
		runOne(in, "corpus")
	}
	n := 16
	if o.Tier == "thorough" {
		n = 400
	}
	if o.N > 0 {
		n = o.N
	}
	rng := NewRand(o.Seed, 1200)
	for i := 0; i < n; i++ {
		runOne(c12Gen(rng, i), "")
	}
	for _, s := range selfs {
		out.Emit(s)
	}
}

func c12Head(s string, n int) string {
	sc := bufio.NewScanner(strings.NewReader(s))
	var b strings.Builder
	for sc.Scan() && b.Len() < n {
		b.WriteString(sc.Text())
		b.WriteByte('\n')
	}
	return b.String()
}

// c12Alter produces a log the monitor must reject: kind 0/2 appends a read that goes back to the
// first value of the reader's last name; kind 1/3 appends a read of a never-served value.
func c12Alter(full string, kind int) string {
	// the read log ends where the watch list begins
	cut := strings.LastIndex(full, "] [(")
	if cut < 0 {
		return ""
	}
	rest := full[cut+1:]
	alt := c12AlterLog(full[:cut+1], kind)
	if alt == "" {
		return ""
	}
	return alt + rest
}

func c12AlterLog(coq string, kind int) string {
	i := strings.LastIndex(coq, "RL ")
	if i < 0 || !strings.HasSuffix(coq, "]") {
		return ""
	}
	last := coq[i : len(coq)-1] // "RL r name vid floor"
	f := strings.Fields(last)
	if len(f) != 5 {
		return ""
	}
	if kind%2 == 1 {
		return coq[:len(coq)-1] + fmt.Sprintf(";RL %s %s 777777 %s]", f[1], f[2], f[4])
	}
	// (with re-activated versions "an older value" may be legitimate again: the self-test uses a
	// version far above anything served, at a floor of 0, i.e. the never-served case once more)
	return coq[:len(coq)-1] + fmt.Sprintf(";RL %s %s 888888 0]", f[1], f[2])
}
