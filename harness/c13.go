package main

// C13 - local cache persists the active set faithfully and tolerates loss or corruption.
// Drives the real setec.Store with a scripted service and a recording/failing Cache,
// restarts a second store (dead service) and a FileClient from the cache content, feeds
// mutated documents and raw bytes as cache, and straces FileCache.Write.

import (
	"bytes"
	"context"
	"encoding/json"
	"errors"
	"fmt"
	"os"
	"path/filepath"
	"slices"
	"sort"
	"sync"
	"time"

	"github.com/tailscale/setec/client/setec"
	"github.com/tailscale/setec/types/api"
)

func init() { commands["C13"] = runC13 }

// ---------------------------------------------------------------- inputs

type c13SV struct {
	Ver uint32 `json:"ver"`
	Val []byte `json:"val"`
}

type c13Op struct {
	Op        string `json:"op"` // set | del | tick | lookup | read | poll | close
	Name      string `json:"name,omitempty"`
	Ver       uint32 `json:"ver,omitempty"`
	Val       []byte `json:"val,omitempty"`
	Secs      int64  `json:"secs,omitempty"`
	WriteFail bool   `json:"write_fail,omitempty"` // Cache.Write fails during this call
	SlowSecs  int64  `json:"slow_secs,omitempty"`  // kind slow: the Cache.Write of this call takes that many (virtual) seconds, then succeeds
	PollFail  string `json:"poll_fail,omitempty"`  // the service fails the request for this name
	SameVer   bool   `json:"same_ver,omitempty"`   // the service returns the value (not "not changed") for an unchanged version
}

type c13Input struct {
	Kind      string           `json:"kind"` // hist | doc | conc | slow | life | retain | fcfile | trace | inject
	Cache     []byte           `json:"cache,omitempty"`
	ReadFail  bool             `json:"read_fail,omitempty"`
	InitWFail bool             `json:"init_write_fail,omitempty"`
	Names     []string         `json:"names,omitempty"`
	Allow     bool             `json:"allow,omitempty"`
	AgeSec    int64            `json:"age_sec,omitempty"`
	Server    map[string]c13SV `json:"server,omitempty"`
	Probe     []string         `json:"probe,omitempty"`
	Restarts  bool             `json:"restarts,omitempty"` // restart + FileClient after every cache change
	File      bool             `json:"file,omitempty"`     // the cache is a real setec.FileCache (recorded by a wrapper)
	Ops       []c13Op          `json:"ops"`
	Retain    string           `json:"retain,omitempty"`  // kind retain: "slice" = the cache keeps the very slice given to Write; "mem" = a real setec.MemCache (m.data = data)
	Names2    []string         `json:"names2,omitempty"`  // kind life: the names declared by the SECOND start (run 1's plus new ones)
	Server2   map[string]c13SV `json:"server2,omitempty"` // kind life: what the service can answer during the second start (nothing if dead2)
	Dead2     bool             `json:"dead2,omitempty"`
	CtxDone2  bool             `json:"ctx_done2,omitempty"` // the second start's context has ended before it begins (else: ends after 25 ms)
	Sizes     []int            `json:"sizes,omitempty"`    // kind big: byte sizes of the secrets (values are pseudo-random from big_seed)
	BigSeed   uint64           `json:"big_seed,omitempty"`
	Conc      []c13Op          `json:"conc,omitempty"` // kind conc: calls made CONCURRENTLY after ops; the first one's Cache.Write is held
	Note      string           `json:"note,omitempty"`
	// trace / inject
	Syscall string `json:"syscall,omitempty"`
	Fault   string `json:"fault,omitempty"` // kill | eio
}

const c13T0 = int64(1_700_000_000)

// ---------------------------------------------------------------- scripted service, recording cache

type c13Req struct {
	Get  bool
	Name string
	Old  uint32
	Ans  string // value | notchanged | err
	Ver  uint32
	Val  []byte
}

type c13Client struct {
	mu       sync.Mutex
	srv      map[string]c13SV
	dead     bool
	pollFail string
	sameVer  bool
	log      []c13Req
}

func (c *c13Client) Get(ctx context.Context, name string) (*api.SecretValue, error) {
	c.mu.Lock()
	defer c.mu.Unlock()
	r := c13Req{Get: true, Name: name, Ans: "err"}
	defer func() { c.log = append(c.log, r) }()
	if c.dead {
		return nil, errors.New("service unreachable")
	}
	sv, ok := c.srv[name]
	if !ok {
		return nil, api.ErrNotFound
	}
	r.Ans, r.Ver, r.Val = "value", sv.Ver, sv.Val
	return &api.SecretValue{Value: bytes.Clone(sv.Val), Version: api.SecretVersion(sv.Ver)}, nil
}

func (c *c13Client) GetIfChanged(ctx context.Context, name string, old api.SecretVersion) (*api.SecretValue, error) {
	c.mu.Lock()
	defer c.mu.Unlock()
	r := c13Req{Name: name, Old: uint32(old), Ans: "err"}
	defer func() { c.log = append(c.log, r) }()
	if c.dead || c.pollFail == name {
		return nil, errors.New("service unreachable")
	}
	sv, ok := c.srv[name]
	if !ok {
		return nil, api.ErrNotFound
	}
	if sv.Ver == uint32(old) && !c.sameVer {
		r.Ans = "notchanged"
		return nil, api.ErrValueNotChanged
	}
	r.Ans, r.Ver, r.Val = "value", sv.Ver, sv.Val
	return &api.SecretValue{Value: bytes.Clone(sv.Val), Version: api.SecretVersion(sv.Ver)}, nil
}

func (c *c13Client) take() []c13Req {
	c.mu.Lock()
	defer c.mu.Unlock()
	l := c.log
	c.log = nil
	return l
}

type c13Cache struct {
	mu        sync.Mutex
	data      []byte
	writes    [][]byte
	failWrite bool
	failRead  bool
	backing   setec.Cache // if set: a real setec.FileCache holding the content
	path      string
	badMode   string // set when the file's permissions are not 0600 after a write
	// retaining modes: the slices handed to Write are KEPT (not copied); keptAt = their bytes when written
	retain string
	mem    *setec.MemCache
	kept   [][]byte
	keptAt [][]byte
	// every payload of the whole run, in the order the writes were OFFERED (Write entered) and LANDED
	// (took effect); slowNext: the next Write sleeps that long (virtual time in a synctest bubble)
	allOffered [][]byte
	allLanded  [][]byte
	slowNext   time.Duration
	// a gate: the next Write announces itself on entered and then waits for release (a slow write)
	gateArmed bool
	entered   chan struct{}
	release   chan struct{}
}

func (c *c13Cache) armGate() (entered, release chan struct{}) {
	c.mu.Lock()
	defer c.mu.Unlock()
	c.gateArmed, c.entered, c.release = true, make(chan struct{}), make(chan struct{})
	return c.entered, c.release
}

// Write records the payloads in the order in which the writes COMPLETE (that is the order in
// which they take effect on the cache content).
func (c *c13Cache) Write(d []byte) error {
	c.mu.Lock()
	var entered, release chan struct{}
	if c.gateArmed {
		c.gateArmed = false
		entered, release = c.entered, c.release
	}
	c.allOffered = append(c.allOffered, bytes.Clone(d))
	slow := c.slowNext
	c.slowNext = 0
	c.mu.Unlock()
	if entered != nil {
		close(entered)
		<-release
	}
	if slow > 0 {
		time.Sleep(slow) // a slow file system: the write takes this long and then succeeds
	}
	c.mu.Lock()
	defer c.mu.Unlock()
	c.writes = append(c.writes, bytes.Clone(d))
	if !c.failWrite {
		c.allLanded = append(c.allLanded, bytes.Clone(d))
	}
	if c.failWrite {
		return errors.New("cache write failed")
	}
	if c.backing != nil {
		if err := c.backing.Write(d); err != nil {
			return err
		}
		if st, err := os.Stat(c.path); err != nil || st.Mode().Perm() != 0600 {
			c.badMode = fmt.Sprintf("cache file after Write: %v %v", st, err)
		}
		return nil
	}
	switch c.retain {
	case "slice":
		c.data = d // the very slice: the Cache contract does not promise a copy
		c.kept, c.keptAt = append(c.kept, d), append(c.keptAt, bytes.Clone(d))
	case "mem":
		c.mem.Write(d) // the package's own MemCache: m.data = data
		c.kept, c.keptAt = append(c.kept, d), append(c.keptAt, bytes.Clone(d))
	default:
		c.data = bytes.Clone(d)
	}
	return nil
}

func (c *c13Cache) Read() ([]byte, error) {
	c.mu.Lock()
	defer c.mu.Unlock()
	if c.failRead {
		return nil, errors.New("cache read failed")
	}
	if c.retain == "mem" {
		return c.mem.Read()
	}
	if c.backing != nil {
		return c.backing.Read()
	}
	return bytes.Clone(c.data), nil
}

func (c *c13Cache) take() [][]byte {
	c.mu.Lock()
	defer c.mu.Unlock()
	w := c.writes
	c.writes = nil
	return w
}

func (c *c13Cache) content() []byte {
	c.mu.Lock()
	defer c.mu.Unlock()
	if c.backing != nil {
		bs, _ := os.ReadFile(c.path)
		return bs
	}
	if c.retain == "mem" {
		return []byte(c.mem.String())
	}
	return bytes.Clone(c.data)
}

// a ticker that never fires: the poller goroutine exists (so Close flushes) but polls are
// driven explicitly through Refresh
type c13Ticker struct{ ch chan time.Time }

func (t c13Ticker) Chan() <-chan time.Time { return t.ch }
func (c13Ticker) Stop()                    {}
func (c13Ticker) Done()                    {}

// ---------------------------------------------------------------- the recorded case

type c13Served struct {
	Name string
	Has  bool
	Ver  uint32
	Val  []byte
}

type c13Restart struct {
	OK     bool
	NReq   int
	Served []c13Served
}

type c13FCAns struct {
	Name string
	Get  string // coq term of fcres
	GIC  []string
}

type c13FC struct {
	OK  bool
	Ans []c13FCAns
}

type c13SObs struct {
	Res     string // coq term of res
	Written *c13J
	HasW    bool
	RS      *c13Restart
	FC      *c13FC
}

type c13Step struct {
	Ev  string // coq term of ev
	WOK bool
	Obs c13SObs
}

type c13Case struct {
	tbl      *c13B64
	RFail    bool
	CinKind  int // 0 none, 1 undecodable, 2 tree
	Cin      *c13J
	Names    []string
	Allow    bool
	AgeNs    int64
	InitAns  []c13Served
	Now0     int64
	Probe    []string
	ConsOK   bool
	ConsReqs []string
	ConsWOK  bool
	Cons     c13SObs
	Steps    []c13Step
	Conc     *c13ConcObs
	Slow     *c13SlowObs
	Life     *c13LifeObs
	Retain   *c13RetainObs
}

// a failed second start and the third start after it
type c13LifeObs struct {
	Names2  []string
	Ans2    []c13Served
	Now2    int64
	OK2     bool
	Writes2 []*c13J
	RS      *c13Restart
	FC      *c13FC
}

// the payloads a retaining cache still holds: as written / as they read at the end
type c13RetainObs struct {
	At  []*c13J
	Now []*c13J // nil element: no longer parses
	Bad int     // how many no longer parse
}

// the state at rest after a history with slow cache writes
type c13SlowObs struct {
	Offered, Landed []*c13J
	RS              *c13Restart
	FC              *c13FC
}

// what a block of concurrent calls left behind
type c13ConcObs struct {
	Now     int64
	Evs     []string // coq terms of the events (order of the input; the first one's write was held)
	Writes  []*c13J  // payloads in order of completion
	RS      *c13Restart
	FC      *c13FC
	Served  []c13Served
	Held    bool // the first call's write did reach the gate
	Overran bool // another call finished while the first write was still held
}

func c13Z(z int64) string {
	if z < 0 {
		return fmt.Sprintf("(zn %d)", uint64(-z))
	}
	return fmt.Sprintf("(zp %d)", z)
}

func c13OptVV(has bool, ver uint32, val []byte) string {
	if !has {
		return "None"
	}
	return fmt.Sprintf("(Some (%d,%s))", ver, coqBytes(val))
}

func c13Names(ns []string) string {
	parts := make([]string, len(ns))
	for i, n := range ns {
		parts[i] = coqBytes([]byte(n))
	}
	return coqList(parts)
}

func (r *c13Restart) Coq() string {
	if r == nil {
		return "None"
	}
	parts := make([]string, len(r.Served))
	for i, s := range r.Served {
		parts[i] = "(" + coqBytes([]byte(s.Name)) + "," + c13OptVV(s.Has, s.Ver, s.Val) + ")"
	}
	return fmt.Sprintf("(Some (RS %s %d %s))", coqBool(r.OK), r.NReq, coqList(parts))
}

func (f *c13FC) Coq() string {
	if f == nil {
		return "None"
	}
	parts := make([]string, len(f.Ans))
	for i, a := range f.Ans {
		parts[i] = "(" + coqBytes([]byte(a.Name)) + ",(" + a.Get + "," + coqList(a.GIC) + "))"
	}
	return fmt.Sprintf("(Some (FC %s %s))", coqBool(f.OK), coqList(parts))
}

func (o *c13SObs) Coq() string {
	w := "None"
	if o.HasW {
		w = "(Some " + o.Written.Coq() + ")"
	}
	return fmt.Sprintf("(SO %s %s %s %s)", o.Res, w, o.RS.Coq(), o.FC.Coq())
}

func (c *c13Case) Coq() string {
	cin := "None"
	switch c.CinKind {
	case 1:
		cin = "(Some None)"
	case 2:
		cin = "(Some (Some " + c.Cin.Coq() + "))"
	}
	ia := make([]string, len(c.InitAns))
	for i, a := range c.InitAns {
		ia[i] = "(" + coqBytes([]byte(a.Name)) + "," + c13OptVV(a.Has, a.Ver, a.Val) + ")"
	}
	steps := make([]string, len(c.Steps))
	for i, s := range c.Steps {
		steps[i] = fmt.Sprintf("(%s,%s,%s)", s.Ev, coqBool(s.WOK), s.Obs.Coq())
	}
	hist := fmt.Sprintf("CHist %s %s %s %s %s %s %s %s %s %s %s %s %s %s",
		c.tbl.Coq(), coqBool(c.RFail), cin, c13Names(c.Names), coqBool(c.Allow), c13Z(c.AgeNs), coqList(ia), c13Z(c.Now0),
		c13Names(c.Probe), coqBool(c.ConsOK), c13Names(c.ConsReqs), coqBool(c.ConsWOK), c.Cons.Coq(), coqList(steps))
	if c.Life != nil {
		ws := make([]string, len(c.Life.Writes2))
		for i, w := range c.Life.Writes2 {
			ws[i] = w.Coq()
		}
		ia2 := make([]string, len(c.Life.Ans2))
		for i, a := range c.Life.Ans2 {
			ia2[i] = "(" + coqBytes([]byte(a.Name)) + "," + c13OptVV(a.Has, a.Ver, a.Val) + ")"
		}
		return fmt.Sprintf("CLife (%s) %s %s %s %s %s %s %s", hist, c13Names(c.Life.Names2), coqList(ia2), c13Z(c.Life.Now2),
			coqBool(c.Life.OK2), coqList(ws), c.Life.RS.Coq(), c.Life.FC.Coq())
	}
	if c.Retain != nil {
		ps := make([]string, len(c.Retain.At))
		for i := range c.Retain.At {
			now := "(Some None)"
			if c.Retain.Now[i] != nil {
				now = "(Some (Some " + c.Retain.Now[i].Coq() + "))"
			}
			ps[i] = "(" + c.Retain.At[i].Coq() + "," + now + ")"
		}
		return fmt.Sprintf("CRetain (%s) %s", hist, coqList(ps))
	}
	if c.Slow != nil {
		trees := func(js []*c13J) string {
			parts := make([]string, len(js))
			for i, j := range js {
				parts[i] = j.Coq()
			}
			return coqList(parts)
		}
		return fmt.Sprintf("CSlow (%s) %s %s %s %s", hist, trees(c.Slow.Offered), trees(c.Slow.Landed), c.Slow.RS.Coq(), c.Slow.FC.Coq())
	}
	if c.Conc == nil {
		return hist
	}
	ws := make([]string, len(c.Conc.Writes))
	for i, w := range c.Conc.Writes {
		ws[i] = w.Coq()
	}
	sv := make([]string, len(c.Conc.Served))
	for i, x := range c.Conc.Served {
		sv[i] = "(" + coqBytes([]byte(x.Name)) + "," + coqOpt(coqBytes(x.Val), x.Has) + ")"
	}
	return fmt.Sprintf("CConc (%s) %s %s %s %s %s %s", hist, c13Z(c.Conc.Now), coqList(c.Conc.Evs), coqList(ws),
		c.Conc.RS.Coq(), c.Conc.FC.Coq(), coqList(sv))
}

// ---------------------------------------------------------------- running one history

type c13Run struct {
	in      c13Input
	tbl     *c13B64
	now     int64
	cli     *c13Client
	cache   *c13Cache
	st      *setec.Store
	tmpdir  string
	panicky string
	nrest   int
}

func (r *c13Run) timeNow() time.Time { return time.Unix(r.now, 0) }

func (r *c13Run) restartCache(content []byte) setec.Cache {
	if r.cache.backing != nil {
		fcache, err := setec.NewFileCache(r.cache.path)
		if err != nil {
			fatal("C13: NewFileCache: %v", err)
		}
		return fcache
	}
	return setec.NewMemCache(string(content))
}

// written collects the payload(s) of the Cache.Write calls since the last call
func (r *c13Run) written(o *c13SObs) {
	ws := r.cache.take()
	switch len(ws) {
	case 0:
	case 1:
		o.HasW = true
		if j, ok := c13Parse(ws[0]); ok {
			o.Written = j
			r.tbl.addTree(j)
		} else {
			o.Written = c13Str([]byte("unparsable payload"))
		}
	default:
		o.HasW = true
		o.Written = c13Arr(c13Num(fmt.Sprint(len(ws)))) // more than one write in one step: matches nothing
	}
}

// restart starts a second store from the cache content with a dead service and a file
// client on a file with the same bytes.
func (r *c13Run) restart(o *c13SObs) {
	content := r.cache.content()
	if len(content) == 0 {
		return
	}
	r.nrest++
	dead := &c13Client{dead: true}
	rs := &c13Restart{}
	func() {
		defer func() {
			if p := recover(); p != nil {
				r.panicky = fmt.Sprintf("restart panicked: %v", p)
				rs.OK = false
			}
		}()
		ctx, cancel := context.WithTimeout(context.Background(), 300*time.Millisecond)
		defer cancel()
		s2, err := newStoreReleased(ctx, setec.StoreConfig{
			Client: dead, Secrets: slices.Clone(r.in.Names), AllowLookup: true, Cache: r.restartCache(content),
			PollInterval: -1, TimeNow: r.timeNow, Logf: func(string, ...any) {},
		})
		rs.NReq = len(dead.take())
		if err != nil {
			return
		}
		rs.OK = true
		defer s2.Close()
		vals := map[string][]byte{}
		has := map[string]bool{}
		for _, n := range r.in.Probe {
			if h := s2.Secret(n); h != nil {
				has[n] = true
				vals[n] = bytes.Clone(h.Get())
			}
		}
		rs.NReq += len(dead.take())
		// versions: a poll against the dead service reveals the version held for each name
		s2.Refresh(context.Background())
		vers := map[string]uint32{}
		for _, q := range dead.take() {
			if !q.Get {
				vers[q.Name] = q.Old
			}
		}
		for _, n := range r.in.Probe {
			rs.Served = append(rs.Served, c13Served{Name: n, Has: has[n], Ver: vers[n], Val: vals[n]})
		}
	}()
	o.RS = rs

	// the file client on the same bytes
	fc := &c13FC{}
	path := filepath.Join(r.tmpdir, "fc.json")
	if r.cache.backing != nil {
		path = r.cache.path // the very file the store's FileCache wrote
	} else if err := os.WriteFile(path, content, 0600); err != nil {
		fatal("C13: %v", err)
	}
	if p := c13ProbeFC(path, r.in.Probe, fc); p != "" {
		r.panicky = p
	}
	o.FC = fc
}

// c13ProbeFC runs the real NewFileClient on the file and asks Get / GetIfChanged for every probed
// name; returns a non-empty text if anything panicked.
func c13ProbeFC(path string, probe []string, fc *c13FC) (panicky string) {
	defer func() {
		if p := recover(); p != nil {
			panicky = fmt.Sprintf("file client panicked: %v", p)
		}
	}()
	cl, err := setec.NewFileClient(path)
	if err != nil {
		return ""
	}
	fc.OK = true
	res := func(sv *api.SecretValue, err error) (string, uint32) {
		switch {
		case err == nil:
			return fmt.Sprintf("(FCValue %d %s)", sv.Version, coqBytes(sv.Value)), uint32(sv.Version)
		case errors.Is(err, api.ErrNotFound):
			return "FCNotFound", 0
		case errors.Is(err, api.ErrValueNotChanged):
			return "FCNotChanged", 0
		}
		return "(FCValue 4294967295 [])", 0
	}
	for _, n := range probe {
		a := c13FCAns{Name: n}
		var v uint32
		a.Get, v = res(cl.Get(context.Background(), n))
		for _, old := range []uint32{0, v, v + 1} {
			t, _ := res(cl.GetIfChanged(context.Background(), n, api.SecretVersion(old)))
			a.GIC = append(a.GIC, fmt.Sprintf("(%d,%s)", old, t))
		}
		fc.Ans = append(fc.Ans, a)
	}
	return ""
}

// c13FcFile: a hand-written secrets file (Value and/or TextValue forms) given to NewFileClient.
func c13FcFile(in c13Input, workdir string, tags []string) Record {
	tbl := newC13B64()
	tbl.addRaw(nil)
	cin := "None"
	if len(in.Cache) > 0 {
		cin = "(Some None)"
		if j, ok := c13Parse(in.Cache); ok {
			tbl.addTree(j)
			cin = "(Some (Some " + j.Coq() + "))"
		}
	}
	path := filepath.Join(workdir, "handwritten.json")
	if err := os.WriteFile(path, in.Cache, 0600); err != nil {
		fatal("C13: %v", err)
	}
	fc := &c13FC{}
	panicky := c13ProbeFC(path, in.Probe, fc)
	parts := make([]string, len(fc.Ans))
	found := 0
	for i, a := range fc.Ans {
		parts[i] = "(" + coqBytes([]byte(a.Name)) + ",(" + a.Get + "," + coqList(a.GIC) + "))"
		if a.Get != "FCNotFound" {
			found++
		}
	}
	kb, _ := json.Marshal(in)
	rec := Record{Kind: "fcfile", Input: in, Obs: map[string]any{"ok": fc.OK, "served": found, "file_text": string(bytes.ToValidUTF8(in.Cache, []byte("?")))},
		Key: "fcfile:" + string(kb), Nontrivial: fc.OK && found > 0, Tags: tags,
		Coq: fmt.Sprintf("CFc %s %s (FC %s %s)", tbl.Coq(), cin, coqBool(fc.OK), coqList(parts))}
	if panicky != "" {
		rec.Direct = &DirectVerdict{OK: false, What: panicky}
	}
	return rec
}

func c13RunHist(in c13Input, workdir string) (*c13Case, string) {
	r := &c13Run{in: in, tbl: newC13B64(), now: c13T0}
	r.tmpdir = workdir
	c := &c13Case{tbl: r.tbl, Names: in.Names, Allow: in.Allow, AgeNs: in.AgeSec * 1_000_000_000, Now0: r.now, Probe: in.Probe}
	r.tbl.addRaw(nil)
	srv := map[string]c13SV{}
	for k, v := range in.Server {
		srv[k] = v
		r.tbl.addRaw(v.Val)
	}
	for _, op := range in.Ops {
		if op.Op == "set" {
			r.tbl.addRaw(op.Val)
		}
	}
	r.cli = &c13Client{srv: srv}
	r.cache = &c13Cache{data: bytes.Clone(in.Cache), failRead: in.ReadFail, failWrite: in.InitWFail, retain: in.Retain}
	if in.Retain == "mem" {
		r.cache.mem = setec.NewMemCache(string(in.Cache))
	}
	if in.File {
		// a real FileCache in a fresh directory; an initial content is put there as a file
		dir := filepath.Join(workdir, "fcache")
		os.RemoveAll(dir)
		r.cache.path = filepath.Join(dir, "sub", "cache.json")
		fcache, err := setec.NewFileCache(r.cache.path)
		if err != nil {
			fatal("C13: NewFileCache: %v", err)
		}
		if len(in.Cache) > 0 {
			if err := os.WriteFile(r.cache.path, in.Cache, 0600); err != nil {
				fatal("C13: %v", err)
			}
		}
		r.cache.backing = fcache
		defer os.RemoveAll(dir)
	}
	c.ConsWOK = !in.InitWFail
	c.RFail = in.ReadFail
	switch {
	case len(in.Cache) == 0:
		c.CinKind = 0
	default:
		if j, ok := c13Parse(in.Cache); ok {
			c.CinKind, c.Cin = 2, j
			r.tbl.addTree(j)
		} else {
			c.CinKind = 1
		}
	}

	// construction
	func() {
		defer func() {
			if p := recover(); p != nil {
				r.panicky = fmt.Sprintf("NewStore panicked: %v", p)
			}
		}()
		ctx, cancel := context.WithTimeout(context.Background(), 2*time.Second)
		defer cancel()
		st, err := newStoreReleased(ctx, setec.StoreConfig{
			Client: r.cli, Secrets: slices.Clone(in.Names), AllowLookup: in.Allow, Cache: r.cache,
			ExpiryAge: time.Duration(in.AgeSec) * time.Second, PollTicker: c13Ticker{make(chan time.Time)},
			TimeNow: r.timeNow, Logf: func(string, ...any) {},
		})
		if err == nil {
			r.st = st
			c.ConsOK = true
		}
	}()
	for _, q := range r.cli.take() {
		c.ConsReqs = append(c.ConsReqs, q.Name)
	}
	sort.Strings(c.ConsReqs)
	for _, n := range in.Names {
		sv, ok := srv[n]
		c.InitAns = append(c.InitAns, c13Served{Name: n, Has: ok, Ver: sv.Ver, Val: sv.Val})
	}
	c.Cons.Res = "RClose"
	r.written(&c.Cons)
	r.cache.mu.Lock()
	r.cache.failRead = false
	r.cache.mu.Unlock()
	if r.st == nil {
		return c, r.panicky
	}
	if in.Restarts {
		r.restart(&c.Cons)
	}
	defer func() {
		if r.st != nil {
			r.st.Close()
		}
	}()

	last := -1
	for i, op := range in.Ops {
		if op.Op != "set" && op.Op != "del" && op.Op != "tick" {
			last = i
		}
	}
	for i, op := range in.Ops {
		switch op.Op {
		case "set":
			srv[op.Name] = c13SV{op.Ver, op.Val}
			continue
		case "del":
			delete(srv, op.Name)
			continue
		case "tick":
			r.now += op.Secs
			continue
		}
		r.cache.mu.Lock()
		r.cache.failWrite = op.WriteFail
		r.cache.slowNext = time.Duration(op.SlowSecs) * time.Second
		r.cache.mu.Unlock()
		step := c13Step{WOK: !op.WriteFail}
		func() {
			defer func() {
				if p := recover(); p != nil {
					r.panicky = fmt.Sprintf("%s %q panicked: %v", op.Op, op.Name, p)
					step.Obs.Res = "RClose"
				}
			}()
			switch op.Op {
			case "lookup":
				_, err := r.st.LookupSecret(context.Background(), op.Name)
				reqs := r.cli.take()
				ans := "None"
				if len(reqs) > 0 && reqs[0].Ans == "value" {
					ans = c13OptVV(true, reqs[0].Ver, reqs[0].Val)
				}
				step.Ev = fmt.Sprintf("(ELookup %s %s %s)", coqBytes([]byte(op.Name)), ans, c13Z(r.now))
				step.Obs.Res = fmt.Sprintf("(RLookup %s %s)", coqBool(len(reqs) > 0), coqBool(err == nil))
			case "read":
				step.Ev = fmt.Sprintf("(ERead %s %s)", coqBytes([]byte(op.Name)), c13Z(r.now))
				// Secret panics for an unknown name when lookups are disabled (documented): no value
				h := func() (h setec.Secret) {
					defer func() { recover() }()
					return r.st.Secret(op.Name)
				}()
				if h == nil {
					step.Obs.Res = "(RRead None)"
				} else {
					step.Obs.Res = fmt.Sprintf("(RRead (Some %s))", coqBytes(h.Get()))
				}
			case "poll":
				r.cli.mu.Lock()
				r.cli.pollFail, r.cli.sameVer = op.PollFail, op.SameVer
				r.cli.mu.Unlock()
				err := r.st.Refresh(context.Background())
				reqs := r.cli.take()
				sort.Slice(reqs, func(a, b int) bool { return reqs[a].Name < reqs[b].Name })
				var ans, qs []string
				for _, q := range reqs {
					n := coqBytes([]byte(q.Name))
					qs = append(qs, fmt.Sprintf("(%s,%d)", n, q.Old))
					switch q.Ans {
					case "value":
						ans = append(ans, fmt.Sprintf("(%s,RValue %d %s)", n, q.Ver, coqBytes(q.Val)))
					case "notchanged":
						ans = append(ans, fmt.Sprintf("(%s,RNotChanged)", n))
					default:
						ans = append(ans, fmt.Sprintf("(%s,RErr)", n))
					}
				}
				step.Ev = fmt.Sprintf("(EPoll %s %s)", c13Z(r.now*1_000_000_000), coqList(ans))
				// a poll whose updates were applied but whose cache write failed reports an error
				// too: what is compared is whether the poll itself succeeded (values installed),
				// which is the case exactly when it got as far as writing the cache
				r.cache.mu.Lock()
				attempted := len(r.cache.writes) > 0
				r.cache.mu.Unlock()
				ok := err == nil || (op.WriteFail && attempted)
				step.Obs.Res = fmt.Sprintf("(RPoll %s %s)", coqList(qs), coqBool(ok))
			case "close":
				step.Ev = "EClose"
				r.st.Close()
				step.Obs.Res = "RClose"
			default:
				fatal("C13: unknown op %q", op.Op)
			}
		}()
		r.written(&step.Obs)
		if in.Restarts && (step.Obs.HasW || i == last) {
			r.restart(&step.Obs)
		}
		c.Steps = append(c.Steps, step)
		if r.panicky != "" {
			break
		}
	}
	if in.Kind == "conc" && r.panicky == "" {
		r.runConc(c)
	}
	if in.Kind == "life" && r.panicky == "" {
		r.runLife(c)
	}
	if in.Kind == "retain" && r.panicky == "" {
		// every slice the cache retained is looked at again, after all later flushes and Close
		r.st.Close()
		r.cache.take()
		obs := &c13RetainObs{}
		c.Retain = obs
		r.cache.mu.Lock()
		for i, at := range r.cache.keptAt {
			ja, ok := c13Parse(at)
			if !ok {
				continue
			}
			obs.At = append(obs.At, ja)
			if jn, ok := c13Parse(r.cache.kept[i]); ok {
				r.tbl.addTree(jn)
				obs.Now = append(obs.Now, jn)
			} else {
				obs.Now = append(obs.Now, nil)
				obs.Bad++
			}
		}
		r.cache.mu.Unlock()
	}
	if in.Kind == "slow" && r.panicky == "" {
		// ample (virtual) time for any write still under way to land, then the state at rest
		time.Sleep(10 * time.Minute)
		obs := &c13SlowObs{}
		c.Slow = obs
		r.cache.mu.Lock()
		off, land := r.cache.allOffered, r.cache.allLanded
		r.cache.mu.Unlock()
		tree := func(bs [][]byte) (out []*c13J) {
			for _, b := range bs {
				if j, ok := c13Parse(b); ok {
					r.tbl.addTree(j)
					out = append(out, j)
				} else {
					out = append(out, c13Str([]byte("unparsable payload")))
				}
			}
			return out
		}
		obs.Offered, obs.Landed = tree(off), tree(land)
		var so c13SObs
		r.restart(&so)
		obs.RS, obs.FC = so.RS, so.FC
	}
	if r.panicky == "" && r.cache.badMode != "" {
		r.panicky = r.cache.badMode
	}
	return c, r.panicky
}

// runLife: run 1 (the history so far, ended by Close) has left its cache.  Run 2 starts from it
// with more declared names than the service can answer before the caller's context ends; what it
// writes to the cache is recorded.  Run 3 starts from whatever the cache holds now, with run 1's
// names and a dead service (plus a file client on the same bytes).
func (r *c13Run) runLife(c *c13Case) {
	in := r.in
	r.st.Close()
	r.cache.take()
	r.cache.mu.Lock()
	r.cache.failWrite = false
	r.cache.mu.Unlock()
	obs := &c13LifeObs{Names2: in.Names2, Now2: r.now}
	c.Life = obs
	srv2 := map[string]c13SV{}
	if !in.Dead2 {
		for k, v := range in.Server2 {
			srv2[k] = v
			r.tbl.addRaw(v.Val)
		}
	}
	for _, n := range in.Names2 {
		sv, ok := srv2[n]
		obs.Ans2 = append(obs.Ans2, c13Served{Name: n, Has: ok, Ver: sv.Ver, Val: sv.Val})
	}
	cli2 := &c13Client{srv: srv2, dead: in.Dead2}
	func() {
		defer func() {
			if p := recover(); p != nil {
				r.panicky = fmt.Sprintf("the second start panicked: %v", p)
			}
		}()
		ctx, cancel := context.WithTimeout(context.Background(), 25*time.Millisecond)
		if in.CtxDone2 {
			cancel()
		}
		defer cancel()
		st2, err := newStoreReleased(ctx, setec.StoreConfig{
			Client: cli2, Secrets: slices.Clone(in.Names2), AllowLookup: true, Cache: r.cache,
			PollTicker: c13Ticker{make(chan time.Time)}, TimeNow: r.timeNow, Logf: func(string, ...any) {},
		})
		if err == nil {
			obs.OK2 = true
			st2.Close()
		}
	}()
	for _, w := range r.cache.take() {
		if j, ok := c13Parse(w); ok {
			r.tbl.addTree(j)
			obs.Writes2 = append(obs.Writes2, j)
		} else {
			obs.Writes2 = append(obs.Writes2, c13Str([]byte("unparsable payload")))
		}
	}
	var so c13SObs
	r.restart(&so)
	obs.RS, obs.FC = so.RS, so.FC
}

// runConc makes the calls of in.Conc concurrently.  The Cache.Write of the first call is held on
// a gate (a slow write); once it has been entered the other calls are started and given every
// chance to finish (bounded wait: in the unchanged code they block on the store's lock until the
// held write returns); then the gate is opened.  At quiescence: the payloads in order of
// completion, a restart + file client from the final content, and what the store serves.
func (r *c13Run) runConc(c *c13Case) {
	in := r.in
	obs := &c13ConcObs{Now: r.now}
	c.Conc = obs
	r.cli.take()
	r.cache.take()
	r.cache.mu.Lock()
	r.cache.failWrite = false
	r.cache.mu.Unlock()
	for _, op := range in.Conc {
		if op.Op == "poll" {
			r.cli.mu.Lock()
			r.cli.pollFail, r.cli.sameVer = op.PollFail, op.SameVer
			r.cli.mu.Unlock()
		}
	}
	entered, release := r.cache.armGate()
	var mu sync.Mutex
	run := func(op c13Op, done chan struct{}) {
		go func() {
			defer close(done)
			defer func() {
				if p := recover(); p != nil {
					mu.Lock()
					r.panicky = fmt.Sprintf("concurrent %s %q panicked: %v", op.Op, op.Name, p)
					mu.Unlock()
				}
			}()
			switch op.Op {
			case "lookup":
				r.st.LookupSecret(context.Background(), op.Name)
			case "poll":
				r.st.Refresh(context.Background())
			case "close":
				r.st.Close()
			default:
				fatal("C13: op %q cannot be run concurrently", op.Op)
			}
		}()
	}
	dones := make([]chan struct{}, len(in.Conc))
	for i := range dones {
		dones[i] = make(chan struct{})
	}
	run(in.Conc[0], dones[0])
	select {
	case <-entered:
		obs.Held = true
	case <-dones[0]: // the call made no cache write
	case <-time.After(2 * time.Second):
	}
	for i := 1; i < len(in.Conc); i++ {
		run(in.Conc[i], dones[i])
	}
	// every chance to finish while the first write is still in progress
	deadline := time.After(40 * time.Millisecond)
	for i := 1; i < len(in.Conc) && obs.Held; i++ {
		select {
		case <-dones[i]:
			obs.Overran = true
		case <-deadline:
			i = len(in.Conc)
		}
	}
	close(release)
	watchdog := time.After(10 * time.Second)
	for i := range dones {
		select {
		case <-dones[i]:
		case <-watchdog:
			mu.Lock()
			r.panicky = fmt.Sprintf("concurrent %s %q did not return within 10s", in.Conc[i].Op, in.Conc[i].Name)
			mu.Unlock()
			return
		}
	}
	// the events with the service's answers, from the request log
	reqs := r.cli.take()
	for _, op := range in.Conc {
		switch op.Op {
		case "lookup":
			ans := "None"
			for _, q := range reqs {
				if q.Get && q.Name == op.Name && q.Ans == "value" {
					ans = c13OptVV(true, q.Ver, q.Val)
				}
			}
			obs.Evs = append(obs.Evs, fmt.Sprintf("(ELookup %s %s %s)", coqBytes([]byte(op.Name)), ans, c13Z(r.now)))
		case "poll":
			var polled []c13Req
			for _, q := range reqs {
				if !q.Get {
					polled = append(polled, q)
				}
			}
			sort.Slice(polled, func(a, b int) bool { return polled[a].Name < polled[b].Name })
			var ans []string
			for _, q := range polled {
				n := coqBytes([]byte(q.Name))
				switch q.Ans {
				case "value":
					ans = append(ans, fmt.Sprintf("(%s,RValue %d %s)", n, q.Ver, coqBytes(q.Val)))
				case "notchanged":
					ans = append(ans, fmt.Sprintf("(%s,RNotChanged)", n))
				default:
					ans = append(ans, fmt.Sprintf("(%s,RErr)", n))
				}
			}
			obs.Evs = append(obs.Evs, fmt.Sprintf("(EPoll %s %s)", c13Z(r.now*1_000_000_000), coqList(ans)))
		case "close":
			obs.Evs = append(obs.Evs, "EClose")
		}
	}
	for _, w := range r.cache.take() {
		if j, ok := c13Parse(w); ok {
			r.tbl.addTree(j)
			obs.Writes = append(obs.Writes, j)
		} else {
			obs.Writes = append(obs.Writes, c13Str([]byte("unparsable payload")))
		}
	}
	var so c13SObs
	r.restart(&so)
	obs.RS, obs.FC = so.RS, so.FC
	for _, n := range in.Probe {
		func() {
			defer func() {
				if p := recover(); p != nil {
					r.panicky = fmt.Sprintf("reading %q panicked: %v", n, p)
				}
			}()
			if h := r.st.Secret(n); h != nil {
				obs.Served = append(obs.Served, c13Served{Name: n, Has: true, Val: bytes.Clone(h.Get())})
			} else {
				obs.Served = append(obs.Served, c13Served{Name: n})
			}
		}()
	}
}
