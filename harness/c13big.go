package main

// C13: LARGE caches.  "a new store started from the cache with the service unreachable serves
// exactly those values" holds for a cache of any size the store itself wrote.  A store with a real
// setec.FileCache fetches values whose cache document is around and above 1 MiB, is closed, and a
// second store is started from the same file with a dead service; a real NewFileClient reads the
// same file.  The values are compared by length and SHA-256 in the harness: this is a fact about
// run-time sizes (I/O limits, buffers), decided by a DIRECT verdict - megabytes are not shipped to
// the kernel (same policy as C18's large round trips).

import (
	"bytes"
	"context"
	"crypto/sha256"
	"encoding/json"
	"fmt"
	"os"
	"path/filepath"
	"time"

	"github.com/tailscale/setec/client/setec"
)

func c13BigValue(seed uint64, i, n int) []byte {
	r := NewRand(seed, uint64(7000+i))
	b := make([]byte, n)
	for k := range b {
		b[k] = byte(r.IntN(256))
	}
	return b
}

func c13Big(in c13Input, workdir string, tags []string) Record {
	kb, _ := json.Marshal(in)
	rec := Record{Kind: "big", Input: in, Key: "big:" + string(kb), Tags: tags, Nontrivial: true}
	fail := func(format string, a ...any) Record {
		rec.Direct = &DirectVerdict{OK: false, What: fmt.Sprintf(format, a...)}
		return rec
	}
	dir := filepath.Join(workdir, "bigcache")
	os.RemoveAll(dir)
	defer os.RemoveAll(dir)
	path := filepath.Join(dir, "cache.json")
	srv := map[string]c13SV{}
	var names []string
	for i, n := range in.Sizes {
		name := fmt.Sprintf("big/%02d", i)
		names = append(names, name)
		srv[name] = c13SV{uint32(1 + i%3), c13BigValue(in.BigSeed, i, n)}
	}
	var what string
	func() {
		defer func() {
			if p := recover(); p != nil {
				what = fmt.Sprintf("panicked: %v", p)
			}
		}()
		fc1, err := setec.NewFileCache(path)
		if err != nil {
			what = "NewFileCache: " + err.Error()
			return
		}
		ctx, cancel := context.WithTimeout(context.Background(), 10*time.Second)
		defer cancel()
		st1, err := newStoreReleased(ctx, setec.StoreConfig{Client: &c13Client{srv: srv}, Secrets: append([]string{}, names...), Cache: fc1,
			PollTicker: c13Ticker{make(chan time.Time)}, Logf: func(string, ...any) {}})
		if err != nil {
			what = "the first store did not start: " + err.Error()
			return
		}
		st1.Close()
		fi, err := os.Stat(path)
		if err != nil {
			what = "no cache file after the first store: " + err.Error()
			return
		}
		rec.Obs = map[string]any{"document_bytes": fi.Size(), "secrets": len(names)}
		// restart from the same file, service dead
		fc2, _ := setec.NewFileCache(path)
		dead := &c13Client{dead: true}
		ctx2, cancel2 := context.WithTimeout(context.Background(), 1500*time.Millisecond)
		defer cancel2()
		st2, err := newStoreReleased(ctx2, setec.StoreConfig{Client: dead, Secrets: append([]string{}, names...), Cache: fc2,
			PollInterval: -1, Logf: func(string, ...any) {}})
		if err != nil {
			what = fmt.Sprintf("a store started from its own %d-byte cache file with the service unreachable did not start (%d requests made): %v", fi.Size(), len(dead.take()), err)
			return
		}
		defer st2.Close()
		if n := len(dead.take()); n != 0 {
			what = fmt.Sprintf("the restart made %d requests", n)
			return
		}
		cl, err := setec.NewFileClient(path)
		if err != nil {
			what = "NewFileClient refuses the cache file: " + err.Error()
			return
		}
		for _, name := range names {
			want := srv[name].Val
			got := st2.Secret(name).Get()
			if len(got) != len(want) || sha256.Sum256(got) != sha256.Sum256(want) {
				what = fmt.Sprintf("restart serves %d bytes for %q instead of the %d bytes cached (or other content)", len(got), name, len(want))
				return
			}
			sv, err := cl.Get(context.Background(), name)
			if len(want) == 0 { // the file client skips empty values ("every non-empty secret")
				if err == nil {
					what = fmt.Sprintf("the file client serves the empty secret %q", name)
					return
				}
				continue
			}
			if err != nil || !bytes.Equal(sv.Value, want) || uint32(sv.Version) != srv[name].Ver {
				what = fmt.Sprintf("the file client does not serve %q as cached: %v", name, err)
				return
			}
		}
	}()
	if what != "" {
		return fail("%s", what)
	}
	rec.Direct = &DirectVerdict{OK: true, What: "restart from the file cache served every value byte-identically with no request; the file client agrees"}
	return rec
}

// around and above 1 MiB of document (base64 in JSON: 4/3 of the bytes)
func c13GenBig(seed uint64, emit func(c13Input, []string)) {
	kib := 1024
	rep := func(n, size int) (out []int) {
		for i := 0; i < n; i++ {
			out = append(out, size)
		}
		return out
	}
	for _, sc := range []struct {
		tag   string
		sizes []int
	}{
		{"big-cache-below-1MiB", []int{700 * kib}},
		{"big-cache-just-above-1MiB", []int{790 * kib}},
		{"big-cache-one-800KiB", []int{800 * kib}},
		{"big-cache-60x16KiB", rep(60, 16*kib)},
		{"big-cache-3x2MiB", rep(3, 2048*kib)},
		{"big-cache-small-control", []int{1, 0, 17}},
	} {
		emit(c13Input{Kind: "big", Sizes: sc.sizes, BigSeed: seed}, []string{"big-cache", sc.tag})
	}
}
