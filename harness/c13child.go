package main

import (
	"fmt"
	"os"
	"runtime"

	"github.com/tailscale/setec/client/setec"
)

func init() {
	commands["c13child"] = c13Child
	// keep the child's main goroutine on the main thread, so that the system calls of the write
	// are made by one thread in a reproducible order (strace counts injections per thread)
	if len(os.Args) > 1 && os.Args[1] == "c13child" {
		runtime.LockOSThread()
	}
}

// c13Child performs ONE setec.FileCache.Write of the document selected by -n on the cache file
// given by -work (run under strace by the C13 harness).  Exit status 0 = Write returned nil,
// 1 = Write returned an error; a panic would exit with status 2.
func c13Child(o Opts) {
	fc, err := setec.NewFileCache(o.Work)
	if err != nil {
		fmt.Fprintln(os.Stderr, "newfilecache:", err)
		os.Exit(4)
	}
	if err := fc.Write(c13ChildDoc(o.N)); err != nil {
		os.Exit(1)
	}
}

func c13ChildDoc(n int) []byte {
	return []byte(fmt.Sprintf(`{"k":{"secret":{"Value":"%s","Version":%d},"lastAccess":"%d"}}`, "bmV3", n, 1000+n))
}
