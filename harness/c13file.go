package main

// C13 (d): FileCache.Write observed from outside with strace: the shape of the system-call
// trace, and kill / error injection at each system call of the write.

import (
	"bytes"
	"context"
	"fmt"
	"os"
	"os/exec"
	"path/filepath"
	"regexp"
	"strconv"
	"strings"
	"time"
)

var c13OldDoc = []byte(`{"k":{"secret":{"Value":"b2xk","Version":1},"lastAccess":"1000"}}`)

const c13TraceSet = "openat,open,creat,write,pwrite64,writev,fchmod,fchmodat,chmod,fsync,fdatasync,close,rename,renameat,renameat2,unlink,unlinkat,truncate,ftruncate,newfstatat"

type c13Sys struct {
	Pid   string
	Name  string
	Args  string
	Ret   string
	Extra string // e.g. (INJECTED)
}

var c13LineRe = regexp.MustCompile(`^(\d+)\s+(\w+)\((.*)\)\s+=\s+(-?\d+|\?)(<[^>]*>)?(.*)$`)
var c13UnfRe = regexp.MustCompile(`^(\d+)\s+(\w+)\((.*) <unfinished \.\.\.>$`)
var c13ResRe = regexp.MustCompile(`^(\d+)\s+<\.\.\. (\w+) resumed>(.*)$`)

// c13ParseStrace joins unfinished/resumed pairs and returns the calls in order of completion.
func c13ParseStrace(text string) []c13Sys {
	var out []c13Sys
	pending := map[string]string{}
	for _, line := range strings.Split(text, "\n") {
		if m := c13UnfRe.FindStringSubmatch(line); m != nil {
			pending[m[1]+":"+m[2]] = m[1] + " " + m[2] + "(" + m[3]
			continue
		}
		if m := c13ResRe.FindStringSubmatch(line); m != nil {
			if p, ok := pending[m[1]+":"+m[2]]; ok {
				delete(pending, m[1]+":"+m[2])
				line = p + m[3]
			}
		}
		if m := c13LineRe.FindStringSubmatch(line); m != nil {
			out = append(out, c13Sys{Pid: m[1], Name: m[2], Args: m[3], Ret: m[4], Extra: m[6]})
		}
	}
	// calls cut short by a kill never completed: keep them marked as not performed
	for _, p := range pending {
		f := strings.SplitN(p, " ", 2)
		if len(f) == 2 {
			nm := f[1][:strings.Index(f[1], "(")]
			out = append(out, c13Sys{Pid: f[0], Name: nm, Args: f[1][len(nm)+1:], Ret: "?"})
		}
	}
	return out
}

var c13QuotedRe = regexp.MustCompile(`"((?:[^"\\]|\\.)*)"`)
var c13FdPathRe = regexp.MustCompile(`^\d+<([^>]*)>`)

// c13Fops abstracts the calls that concern the cache directory into CacheFile.fop terms.
func c13Fops(calls []c13Sys, live string) (ops []string, text []string) {
	dir := filepath.Dir(live)
	ids := map[string]int{live: 0}
	next := 1
	id := func(p string) int {
		p = strings.TrimSuffix(p, "(deleted)")
		if v, ok := ids[p]; ok {
			return v
		}
		if filepath.Dir(p) == dir {
			ids[p] = next
		} else {
			ids[p] = 1000 + next
		}
		next++
		return ids[p]
	}
	inDir := func(p string) bool { return p == live || filepath.Dir(p) == dir }
	for _, c := range calls {
		if c.Ret == "?" || strings.HasPrefix(c.Ret, "-") {
			continue // not performed
		}
		qs := c13QuotedRe.FindAllStringSubmatch(c.Args, -1)
		fdp := ""
		if m := c13FdPathRe.FindStringSubmatch(c.Args); m != nil {
			fdp = m[1]
		}
		add := func(s string) {
			ops = append(ops, s)
			text = append(text, c.Name+"("+c.Args+") = "+c.Ret)
		}
		switch c.Name {
		case "openat", "open", "creat":
			if len(qs) == 0 || !inDir(qs[0][1]) {
				continue
			}
			flags := c.Args
			mode := 0
			if m := regexp.MustCompile(`, (0[0-7]+)$`).FindStringSubmatch(c.Args); m != nil {
				v, _ := strconv.ParseInt(m[1], 8, 32)
				mode = int(v)
			}
			wr := strings.Contains(flags, "O_WRONLY") || strings.Contains(flags, "O_RDWR") || c.Name == "creat"
			add(fmt.Sprintf("FOpen %d %s %s %s %s %d", id(qs[0][1]), coqBool(wr),
				coqBool(strings.Contains(flags, "O_CREAT") || c.Name == "creat"), coqBool(strings.Contains(flags, "O_EXCL")),
				coqBool(strings.Contains(flags, "O_TRUNC") || c.Name == "creat"), mode))
		case "write", "pwrite64", "writev":
			if fdp != "" && inDir(fdp) {
				add(fmt.Sprintf("FWrite %d", id(fdp)))
			}
		case "fchmod":
			if fdp != "" && inDir(fdp) {
				m := regexp.MustCompile(`, (0[0-7]*)$`).FindStringSubmatch(c.Args)
				v := int64(0)
				if m != nil {
					v, _ = strconv.ParseInt(m[1], 8, 32)
				}
				add(fmt.Sprintf("FChmod %d %d", id(fdp), v))
			}
		case "chmod", "fchmodat":
			if len(qs) > 0 && inDir(qs[0][1]) {
				m := regexp.MustCompile(`, (0[0-7]*)(?:, \w+)?$`).FindStringSubmatch(c.Args)
				v := int64(0)
				if m != nil {
					v, _ = strconv.ParseInt(m[1], 8, 32)
				}
				add(fmt.Sprintf("FChmod %d %d", id(qs[0][1]), v))
			}
		case "fsync", "fdatasync":
			if fdp != "" && inDir(fdp) {
				add(fmt.Sprintf("FSync %d", id(fdp)))
			}
		case "close":
			if fdp != "" && inDir(fdp) {
				add(fmt.Sprintf("FClose %d", id(fdp)))
			}
		case "rename", "renameat", "renameat2":
			if len(qs) >= 2 && (inDir(qs[0][1]) || inDir(qs[1][1])) {
				add(fmt.Sprintf("FRename %d %d", id(qs[0][1]), id(qs[1][1])))
			}
		case "unlink", "unlinkat":
			if len(qs) > 0 && inDir(qs[0][1]) {
				add(fmt.Sprintf("FUnlink %d", id(qs[0][1])))
			}
		case "truncate":
			if len(qs) > 0 && inDir(qs[0][1]) {
				add(fmt.Sprintf("FTrunc %d", id(qs[0][1])))
			}
		case "ftruncate":
			if fdp != "" && inDir(fdp) {
				add(fmt.Sprintf("FTrunc %d", id(fdp)))
			}
		}
	}
	return ops, text
}

// c13Strace runs one child write under strace; returns the parsed calls, the child's exit
// status (-1 = killed by a signal) and the file content afterwards.
func c13Strace(dir string, docN int, inject string) (calls []c13Sys, status int, content []byte, err error) {
	os.RemoveAll(dir)
	if err := os.MkdirAll(dir, 0700); err != nil {
		return nil, 0, nil, err
	}
	live := filepath.Join(dir, "cache.json")
	if err := os.WriteFile(live, c13OldDoc, 0600); err != nil {
		return nil, 0, nil, err
	}
	self, err := os.Executable()
	if err != nil {
		return nil, 0, nil, err
	}
	tf := filepath.Join(dir, "..", filepath.Base(dir)+".trace")
	args := []string{"-f", "-y", "-s", "16", "-o", tf, "-e", "trace=" + c13TraceSet}
	if inject != "" {
		args = append(args, "-e", "inject="+inject)
	}
	args = append(args, self, "c13child", "-work", live, "-n", fmt.Sprint(docN))
	ctx, cancel := context.WithTimeout(context.Background(), 60*time.Second)
	defer cancel()
	cmd := exec.CommandContext(ctx, "strace", args...)
	cmd.Env = append(os.Environ(), "GOMAXPROCS=1")
	var stderr bytes.Buffer
	cmd.Stderr = &stderr
	runErr := cmd.Run()
	status = 0
	if runErr != nil && ctx.Err() == nil {
		if ee, ok := runErr.(*exec.ExitError); ok {
			status = ee.ExitCode() // -1 when strace itself was killed by the forwarded signal
			if status > 128 {
				status = -1
			}
		} else {
			return nil, 0, nil, fmt.Errorf("strace: %v", runErr)
		}
	}
	if ctx.Err() != nil {
		status = 3 // the write did not finish (watchdog)
	}
	tb, rerr := os.ReadFile(tf)
	if rerr != nil {
		return nil, 0, nil, fmt.Errorf("strace produced no trace: %v (%s)", rerr, stderr.String())
	}
	os.Remove(tf)
	content, _ = os.ReadFile(live)
	if strings.Contains(stderr.String(), "panic:") {
		status = 2
	}
	return c13ParseStrace(string(tb)), status, content, nil
}

func c13ContentClass(content []byte, docN int) int {
	switch {
	case bytes.Equal(content, c13OldDoc):
		return 0
	case bytes.Equal(content, c13ChildDoc(docN)):
		return 1
	}
	return 2
}

// the calls of the write itself: those after the first newfstatat on the live path
func c13WriteCalls(calls []c13Sys, live string) []c13Sys {
	for i, c := range calls {
		if c.Name == "newfstatat" && strings.Contains(c.Args, `"`+live+`"`) {
			return calls[i:]
		}
	}
	return nil
}

func c13RunTrace(in c13Input, workdir string, idx int) []Record {
	dir := filepath.Join(workdir, fmt.Sprintf("fc%d", idx))
	live := filepath.Join(dir, "cache.json")
	defer os.RemoveAll(dir)
	switch in.Kind {
	case "trace":
		calls, status, content, err := c13Strace(dir, 7, "")
		if err != nil {
			fatal("C13: %v", err)
		}
		ops, text := c13Fops(calls, live)
		cls := c13ContentClass(content, 7)
		st, _ := os.Stat(live)
		perm := os.FileMode(0)
		if st != nil {
			perm = st.Mode().Perm()
		}
		rec := Record{Kind: "trace", Input: in, Obs: map[string]any{"status": status, "content": cls, "perm": fmt.Sprintf("%o", perm), "ops": text},
			Key: "trace", Nontrivial: true, Tags: []string{"file-trace"},
			Coq: fmt.Sprintf("CTrace %s %s", coqBool(status == 0), coqList(ops))}
		if status != 0 || cls != 1 || perm != 0600 {
			rec.Direct = &DirectVerdict{OK: false, What: fmt.Sprintf("FileCache.Write: exit status %d, content class %d (1 = new document), permissions %o", status, cls, perm)}
		}
		return []Record{rec}
	case "inject":
		// ordinal of the target call among the calls of that name made by the same thread, from a clean run
		clean, _, _, err := c13Strace(dir, 7, "")
		if err != nil {
			fatal("C13: %v", err)
		}
		wc := c13WriteCalls(clean, live)
		if len(wc) == 0 {
			return []Record{{Kind: "inject", Input: in, Key: "inject-nocalls", Coq: "CInject false 2 []",
				Direct: &DirectVerdict{OK: false, What: "no system call of the write was observed"}}}
		}
		pid := wc[0].Pid
		var recs []Record
		counts := map[string]int{}
		targets := map[string][]int{}
		inWrite := false
		for _, c := range clean {
			if c.Pid != pid {
				continue
			}
			counts[c.Name]++
			if !inWrite && c.Name == wc[0].Name && c.Args == wc[0].Args {
				inWrite = true
			}
			if inWrite && c.Name == in.Syscall {
				targets[c.Name] = append(targets[c.Name], counts[c.Name])
			}
		}
		for _, when := range targets[in.Syscall] {
			spec := fmt.Sprintf("%s:signal=KILL:when=%d", in.Syscall, when)
			if in.Fault == "eio" {
				spec = fmt.Sprintf("%s:error=EIO:when=%d", in.Syscall, when)
			}
			calls, status, content, err := c13Strace(dir, 7, spec)
			if err != nil {
				fatal("C13: %v", err)
			}
			ops, text := c13Fops(calls, live)
			cls := c13ContentClass(content, 7)
			hit := false
			for _, c := range calls {
				if strings.Contains(c.Extra, "INJECTED") || (in.Fault == "kill" && status == -1) {
					hit = true
				}
			}
			tag := "inject-" + in.Fault + "-" + in.Syscall
			if !hit {
				tag += "-missed"
			}
			// leftovers: only the live file (and possibly one abandoned temporary after a kill)
			recs = append(recs, Record{Kind: "inject", Input: in,
				Obs:        map[string]any{"spec": spec, "status": status, "content": cls, "hit": hit, "ops": text},
				Key:        "inject:" + spec, Nontrivial: hit, Tags: []string{tag},
				Coq:        fmt.Sprintf("CInject %s %d %s", coqBool(status == 2 || status == 3), cls, coqList(ops))})
		}
		return recs
	}
	return nil
}
