package main

// C13, file part tied to the file-system MODEL of C04 (coq/Server/FS.v): one real
// setec.FileCache.Write is traced with the C04 tracer (real bytes, descriptors, modes) and the
// kernel evaluates the verified monitor FS.atomic_replace_ok on it, so that the crash-atomicity
// theorems of FSProofs.v apply to the cache file as they do to the database file.

import (
	"bytes"
	"fmt"
	"os"
	"os/exec"
	"path/filepath"
	"runtime"
	"strings"
	"time"

	"github.com/tailscale/setec/client/setec"
)

func init() {
	commands["c13fschild"] = c13FsChild
	if len(os.Args) > 1 && os.Args[1] == "c13fschild" {
		runtime.LockOSThread()
	}
}

// c13FsChild: -work = the cache directory (live file cache.json), -n = document number.
// The write happens between the two marker calls the C04 tracer looks for.
func c13FsChild(o Opts) {
	live := filepath.Join(o.Work, "cache.json")
	fc, err := setec.NewFileCache(live)
	if err != nil {
		os.Exit(4)
	}
	os.Stat(filepath.Join(o.Work, ".c04-begin"))
	err = fc.Write(c13ChildDoc(o.N))
	os.Stat(filepath.Join(o.Work, ".c04-end"))
	if err != nil {
		os.Exit(1)
	}
}

// FS.v constructor names as Run_C13.v re-exports them (prefix X: no clash with the store model's names)
var c13FsRename = strings.NewReplacer("CreateExcl ", "XCreateExcl ", "OpenW ", "XOpenW ", "Stat ", "XStat ", "Write ", "XWrite ",
	"Chmod ", "XChmod ", "Trunc ", "XTrunc ", "Fsync ", "XFsync ", "Close ", "XClose ", "Rename ", "XRename ", "Unlink ", "XUnlink ",
	"Unknown ", "XUnknown ", "Live", "XLive", "(Tmp ", "(XTmp ", "(Other ", "(XOther ")

// c13FsTrace runs the child once; old == nil means the cache file does not exist beforehand.
func c13FsTrace(workdir string, idx int, old []byte, docN int) Record {
	dir := filepath.Join(workdir, fmt.Sprintf("fs%d", idx))
	os.RemoveAll(dir)
	os.MkdirAll(dir, 0700)
	defer os.RemoveAll(dir)
	live := filepath.Join(dir, "cache.json")
	if old != nil {
		os.WriteFile(live, old, 0600)
	}
	in := map[string]any{"kind": "fstrace", "old": old != nil, "doc": docN}
	fail := func(what string) Record {
		return Record{Kind: "fstrace", Input: in, Key: fmt.Sprintf("fstrace-%v", old != nil),
			Direct: &DirectVerdict{OK: false, What: what}}
	}
	self, err := os.Executable()
	if err != nil {
		return fail(err.Error())
	}
	traceFile := filepath.Join(workdir, fmt.Sprintf("fs%d.trace", idx))
	defer os.Remove(traceFile)
	cmd := exec.Command("strace", "-f", "-o", traceFile, "-s", "4000000", "-xx", "-e", "trace="+c04TraceSet,
		self, "c13fschild", "-work", dir, "-n", fmt.Sprint(docN))
	var stderr bytes.Buffer
	cmd.Stderr = &stderr
	done := make(chan error, 1)
	if err := cmd.Start(); err != nil {
		return fail("strace cannot be started: " + err.Error())
	}
	go func() { done <- cmd.Wait() }()
	select {
	case err = <-done:
	case <-time.After(60 * time.Second):
		cmd.Process.Kill()
		<-done
		return fail("child timed out under strace")
	}
	if err != nil {
		return fail("FileCache.Write child failed: " + err.Error() + " " + strings.TrimSpace(stderr.String()))
	}
	lines, perr := parseStrace(traceFile)
	if perr != nil {
		return fail("strace produced no trace: " + perr.Error())
	}
	w := abstractWindowLive(lines, dir, dir, "cache.json")
	if !w.Begin || !w.End {
		return fail("marker calls not found in the trace")
	}
	oldTerm := "None"
	if old != nil {
		oldTerm = "(Some " + coqBytes(old) + ")"
	}
	newDoc := c13ChildDoc(docN)
	got, _ := os.ReadFile(live)
	rec := Record{Kind: "fstrace", Input: in, Obs: map[string]any{"calls": w.classes(), "final_equals_new": bytes.Equal(got, newDoc)},
		Key: fmt.Sprintf("fstrace-%v", old != nil), Nontrivial: true, Tags: []string{"fs-model-trace"},
		Coq: fmt.Sprintf("CFs %s %s %s", oldTerm, coqBytes(newDoc), c13FsRename.Replace(w.effective(true)))}
	if !bytes.Equal(got, newDoc) {
		rec.Direct = &DirectVerdict{OK: false, What: "after FileCache.Write the cache file does not hold the document written"}
	}
	return rec
}
