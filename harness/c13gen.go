package main

// C13 generators: store histories, structured mutations of valid cache documents, byte-level
// damage.  Every random choice comes from the one seeded generator handed in.

import (
	"bytes"
	"encoding/base64"
	"fmt"
	"math/rand/v2"
	"sort"
	"strings"
)

var c13Universe = []string{"a", "b/c", "d", "e/f/g", "h"}
var c13Values = [][]byte{nil, {}, []byte("x"), []byte("yz"), {0x00, 0xff}, []byte("sec"), []byte("{}"), {0x80},
	// bytes that begin or end with white space of every kind bytes.TrimSpace knows (ASCII and the
	// UTF-8 encoded Unicode spaces), white-space-only values, a PEM-like text with a final newline
	[]byte("k\n"), []byte(" k"), []byte("\tk\t"), []byte("k\r\n"), []byte("\vk\f"), []byte("\n"), []byte(" "), []byte(" \t\r\n"),
	[]byte("\u00a0k"), []byte("k\u00a0"), []byte("\u2028k\u2029"), []byte("k\u0085"), []byte("\u3000"), []byte("\u1680k\u2003\u202f\u205f"),
	{0xde, 0xad, 0x0a}, {0x20, 0xbe, 0xef}, {0x09, 0x00, 0x0d}, []byte("-----BEGIN K-----\nq83v\n-----END K-----\n"),
}

func c13Pick[T any](r *rand.Rand, xs []T) T { return xs[r.IntN(len(xs))] }

func c13Entry(ver string, val []byte, stamp string) *c13J {
	return c13Obj(
		c13KV{[]byte("secret"), c13Obj(
			c13KV{[]byte("Value"), c13Str([]byte(base64.StdEncoding.EncodeToString(val)))},
			c13KV{[]byte("Version"), c13Num(ver)})},
		c13KV{[]byte("lastAccess"), c13Str([]byte(stamp))})
}

// a valid document over a random subset of the universe (sorted keys, as the store writes it)
func c13ValidDoc(r *rand.Rand, must []string, extra bool) *c13J {
	names := map[string]bool{}
	for _, n := range must {
		names[n] = true
	}
	for _, n := range c13Universe {
		if r.IntN(3) == 0 {
			names[n] = true
		}
	}
	if extra {
		names["old/x"] = true
	}
	keys := make([]string, 0, len(names))
	for n := range names {
		keys = append(keys, n)
	}
	sort.Strings(keys)
	doc := c13Obj()
	for _, n := range keys {
		stamp := fmt.Sprint(c13T0 - int64(r.IntN(20000)))
		if r.IntN(8) == 0 {
			stamp = "0"
		}
		ver := fmt.Sprint(1 + r.IntN(3))
		if r.IntN(8) == 0 {
			ver = "0" // valid for the store; the file client skips it
		}
		doc.O = append(doc.O, c13KV{[]byte(n), c13Entry(ver, c13Pick(r, c13Values), stamp)})
	}
	return doc
}

func c13GenHist(r *rand.Rand) c13Input {
	in := c13Input{Kind: "hist", Restarts: true, Probe: append([]string{}, c13Universe...), Server: map[string]c13SV{}}
	in.Allow = r.IntN(10) < 7
	nd := 1 + r.IntN(3)
	if in.Allow && r.IntN(5) == 0 {
		nd = 0
	}
	perm := r.Perm(len(c13Universe))
	for i := 0; i < nd; i++ {
		in.Names = append(in.Names, c13Universe[perm[i]])
	}
	if r.IntN(6) == 0 && nd > 0 {
		in.Names = append(in.Names, in.Names[0]) // duplicates are compacted by the store
	}
	if r.IntN(2) == 0 {
		in.AgeSec = 3600
	}
	vers := map[string]uint32{}
	for _, n := range c13Universe {
		declared := false
		for _, d := range in.Names {
			declared = declared || d == n
		}
		if declared || r.IntN(5) > 0 {
			vers[n] = uint32(1 + r.IntN(3))
			in.Server[n] = c13SV{vers[n], c13Pick(r, c13Values)}
		}
	}
	switch k := r.IntN(20); {
	case k < 8: // no cache content
	case k < 17:
		in.Cache = c13ValidDoc(r, nil, r.IntN(2) == 0).Bytes()
		in.Probe = append(in.Probe, "old/x")
	case k < 18:
		in.Cache = c13ValidDoc(r, in.Names, false).Bytes()
		in.ReadFail = true
	case k < 19:
		in.Cache = []byte(`{"a":{"secret":null,"lastAccess":"5"}}`)
	default:
		in.Cache = []byte(`{"a":`)
	}
	in.InitWFail = r.IntN(20) == 0
	in.File = r.IntN(4) == 0
	nops := 4 + r.IntN(9)
	closed := false
	for i := 0; i < nops; i++ {
		var op c13Op
		switch k := r.IntN(100); {
		case k < 20:
			n := c13Pick(r, c13Universe)
			vers[n]++
			op = c13Op{Op: "set", Name: n, Ver: vers[n], Val: c13Pick(r, c13Values)}
			if r.IntN(6) == 0 {
				op.Ver = vers[n] - 1 // same version re-announced (possibly other bytes): not a change
				vers[n]--
				if op.Ver == 0 {
					op.Ver, vers[n] = 1, 1
				}
			}
		case k < 23:
			op = c13Op{Op: "del", Name: c13Pick(r, c13Universe)}
		case k < 38:
			op = c13Op{Op: "tick", Secs: int64(1 + r.IntN(5000))}
		case k < 58:
			op = c13Op{Op: "lookup", Name: c13Pick(r, append(append([]string{}, c13Universe...), "old/x", "nosuch"))}
		case k < 76:
			op = c13Op{Op: "read", Name: c13Pick(r, append(append([]string{}, c13Universe...), "old/x"))}
		case k < 96:
			op = c13Op{Op: "poll"}
			if r.IntN(8) == 0 {
				op.PollFail = c13Pick(r, c13Universe)
			}
			op.SameVer = r.IntN(8) == 0
		default:
			op = c13Op{Op: "close"}
			closed = true
		}
		if op.Op == "lookup" || op.Op == "poll" || op.Op == "close" {
			op.WriteFail = r.IntN(12) == 0
		}
		in.Ops = append(in.Ops, op)
	}
	if !closed && r.IntN(10) < 7 {
		in.Ops = append(in.Ops, c13Op{Op: "close"})
	}
	return in
}

// ---------------------------------------------------------------- structured document mutations

func c13Junk(r *rand.Rand) *c13J {
	switch r.IntN(12) {
	case 0, 1, 2, 3:
		return c13Null()
	case 4:
		return c13Bool(r.IntN(2) == 0)
	case 5:
		return c13Num(c13Pick(r, []string{"0", "1", "-1", "1.5", "1e2", "4294967296", "-0", "7"}))
	case 6, 7:
		return c13Str([]byte(c13Pick(r, []string{"", "x", "5", "null", "YQ==", "-3"})))
	case 8:
		return c13Arr()
	case 9:
		return c13Arr(c13Num("1"), c13Num("2"))
	case 10:
		return c13Obj()
	default:
		return c13Obj(c13KV{[]byte("secret"), c13Null()})
	}
}

func c13Walk(j *c13J, visit func(*c13J)) {
	visit(j)
	for _, a := range j.A {
		c13Walk(a, visit)
	}
	for _, kv := range j.O {
		c13Walk(kv.V, visit)
	}
}

func c13CaseVariant(r *rand.Rand, k []byte) []byte {
	switch r.IntN(3) {
	case 0:
		return []byte(strings.ToUpper(string(k)))
	case 1:
		return []byte(strings.ToLower(string(k)))
	}
	out := bytes.Clone(k)
	for i := range out {
		if r.IntN(2) == 0 {
			if out[i] >= 'a' && out[i] <= 'z' {
				out[i] -= 32
			} else if out[i] >= 'A' && out[i] <= 'Z' {
				out[i] += 32
			}
		}
	}
	return out
}

// find the members with a given (exact) key anywhere in the document
func c13Members(doc *c13J, key string) []*c13KV {
	var out []*c13KV
	c13Walk(doc, func(n *c13J) {
		for i := range n.O {
			if string(n.O[i].K) == key {
				out = append(out, &n.O[i])
			}
		}
	})
	return out
}

var c13LastAccessVariants = []string{
	`5`, `-5`, `1.5`, `null`, `"null"`, `""`, `"abc"`, `"1.5"`, `" 5"`, `"5 "`, `"-5"`, `"+5"`, `"05"`, `"-0"`, `"-"`, `"5x"`, `"1e3"`,
	`"9223372036854775807"`, `"9223372036854775808"`, `"-9223372036854775808"`, `"-9223372036854775809"`, `"\"5\""`, `"true"`, `"nul"`,
	`true`, `[]`, `{}`, `"0"`, `"00012"`, `"99999999999999999999999999"`,
}
var c13VersionVariants = []string{
	`null`, `0`, `-1`, `-0`, `4294967295`, `4294967296`, `1.0`, `1e2`, `"1"`, `true`, `[]`, `{}`, `18446744073709551616`, `007`,
}
var c13ValueVariants = []string{
	`null`, `""`, `"YQ"`, `"YQ==\n"`, `"Y\nQ=="`, `"!!"`, `"YQ=="`, `1`, `[1,2,255]`, `[1,256]`, `[]`, `[-0]`, `[-1]`, `["a"]`, `{}`, `true`, `[1.5]`, `"Y Q=="`, `"YWJj"`, `"YQ==YQ=="`,
}

// c13Mutate applies one or two mutations to a valid document; the description goes into the
// evidence distribution.  Raw literals are inserted via re-parsing the printed document.
func c13Mutate(r *rand.Rand, doc *c13J) (*c13J, []string) {
	var tags []string
	hasDup, hasNullArr := false, false
	n := 1 + r.IntN(2)
	for m := 0; m < n; m++ {
		var nodes []*c13J
		var objs []*c13J
		c13Walk(doc, func(x *c13J) {
			nodes = append(nodes, x)
			if x.K == 'o' && len(x.O) > 0 {
				objs = append(objs, x)
			}
		})
		switch k := r.IntN(16); {
		case k == 0: // top level replaced
			doc = c13Pick(r, []*c13J{c13Null(), c13Arr(), c13Num("1"), c13Str([]byte("x")), c13Bool(true), c13Obj(), c13Arr(doc)})
			tags = append(tags, "top-level")
		case k <= 3: // any node replaced by junk
			*c13Pick(r, nodes) = *c13Junk(r)
			tags = append(tags, "node-junk")
		case k == 4 && len(objs) > 0: // member dropped
			o := c13Pick(r, objs)
			i := r.IntN(len(o.O))
			o.O = append(o.O[:i:i], o.O[i+1:]...)
			tags = append(tags, "key-missing")
		case k == 5 && len(objs) > 0: // unknown member added
			o := c13Pick(r, objs)
			key := c13Pick(r, []string{"extra", "Declared", "declared", "-", "TextValue", "x"})
			o.O = append(o.O, c13KV{[]byte(key), c13Junk(r)})
			tags = append(tags, "key-extra")
		case k == 6 && len(objs) > 0: // key spelled in another case
			o := c13Pick(r, objs)
			i := r.IntN(len(o.O))
			o.O[i].K = c13CaseVariant(r, o.O[i].K)
			tags = append(tags, "key-case")
		case k == 7 && len(objs) > 0 && !hasNullArr: // member repeated with another value
			o := c13Pick(r, objs)
			i := r.IntN(len(o.O))
			dup := c13KV{bytes.Clone(o.O[i].K), o.O[i].V.clone()}
			if r.IntN(2) == 0 {
				dup.V = c13Junk(r)
			} else {
				var inner []*c13J
				c13Walk(dup.V, func(x *c13J) { inner = append(inner, x) })
				*c13Pick(r, inner) = *c13Junk(r)
			}
			if r.IntN(3) == 0 {
				dup.K = c13CaseVariant(r, dup.K)
			}
			o.O = append(o.O, dup)
			hasDup = true
			tags = append(tags, "key-duplicate")
		case k == 8 && doc.K == 'o' && len(doc.O) > 0: // empty top-level key
			doc.O[r.IntN(len(doc.O))].K = []byte{}
			tags = append(tags, "empty-key")
		case k <= 10:
			if ms := c13Members(doc, "lastAccess"); len(ms) > 0 {
				c13Pick(r, ms).V = &c13J{K: 'n', Raw: c13Pick(r, c13LastAccessVariants)}
				tags = append(tags, "lastAccess-variant")
			}
		case k <= 12:
			if ms := c13Members(doc, "Version"); len(ms) > 0 {
				c13Pick(r, ms).V = &c13J{K: 'n', Raw: c13Pick(r, c13VersionVariants)}
				tags = append(tags, "version-variant")
			}
		case k <= 14:
			if ms := c13Members(doc, "Value"); len(ms) > 0 {
				raw := c13Pick(r, c13ValueVariants)
				if hasDup && strings.HasPrefix(raw, "[") {
					raw = `null`
				}
				c13Pick(r, ms).V = &c13J{K: 'n', Raw: raw}
				tags = append(tags, "value-variant")
			}
		default:
			if ms := c13Members(doc, "Value"); len(ms) > 0 && !hasDup {
				c13Pick(r, ms).V = &c13J{K: 'n', Raw: `[1,null,3]`}
				hasNullArr = true
				tags = append(tags, "value-array-null")
			}
		}
		// raw literals become proper nodes
		if d2, ok := c13Parse(doc.Bytes()); ok {
			doc = d2
		}
	}
	if len(tags) == 0 {
		tags = []string{"unmutated"}
	}
	return doc, tags
}

func c13DocInput(cache []byte, names []string, r *rand.Rand, note string) c13Input {
	in := c13Input{Kind: "doc", Cache: cache, Names: names, Allow: true, Server: map[string]c13SV{}, Note: note}
	for _, n := range names {
		in.Server[n] = c13SV{uint32(5 + r.IntN(3)), c13Pick(r, c13Values[2:])}
	}
	probe := map[string]bool{}
	for _, n := range c13Universe {
		probe[n] = true
	}
	if j, ok := c13Parse(cache); ok && j.K == 'o' {
		for i, kv := range j.O {
			if i < 8 {
				probe[string(kv.K)] = true
			}
		}
	}
	for n := range probe {
		in.Probe = append(in.Probe, n)
	}
	sort.Strings(in.Probe)
	in.Ops = []c13Op{{Op: "poll"}, {Op: "close"}}
	for _, n := range in.Probe {
		in.Ops = append(in.Ops, c13Op{Op: "read", Name: n})
	}
	return in
}

func c13GenDocs(r *rand.Rand, n int, emit func(c13Input, []string)) {
	for i := 0; i < n; i++ {
		nd := 1 + r.IntN(2)
		perm := r.Perm(len(c13Universe))
		var names []string
		for k := 0; k < nd; k++ {
			names = append(names, c13Universe[perm[k]])
		}
		var must []string
		if r.IntN(2) == 0 {
			must = names[:1]
		}
		doc := c13ValidDoc(r, must, r.IntN(3) == 0)
		tags := []string{"doc-valid"}
		if i%8 != 0 {
			doc, tags = c13Mutate(r, doc)
			for k := range tags {
				tags[k] = "doc-" + tags[k]
			}
		}
		emit(c13DocInput(doc.Bytes(), names, r, strings.Join(tags, "+")), tags)
	}
}

// byte-level damage of one valid document: every truncation, plus flips, BOM, trailing garbage,
// random bytes, white space
func c13GenBytes(r *rand.Rand, nrand int, emit func(c13Input, []string)) {
	names := []string{"a"}
	doc := c13ValidDoc(r, []string{"a", "d"}, false).Bytes()
	for i := 0; i < len(doc); i++ {
		emit(c13DocInput(doc[:i], names, r, fmt.Sprintf("truncated at %d", i)), []string{"bytes-truncated"})
	}
	fixed := [][]byte{
		append([]byte{0xef, 0xbb, 0xbf}, doc...), append(bytes.Clone(doc), []byte(" x")...), append(bytes.Clone(doc), doc...),
		append([]byte(" \n\t"), doc...), append(bytes.Clone(doc), []byte(" \n")...), []byte(" "), []byte("\n"), []byte("null"), []byte(" null "),
		[]byte("{}"), []byte("[]"), []byte("0"), []byte(`""`), []byte("nul"), []byte("{"), []byte("}"), []byte(`{"a":}`), {0}, {0xff, 0xfe},
		[]byte(`{"a":{"secret":{"Value":"YQ==","Version":1},"lastAccess":"1"},}`),
		[]byte(`{'a':1}`), []byte(`{"a":{"secret":{"Value":"YQ==","Version":01},"lastAccess":"1"}}`),
		[]byte(`{"a":{"secret":{"Value":"YQ==","Version":1},"lastAccess":"1"}}` + "\x00"),
		[]byte(`{"a\u0000":{"secret":{"Value":"YQ==","Version":1},"lastAccess":"1"}}`),
		[]byte("{\"a\":{\"secret\":{\"Value\":\"YQ==\",\"Version\":1},\"lastAccess\":\"1\"},\"\\u00e9\":null}"),
	}
	for _, f := range fixed {
		emit(c13DocInput(f, names, r, "fixed damage"), []string{"bytes-fixed"})
	}
	for i := 0; i < nrand; i++ {
		b := bytes.Clone(doc)
		switch r.IntN(4) {
		case 0: // flip a few bytes
			for k := 1 + r.IntN(3); k > 0; k-- {
				b[r.IntN(len(b))] = byte(r.IntN(256))
			}
			emit(c13DocInput(b, names, r, "flipped bytes"), []string{"bytes-flipped"})
		case 1: // delete a slice
			i0 := r.IntN(len(b))
			i1 := min(len(b), i0+1+r.IntN(6))
			b = append(b[:i0:i0], b[i1:]...)
			emit(c13DocInput(b, names, r, "deleted slice"), []string{"bytes-deleted"})
		case 2: // insert junk
			i0 := r.IntN(len(b))
			junk := c13Pick(r, []string{",", "}", "{", "\"", ":", "null", "0", " ", "\\", "[", "]", "e9", "-"})
			b = append(b[:i0:i0], append([]byte(junk), b[i0:]...)...)
			emit(c13DocInput(b, names, r, "inserted junk"), []string{"bytes-inserted"})
		default:
			rb := make([]byte, 1+r.IntN(40))
			for k := range rb {
				rb[k] = byte(r.IntN(256))
			}
			emit(c13DocInput(rb, names, r, "random bytes"), []string{"bytes-random"})
		}
	}
}

// ---------------------------------------------------------------- concurrent blocks

// c13GenConc: a store (1-2 declared names, lookups allowed, possibly a cache holding the declared
// names at stale versions), a short sequential prefix, then a block of concurrent calls whose
// first cache write is held.  The names looked up in the block are unknown to the store before.
func c13GenConc(r *rand.Rand, i int) c13Input {
	in := c13Input{Kind: "conc", Allow: true, Probe: append([]string{}, c13Universe...), Server: map[string]c13SV{}}
	perm := r.Perm(len(c13Universe))
	nd := 1 + r.IntN(2)
	for k := 0; k < nd; k++ {
		in.Names = append(in.Names, c13Universe[perm[k]])
	}
	free := []string{}
	for k := nd; k < len(perm); k++ {
		free = append(free, c13Universe[perm[k]])
	}
	for _, n := range c13Universe {
		in.Server[n] = c13SV{uint32(2 + r.IntN(2)), c13Pick(r, c13Values[2:])}
	}
	if r.IntN(2) == 0 { // a cache with the declared names, one version behind
		doc := c13Obj()
		names := append([]string{}, in.Names...)
		sort.Strings(names)
		for _, n := range names {
			doc.O = append(doc.O, c13KV{[]byte(n), c13Entry(fmt.Sprint(in.Server[n].Ver-1), c13Pick(r, c13Values), fmt.Sprint(c13T0-int64(r.IntN(5000))))})
		}
		in.Cache = doc.Bytes()
	}
	in.File = r.IntN(4) == 0
	// prefix
	if r.IntN(2) == 0 {
		in.Ops = append(in.Ops, c13Op{Op: "read", Name: in.Names[0]})
	}
	if r.IntN(3) == 0 {
		in.Ops = append(in.Ops, c13Op{Op: "lookup", Name: free[2]}) // free[2] is never used in the block
	}
	if r.IntN(3) == 0 {
		in.Ops = append(in.Ops, c13Op{Op: "poll"})
	}
	in.Ops = append(in.Ops, c13Op{Op: "tick", Secs: int64(1 + r.IntN(100))})
	// something for a poll to install: a declared name moves on at the service
	bump := func() {
		n := in.Names[r.IntN(len(in.Names))]
		in.Ops = append(in.Ops, c13Op{Op: "set", Name: n, Ver: in.Server[n].Ver + 1, Val: c13Pick(r, c13Values[2:])})
	}
	x, y := free[0], free[1]
	switch i % 8 {
	case 0:
		in.Conc = []c13Op{{Op: "lookup", Name: x}, {Op: "lookup", Name: y}}
	case 1:
		in.Conc = []c13Op{{Op: "lookup", Name: x}, {Op: "lookup", Name: y}, {Op: "lookup", Name: free[2]}}
		// free[2] may have been looked up in the prefix already: then that call writes nothing
	case 2:
		bump()
		in.Conc = []c13Op{{Op: "lookup", Name: x}, {Op: "poll"}}
	case 3:
		bump()
		in.Conc = []c13Op{{Op: "poll"}, {Op: "lookup", Name: y}}
	case 4:
		in.Conc = []c13Op{{Op: "lookup", Name: x}, {Op: "close"}}
	case 5:
		bump()
		in.Conc = []c13Op{{Op: "poll"}, {Op: "close"}}
	case 6:
		in.Conc = []c13Op{{Op: "close"}, {Op: "lookup", Name: y}}
	default:
		bump()
		in.Conc = []c13Op{{Op: "poll"}, {Op: "lookup", Name: x}, {Op: "lookup", Name: y}}
	}
	return in
}

// ---------------------------------------------------------------- partially decodable documents

// c13GenPartial: documents whose FIRST entries are valid (and include a declared name, cached at
// a version the service no longer has) and whose LAST entry stops the decoder with an error in the
// middle of the document.  encoding/json has filled the map with the early entries by then; the
// store must not use any of them: every declared name is fetched, nothing stale is served.
var c13BadEntries = []string{
	`1`, `"s"`, `[]`, `true`, // entry is not an object
	`{"secret":[],"lastAccess":"5"}`, `{"secret":"s","lastAccess":"5"}`, `{"secret":7}`,
	`{"secret":{"Value":"!!","Version":1},"lastAccess":"5"}`, `{"secret":{"Value":"YQ","Version":1},"lastAccess":"5"}`,
	`{"secret":{"Value":7,"Version":1},"lastAccess":"5"}`, `{"secret":{"Value":[1,256],"Version":1},"lastAccess":"5"}`,
	`{"secret":{"Value":"YQ==","Version":"1"},"lastAccess":"5"}`, `{"secret":{"Value":"YQ==","Version":-1},"lastAccess":"5"}`,
	`{"secret":{"Value":"YQ==","Version":4294967296},"lastAccess":"5"}`, `{"secret":{"Value":"YQ==","Version":1.5},"lastAccess":"5"}`,
	`{"secret":{"Value":"YQ==","Version":1},"lastAccess":5}`, `{"secret":{"Value":"YQ==","Version":1},"lastAccess":"x"}`,
	`{"secret":{"Value":"YQ==","Version":1},"lastAccess":""}`, `{"secret":{"Value":"YQ==","Version":1},"lastAccess":"9223372036854775808"}`,
	`{"secret":{"Value":"YQ==","Version":1},"lastAccess":true}`, `{"lastAccess":[]}`,
}

func c13GenPartial(r *rand.Rand, emit func(c13Input, []string)) {
	for i, bad := range c13BadEntries {
		for rep := 0; rep < 2; rep++ {
			// keys in document order: the valid ones first, the bad one last ("zz" sorts last too)
			good := []string{"a", "d"}
			if rep == 1 {
				good = []string{"b/c", "e/f/g", "h"}
			}
			doc := c13Obj()
			for _, n := range good {
				doc.O = append(doc.O, c13KV{[]byte(n), c13Entry(fmt.Sprint(1+r.IntN(3)), c13Pick(r, c13Values[2:]), fmt.Sprint(c13T0-int64(r.IntN(5000))))})
			}
			doc.O = append(doc.O, c13KV{[]byte("zz"), &c13J{K: 'n', Raw: bad}})
			names := good[:1+r.IntN(len(good))]
			in := c13DocInput(doc.Bytes(), append([]string{}, names...), r, fmt.Sprintf("valid entries, then a bad one (#%d)", i))
			emit(in, []string{"doc-partial-then-error"})
		}
	}
}


// ---------------------------------------------------------------- slow cache writes (virtual time)

// c13GenSlow: a sequential history in which ONE or two cache writes take 1 s .. 2 min of virtual
// time (inside one caller's flush, nobody else running), followed at once by further calls that
// flush again; mostly no Close before the state at rest is examined.
func c13GenSlow(r *rand.Rand, i int) c13Input {
	in := c13Input{Kind: "slow", Allow: true, Probe: append([]string{}, c13Universe...), Server: map[string]c13SV{}}
	perm := r.Perm(len(c13Universe))
	nd := 1 + r.IntN(2)
	for k := 0; k < nd; k++ {
		in.Names = append(in.Names, c13Universe[perm[k]])
	}
	var free []string
	for k := nd; k < len(perm); k++ {
		free = append(free, c13Universe[perm[k]])
	}
	for _, n := range c13Universe {
		in.Server[n] = c13SV{uint32(1 + r.IntN(3)), c13Pick(r, c13Values[2:])}
	}
	if r.IntN(3) == 0 {
		in.Cache = c13ValidDoc(r, in.Names[:1], false).Bytes()
	}
	secs := []int64{1, 5, 30, 120}[i%4]
	bump := func() c13Op {
		n := c13Pick(r, in.Names)
		sv := in.Server[n]
		sv.Ver += 1 + uint32(len(in.Ops)) // strictly newer each time
		in.Server[n] = c13SV{sv.Ver, sv.Val}
		return c13Op{Op: "set", Name: n, Ver: sv.Ver, Val: c13Pick(r, c13Values[2:])}
	}
	flusher := func(k int) []c13Op { // a call that writes the cache
		if r.IntN(2) == 0 && k < len(free) {
			return []c13Op{{Op: "lookup", Name: free[k]}}
		}
		return []c13Op{bump(), {Op: "poll"}}
	}
	if r.IntN(2) == 0 {
		in.Ops = append(in.Ops, flusher(2)...)
	}
	slow := flusher(0)
	slow[len(slow)-1].SlowSecs = secs
	in.Ops = append(in.Ops, slow...)
	in.Ops = append(in.Ops, flusher(1)...) // right after the slow caller has returned
	if r.IntN(2) == 0 {
		in.Ops = append(in.Ops, c13Op{Op: "read", Name: in.Names[0]})
	}
	if r.IntN(3) == 0 {
		second := flusher(3)
		second[len(second)-1].SlowSecs = []int64{5, 120}[r.IntN(2)]
		in.Ops = append(in.Ops, second...)
		in.Ops = append(in.Ops, bump(), c13Op{Op: "poll"})
	}
	if r.IntN(4) == 0 {
		in.Ops = append(in.Ops, c13Op{Op: "close"})
	}
	return in
}

// ---------------------------------------------------------------- hand-written secrets files

var c13Texts = []string{"", "x", "plain text", " lead", "trail ", "nl\n", "\ttab\t", " ", "\n", "\r\n", "\u00a0nb", "sep\u2028", "\u3000", "a\u0000b", "é", "{}"}

// c13GenFcFiles: files in the format documented for NewFileClient: "Value" (base64) and/or
// "TextValue" (plain text) with a version; texts and bytes with and without outer white space.
// The unchanged code serves a TextValue exactly as written (no trimming), prefers a non-empty
// TextValue over Value, and skips version 0 and entries without any value.
func c13GenFcFiles(r *rand.Rand, n int, emit func(c13Input, []string)) {
	jstr := func(t string) *c13J { return &c13J{K: 's', S: []byte(t)} }
	for i := 0; i < n; i++ {
		doc := c13Obj()
		var probe []string
		tags := map[string]bool{}
		for k, name := range c13Universe {
			if r.IntN(5) == 0 {
				continue
			}
			probe = append(probe, name)
			sec := c13Obj()
			ver := fmt.Sprint(r.IntN(4)) // 0 = skipped
			form := (i + k) % 6
			val := c13Pick(r, c13Values)
			txt := c13Pick(r, c13Texts)
			switch form {
			case 0: // text only
				sec.O = append(sec.O, c13KV{[]byte("TextValue"), jstr(txt)})
				tags["fc-text"] = true
			case 1: // bytes only
				sec.O = append(sec.O, c13KV{[]byte("Value"), c13Str([]byte(base64.StdEncoding.EncodeToString(val)))})
				tags["fc-value"] = true
			case 2: // both: a non-empty text wins
				sec.O = append(sec.O, c13KV{[]byte("Value"), c13Str([]byte(base64.StdEncoding.EncodeToString(val)))}, c13KV{[]byte("TextValue"), jstr(txt)})
				tags["fc-both"] = true
			case 3: // text null / empty next to bytes
				sec.O = append(sec.O, c13KV{[]byte("TextValue"), c13Pick(r, []*c13J{c13Null(), jstr("")})}, c13KV{[]byte("Value"), c13Str([]byte(base64.StdEncoding.EncodeToString(val)))})
				tags["fc-text-empty"] = true
			case 4: // key in another case
				sec.O = append(sec.O, c13KV{c13CaseVariant(r, []byte("TextValue")), jstr(txt)})
				tags["fc-text-case"] = true
			default: // as a cache entry would look, with a lastAccess the file client ignores
				sec.O = append(sec.O, c13KV{[]byte("Value"), c13Str([]byte(base64.StdEncoding.EncodeToString(val)))})
				tags["fc-cache-shaped"] = true
			}
			sec.O = append(sec.O, c13KV{[]byte("Version"), c13Num(ver)})
			ent := c13Obj(c13KV{[]byte("secret"), sec})
			if form == 5 {
				ent.O = append(ent.O, c13KV{[]byte("lastAccess"), jstr("17")})
			}
			doc.O = append(doc.O, c13KV{[]byte(name), ent})
		}
		if i%9 == 8 { // a wrong-typed TextValue: the whole file is refused
			doc.O = append(doc.O, c13KV{[]byte("zz"), c13Obj(c13KV{[]byte("secret"), c13Obj(c13KV{[]byte("TextValue"), c13Num("7")}, c13KV{[]byte("Version"), c13Num("1")})})})
			tags["fc-text-wrong-type"] = true
		}
		if i%11 == 10 {
			doc.O = append(doc.O, c13KV{[]byte("nul"), c13Null()}, c13KV{[]byte(""), c13Obj(c13KV{[]byte("secret"), c13Obj(c13KV{[]byte("TextValue"), jstr("t")}, c13KV{[]byte("Version"), c13Num("1")})})})
			probe = append(probe, "nul", "")
		}
		probe = append(probe, "absent")
		var tl []string
		for t := range tags {
			tl = append(tl, t)
		}
		sort.Strings(tl)
		emit(c13Input{Kind: "fcfile", Cache: doc.Bytes(), Probe: probe}, tl)
	}
}


// ---------------------------------------------------------------- three lifetimes, the middle one a failed start

// c13GenLife: run 1 declares two names (alpha, beta), does a little and closes: a good cache.
// Run 2 declares one or two MORE names; the service is unreachable, or has only some of the new
// names, and the caller's context ends (after 25 ms, or before the start begins).  Run 3 is the
// restart with run 1's names and a dead service.
func c13GenLife(r *rand.Rand, i int) c13Input {
	in := c13Input{Kind: "life", Allow: true, Probe: append([]string{}, c13Universe...), Server: map[string]c13SV{}, Server2: map[string]c13SV{}}
	perm := r.Perm(len(c13Universe))
	in.Names = []string{c13Universe[perm[0]], c13Universe[perm[1]]}
	gamma, delta, eps := c13Universe[perm[2]], c13Universe[perm[3]], c13Universe[perm[4]]
	for _, n := range c13Universe {
		in.Server[n] = c13SV{uint32(1 + r.IntN(3)), c13Pick(r, c13Values[2:])}
	}
	if r.IntN(3) == 0 { // run 1 itself starts from a cache: one declared name and an undeclared one, never the names run 2 adds
		ks := []string{in.Names[0], eps}
		sort.Strings(ks)
		doc := c13Obj()
		for _, n := range ks {
			doc.O = append(doc.O, c13KV{[]byte(n), c13Entry(fmt.Sprint(r.IntN(3)), c13Pick(r, c13Values), fmt.Sprint(c13T0-int64(r.IntN(5000))))})
		}
		in.Cache = doc.Bytes()
	}
	if r.IntN(2) == 0 {
		in.Ops = append(in.Ops, c13Op{Op: "read", Name: in.Names[0]})
	}
	if r.IntN(2) == 0 {
		in.Ops = append(in.Ops, c13Op{Op: "lookup", Name: eps}) // an undeclared secret run 1 picked up
	}
	if r.IntN(3) == 0 {
		n := in.Names[1]
		in.Ops = append(in.Ops, c13Op{Op: "set", Name: n, Ver: in.Server[n].Ver + 1, Val: c13Pick(r, c13Values[2:])}, c13Op{Op: "poll"})
	}
	in.Ops = append(in.Ops, c13Op{Op: "tick", Secs: int64(1 + r.IntN(1000))}, c13Op{Op: "close"})
	in.Names2 = append(append([]string{}, in.Names...), gamma)
	switch i % 4 {
	case 0: // service unreachable
		in.Dead2 = true
	case 1: // the new name does not exist (yet); the old ones would be answered but are cached anyway
		for _, n := range in.Names {
			in.Server2[n] = in.Server[n]
		}
	case 2: // two new names, one of them is fetched before the context ends
		in.Names2 = append(in.Names2, delta)
		in.Server2[delta] = c13SV{uint32(1 + r.IntN(3)), c13Pick(r, c13Values[2:])}
	default: // the context has ended already; one of two new names could have been fetched
		in.Names2 = append(in.Names2, delta)
		in.Server2[delta] = c13SV{uint32(1 + r.IntN(3)), c13Pick(r, c13Values[2:])}
		in.CtxDone2 = true
	}
	return in
}

// c13GenRetain: an ordinary history (all kinds of initial caches, lookups, polls, Close) over a
// cache that KEEPS the slices it is given, with failing writes at about a third of the writing
// calls; always closed at the end, then every retained slice is read again.
func c13GenRetain(r *rand.Rand, i int) c13Input {
	in := c13GenHist(r)
	in.Kind, in.File, in.ReadFail, in.InitWFail = "retain", false, false, false
	in.Retain = []string{"slice", "mem"}[i%2]
	closed := false
	for k := range in.Ops {
		op := &in.Ops[k]
		if op.Op == "lookup" || op.Op == "poll" {
			op.WriteFail = r.IntN(3) == 0
		}
		if op.Op == "close" {
			op.WriteFail = r.IntN(4) == 0
			closed = true
		}
	}
	if !closed {
		in.Ops = append(in.Ops, c13Op{Op: "close", WriteFail: r.IntN(4) == 0})
	}
	return in
}
