package main

// C13: a JSON tree that keeps what encoding/json's typed decoder can see: member order,
// duplicate keys, number literals as text.  Parsed with encoding/json's own tokenizer
// (json.Valid + Decoder.Token with UseNumber), printed either as bytes (for feeding the
// cache) or as a Gallina term of type CacheDoc.json.

import (
	"bytes"
	"encoding/base64"
	"encoding/json"
	"fmt"
	"regexp"
	"strings"
)

type c13J struct {
	K   byte     // 'n' null, 't' true, 'f' false, '#' number, 's' string, 'a' array, 'o' object
	Num string   // number literal text
	S   []byte   // string content (decoded)
	A   []*c13J  // array elements
	O   []c13KV  // object members in document order
	Raw string   // if non-empty: printed verbatim instead (for odd but valid spellings)
}

type c13KV struct {
	K []byte
	V *c13J
}

func c13Null() *c13J          { return &c13J{K: 'n'} }
func c13Bool(b bool) *c13J    { if b { return &c13J{K: 't'} }; return &c13J{K: 'f'} }
func c13Num(s string) *c13J   { return &c13J{K: '#', Num: s} }
func c13Str(s []byte) *c13J   { return &c13J{K: 's', S: s} }
func c13Arr(a ...*c13J) *c13J { return &c13J{K: 'a', A: a} }
func c13Obj(kv ...c13KV) *c13J { return &c13J{K: 'o', O: kv} }

func (j *c13J) clone() *c13J {
	if j == nil {
		return nil
	}
	c := *j
	c.S = bytes.Clone(j.S)
	c.A = nil
	for _, a := range j.A {
		c.A = append(c.A, a.clone())
	}
	c.O = nil
	for _, kv := range j.O {
		c.O = append(c.O, c13KV{bytes.Clone(kv.K), kv.V.clone()})
	}
	return &c
}

// c13Parse returns the tree of a syntactically valid JSON text (ok=false otherwise).
func c13Parse(data []byte) (*c13J, bool) {
	if !json.Valid(data) {
		return nil, false
	}
	dec := json.NewDecoder(bytes.NewReader(data))
	dec.UseNumber()
	j, err := c13ParseValue(dec)
	if err != nil {
		return nil, false
	}
	return j, true
}

func c13ParseValue(dec *json.Decoder) (*c13J, error) {
	tok, err := dec.Token()
	if err != nil {
		return nil, err
	}
	switch t := tok.(type) {
	case nil:
		return c13Null(), nil
	case bool:
		return c13Bool(t), nil
	case json.Number:
		return c13Num(string(t)), nil
	case string:
		return c13Str([]byte(t)), nil
	case json.Delim:
		switch t {
		case '[':
			out := &c13J{K: 'a'}
			for dec.More() {
				v, err := c13ParseValue(dec)
				if err != nil {
					return nil, err
				}
				out.A = append(out.A, v)
			}
			if _, err := dec.Token(); err != nil {
				return nil, err
			}
			return out, nil
		case '{':
			out := &c13J{K: 'o'}
			for dec.More() {
				kt, err := dec.Token()
				if err != nil {
					return nil, err
				}
				ks, ok := kt.(string)
				if !ok {
					return nil, fmt.Errorf("key is not a string")
				}
				v, err := c13ParseValue(dec)
				if err != nil {
					return nil, err
				}
				out.O = append(out.O, c13KV{[]byte(ks), v})
			}
			if _, err := dec.Token(); err != nil {
				return nil, err
			}
			return out, nil
		}
	}
	return nil, fmt.Errorf("unexpected token %v", tok)
}

// c13Print prints the tree as JSON text.
func (j *c13J) print(sb *bytes.Buffer) {
	if j.Raw != "" {
		sb.WriteString(j.Raw)
		return
	}
	switch j.K {
	case 'n':
		sb.WriteString("null")
	case 't':
		sb.WriteString("true")
	case 'f':
		sb.WriteString("false")
	case '#':
		sb.WriteString(j.Num)
	case 's':
		bs, _ := json.Marshal(string(j.S))
		sb.Write(bs)
	case 'a':
		sb.WriteByte('[')
		for i, a := range j.A {
			if i > 0 {
				sb.WriteByte(',')
			}
			a.print(sb)
		}
		sb.WriteByte(']')
	case 'o':
		sb.WriteByte('{')
		for i, kv := range j.O {
			if i > 0 {
				sb.WriteByte(',')
			}
			bs, _ := json.Marshal(string(kv.K))
			sb.Write(bs)
			sb.WriteByte(':')
			kv.V.print(sb)
		}
		sb.WriteByte('}')
	}
}

func (j *c13J) Bytes() []byte {
	var sb bytes.Buffer
	j.print(&sb)
	return sb.Bytes()
}

var c13IntRe = regexp.MustCompile(`^-?(0|[1-9][0-9]*)$`)

// Gallina term (constructors of Corr/Run_C13.v).
func (j *c13J) Coq() string {
	switch j.K {
	case 'n':
		return "JN"
	case 't':
		return "JT"
	case 'f':
		return "JF"
	case '#':
		if c13IntRe.MatchString(j.Num) && j.Num != "-0" {
			if strings.HasPrefix(j.Num, "-") {
				return "(JM " + j.Num[1:] + ")"
			}
			return "(JI " + j.Num + ")"
		}
		return "JX"
	case 's':
		return "(JS " + coqBytes(j.S) + ")"
	case 'a':
		parts := make([]string, len(j.A))
		for i, a := range j.A {
			parts[i] = a.Coq()
		}
		return "(JA " + coqList(parts) + ")"
	case 'o':
		parts := make([]string, len(j.O))
		for i, kv := range j.O {
			parts[i] = "(" + coqBytes(kv.K) + "," + kv.V.Coq() + ")"
		}
		return "(JO " + coqList(parts) + ")"
	}
	return "JN"
}

// c13B64 collects, for the kernel, the graph of base64.StdEncoding on the strings that can
// reach a []byte destination: every string member named (case-insensitively) "value".
type c13B64 struct {
	pairs [][2][]byte
	seen  map[string]bool
}

func newC13B64() *c13B64 { return &c13B64{seen: map[string]bool{}} }

func (t *c13B64) addRaw(raw []byte) {
	enc := base64.StdEncoding.EncodeToString(raw)
	k := "r:" + string(raw)
	if t.seen[k] {
		return
	}
	t.seen[k] = true
	t.seen["e:"+enc] = true
	t.pairs = append(t.pairs, [2][]byte{bytes.Clone(raw), []byte(enc)})
}

func (t *c13B64) addTree(j *c13J) {
	if j == nil {
		return
	}
	for _, a := range j.A {
		t.addTree(a)
	}
	for _, kv := range j.O {
		if strings.EqualFold(string(kv.K), "value") && kv.V.K == 's' {
			k := "e:" + string(kv.V.S)
			if !t.seen[k] {
				t.seen[k] = true
				if raw, err := base64.StdEncoding.DecodeString(string(kv.V.S)); err == nil {
					// canonical pair of that raw value first, then the variant spelling
					t.addRaw(raw)
					if !bytes.Equal([]byte(base64.StdEncoding.EncodeToString(raw)), kv.V.S) {
						t.pairs = append(t.pairs, [2][]byte{raw, bytes.Clone(kv.V.S)})
					}
				}
			}
		}
		t.addTree(kv.V)
	}
}

func (t *c13B64) Coq() string {
	parts := make([]string, len(t.pairs))
	for i, p := range t.pairs {
		parts[i] = "(" + coqBytes(p[0]) + "," + coqBytes(p[1]) + ")"
	}
	return coqList(parts)
}
