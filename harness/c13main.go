package main

import (
	"encoding/json"
	"fmt"
	"os"
	"path/filepath"
	"slices"
	"strings"
	"testing"
)

func c13Record(in c13Input, workdir string, tags []string) (Record, *c13Case) {
	if in.Kind == "fcfile" {
		return c13FcFile(in, workdir, tags), nil
	}
	if in.Kind == "big" {
		return c13Big(in, workdir, tags), nil
	}
	var c *c13Case
	var panicky string
	if in.Kind == "slow" && c13T != nil {
		// virtual time: the slow Cache.Write sleeps seconds to minutes, the store is created in the bubble
		bubble(c13T, func(*testing.T) { c, panicky = c13RunHist(in, workdir) })
		if c == nil {
			c, panicky = &c13Case{tbl: newC13B64()}, "the synctest bubble did not complete"
		}
	} else {
		c, panicky = c13RunHist(in, workdir)
	}
	kb, _ := json.Marshal(in)
	nwrites := 0
	if c.Cons.HasW {
		nwrites++
	}
	nrest := 0
	if c.Cons.RS != nil {
		nrest++
	}
	for _, s := range c.Steps {
		if s.Obs.HasW {
			nwrites++
		}
		if s.Obs.RS != nil {
			nrest++
		}
	}
	obs := map[string]any{"cons_ok": c.ConsOK, "cons_reqs": c.ConsReqs, "cache_writes": nwrites, "restarts": nrest, "cache_kind": []string{"none", "undecodable", "tree"}[c.CinKind]}
	if in.Kind == "doc" && len(c.Steps) > 0 {
		obs["poll"] = c.Steps[0].Obs.Res
	}
	rec := Record{Kind: in.Kind, Input: in, Obs: obs, Key: in.Kind + ":" + string(kb), Coq: c.Coq(), Tags: tags}
	switch in.Kind {
	case "hist":
		rec.Nontrivial = nwrites >= 2 && nrest >= 2
		rec.Tags = append(rec.Tags, fmt.Sprintf("hist-writes%d", min(nwrites, 4)))
		if in.ReadFail {
			rec.Tags = append(rec.Tags, "hist-read-fails")
		}
		if in.File {
			rec.Tags = append(rec.Tags, "hist-real-filecache")
		}
		wf := in.InitWFail
		for _, op := range in.Ops {
			wf = wf || op.WriteFail
		}
		if wf {
			rec.Tags = append(rec.Tags, "hist-write-fails")
		}
	case "life":
		if c.Life != nil {
			rec.Nontrivial = c.Life.RS != nil
			obs["second_start_ok"], obs["second_start_writes"] = c.Life.OK2, len(c.Life.Writes2)
			fetched := 0
			for _, a := range c.Life.Ans2 {
				if a.Has && !slices.Contains(in.Names, a.Name) {
					fetched++ // a NEW name the service could give before the context ended
				}
			}
			rec.Tags = append(rec.Tags, "life-failed-middle-start")
			switch {
			case in.CtxDone2:
				rec.Tags = append(rec.Tags, "life-context-already-ended")
			case in.Dead2:
				rec.Tags = append(rec.Tags, "life-service-unreachable")
			case fetched > 0:
				rec.Tags = append(rec.Tags, "life-some-new-names-fetched")
			default:
				rec.Tags = append(rec.Tags, "life-new-name-missing")
			}
		}
	case "retain":
		if c.Retain != nil {
			rec.Nontrivial = len(c.Retain.At) >= 2
			obs["retained_payloads"], obs["no_longer_parse"] = len(c.Retain.At), c.Retain.Bad
			rec.Tags = append(rec.Tags, "retain-"+in.Retain)
			for _, op := range in.Ops {
				if op.WriteFail {
					rec.Tags = append(rec.Tags, "retain-with-failing-write")
					break
				}
			}
		}
	case "slow":
		if c.Slow != nil {
			rec.Nontrivial = len(c.Slow.Offered) >= 3
			obs["offered"], obs["landed"] = len(c.Slow.Offered), len(c.Slow.Landed)
			var mx int64
			for _, op := range in.Ops {
				mx = max(mx, op.SlowSecs)
			}
			rec.Tags = append(rec.Tags, fmt.Sprintf("slow-max%ds", mx))
		}
	case "conc":
		if c.Conc != nil {
			rec.Nontrivial = c.Conc.Held && len(c.Conc.Writes) >= 2
			obs["conc_writes"], obs["held"], obs["overran"] = len(c.Conc.Writes), c.Conc.Held, c.Conc.Overran
			var kinds []string
			for _, op := range in.Conc {
				kinds = append(kinds, op.Op)
			}
			rec.Tags = append(rec.Tags, "conc-"+strings.Join(kinds, "+"))
			if !c.Conc.Held {
				rec.Tags = append(rec.Tags, "conc-not-held")
			}
		}
	case "doc":
		rec.Nontrivial = c.CinKind == 2
		rec.Tags = append(rec.Tags, "cache-"+[]string{"none", "undecodable", "tree"}[c.CinKind])
	}
	if panicky != "" {
		rec.Direct = &DirectVerdict{OK: false, What: panicky}
	} else if !c.ConsOK {
		rec.Direct = &DirectVerdict{OK: false, What: "NewStore failed although the service could answer every declared name"}
	}
	return rec, c
}

// self-tests: copies of a real case with ONE observable altered; the kernel must flag them
func c13SelfTests(rec Record, c *c13Case) []Record {
	var out []Record
	alter := func(what string, f func(cc *c13Case) bool) {
		cc := *c
		cc.Steps = append([]c13Step{}, c.Steps...)
		if !f(&cc) {
			return
		}
		r := rec
		r.Coq = cc.Coq()
		r.SelfTest, r.SelfOf = true, rec.ID
		r.Obs = map[string]any{"altered": what}
		r.Direct = nil
		out = append(out, r)
	}
	alter("a served value of a restart", func(cc *c13Case) bool {
		for i := range cc.Steps {
			if rs := cc.Steps[i].Obs.RS; rs != nil && rs.OK {
				for k := range rs.Served {
					if rs.Served[k].Has {
						n := *rs
						n.Served = append([]c13Served{}, rs.Served...)
						n.Served[k].Val = append([]byte("~"), n.Served[k].Val...)
						cc.Steps[i].Obs.RS = &n
						return true
					}
				}
			}
		}
		return false
	})
	alter("a version in a written document", func(cc *c13Case) bool {
		for i := range cc.Steps {
			if w := cc.Steps[i].Obs.Written; cc.Steps[i].Obs.HasW && w != nil {
				w2 := w.clone()
				if ms := c13Members(w2, "Version"); len(ms) > 0 {
					ms[0].V = c13Num("77")
					cc.Steps[i].Obs.Written = w2
					return true
				}
			}
		}
		return false
	})
	alter("lastAccess written as a number", func(cc *c13Case) bool {
		for i := range cc.Steps {
			if w := cc.Steps[i].Obs.Written; cc.Steps[i].Obs.HasW && w != nil {
				w2 := w.clone()
				if ms := c13Members(w2, "lastAccess"); len(ms) > 0 && ms[0].V.K == 's' {
					ms[0].V = c13Num(string(ms[0].V.S))
					cc.Steps[i].Obs.Written = w2
					return true
				}
			}
		}
		return false
	})
	alter("a cache write dropped", func(cc *c13Case) bool {
		for i := range cc.Steps {
			if cc.Steps[i].Obs.HasW {
				cc.Steps[i].Obs.HasW = false
				return true
			}
		}
		return false
	})
	alter("the concurrent block's writes in reverse order", func(cc *c13Case) bool {
		if cc.Conc == nil || len(cc.Conc.Writes) < 2 {
			return false
		}
		n := *cc.Conc
		n.Writes = append([]*c13J{}, cc.Conc.Writes...)
		for i, j := 0, len(n.Writes)-1; i < j; i, j = i+1, j-1 {
			n.Writes[i], n.Writes[j] = n.Writes[j], n.Writes[i]
		}
		cc.Conc = &n
		return true
	})
	alter("the failed start wrote its null stubs", func(cc *c13Case) bool {
		if cc.Life == nil || cc.Life.RS == nil {
			return false
		}
		n := *cc.Life
		n.Writes2 = append(append([]*c13J{}, cc.Life.Writes2...), c13Obj(c13KV{[]byte("gamma"), c13Null()}))
		cc.Life = &n
		return true
	})
	alter("a retained payload changed after it was written", func(cc *c13Case) bool {
		if cc.Retain == nil || len(cc.Retain.At) == 0 {
			return false
		}
		n := *cc.Retain
		n.Now = append([]*c13J{}, cc.Retain.Now...)
		n.Now[0] = c13Obj(c13KV{[]byte("scribbled"), c13Null()})
		cc.Retain = &n
		return true
	})
	alter("a stale document landing last", func(cc *c13Case) bool {
		if cc.Slow == nil || len(cc.Slow.Landed) < 2 {
			return false
		}
		n := *cc.Slow
		n.Landed = append([]*c13J{}, cc.Slow.Landed...)
		k := len(n.Landed)
		if string(n.Landed[k-1].Bytes()) == string(n.Landed[k-2].Bytes()) {
			return false
		}
		n.Landed[k-1], n.Landed[k-2] = n.Landed[k-2], n.Landed[k-1]
		cc.Slow = &n
		return true
	})
	alter("an extra request at construction", func(cc *c13Case) bool {
		cc.ConsReqs = append(append([]string{}, cc.ConsReqs...), "zz")
		return true
	})
	alter("a file client answer", func(cc *c13Case) bool {
		for i := range cc.Steps {
			if fc := cc.Steps[i].Obs.FC; fc != nil && fc.OK && len(fc.Ans) > 0 {
				n := *fc
				n.Ans = append([]c13FCAns{}, fc.Ans...)
				if n.Ans[0].Get == "FCNotFound" {
					n.Ans[0].Get = "(FCValue 1 [])"
				} else {
					n.Ans[0].Get = "FCNotFound"
				}
				cc.Steps[i].Obs.FC = &n
				return true
			}
		}
		return false
	})
	return out
}

func runC13(o Opts) {
	out := NewOut(o.Out)
	defer out.Close()
	workdir := o.Work
	if workdir == "" {
		workdir = "."
	}
	workdir = filepath.Join(workdir, "c13tmp")
	os.MkdirAll(workdir, 0700)
	defer os.RemoveAll(workdir)

	ntrace := 0
	pool := &c13Pool{work: workdir}
	defer pool.stop()
	var selfRecs []Record
	nself := map[string]int{}
	emit := func(in c13Input, tags []string, corpus string) {
		switch in.Kind {
		case "hist", "doc", "conc", "slow", "life", "retain", "fcfile", "big":
			// the real store runs in a worker process: a crash or hang costs this one input only
			want := corpus == "" && o.Replay == "" && ((in.Kind == "hist" && nself["hist"] < 4) || (in.Kind == "conc" && nself["conc"] < 2) || (in.Kind == "slow" && nself["slow"] < 2) || (in.Kind == "life" && nself["life"] < 2) || (in.Kind == "retain" && nself["retain"] < 2))
			if pool.skip(in.Kind) {
				return // this kind keeps hanging: see the summary record at the end of the run
			}
			recs := pool.do(c13Job{In: in, Tags: tags, Corpus: corpus, Self: want}, c13ScenarioTimeout)
			id := out.n
			out.Emit(recs[0])
			if len(recs) > 1 {
				nself[in.Kind]++
				for _, st := range recs[1:] {
					st.SelfOf = id
					selfRecs = append(selfRecs, st)
				}
			}
		case "fstrace":
			ntrace++
			var old []byte
			if in.Fault == "old" {
				old = c13ChildDoc(3)
			}
			rec := c13FsTrace(workdir, ntrace, old, 7)
			rec.Input = in
			rec.Corpus = corpus
			out.Emit(rec)
			if corpus == "" && o.Replay == "" && rec.Coq != "" && nself["fstrace"] == 0 {
				// self-test: the same trace claimed to have written another document
				nself["fstrace"]++
				st := rec
				st.Coq = strings.Replace(rec.Coq, coqBytes(c13ChildDoc(7)), coqBytes(c13ChildDoc(8)), 1)
				st.SelfTest, st.Obs, st.Direct = true, nil, nil
				st.SelfOf = out.n - 1
				selfRecs = append(selfRecs, st)
			}
		case "trace", "inject":
			ntrace++
			for _, rec := range c13RunTrace(in, workdir, ntrace) {
				rec.Corpus = corpus
				out.Emit(rec)
			}
		default:
			fatal("C13: unknown input kind %q", in.Kind)
		}
	}
	if o.Replay != "" {
		for _, in := range readInputs[c13Input](o.Replay) {
			emit(in, nil, "")
		}
		return
	}
	for _, in := range readCorpus[c13Input](o.Corpus) {
		emit(in, []string{"corpus"}, "corpus")
	}
	nh, nd, nb, nc, ns, nf, nl, nr := 400, 900, 150, 64, 60, 150, 48, 80
	if o.Tier == "thorough" {
		nh, nd, nb, nc, ns, nf, nl, nr = 3000, 8000, 1500, 400, 600, 2000, 400, 800
	}
	if o.N > 0 {
		nh, nd, nb, nc, ns, nf, nl, nr = o.N, o.N, o.N, o.N, o.N, o.N, o.N, o.N
	}
	r := NewRand(o.Seed, 13)
	for i := 0; i < nh; i++ {
		emit(c13GenHist(r), nil, "")
	}
	// (c) systematically: for a few histories, the k-th cache write fails, for every k
	rk := NewRand(o.Seed, 131)
	for i, made := 0, 0; i < 400 && made < 10; i++ {
		base := c13GenHist(rk)
		base.InitWFail = false
		var writers []int
		for k := range base.Ops {
			base.Ops[k].WriteFail = false
			if op := base.Ops[k].Op; op == "lookup" || op == "poll" || op == "close" {
				writers = append(writers, k)
			}
		}
		if len(writers) < 3 {
			continue
		}
		made++
		v := base
		v.InitWFail = true
		emit(v, []string{"hist-kth-write-fails"}, "")
		for _, k := range writers {
			v := base
			v.Ops = append([]c13Op{}, base.Ops...)
			v.Ops[k].WriteFail = true
			emit(v, []string{"hist-kth-write-fails"}, "")
		}
	}
	// three lifetimes on one cache, the middle one a start that fails
	rl := NewRand(o.Seed, 1335)
	for i := 0; i < nl; i++ {
		emit(c13GenLife(rl, i), nil, "")
	}
	// caches that retain the slice they are given
	rr := NewRand(o.Seed, 1336)
	for i := 0; i < nr; i++ {
		emit(c13GenRetain(rr, i), nil, "")
	}
	// cache writes that take virtual seconds to minutes (synctest), then succeed
	rs := NewRand(o.Seed, 1333)
	for i := 0; i < ns; i++ {
		emit(c13GenSlow(rs, i), nil, "")
	}
	// caches around and above 1 MiB over a real FileCache (direct verdicts)
	c13GenBig(o.Seed, func(in c13Input, tags []string) { emit(in, tags, "") })
	// hand-written secrets files for the file client
	rf := NewRand(o.Seed, 1334)
	c13GenFcFiles(rf, nf, func(in c13Input, tags []string) { emit(in, tags, "") })
	// concurrent calls with a held (slow) cache write
	rc := NewRand(o.Seed, 1331)
	for i := 0; i < nc; i++ {
		emit(c13GenConc(rc, i), nil, "")
	}
	r2 := NewRand(o.Seed, 1313)
	c13GenDocs(r2, nd, func(in c13Input, tags []string) { emit(in, tags, "") })
	c13GenPartial(r2, func(in c13Input, tags []string) { emit(in, tags, "") })
	r3 := NewRand(o.Seed, 131313)
	c13GenBytes(r3, nb, func(in c13Input, tags []string) { emit(in, tags, "") })

	// (d) the file cache from outside
	emit(c13Input{Kind: "trace"}, nil, "")
	// the same write judged by the file-system MODEL of C04 (real bytes): replacing an old document, and creating
	emit(c13Input{Kind: "fstrace", Fault: "old"}, nil, "")
	emit(c13Input{Kind: "fstrace", Fault: "absent"}, nil, "")
	for _, sc := range []string{"newfstatat", "openat", "write", "fchmod", "fsync", "close", "renameat"} {
		for _, f := range []string{"kill", "eio"} {
			emit(c13Input{Kind: "inject", Syscall: sc, Fault: f}, nil, "")
		}
	}

	for _, rec := range selfRecs {
		out.Emit(rec)
	}
	// one summary record per scenario kind that was cut short because it kept hanging
	for kind, n := range pool.skipped {
		out.Emit(Record{Kind: kind, Key: "skipped:" + kind, Tags: []string{"skipped-after-hangs"},
			Obs:    map[string]any{"skipped": n, "hangs_of_this_kind": pool.hangs[kind], "hangs_in_run": pool.allHangs},
			Direct: &DirectVerdict{OK: true, What: fmt.Sprintf("%d further %q scenarios were not run: %d scenarios of this kind had already hung (time-out %v each, reported as violations with their inputs)", n, kind, pool.hangs[kind], c13ScenarioTimeout)}})
	}
	// self-tests of the trace monitor: a non-atomic write and a 0644 temporary must be rejected
	for _, bad := range []string{
		"CTrace true [FOpen 0 true true false true 384; FWrite 0; FClose 0]",
		"CTrace true [FOpen 1 true true true false 420; FWrite 1; FSync 1; FClose 1; FRename 1 0]",
		"CTrace true [FOpen 1 true true true false 384; FWrite 1; FClose 1; FRename 1 0]",
		"CInject false 2 []",
	} {
		out.Emit(Record{Kind: "trace", Coq: bad, SelfTest: true, SelfOf: -1, Key: "self:" + bad, Obs: map[string]any{"altered": "synthetic bad trace"}})
	}
}
